"""Generic driver for the Rocq-proof + correspondence checks (see DESIGN.md section 1.4).

A property plugs in through a config dict (checks/Cxx.py : CFG).  The driver
  1. (re)builds the proof obligations of coq/Properties/Cxx.v and records Print Assumptions,
  2. scans the development for forbidden escape hatches,
  3. rebuilds the Go harness against /repo's working tree with -tags verif,
  4. replays the corpus and the stored replays of the known findings, then generates fresh cases,
  5. evaluates the model on the same cases inside Coq (vm_compute) and compares,
  6. shrinks / classifies disagreements, prints KNOWN-FINDING / VIOLATION lines,
  7. writes evidence/Cxx.json.
"""
import concurrent.futures as cf
import hashlib
import json
import os
import re
import shutil
import subprocess
import sys
import time

ROOT = os.path.dirname(os.path.dirname(os.path.abspath(__file__)))
COQ = os.path.join(ROOT, "coq")
HARNESS = os.path.join(ROOT, "harness")
BUILD = os.path.join(ROOT, "build")
REPO = os.environ.get("VERIF_REPO", "/repo")   # /repo unless a scratch worktree is being tested
NCPU = min(16, os.cpu_count() or 4)
if os.environ.get("VERIF_NCPU"):
    NCPU = max(1, int(os.environ["VERIF_NCPU"]))
else:
    try:   # be a good neighbour when many checks run at once on this machine
        if os.getloadavg()[0] > 2 * NCPU:
            NCPU = max(4, NCPU // 4)
    except OSError:
        pass

GOENV = dict(os.environ)
GOENV.update({"GOFLAGS": "-mod=mod", "GOPROXY": "off", "CGO_ENABLED": GOENV.get("CGO_ENABLED", "0")})
for k in ("GOTOOLCHAIN", "GOSUMDB"):
    GOENV.pop(k, None)

FORBIDDEN = re.compile(
    r"\b(Admitted|admit|Axiom|Axioms|Parameter|Parameters|Conjecture|Conjectures|Abort All)\b"
    r"|Unset\s+Guard|Unset\s+Positivity|Unset\s+Universe|bypass_check|type-in-type|impredicative-set|Admit\s+Obligations"
)


def sh(cmd, cwd=None, env=None, timeout=600, inp=None):
    """run a command, return (rc, stdout+stderr)"""
    try:
        p = subprocess.run(cmd, cwd=cwd, env=env, timeout=timeout, input=inp,
                           stdout=subprocess.PIPE, stderr=subprocess.STDOUT, text=True,
                           shell=isinstance(cmd, str))
        return p.returncode, p.stdout
    except subprocess.TimeoutExpired as e:
        out = e.stdout.decode() if isinstance(e.stdout, bytes) else (e.stdout or "")
        return 124, out + "\n[timeout after %ss]" % timeout


class Ctx:
    def __init__(self, cfg, tier, seed):
        self.cfg = cfg
        self.pid = cfg["id"]
        self.tier = tier
        self.seed = seed
        self.t0 = time.time()
        self.work = os.path.join(BUILD, self.pid + ("" if REPO == "/repo" else "-" + hashlib.sha1(REPO.encode()).hexdigest()[:8]))
        shutil.rmtree(self.work, ignore_errors=True)
        os.makedirs(self.work, exist_ok=True)
        os.makedirs(os.path.join(ROOT, "replays", self.pid), exist_ok=True)
        os.makedirs(os.path.join(ROOT, "evidence"), exist_ok=True)
        self.violations = []       # list of (replay_path, suffix)
        self.known_lines = []
        self.notes = []
        self.cov = {}
        self.proof_ok = True
        self.proof_err = ""
        self.harness_ok = True

    def log(self, *a):
        print("[%s %6.1fs]" % (self.pid, time.time() - self.t0), *a, flush=True)

    def violation(self, replay_obj, suffix=""):
        body = json.dumps(replay_obj, indent=1, sort_keys=True)
        h = hashlib.sha1(body.encode()).hexdigest()[:12]
        path = os.path.join(ROOT, "replays", self.pid + ("" if REPO == "/repo" else "-scratch"), h + ".json")
        os.makedirs(os.path.dirname(path), exist_ok=True)
        with open(path, "w") as f:
            f.write(body + "\n")
        self.violations.append((path, suffix))
        line = "VIOLATION property=%s replay=%s" % (self.pid, path)
        if suffix:
            line += " " + suffix
        print(line, flush=True)


# ------------------------------------------------------------------------------------------------
# proofs

def coq_targets(cfg):
    t = [cfg["prop_file"].replace(".v", ".vo")]
    for m in cfg.get("run_modules", []):
        t.append(m.replace("Verif.", "").replace(".", "/") + ".vo")
    return t


def build_proofs(ctx):
    cfg = ctx.cfg
    rc, out = sh([os.path.join(ROOT, "bin", "coqfiles")], timeout=120)
    targets = coq_targets(cfg)
    # run modules first: the correspondence must stay runnable even when a proof breaks
    run_t = targets[1:]
    if run_t:
        rc, out = sh(["make", "-C", COQ, "-j%d" % NCPU] + run_t, timeout=cfg.get("coq_timeout", 1500))
        if rc != 0:
            ctx.model_ok = False
            ctx.proof_ok = False
            ctx.proof_err = out[-3000:]
            ctx.log("model (Run) build FAILED")
            return
    ctx.model_ok = True
    rc, out = sh(["make", "-C", COQ, "-j%d" % NCPU, targets[0]], timeout=cfg.get("coq_timeout", 1500))
    prop_src = open(os.path.join(COQ, cfg["prop_file"])).read()
    theorems = re.findall(r"^\s*(?:Theorem|Corollary)\s+([A-Za-z0-9_']+)", prop_src, re.M)
    ctx.cov["obligations"] = len(theorems)
    ctx.cov["theorems"] = theorems
    if rc != 0:
        ctx.proof_ok = False
        ctx.proof_err = out[-3000:]
        ctx.cov["discharged"] = 0
        ctx.log("proof build FAILED")
        return
    # fresh compile of the Properties file to capture Print Assumptions
    tmpd = os.path.join(ctx.work, "pa")
    os.makedirs(tmpd, exist_ok=True)
    rc, out = sh(["coqc", "-Q", COQ, "Verif", "-o", os.path.join(tmpd, os.path.basename(cfg["prop_file"]) + "o"),
                  os.path.join(COQ, cfg["prop_file"])], timeout=cfg.get("coq_timeout", 1500))
    if rc != 0:
        ctx.proof_ok = False
        ctx.proof_err = out[-3000:]
        ctx.cov["discharged"] = 0
        return
    ctx.cov["discharged"] = len(theorems)
    axioms = sorted(set(re.findall(r"^([A-Za-z_][A-Za-z0-9_.']*)\s*:", out, re.M)))
    closed = len(re.findall(r"Closed under the global context", out))
    ctx.cov["print_assumptions"] = {"closed": closed, "axioms": axioms}
    allowed = cfg.get("allowed_axioms", [])
    bad = [a for a in axioms if not any(a.endswith(x) for x in allowed)]
    if bad:
        ctx.proof_ok = False
        ctx.proof_err = "theorems depend on axioms outside the declared trusted base: %s" % bad
    # static scan
    hits = []
    for d in cfg.get("coq_dirs", []) + [cfg["prop_file"]]:
        p = os.path.join(COQ, d)
        files = []
        if os.path.isdir(p):
            for r, _, fs in os.walk(p):
                files += [os.path.join(r, f) for f in fs if f.endswith(".v")]
        else:
            files = [p]
        for f in files:
            for i, line in enumerate(open(f), 1):
                if FORBIDDEN.search(line):
                    hits.append("%s:%d: %s" % (os.path.relpath(f, COQ), i, line.strip()))
    ctx.cov["static_scan_hits"] = hits
    if hits:
        ctx.proof_ok = False
        ctx.proof_err = "forbidden constructs: " + "; ".join(hits[:5])
    ctx.cov["checker_cmd"] = "make -C coq %s && coqc -Q coq Verif coq/%s (Coq 8.16.1, full .vo build)" % (
        targets[0], cfg["prop_file"])
    if ctx.tier == "thorough" and cfg.get("coqchk", True) and ctx.proof_ok:
        mod = "Verif." + cfg["prop_file"].replace(".v", "").replace("/", ".")
        rc, out = sh(["coqchk", "-silent", "-o", "-Q", COQ, "Verif", mod], timeout=3000)
        ctx.cov["coqchk"] = {"rc": rc, "tail": out[-1500:]}
        if rc != 0:
            ctx.proof_ok = False
            ctx.proof_err = "coqchk failed: " + out[-1500:]


# ------------------------------------------------------------------------------------------------
# harness

def build_harness(ctx, name=None, race=False):
    name = name or ctx.cfg["harness"]
    suffix = ""
    modflag = []
    if REPO != "/repo":
        # scratch worktree under test: same harness sources, alternative go.mod whose replace points there
        suffix = "-" + hashlib.sha1(REPO.encode()).hexdigest()[:8]
        alt = os.path.join(HARNESS, "alt%s.mod" % suffix)   # must live in the module root for -modfile
        with open(alt, "w") as f:
            f.write(open(os.path.join(HARNESS, "go.mod")).read().replace("=> /repo", "=> " + REPO))
        shutil.copy(os.path.join(REPO, "go.sum"), os.path.join(HARNESS, "alt%s.sum" % suffix))
        modflag = ["-modfile=" + alt]
    else:
        shutil.copy(os.path.join(REPO, "go.sum"), os.path.join(HARNESS, "go.sum"))
    out_bin = os.path.join(BUILD, name + suffix + ("-race" if race else ""))
    cmd = ["go", "build", "-tags", "verif"] + modflag
    env = dict(GOENV)
    if race:
        cmd.append("-race")
        env["CGO_ENABLED"] = "1"
    cmd += ["-o", out_bin, "./cmd/" + name]
    rc, out = sh(cmd, cwd=HARNESS, env=env, timeout=900)
    if rc != 0:
        ctx.harness_ok = False
        ctx.harness_err = out[-3000:]
        ctx.log("harness build FAILED:\n" + out[-1500:])
        return None
    return out_bin


def read_jsonl(path):
    out = []
    if not os.path.exists(path):
        return out
    with open(path) as f:
        lines = [l.strip() for l in f]
    lines = [l for l in lines if l]
    for i, line in enumerate(lines):
        try:
            out.append(json.loads(line))
        except ValueError:
            if i == len(lines) - 1:
                break       # a writer stopped at its time limit mid-record: the truncated last line is dropped
            raise
    return out


def harness_gen(ctx, binp, n, seed, extra=None, procs=None):
    """run the generator in parallel processes; returns list of records"""
    procs = procs or min(NCPU, max(1, n // 50))
    per = (n + procs - 1) // procs
    jobs = []
    for j in range(procs):
        outp = os.path.join(ctx.work, "gen_%d.jsonl" % j)
        cmd = [binp, "gen", "-seed", str(seed * 1000 + j), "-n", str(per), "-o", outp, "-tier", ctx.tier]
        if extra:
            cmd += ["-x", extra]
        jobs.append((cmd, outp))
    recs = []
    with cf.ThreadPoolExecutor(max_workers=NCPU) as ex:
        tmo = ctx.cfg.get("gen_timeout", 1200) * (4 if ctx.tier == "thorough" else 1)
        futs = [ex.submit(sh, c, None, GOENV, tmo) for c, _ in jobs]
        for (c, outp), fu in zip(jobs, futs):
            rc, out = fu.result()
            if rc == 124:
                # the whole generator process ran into the wall-clock limit (a slow or loaded machine; a hang inside
                # goja is caught per case by vh.Guard and recorded as an observation): use what it produced
                ctx.log("harness gen stopped at the %ss limit; its complete records are used" % tmo)
                ctx.notes.append({"generator_time_limit": c[-6:]})
            elif rc != 0:
                ctx.log("harness gen rc=%d: %s" % (rc, out[-2000:]))
                ctx.harness_crash = (c, rc, out[-4000:])
            recs += read_jsonl(outp)
    return recs


def harness_replay(ctx, binp, cases, tag="replay"):
    inp = os.path.join(ctx.work, tag + "_in.jsonl")
    outp = os.path.join(ctx.work, tag + "_out.jsonl")
    with open(inp, "w") as f:
        for c in cases:
            f.write(json.dumps({"case": c}) + "\n")
    rc, out = sh([binp, "replay", "-seed", str(ctx.seed), "-i", inp, "-o", outp, "-tier", ctx.tier],
                 env=GOENV, timeout=ctx.cfg.get("gen_timeout", 1200))
    if rc != 0:
        ctx.log("harness replay rc=%d: %s" % (rc, out[-2000:]))
    return read_jsonl(outp)


# ------------------------------------------------------------------------------------------------
# model evaluation inside Coq

def coq_eval_shard(args):
    work, idx, run_module, terms, want_expected, timeout = args
    path = os.path.join(work, "shard_%s.v" % idx)
    with open(path, "w") as f:
        f.write("From Coq Require Import List ZArith NArith String Ascii.\nImport ListNotations.\n")
        f.write("Require Import %s.\n" % run_module)
        f.write("Set Printing Width 1000000. Set Printing Depth 1000000.\n")
        f.write("Definition cases : list tcase := [\n")
        f.write(";\n".join("(" + t + ")" for t in terms))
        f.write("\n].\n")
        f.write("Definition M := Eval vm_compute in mismatch_ids cases.\nPrint M.\n")
        if want_expected:
            f.write("Definition E := Eval vm_compute in map expected cases.\nPrint E.\n")
    rc, out = sh(["coqc", "-Q", COQ, "Verif", "-o", os.path.join(work, "shard_%s.vo" % idx), path], timeout=timeout)
    return idx, rc, out


def coq_eval(ctx, recs, run_module=None, want_expected=False, tag="s"):
    """returns (list of mismatching indices into recs, errors, expected_text)"""
    run_module = run_module or ctx.cfg["run_modules"][0]
    shard = ctx.cfg.get("shard", 400)
    jobs = []
    for i in range(0, len(recs), shard):
        terms = [r["coq"] for r in recs[i:i + shard]]
        jobs.append((ctx.work, "%s%d" % (tag, i // shard), run_module, terms, want_expected,
                     ctx.cfg.get("eval_timeout", 900)))
    bad, errs, exp = [], [], ""
    with cf.ThreadPoolExecutor(max_workers=NCPU) as ex:
        for k, (idx, rc, out) in enumerate(ex.map(coq_eval_shard, jobs)):
            if rc != 0:
                errs.append(out[-3000:])
                continue
            m = re.search(r"M\s*=\s*(\[.*?\])\s*:\s*list N", out, re.S)
            if not m:
                errs.append("unparseable coqc output: " + out[-1000:])
                continue
            ids = [int(x) for x in re.findall(r"(\d+)%N", m.group(1))]
            bad += [k * shard + j for j in ids]
            if want_expected:
                e = re.search(r"E\s*=\s*(.*?)\n\s*:\s", out, re.S)
                exp += (e.group(1) if e else out[-2000:])
    return bad, errs, exp


# ------------------------------------------------------------------------------------------------
# shrinking and classification

def default_candidates(case):
    """smaller variants of a case: drop one op (for cases with an 'ops' list)"""
    out = []
    ops = case.get("ops") if isinstance(case, dict) else None
    if not isinstance(ops, list) or len(ops) <= 1:
        return out
    n = len(ops)
    # halves first, then single removals
    if n >= 4:
        out.append(dict(case, ops=ops[: n // 2]))
        out.append(dict(case, ops=ops[n // 2:]))
    for i in range(n):
        out.append(dict(case, ops=ops[:i] + ops[i + 1:]))
    return out


def shrink(ctx, binp, case, budget_s=60):
    cand_fn = ctx.cfg.get("candidates", default_candidates)
    t0 = time.time()
    cur = case
    rounds = 0
    while time.time() - t0 < budget_s and rounds < 40:
        cands = cand_fn(cur)
        if not cands:
            break
        recs = harness_replay(ctx, binp, cands, tag="shrink")
        if len(recs) != len(cands):
            break
        bad, errs, _ = coq_eval(ctx, recs, tag="k")
        if errs or not bad:
            break
        cur = cands[bad[0]]
        rounds += 1
    return cur


def load_known():
    """KNOWN_FINDINGS.json is the committed list; known/Cxx.json fragments (merged into it by bin/genknown)
    are read too so that a fragment edited a moment ago is honoured."""
    res = {"open": [], "fixed": []}
    p = os.path.join(ROOT, "KNOWN_FINDINGS.json")
    if os.path.exists(p):
        res = json.load(open(p))
    kd = os.path.join(ROOT, "known")
    if os.path.isdir(kd):
        for fn in sorted(os.listdir(kd)):
            if fn.endswith(".json"):
                frag = json.load(open(os.path.join(kd, fn)))
                for key in ("open", "fixed"):
                    for e in frag.get(key, []):
                        if e not in res[key]:
                            res[key].append(e)
    return res


def handle_mismatches(ctx, binp, recs, bad, source):
    """classify every mismatch against the known findings (cheaply, on the unshrunk case), then shrink and
    report the unexplained ones (at most max_report): frequent known findings can never hide a new one"""
    cfg = ctx.cfg
    known = [k for k in load_known()["open"] if k["property"] == ctx.pid]
    preds = cfg.get("predicates", {})
    reported = 0
    seen_known = ctx.__dict__.setdefault('_seen_known', set())

    def match_known(case, rec, exp):
        for k in known:
            fn = preds.get(k["predicate"])
            try:
                if fn and fn(case, rec, exp):
                    return k
            except Exception:
                pass
        return None

    def note_known(k):
        if k["id"] not in seen_known:
            seen_known.add(k["id"])
            line = "KNOWN-FINDING: property=%s %s [%s]" % (ctx.pid, k["what"], k["id"])
            print(line, flush=True)
            ctx.known_lines.append(line)

    unexplained = []
    for i in bad:
        k = match_known(recs[i]["case"], recs[i], "") if cfg.get("preclassify", True) else None
        if k:
            note_known(k)
        else:
            unexplained.append(i)
    ctx.cov["mismatches_known"] = ctx.cov.get("mismatches_known", 0) + len(bad) - len(unexplained)
    ctx.cov["mismatches_unexplained"] = ctx.cov.get("mismatches_unexplained", 0) + len(unexplained)
    for i in unexplained[: cfg.get("max_report", 6)]:
        case = recs[i]["case"]
        small = shrink(ctx, binp, case) if cfg.get("shrink", True) else case
        rr = harness_replay(ctx, binp, [small], tag="final")
        if not rr:
            continue
        b2, errs, exp = coq_eval(ctx, rr, want_expected=True, tag="f")
        if not b2 and not errs:
            # does not reproduce on a fresh run: harness nondeterminism, not a verdict
            ctx.notes.append({"nonreproducible": small})
            continue
        matched = match_known(small, rr[0], exp)
        if matched:
            note_known(matched)
            continue
        ctx.violation({
            "property": ctx.pid, "seed": ctx.seed, "source": source, "case": small,
            "original_case": case if small != case else None,
            "implementation_observation": (rr[0].get("obs") or "")[:4000],
            "model_expected": exp[:6000],
            "coq_term": (rr[0].get("coq") or "")[:6000],
            "contradicts": cfg.get("theorem_names", []),
            "how_to_replay": "bin/check %s --replay <this file>" % ctx.pid,
        })
        reported += 1
    return reported


# ------------------------------------------------------------------------------------------------

def correspondence(ctx):
    cfg = ctx.cfg
    binp = build_harness(ctx)
    if not binp:
        return
    if not getattr(ctx, "model_ok", True):
        return
    ctx.binp = binp
    all_recs = []
    # 1. known findings' stored replays and the corpus
    corpus_dir = os.path.join(ROOT, "corpus", ctx.pid)
    corpus_cases = []
    if os.path.isdir(corpus_dir):
        for fn in sorted(os.listdir(corpus_dir)):
            if fn.endswith(".jsonl"):
                corpus_cases += [r["case"] for r in read_jsonl(os.path.join(corpus_dir, fn))]
    if corpus_cases:
        recs = harness_replay(ctx, binp, corpus_cases, tag="corpus")
        bad, errs, _ = coq_eval(ctx, recs, tag="c")
        for e in errs:
            ctx.log("coq eval error on corpus: " + e[-500:])
            ctx.eval_errors = True
        ctx.cov["corpus_cases"] = len(recs)
        if bad:
            handle_mismatches(ctx, binp, recs, bad, "corpus")
        all_recs += recs
    # 2. fresh cases
    n = cfg["n"][ctx.tier]
    recs = harness_gen(ctx, binp, n, ctx.seed, extra=cfg.get("gen_extra"))
    ctx.log("generated %d cases" % len(recs))
    bad, errs, _ = coq_eval(ctx, recs, tag="g")
    for e in errs:
        ctx.log("coq eval error: " + e[-800:])
        ctx.eval_errors = True
    ctx.log("evaluated in Coq: %d mismatches" % len(bad))
    if bad:
        handle_mismatches(ctx, binp, recs, bad, "generated")
    all_recs += recs
    summarize(ctx, all_recs, len(bad))


def summarize(ctx, recs, nbad):
    cfg = ctx.cfg
    dist = {}
    distinct = set()
    for r in recs:
        for t in r.get("tags", []):
            dist[t] = dist.get(t, 0) + 1
        if r.get("nontrivial"):
            distinct.add(hashlib.sha1(json.dumps(r["case"], sort_keys=True).encode()).hexdigest())
    ctx.cov["evaluations"] = ctx.cov.get("evaluations", 0) + len(recs)
    ctx.cov["distinct_nontrivial"] = ctx.cov.get("distinct_nontrivial", 0) + len(distinct)
    ctx.cov["rule"] = cfg.get("rule", "")
    ctx.cov["input_distribution"] = dist
    ctx.cov["mismatching_cases"] = nbad
    step = max(1, len(recs) // 3)
    ctx.cov["samples"] = [{"case": r["case"], "implementation_observation": r.get("obs", "")[:600]}
                          for r in recs[::step][:3]]


def finish(ctx):
    cfg = ctx.cfg
    # machinery no longer checks, but no failing input was found
    if not ctx.violations:
        if not ctx.proof_ok:
            ctx.violation({"property": ctx.pid, "stage": "proof obligations of coq/%s" % cfg["prop_file"],
                           "no_longer_checks": ctx.cov.get("theorems", []), "error": ctx.proof_err,
                           "note": "the correspondence search found no input on which the implementation contradicts the model"},
                          "no-failing-input-found")
        elif not ctx.harness_ok:
            ctx.violation({"property": ctx.pid, "stage": "correspondence harness build against /repo (-tags verif)",
                           "error": getattr(ctx, "harness_err", ""),
                           "note": "the harness (or the hook file it relies on) no longer compiles against the working tree"},
                          "no-failing-input-found")
        elif getattr(ctx, "harness_crash", None):
            c, rc, out = ctx.harness_crash
            ctx.violation({"property": ctx.pid, "stage": "harness run", "cmd": c, "rc": rc, "output": out},
                          "")
        elif getattr(ctx, "eval_errors", False):
            ctx.violation({"property": ctx.pid, "stage": "model evaluation (coqc on generated cases)",
                           "note": "the correspondence could not be evaluated"}, "no-failing-input-found")
    cov = ctx.cov
    cov.setdefault("obligations", 0)
    cov.setdefault("discharged", 0)
    cov.setdefault("checker_cmd", "make -C coq && coqc")
    cov["trusted_base"] = cfg.get("trusted_base", [])
    cov.setdefault("evaluations", 0)
    cov.setdefault("distinct_nontrivial", 0)
    cov.setdefault("rule", cfg.get("rule", ""))
    cov.setdefault("samples", [])
    cov["known_findings_reported"] = ctx.known_lines
    cov["notes"] = ctx.notes
    ev = {
        "property_id": ctx.pid, "tier": ctx.tier, "seed": ctx.seed, "level": cfg.get("level", "proof"),
        "coverage": cov, "assumptions": cfg.get("assumptions", []),
        "wall_s": round(time.time() - ctx.t0, 2), "violations": len(ctx.violations),
    }
    evdir = os.path.join(ROOT, "evidence") if REPO == "/repo" else ctx.work   # scratch runs never touch the real evidence
    with open(os.path.join(evdir, ctx.pid + ".json"), "w") as f:
        json.dump(ev, f, indent=1, sort_keys=True)
        f.write("\n")
    ctx.log("done: %d violation(s), %d known finding(s), %s evaluations, proofs %s/%s" % (
        len(ctx.violations), len(ctx.known_lines), cov["evaluations"], cov["discharged"], cov["obligations"]))
    return 1 if ctx.violations else 0


def replay_file(cfg, path):
    ctx = Ctx(cfg, "quick", 1)
    obj = json.load(open(path))
    case = obj.get("case")
    if case is None:
        print(json.dumps(obj, indent=1))
        return 0
    binp = build_harness(ctx)
    build_proofs(ctx)
    rr = harness_replay(ctx, binp, [case], tag="replay")
    bad, errs, exp = coq_eval(ctx, rr, want_expected=True, tag="r")
    print("case:", json.dumps(case))
    print("implementation:", rr[0].get("obs") if rr else None)
    print("model expects:", exp)
    print("MISMATCH" if bad or errs else "agree")
    return 1 if bad or errs else 0


def main(cfg, argv):
    import argparse
    ap = argparse.ArgumentParser()
    ap.add_argument("--tier", default=os.environ.get("VERIF_TIER", "quick"))
    ap.add_argument("--seed", type=int, default=int(os.environ.get("VERIF_SEED", "1") or 1))
    ap.add_argument("--replay")
    a = ap.parse_args(argv)
    if a.replay:
        return replay_file(cfg, a.replay)
    tier = a.tier if a.tier in ("quick", "thorough") else "quick"
    ctx = Ctx(cfg, tier, a.seed)
    build_proofs(ctx)
    if "stages" in cfg:
        for st in cfg["stages"]:
            st(ctx)
    else:
        correspondence(ctx)
    return finish(ctx)
