(* C19 — executable instantiation used by the correspondence check (no proofs; depends on Model.v only). *)
From Coq Require Import List NArith ZArith Bool.
Import ListNotations.
From Verif.C19 Require Export Model.

(* unit lists are written (U [1;2;3]) by the harness *)
Definition U (l : list N) : list N := l.
Arguments U l%N.
Arguments NQ z%Z.
Arguments NBits b%N.
Arguments VCyc up%nat.
Arguments VToJSON k%N inner.
Arguments RFun k%N.

(* structural dump of a JS value made by the harness (Reflect.ownKeys order, numbers as binary64 bit
   patterns, strings as unit lists; [std] = prototype is the intrinsic one, every own property is a
   writable/enumerable/configurable data property, no unexpected own keys) *)
Inductive dump :=
| DNull | DBool (b : bool) | DNum (bits : N) | DStr (s : list N)
| DArr (std : bool) (l : list dump) | DObj (std : bool) (l : list (list N * dump)) | DOther.
Arguments DNum bits%N.

(* error classes: 1 TypeError 2 RangeError 3 SyntaxError 4 ReferenceError 5 Thrown 6 GoError
   7 Interrupted 8 StackOverflow 9 HostPanic *)
Inductive sobs := TText (t : list N) | TUndef | TErr (e : N).
Arguments TErr e%N.
Inductive pobs := PErr (e : N) | PVal (d : dump) (s2 : sobs).   (* s2 = JSON.stringify(JSON.parse(t)) *)
Arguments PErr e%N.
Inductive robs := XNone | XErr (e : N) | XVal (d : dump).       (* JSON.parse(JSON.stringify(v,...)) *)
Arguments XErr e%N.

Inductive tcase :=
| CParse (t : list N) (o : pobs)
| CStr (v : jv) (r : repl) (space : jv) (o : sobs) (rt : robs) (m : option sobs)
(* a history of serialisations on ONE runtime; per step: the result as seen right after the call (a copy) and the
   same retained result (for MarshalJSON: the very slice that was returned, not copied) read after the whole history *)
| CHist (h : list hstep) (o : list (sobs * sobs))
| CFail.

(* ------------------------------------------------------------------ *)
(* is [bits] the correctly rounded (nearest, ties to even) binary64 of ± m * 10^e ?  exact integer arithmetic *)

Local Open Scope Z_scope.

(* compare m * 10^e with c * 2^p  (m, c >= 0) *)
Definition cmp_dec_dy (m e c p : Z) : comparison :=
  Z.compare (m * 10 ^ (Z.max e 0) * 2 ^ (Z.max (- p) 0)) (c * 2 ^ (Z.max p 0) * 10 ^ (Z.max (- e) 0)).

Definition is_gt (c : comparison) := match c with Gt => true | _ => false end.
Definition is_lt (c : comparison) := match c with Lt => true | _ => false end.
Definition is_eq (c : comparison) := match c with Eq => true | _ => false end.

Definition bits_sign (bits : N) : bool := N.testbit bits 63.
Definition bits_E (bits : N) : Z := Z.of_N (N.land (N.shiftr bits 52) 2047).
Definition bits_F (bits : N) : Z := Z.of_N (N.land bits 4503599627370495).

Definition round_ok (lenient neg : bool) (m : N) (e : Z) (bits : N) : bool :=
  let E := bits_E bits in
  let F := bits_F bits in
  let mz := Z.of_N m in
  if N.eqb m 0 then (E =? 0) && (F =? 0) && (lenient || Bool.eqb (bits_sign bits) neg)
  else
    Bool.eqb (bits_sign bits) neg &&
    let d := Z.of_nat (length (dec_digits m)) in
    if 310 <=? e + d then (E =? 2047) && (F =? 0)                 (* >= 10^309: beyond double range *)
    else if e + d <=? -324 then (E =? 0) && (F =? 0)                (* < 10^-324: rounds to zero *)
    else if E =? 2047 then (F =? 0) && negb (is_lt (cmp_dec_dy mz e (2 ^ 54 - 1) 970))
    else
      let M := if E =? 0 then F else 2 ^ 52 + F in
      let q := if E =? 0 then -1074 else E - 1075 in
      let hi := cmp_dec_dy mz e (2 * M + 1) (q - 1) in
      let lo := if (F =? 0) && (1 <? E) then cmp_dec_dy mz e (4 * M - 1) (q - 2)
                else if M =? 0 then Gt
                else cmp_dec_dy mz e (2 * M - 1) (q - 1) in
      let ev := Z.even M in
      (is_gt lo || (ev && is_eq lo)) && (is_lt hi || (ev && is_eq hi)).

Local Close Scope Z_scope.
Local Open Scope N_scope.

(* ------------------------------------------------------------------ *)
(* comparing the model's result with a dump.  [lenient]: used for the stringify(parse t) round trip,
   where -0 is written "0" and an infinite number is written null *)

Definition is_inf_bits (bits : N) : bool := (Z.eqb (bits_E bits) 2047) && (Z.eqb (bits_F bits) 0).

Fixpoint match_dump (lenient : bool) (p : pval) (d : dump) {struct p} : bool :=
  match p, d with
  | PNull, DNull => true
  | PNull, DNum bits => lenient && is_inf_bits bits
  | PBool a, DBool b => Bool.eqb a b
  | PNum neg m e, DNum bits => round_ok lenient neg m e bits
  | PStr s, DStr s' => list_eqb s s'
  | PArr l, DArr std l' =>
    std && (fix go (l : list pval) (l' : list dump) : bool :=
              match l, l' with
              | [], [] => true
              | x :: r, y :: r' => match_dump lenient x y && go r r'
              | _, _ => false
              end) l l'
  | PObj l, DObj std l' =>
    std && (fix go (l : list (list N * pval)) (l' : list (list N * dump)) : bool :=
              match l, l' with
              | [], [] => true
              | (k, x) :: r, (k', y) :: r' => list_eqb k k' && match_dump lenient x y && go r r'
              | _, _ => false
              end) l l'
  | _, _ => false
  end.

(* ------------------------------------------------------------------ *)
(* the documented exception: goja's JSON.parse works on UTF-8, so every surrogate of the input that is
   not half of a pair (raw, or written as a \u escape) comes out as U+FFFD *)

Fixpoint sanitize_units (s : list N) : list N :=
  match s with
  | [] => []
  | c :: r =>
    if is_hi c then
      match r with
      | d :: r' => if is_lo d then c :: d :: sanitize_units r' else 65533 :: sanitize_units r
      | [] => [65533]
      end
    else if is_lo c then 65533 :: sanitize_units r
    else c :: sanitize_units r
  end.

Fixpoint sanitize_json (v : json) : json :=
  match v with
  | JStr s => JStr (sanitize_units s)
  | JArr l => JArr (map sanitize_json l)
  | JObj l => JObj (map (fun kv => (sanitize_units (fst kv), sanitize_json (snd kv))) l)
  | _ => v
  end.

Fixpoint json_wf16 (v : json) : bool :=
  match v with
  | JStr s => wf_utf16 s
  | JArr l => forallb json_wf16 l
  | JObj l => forallb (fun kv => wf_utf16 (fst kv) && json_wf16 (snd kv)) l
  | _ => true
  end.

(* the explicit predicate that carves the exception out: the text has a surrogate that is not half of a
   pair, or some string of the parsed value has one *)
Definition lone_surrogate_input (t : list N) : bool :=
  negb (wf_utf16 t) || match parse t with Some j => negb (json_wf16 j) | None => false end.

(* S, with the exception region replaced by goja's documented behaviour *)
Definition parse_expected (t : list N) : option pval :=
  match parse t with
  | None => None
  | Some j =>
    if lone_surrogate_input t then
      match parse (sanitize_units t) with
      | Some j' => Some (to_js (sanitize_json j'))
      | None => None
      end
    else Some (to_js j)
  end.

Definition sobs_text (o : sobs) : option (list N) := match o with TText t => Some t | _ => None end.

Definition sout_match (e : sout) (o : sobs) : bool :=
  match e, o with
  | SText t, TText t' => list_eqb t t'
  | SUndef, TUndef => true
  | SThrow, TErr c => c =? 1
  | _, _ => false
  end.

(* the parsed value as a JS value: numbers are the doubles goja produced (checked against the text by
   [round_ok]); JSON.stringify of it must be EXACTLY the model's text, number tokens included (Number::toString
   of property C12).  Evaluating the shortest-digits specification is slow for extreme exponents, so the exact
   comparison is made when every number is zero or has a binary exponent in about [-320, 380]; the others
   keep the weaker test below (a canonical JSON number that parses back to the same double). *)
Definition cheap_bits (bits : N) : bool :=
  let E := bits_E bits in
  ((Z.eqb E 0) && (Z.eqb (bits_F bits) 0)) || ((Z.leb 700 E) && (Z.leb E 1400)).

Fixpoint dump_cheap (d : dump) : bool :=
  match d with
  | DNum b => cheap_bits b
  | DArr _ l => forallb dump_cheap l
  | DObj _ l => forallb (fun kv => dump_cheap (snd kv)) l
  | _ => true
  end.

Fixpoint jv_of_dump (d : dump) : jv :=
  match d with
  | DNull => VNull
  | DBool b => VBool b
  | DNum b => VNum (NBits b)
  | DStr s => VStr s
  | DArr _ l => VArr (map jv_of_dump l)
  | DObj _ l => VObj (map (fun kv => (fst kv, jv_of_dump (snd kv))) l)
  | DOther => VUndef
  end.

(* stringify(parse t): must be a fixed point of the canonical printer and denote the same value *)
Definition s2_ok (p : pval) (d : dump) (s2 : sobs) : bool :=
  match s2 with
  | TText t2 =>
    match parse t2 with
    | Some j2 => list_eqb (print j2) t2 && match_dump true (to_js j2) d &&
                 (if dump_cheap d then sout_match (stringify (jv_of_dump d) RNone VUndef) s2 else true)
    | None => false
    end
  | _ => false
  end.

Definition check_parse (t : list N) (o : pobs) : bool :=
  match parse_expected t, o with
  | None, PErr e => e =? 3
  | Some p, PVal d s2 => match_dump false p d && s2_ok p d s2
  | _, _ => false
  end.

Definition rt_match (e : sout) (rt : robs) : bool :=
  match e with
  | SText t =>
    match parse_expected t, rt with
    | Some p, XVal d => match_dump false p d
    | None, XErr c => c =? 3
    | _, _ => false
    end
  | _ => match rt with XNone => true | _ => false end
  end.

Definition check_str (v : jv) (r : repl) (space : jv) (o : sobs) (rt : robs) (m : option sobs) : bool :=
  let e := stringify v r space in
  sout_match e o && rt_match e rt &&
  match m with
  | None => true
  | Some mo => sout_match (marshal v) mo
  end.

Fixpoint check_hist (es : list sout) (os : list (sobs * sobs)) : bool :=
  match es, os with
  | [], [] => true
  | e :: es', (now, later) :: os' => sout_match e now && sout_match e later && check_hist es' os'
  | _, _ => false
  end.

Definition check_case (c : tcase) : bool :=
  match c with
  | CHist h o => check_hist (run_history h) o
  | CParse t o => check_parse t o
  | CStr v r space o rt m => check_str v r space o rt m
  | CFail => false
  end.

Fixpoint mismatch_from (i : N) (cs : list tcase) : list N :=
  match cs with
  | [] => []
  | c :: r => if check_case c then mismatch_from (N.succ i) r else i :: mismatch_from (N.succ i) r
  end.
Definition mismatch_ids := mismatch_from 0%N.

(* what the model says; printed in replays and read by the known-finding recognisers:
   EParse exception? result   |   EStr stringify-text marshal-text.
   All recorded serialiser/parser defects have been repaired in /repo: the implementation-shaped variant I coincides
   with the specification S, so only S is evaluated. *)
Inductive exp :=
| EParse (lone_surrogate_exception : bool) (r : option pval)
| EStr (s ms : sout)
| EHist (rs : list sout)
| ENone.

Definition expected (c : tcase) : exp :=
  match c with
  | CParse t _ => EParse (lone_surrogate_input t) (parse_expected t)
  | CStr v r space _ _ _ => EStr (stringify v r space) (marshal v)
  | CHist h _ => EHist (run_history h)
  | CFail => ENone
  end.
