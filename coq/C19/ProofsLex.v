(* C19 — lemmas: the parser accepts exactly the grammar; printing is derivable, hence round trips. *)
From Coq Require Import List NArith ZArith Bool Lia ZifyBool Arith.
Import ListNotations.
From Verif.C19 Require Import Model.
Local Open Scope N_scope.

Ltac Zify.zify_post_hook ::= Z.div_mod_to_equations.

(* ------------------------------------------------------------------ *)
(* follow sets *)

Definition is_delim (c : N) : bool := is_ws c || (c =? 44) || (c =? 93) || (c =? 125).

Definition follow (r : text) : Prop := match r with [] => True | c :: _ => is_delim c = true end.
Definition efollow (r : text) : Prop :=
  match r with [] => True | c :: _ => (c =? 44) || (c =? 93) || (c =? 125) = true end.
Definition nows_start (r : text) : Prop := match r with [] => True | c :: _ => is_ws c = false end.
Definition nodigit_start (r : text) : Prop := match r with [] => True | c :: _ => is_digit c = false end.

Ltac chars := unfold is_delim, is_ws, is_digit, is_digit19, is_hi, is_lo in *; lia.

Lemma ws_app : forall a b, ws a -> ws b -> ws (a ++ b).
Proof. unfold ws; intros; rewrite forallb_app; rewrite H, H0; reflexivity. Qed.

Lemma ws_nil : ws [].
Proof. reflexivity. Qed.

Lemma ws_cons : forall c w, is_ws c = true -> ws w -> ws (c :: w).
Proof. unfold ws; intros; simpl; rewrite H, H0; reflexivity. Qed.

Lemma ws_inv : forall c w, ws (c :: w) -> is_ws c = true /\ ws w.
Proof. unfold ws; simpl; intros c w H; apply andb_true_iff in H; exact H. Qed.

(* ------------------------------------------------------------------ *)
(* skip_ws *)

Lemma skip_ws_app : forall w r, ws w -> skip_ws (w ++ r) = skip_ws r.
Proof.
  induction w; intros r H; simpl; auto.
  apply ws_inv in H; destruct H as [H1 H2]. rewrite H1. auto.
Qed.

Lemma skip_ws_nows : forall r, nows_start r -> skip_ws r = r.
Proof. destruct r; simpl; intros; auto. rewrite H; auto. Qed.

Lemma skip_ws_all : forall w, ws w -> skip_ws w = [].
Proof. intros w H. rewrite <- (app_nil_r w). rewrite skip_ws_app; auto. Qed.

Lemma skip_ws_spec : forall t, exists w, ws w /\ t = w ++ skip_ws t /\ nows_start (skip_ws t).
Proof.
  induction t as [|c t IH]; simpl.
  - exists []; repeat split; auto.
  - destruct (is_ws c) eqn:E.
    + destruct IH as [w [H1 [H2 H3]]]. exists (c :: w). repeat split; auto.
      * apply ws_cons; auto.
      * simpl. f_equal. exact H2.
    + exists []. repeat split; simpl; auto.
Qed.

(* ------------------------------------------------------------------ *)
(* digits *)

Lemma span_digits_spec : forall t ds r, span_digits t = (ds, r) ->
  t = ds ++ r /\ forallb is_digit ds = true /\ nodigit_start r.
Proof.
  induction t as [|c t IH]; simpl; intros ds r H.
  - inversion H; subst; simpl; auto.
  - destruct (is_digit c) eqn:E.
    + destruct (span_digits t) as [ds' r'] eqn:E2. inversion H; subst.
      destruct (IH ds' r eq_refl) as [A [B C]]. subst t. simpl. rewrite E, B. auto.
    + inversion H; subst. simpl. rewrite E. auto.
Qed.

Lemma span_digits_app : forall ds r, forallb is_digit ds = true -> nodigit_start r ->
  span_digits (ds ++ r) = (ds, r).
Proof.
  induction ds as [|c ds IH]; simpl; intros r H1 H2.
  - destruct r; simpl in *; auto. rewrite H2. auto.
  - apply andb_true_iff in H1. destruct H1 as [A B]. rewrite A. rewrite IH; auto.
Qed.

Lemma follow_nodigit : forall r, follow r -> nodigit_start r.
Proof. destruct r; simpl; auto. intros. chars. Qed.

(* ------------------------------------------------------------------ *)
(* numbers *)

Lemma int_okb_inv : forall ip, int_okb ip = true ->
  ip = [48] \/ exists c ds, ip = c :: ds /\ is_digit19 c = true /\ forallb is_digit ds = true.
Proof.
  destruct ip as [|c ds]; simpl; intros H; try discriminate.
  destruct (c =? 48) eqn:E.
  - destruct ds; try discriminate. left. f_equal. lia.
  - right. apply andb_true_iff in H. exists c, ds. tauto.
Qed.

Lemma lex_int_sound : forall t ip r, lex_int t = Some (ip, r) -> t = ip ++ r /\ int_okb ip = true.
Proof.
  destruct t as [|c t]; simpl; intros ip r H; try discriminate.
  destruct (c =? 48) eqn:E.
  - inversion H; subst. split; simpl; auto. f_equal. lia.
  - destruct (is_digit19 c) eqn:E2; try discriminate.
    destruct (span_digits t) as [ds r'] eqn:E3. inversion H; subst.
    apply span_digits_spec in E3. destruct E3 as [A [B C]]. subst t. split; auto.
    simpl. rewrite E, E2, B. auto.
Qed.

Lemma lex_int_complete : forall ip r, int_okb ip = true -> nodigit_start r ->
  lex_int (ip ++ r) = Some (ip, r).
Proof.
  intros ip r H Hr. apply int_okb_inv in H. destruct H as [H | [c [ds [H1 [H2 H3]]]]]; subst; simpl; auto.
  assert (E : (c =? 48) = false) by chars. rewrite E, H2. rewrite span_digits_app; auto.
Qed.

Lemma lex_frac_sound : forall t fp r, lex_frac t = Some (fp, r) ->
  t = (match fp with [] => [] | _ => 46 :: fp end) ++ r /\ forallb is_digit fp = true.
Proof.
  destruct t as [|c t]; simpl; intros fp r H.
  - inversion H; subst; auto.
  - destruct (c =? 46) eqn:E.
    + destruct (span_digits t) as [ds r'] eqn:E3. apply span_digits_spec in E3. destruct E3 as [A [B C]].
      destruct ds; try discriminate. inversion H; subst. split; auto. simpl. f_equal. lia.
    + inversion H; subst. auto.
Qed.

Lemma lex_exp_sound : forall t ex r, lex_exp t = Some (ex, r) -> exists te, t = te ++ r /\ DExp ex te.
Proof.
  destruct t as [|c t]; simpl; intros ex r H.
  - inversion H; subst. exists []. split; auto. constructor.
  - destruct ((c =? 101) || (c =? 69)) eqn:E.
    + destruct (lex_sign t) as [sgn r1] eqn:E1.
      destruct (span_digits r1) as [ds r2] eqn:E2. apply span_digits_spec in E2. destruct E2 as [A [B C]].
      destruct ds as [|d ds]; try discriminate. inversion H; subst.
      assert (S : exists st, t = st ++ (d :: ds) ++ r /\ DSign sgn st).
      { unfold lex_sign in E1. destruct t as [|x t'].
        - inversion E1.
        - destruct (x =? 45) eqn:X1.
          + inversion E1; subst. exists [45]. split. simpl. f_equal. lia. constructor.
          + destruct (x =? 43) eqn:X2.
            * inversion E1; subst. exists [43]. split. simpl. f_equal. lia. constructor.
            * inversion E1; subst. exists []. split; auto. constructor. }
      destruct S as [st [S1 S2]]. subst t.
      exists (c :: st ++ d :: ds). split.
      * simpl. f_equal. rewrite <- app_assoc. reflexivity.
      * constructor; auto. lia. discriminate.
    + inversion H; subst. exists []. split; auto. constructor.
Qed.

Lemma parse_number_sound : forall t v r, parse_number t = Some (v, r) ->
  exists neg ip fp ex u, v = JNum neg ip fp ex /\ t = u ++ r /\ DNumber neg ip fp ex u.
Proof.
  unfold parse_number. intros t v r H.
  assert (P : t = (if fst (lex_minus t) then [45] else []) ++ snd (lex_minus t)).
  { destruct t as [|c t']; simpl; auto. destruct (c =? 45) eqn:E; simpl; auto. f_equal. lia. }
  destruct (lex_minus t) as [neg t0]. simpl in P.
  destruct (lex_int t0) as [[ip t1]|] eqn:E1; try discriminate.
  destruct (lex_frac t1) as [[fp t2]|] eqn:E2; try discriminate.
  destruct (lex_exp t2) as [[ex t3]|] eqn:E3; try discriminate.
  inversion H; subst v r.
  apply lex_int_sound in E1. destruct E1 as [A1 B1].
  apply lex_frac_sound in E2. destruct E2 as [A2 B2].
  apply lex_exp_sound in E3. destruct E3 as [te [A3 B3]].
  exists neg, ip, fp, ex.
  exists ((if neg then [45] else []) ++ ip ++ (match fp with [] => [] | _ => 46 :: fp end) ++ te).
  split; auto. split.
  - rewrite P, A1, A2, A3. repeat rewrite <- app_assoc. reflexivity.
  - constructor; auto.
Qed.

Lemma DExp_head : forall ex te r, DExp ex te -> follow r ->
  match te ++ r with [] => True | c :: _ => is_digit c = false /\ c <> 46 end.
Proof.
  intros ex te r H F. inversion H; subst; simpl.
  - destruct r; simpl in *; auto. split; chars.
  - split; chars.
Qed.

Lemma lex_exp_complete : forall ex te r, DExp ex te -> follow r -> lex_exp (te ++ r) = Some (ex, r).
Proof.
  intros ex te r H F. inversion H; subst; simpl.
  - destruct r as [|c r]; simpl in *; auto.
    assert (E : (c =? 101) || (c =? 69) = false) by chars. rewrite E. auto.
  - assert (E : (e =? 101) || (e =? 69) = true) by lia. rewrite E.
    assert (L : lex_sign ((st ++ ds) ++ r) = (sgn, ds ++ r)).
    { inversion H1; subst; simpl; auto.
      destruct ds as [|d ds']; [congruence|]. simpl in *.
      apply andb_true_iff in H3. destruct H3 as [D _].
      assert (X1 : (d =? 45) = false) by chars. assert (X2 : (d =? 43) = false) by chars.
      rewrite X1, X2. auto. }
    rewrite L. rewrite span_digits_app; auto using follow_nodigit.
    destruct ds; [congruence|]. auto.
Qed.

Lemma parse_number_complete : forall neg ip fp ex u r, DNumber neg ip fp ex u -> follow r ->
  parse_number (u ++ r) = Some (JNum neg ip fp ex, r).
Proof.
  intros neg ip fp ex u r H F. inversion H; subst. clear H.
  pose proof (DExp_head ex te r H2 F) as HD.
  pose proof (lex_exp_complete ex te r H2 F) as HE.
  assert (IP : exists c ds, ip = c :: ds /\ is_digit c = true).
  { apply int_okb_inv in H0. destruct H0 as [A | [c [ds [A [B C]]]]]; subst.
    - exists 48, []. split; auto.
    - exists c, ds. split; auto. chars. }
  destruct IP as [c0 [ds0 [IP1 IP2]]].
  unfold parse_number.
  set (rest := (match fp with [] => [] | _ => 46 :: fp end) ++ te ++ r).
  assert (T : ((if neg then [45] else []) ++ ip ++ (match fp with [] => [] | _ => 46 :: fp end) ++ te) ++ r
              = (if neg then [45] else []) ++ ip ++ rest).
  { unfold rest. repeat rewrite <- app_assoc. reflexivity. }
  rewrite T. clear T.
  assert (S : lex_minus ((if neg then [45] else []) ++ ip ++ rest) = (neg, ip ++ rest)).
  { destruct neg; simpl; auto. subst ip. simpl.
    assert (X : (c0 =? 45) = false) by chars. rewrite X. auto. }
  rewrite S. clear S.
  assert (R1 : nodigit_start rest).
  { unfold rest. destruct fp as [|f fp']; simpl.
    - destruct (te ++ r); simpl in *; auto. tauto.
    - reflexivity. }
  rewrite lex_int_complete; auto.
  assert (LF : lex_frac rest = Some (fp, te ++ r)).
  { unfold rest. destruct fp as [|f fp']; simpl.
    - destruct (te ++ r) as [|x xs] eqn:EX; simpl; auto.
      assert (X : (x =? 46) = false) by (destruct HD; lia). rewrite X. auto.
    - simpl in H1. apply andb_true_iff in H1. destruct H1 as [D1 D2]. rewrite D1.
      rewrite span_digits_app; auto.
      destruct (te ++ r); simpl in *; auto. tauto. }
  rewrite LF. rewrite HE. reflexivity.
Qed.

(* ------------------------------------------------------------------ *)
(* strings *)

Lemma esc_of_not_u : forall e u, esc_of e = Some u -> (e =? 117) = false.
Proof.
  intros e u H. destruct (e =? 117) eqn:E; auto.
  assert (e = 117) by lia. subst. vm_compute in H. discriminate.
Qed.

Lemma parse_chars_complete : forall s body, DChars s body ->
  forall r, parse_chars (body ++ 34 :: r) = Some (s, r).
Proof.
  induction 1; intros r; simpl.
  - reflexivity.
  - assert (E1 : (c =? 34) = false) by lia. assert (E2 : (c =? 92) = false) by lia.
    rewrite E1, E2, H. rewrite IHDChars. reflexivity.
  - rewrite (esc_of_not_u _ _ H). rewrite H. rewrite IHDChars. reflexivity.
  - rewrite H. rewrite IHDChars. reflexivity.
Qed.

Lemma parse_chars_sound_n : forall n t s r, (length t <= n)%nat -> parse_chars t = Some (s, r) ->
  exists body, t = body ++ 34 :: r /\ DChars s body.
Proof.
  induction n; intros t s r L H.
  - destruct t; simpl in *; [discriminate | lia].
  - destruct t as [|c t1]; simpl in H; try discriminate. simpl in L.
    destruct (c =? 34) eqn:E1.
    { inversion H; subst. exists []. split. assert (c = 34) by lia. subst. reflexivity. constructor. }
    destruct (c =? 92) eqn:E2.
    { destruct t1 as [|e t2]; try discriminate. simpl in L.
      destruct (e =? 117) eqn:E3.
      - destruct t2 as [|a [|b [|c' [|d t3]]]]; try discriminate. simpl in L.
        destruct (hex4 a b c' d) as [u|] eqn:E4; try discriminate.
        destruct (parse_chars t3) as [[s' r']|] eqn:E5; try discriminate.
        inversion H; subst. apply IHn in E5; [|lia]. destruct E5 as [body [A B]]. subst t3.
        exists (92 :: 117 :: a :: b :: c' :: d :: body). split.
        + assert (c = 92) by lia. assert (e = 117) by lia. subst. reflexivity.
        + apply DC_uni; auto.
      - destruct (esc_of e) as [u|] eqn:E4; try discriminate.
        destruct (parse_chars t2) as [[s' r']|] eqn:E5; try discriminate.
        inversion H; subst. apply IHn in E5; [|lia]. destruct E5 as [body [A B]]. subst t2.
        exists (92 :: e :: body). split.
        + assert (c = 92) by lia. subst. reflexivity.
        + apply DC_esc; auto. }
    destruct (32 <=? c) eqn:E3; try discriminate.
    destruct (parse_chars t1) as [[s' r']|] eqn:E5; try discriminate.
    inversion H; subst. apply IHn in E5; [|lia]. destruct E5 as [body [A B]]. subst t1.
    exists (c :: body). split; auto. apply DC_plain; auto; lia.
Qed.

Lemma parse_chars_sound : forall t s r, parse_chars t = Some (s, r) ->
  exists body, t = body ++ 34 :: r /\ DChars s body.
Proof. intros. eapply parse_chars_sound_n; eauto. Qed.
