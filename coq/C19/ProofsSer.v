(* C19 — SerializeJSONProperty on JSON-shaped JS values is the canonical printer; hence the round trip
   holds for JSON.stringify itself (no replacer, any gap). *)
From Coq Require Import List NArith ZArith Bool Lia ZifyBool Arith.
Import ListNotations.
From Verif.C19 Require Import Model ProofsLex ProofsParse ProofsTop ProofsPrint ProofsRound.
Local Open Scope N_scope.

Section VInd.
  Variable P : jv -> Prop.
  Hypothesis Hleaf : forall v, (match v with VArr _ | VObj _ | VToJSON _ _ => False | _ => True end) -> P v.
  Hypothesis Harr : forall l, Forall P l -> P (VArr l).
  Hypothesis Hobj : forall l, Forall (fun kv => P (snd kv)) l -> P (VObj l).
  Hypothesis Htj : forall k v, P v -> P (VToJSON k v).
  Fixpoint jv_ind2 (v : jv) : P v :=
    match v as v0 return P v0 with
    | VArr l => Harr l ((fix go (l : list jv) : Forall P l :=
                           match l with
                           | [] => Forall_nil P
                           | x :: r => Forall_cons x (jv_ind2 x) (go r)
                           end) l)
    | VObj l => Hobj l ((fix go (l : list (list N * jv)) : Forall (fun kv => P (snd kv)) l :=
                           match l with
                           | [] => Forall_nil _
                           | x :: r => Forall_cons x (jv_ind2 (snd x)) (go r)
                           end) l)
    | VToJSON k v => Htj k v (jv_ind2 v)
    | v0 => Hleaf v0 I
    end.
End VInd.

(* norm_props only looks at keys: it commutes with any map over the values *)
Section Natural.
  Context {A B : Type} (h : A -> B).
  Let H (kv : list N * A) : list N * B := (fst kv, h (snd kv)).

  Lemma upsert_map : forall k v acc, upsert k (h v) (map H acc) = map H (upsert k v acc).
  Proof.
    induction acc as [|[k' v'] acc IH]; simpl; auto.
    destruct (list_eqb k k'); simpl; auto. rewrite IH. reflexivity.
  Qed.

  Lemma dedupe_map : forall l, dedupe (map H l) = map H (dedupe l).
  Proof.
    unfold dedupe. intros l. change (@nil (list N * B)) with (map H []). generalize (@nil (list N * A)).
    induction l as [|[k v] l IH]; intros acc; simpl; auto.
    rewrite upsert_map. apply IH.
  Qed.

  Let Hi (p : N * (list N * A)) : N * (list N * B) := (fst p, H (snd p)).

  Lemma insert_idx_map : forall i kv acc, insert_idx i (H kv) (map Hi acc) = map Hi (insert_idx i kv acc).
  Proof.
    induction acc as [|[j y] acc IH]; simpl; auto.
    destruct (i <? j); simpl; auto. rewrite IH. reflexivity.
  Qed.

  Lemma order_props_map : forall l, order_props (map H l) = map H (order_props l).
  Proof.
    intros l. unfold order_props. rewrite map_app. f_equal.
    - assert (G : forall l acc,
        fold_left (fun acc kv => match arr_index (fst kv) with Some i => insert_idx i kv acc | None => acc end)
                  (map H l) (map Hi acc)
        = map Hi (fold_left (fun acc kv => match arr_index (fst kv) with Some i => insert_idx i kv acc | None => acc end) l acc)).
      { induction l0 as [|[k v] l0 IH]; intros acc; simpl; auto.
        destruct (arr_index k); auto. rewrite <- IH. f_equal. apply insert_idx_map. }
      change (@nil (N * (list N * B))) with (map Hi []). rewrite G.
      rewrite !map_map. apply map_ext. intros [i kv]. reflexivity.
    - induction l as [|[k v] l IH]; simpl; auto.
      destruct (arr_index k); simpl; auto. rewrite IH. reflexivity.
  Qed.

  Lemma norm_props_map : forall l, norm_props (map H l) = map H (norm_props l).
  Proof. intros. unfold norm_props. rewrite dedupe_map. apply order_props_map. Qed.
End Natural.

Lemma collect_members_all : forall gap (p : jv -> text) (L : list (list N * jv)),
  collect_members gap (map (fun kv => (fst kv, Some (Some (p (snd kv))))) L)
  = Some (map (fun kv => quote (fst kv) ++ colon gap ++ p (snd kv)) L).
Proof. induction L as [|[k v] L IH]; simpl; auto. rewrite IH. reflexivity. Qed.

Lemma ser_json_shaped : forall v, json_shaped v = true ->
  forall gap ind key, ser None None gap ind true key v = Some (Some (print_g gap ind (to_json v))).
Proof.
  induction v using jv_ind2; intros JS gap ind key.
  - destruct v; try contradiction; try discriminate; try reflexivity.
    + destruct b; reflexivity.
    + destruct n; try discriminate; reflexivity.
  - (* arrays *)
    simpl in JS. cbn [ser to_json print_g]. cbn [rf_drops].
    assert (G : forall l i, Forall (fun v => json_shaped v = true ->
                   forall gap ind key, ser None None gap ind true key v = Some (Some (print_g gap ind (to_json v)))) l ->
               forallb json_shaped l = true ->
               collect_elems ((fix go (i : N) (l : list jv) : list sres :=
                                 match l with
                                 | [] => []
                                 | x :: r => ser None None gap (ind ++ gap) true (dec_digits i) x :: go (i + 1) r
                                 end) i l)
               = Some (map (print_g gap (ind ++ gap)) (map to_json l))).
    { induction l0 as [|x l0 IH]; intros i F S; simpl; auto.
      simpl in S. apply andb_true_iff in S. destruct S as [S1 S2].
      inversion F; subst. rewrite (H2 S1). rewrite (IH (i + 1) H3 S2). reflexivity. }
    rewrite (G l 0 H JS). reflexivity.
  - (* objects *)
    simpl in JS. cbn [ser to_json print_g]. cbn [rf_drops].
    assert (E : map (fun kv : list N * jv => (fst kv, ser None None gap (ind ++ gap) true (fst kv) (snd kv))) l
              = map (fun kv => (fst kv, (fun x => Some (Some (print_g gap (ind ++ gap) (to_json x)))) (snd kv))) l).
    { apply map_ext_in. intros kv IN. rewrite Forall_forall in H. rewrite forallb_forall in JS.
      rewrite (H kv IN (JS kv IN)). reflexivity. }
    rewrite E. rewrite (norm_props_map (fun x => Some (Some (print_g gap (ind ++ gap) (to_json x))))).
    rewrite (collect_members_all gap (fun x => print_g gap (ind ++ gap) (to_json x))).
    rewrite (norm_props_map to_json). rewrite map_map. reflexivity.
  - discriminate.
Qed.

(* JSON.stringify(v) / JSON.stringify(v, undefined, space) on a JSON-shaped value is the canonical text of
   its JSON value *)
Lemma stringify_json_shaped : forall v space, json_shaped v = true ->
  stringify v RNone space = SText (print_g (gap_of space) [] (to_json v)).
Proof.
  intros. unfold stringify. rewrite ser_json_shaped; auto.
Qed.

(* ... hence it parses back to that value (round trip through the real serialiser model), whenever the gap
   is white space (always the case for a numeric space) *)
Lemma stringify_parse_roundtrip : forall v space, json_shaped v = true ->
  wf_json (to_json v) = true -> ws (gap_of space) ->
  exists t, stringify v RNone space = SText t /\ parse t = Some (to_json v).
Proof.
  intros v space JS WF W. exists (print_g (gap_of space) [] (to_json v)). split.
  - apply stringify_json_shaped; auto.
  - apply parse_print_gap_roundtrip; auto.
Qed.

Lemma gap_of_number_ws : forall n, ws (gap_of (VNum n)).
Proof.
  intros n. unfold gap_of, ws.
  assert (R : forall k, forallb is_ws (repeat 32 k) = true) by (induction k; simpl; auto).
  destruct n; try reflexivity; try apply R.
  - destruct neg; [reflexivity | apply R].
  - destruct (Verif.Base.F64.trunc_Z (f64_of_bits b)); [apply R|].
    destruct (Verif.Base.F64.is_inf (f64_of_bits b) && negb (Verif.Base.F64.sign_bit (f64_of_bits b))); apply R.
Qed.

(* Object.MarshalJSON agrees with JSON.stringify wherever stringify produces a text or throws *)
Lemma marshal_agrees : forall v, stringify v RNone VUndef <> SUndef -> marshal v = stringify v RNone VUndef.
Proof. intros v H. unfold marshal. destruct (stringify v RNone VUndef); congruence. Qed.

(* formerly recorded finding F-C19-4, now the specified behaviour: a Symbol wrapper object is an ordinary object *)
Lemma symbol_wrapper_is_object :
  stringify VBoxSym RNone VUndef = SText [123; 125] /\
  stringify (VArr [VBoxSym]) RNone VUndef = SText [91; 123; 125; 93] /\
  marshal VBoxSym = SText [123; 125].
Proof. vm_compute. repeat split; reflexivity. Qed.

(* histories: the result retained for a step does not depend on what is serialised before or after it, and for a
   MarshalJSON step it is the JSON.stringify text of that object (null where stringify gives undefined) *)
Lemma history_result_stable : forall pre s post,
  nth_error (run_history (pre ++ s :: post)) (length pre) = Some (step_result s).
Proof.
  intros. unfold run_history. rewrite map_app. simpl.
  rewrite nth_error_app2; rewrite map_length; auto. rewrite Nat.sub_diag. reflexivity.
Qed.

Lemma history_marshal_is_stringify : forall pre v post t,
  stringify v RNone VUndef = SText t ->
  nth_error (run_history (pre ++ HMarshal v :: post)) (length pre) = Some (SText t) /\
  nth_error (run_history (pre ++ HStringify v :: post)) (length pre) = Some (SText t).
Proof.
  intros pre v post t H. rewrite !history_result_stable. simpl. unfold marshal. rewrite H. auto.
Qed.
