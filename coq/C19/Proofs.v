(* C19 — all lemmas (split over ProofsLex / ProofsParse / ProofsTop / ProofsPrint / ProofsRound);
   the ones quoted by Properties/C19.v are re-exported here under the name Proofs.x *)
From Verif.C19 Require Export Model ProofsLex ProofsParse ProofsTop ProofsPrint ProofsRound ProofsSer.

Definition parse_sound := ProofsTop.parse_sound.
Definition parse_complete := ProofsTop.parse_complete.
Definition parse_iff_derives := ProofsTop.parse_iff_derives.
Definition parse_rejects := ProofsTop.parse_rejects.
Definition derives_functional := ProofsTop.derives_functional.
Definition parse_print_gap_roundtrip := ProofsRound.parse_print_gap_roundtrip.
Definition parse_print_roundtrip := ProofsRound.parse_print_roundtrip.
Definition print_g_derives_text := ProofsRound.print_g_derives_text.
Definition print_parse_canonical := ProofsRound.print_parse_canonical.
Definition print_idempotent := ProofsRound.print_idempotent.
Definition canonical_form_decides := ProofsRound.canonical_form_decides.
Definition derives_wf := ProofsRound.derives_wf.
Definition quote_roundtrip := ProofsPrint.quote_roundtrip.
Definition quote_safe := ProofsPrint.quote_safe.
Definition quote_wellformed := ProofsPrint.quote_wellformed.
Definition stringify_json_shaped := ProofsSer.stringify_json_shaped.
Definition stringify_parse_roundtrip := ProofsSer.stringify_parse_roundtrip.
Definition gap_of_number_ws := ProofsSer.gap_of_number_ws.
Definition marshal_agrees := ProofsSer.marshal_agrees.
Definition symbol_wrapper_is_object := ProofsSer.symbol_wrapper_is_object.
Definition history_result_stable := ProofsSer.history_result_stable.
Definition history_marshal_is_stringify := ProofsSer.history_marshal_is_stringify.
