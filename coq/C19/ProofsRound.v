(* C19 — the canonical printer prints a derivable text; round trips. *)
From Coq Require Import List NArith ZArith Bool Lia ZifyBool Arith.
Import ListNotations.
From Verif.C19 Require Import Model ProofsLex ProofsParse ProofsTop ProofsPrint.
Local Open Scope N_scope.

Section JInd.
  Variable P : json -> Prop.
  Hypothesis Hnull : P JNull.
  Hypothesis Hbool : forall b, P (JBool b).
  Hypothesis Hnum : forall neg ip fp ex, P (JNum neg ip fp ex).
  Hypothesis Hstr : forall s, P (JStr s).
  Hypothesis Harr : forall l, Forall P l -> P (JArr l).
  Hypothesis Hobj : forall l, Forall (fun kv => P (snd kv)) l -> P (JObj l).
  Fixpoint json_ind2 (v : json) : P v :=
    match v with
    | JNull => Hnull
    | JBool b => Hbool b
    | JNum neg ip fp ex => Hnum neg ip fp ex
    | JStr s => Hstr s
    | JArr l => Harr l ((fix go (l : list json) : Forall P l :=
                           match l with
                           | [] => Forall_nil P
                           | x :: r => Forall_cons x (json_ind2 x) (go r)
                           end) l)
    | JObj l => Hobj l ((fix go (l : list (list N * json)) : Forall (fun kv => P (snd kv)) l :=
                           match l with
                           | [] => Forall_nil _
                           | x :: r => Forall_cons x (json_ind2 (snd x)) (go r)
                           end) l)
    end.
End JInd.

Lemma join_cons2 : forall sep a b r, join sep (a :: b :: r) = a ++ sep ++ join sep (b :: r).
Proof. reflexivity. Qed.

Lemma wrap_nonempty : forall o c pre post items, items <> [] ->
  wrap o c pre post items = o :: (pre ++ join (44 :: pre) items ++ post) ++ [c].
Proof.
  intros. destruct items; [congruence|]. unfold wrap. repeat rewrite <- app_assoc. reflexivity.
Qed.

Lemma elems_derive : forall (f : json -> text) pre post l, ws pre -> ws post -> l <> [] ->
  (forall v, In v l -> DVal v (f v)) -> DElems l (pre ++ join (44 :: pre) (map f l) ++ post).
Proof.
  intros f pre post l Wp Wq. induction l as [|x l IH]; intros NE H; [congruence|].
  destruct l as [|y l'].
  - simpl. apply DEs_one. constructor; auto. apply H. left; auto.
  - change (map f (x :: y :: l')) with (f x :: f y :: map f l'). rewrite join_cons2.
    replace (pre ++ (f x ++ (44 :: pre) ++ join (44 :: pre) (f y :: map f l')) ++ post)
      with ((pre ++ f x ++ []) ++ 44 :: (pre ++ join (44 :: pre) (map f (y :: l')) ++ post)).
    + apply DEs_cons.
      * constructor; auto. apply H. left; auto. apply ws_nil.
      * apply IH. discriminate. intros v Hv. apply H. right; auto.
    + simpl. repeat (rewrite <- app_assoc; simpl). reflexivity.
Qed.

Lemma DMembers_eq : forall l t t', DMembers l t -> t = t' -> DMembers l t'.
Proof. intros; subst; auto. Qed.

Lemma members_derive : forall (g : json -> text) col cw pre post (l : list (list N * json)),
  col = 58 :: cw -> ws cw -> ws pre -> ws post -> l <> [] ->
  (forall kv, In kv l -> DVal (snd kv) (g (snd kv))) ->
  DMembers l (pre ++ join (44 :: pre) (map (fun kv => quote (fst kv) ++ col ++ g (snd kv)) l) ++ post).
Proof.
  intros g col cw pre post l HC Wc Wp Wq. subst col.
  set (F := fun kv : list N * json => quote (fst kv) ++ (58 :: cw) ++ g (snd kv)).
  induction l as [|[k v] l IH]; intros NE H; [congruence|].
  destruct l as [|y l'].
  - eapply DMembers_eq.
    + apply (DMs_one k v pre (quote k) [] (cw ++ g v ++ post)); auto.
      apply quote_string. apply ws_nil. constructor; auto. apply (H (k, v)). left; auto.
    + unfold F. cbn [map join fst snd].
      repeat first [rewrite <- app_assoc | rewrite <- app_comm_cons]. reflexivity.
  - eapply DMembers_eq.
    + apply (DMs_cons k v pre (quote k) [] (cw ++ g v ++ []) (y :: l')
               (pre ++ join (44 :: pre) (map F (y :: l')) ++ post)); auto.
      * apply quote_string.
      * apply ws_nil.
      * constructor; auto. apply (H (k, v)). left; auto. apply ws_nil.
      * apply IH. discriminate. intros kv Hkv. apply H. right; auto.
    + change (map F ((k, v) :: y :: l')) with ((quote k ++ (58 :: cw) ++ g v) :: F y :: map F l').
      rewrite join_cons2. change (map F (y :: l')) with (F y :: map F l').
      repeat first [rewrite <- app_assoc | rewrite <- app_comm_cons]. reflexivity.
Qed.

Lemma nl_pre_ws : forall gap ind, ws ind -> ws (nl_pre gap ind).
Proof. intros. unfold nl_pre. destruct gap; [apply ws_nil|]. apply ws_cons; auto. Qed.

Lemma colon_shape : forall gap, exists cw, colon gap = 58 :: cw /\ ws cw.
Proof. intros. unfold colon. destruct gap; [exists [] | exists [32]]; split; auto; reflexivity. Qed.

Lemma exp_derive : forall ex, exp_okb ex = true -> DExp ex (print_exp ex).
Proof.
  intros [[sgn ds]|] H; simpl; [|constructor].
  simpl in H. destruct ds as [|d ds']; [discriminate|].
  change (101 :: (if sgn then 45 else 43) :: d :: ds') with (101 :: [if sgn then 45 else 43] ++ d :: ds').
  constructor; auto; try discriminate. destruct sgn; constructor.
Qed.

Lemma print_g_derives : forall v, wf_json v = true ->
  forall gap ind, ws gap -> ws ind -> DVal v (print_g gap ind v).
Proof.
  induction v using json_ind2; intros WF gap ind Wg Wi.
  - constructor.
  - destruct b; constructor.
  - simpl in *. apply andb_true_iff in WF. destruct WF as [WF E]. apply andb_true_iff in WF. destruct WF as [I F].
    apply DV_num. unfold print_num. constructor; auto. apply exp_derive; auto.
  - simpl. apply DV_str. apply quote_string.
  - simpl in WF. cbn [print_g].
    destruct l as [|x l'].
    + simpl. apply (DV_arr0 []). apply ws_nil.
    + rewrite wrap_nonempty by discriminate. apply DV_arr.
      apply elems_derive; try apply nl_pre_ws; auto using ws_app. discriminate.
      intros v Hv. rewrite Forall_forall in H. apply H; auto using ws_app.
      rewrite forallb_forall in WF. apply WF; auto.
  - simpl in WF. cbn [print_g].
    destruct l as [|x l'].
    + simpl. apply (DV_obj0 []). apply ws_nil.
    + rewrite wrap_nonempty by discriminate. apply DV_obj.
      destruct (colon_shape gap) as [cw [C1 C2]].
      apply (members_derive (print_g gap (ind ++ gap)) (colon gap) cw); try apply nl_pre_ws; auto using ws_app.
      discriminate.
      intros kv Hkv. rewrite Forall_forall in H. apply H; auto using ws_app.
      rewrite forallb_forall in WF. apply WF; auto.
Qed.

(* every value the grammar derives is well formed *)
Lemma derives_wf_mut :
  (forall v u, DVal v u -> wf_json v = true) /\
  (forall v u, DElem v u -> wf_json v = true) /\
  (forall vs u, DElems vs u -> forallb wf_json vs = true) /\
  (forall ms u, DMembers ms u -> forallb (fun kv => wf_json (snd kv)) ms = true).
Proof.
  apply D_mutind; intros; simpl; auto.
  - inversion H; subst. rewrite H0, H1. simpl.
    inversion H2; subst; simpl; auto. destruct ds; [congruence|]. auto.
  - rewrite H0. auto.
  - rewrite H0, H2. auto.
  - rewrite H3. auto.
  - rewrite H3, H5. auto.
Qed.

Lemma derives_wf : forall v t, Derives v t -> wf_json v = true.
Proof. intros v t H. destruct derives_wf_mut as [_ [A _]]. eapply A; eauto. Qed.

(* ------------------------------------------------------------------ *)
(* round trips *)

Lemma print_g_derives_text : forall v gap, wf_json v = true -> ws gap -> Derives v (print_g gap [] v).
Proof.
  intros v gap WF Wg. unfold Derives.
  replace (print_g gap [] v) with ([] ++ print_g gap [] v ++ []) by (simpl; apply app_nil_r).
  constructor; try apply ws_nil. apply print_g_derives; auto. apply ws_nil.
Qed.

Lemma parse_print_gap_roundtrip : forall v gap, wf_json v = true -> ws gap ->
  parse (print_g gap [] v) = Some v.
Proof. intros. apply parse_complete. apply print_g_derives_text; auto. Qed.

Lemma parse_print_roundtrip : forall v, wf_json v = true -> parse (print v) = Some v.
Proof. intros. apply parse_print_gap_roundtrip; auto. apply ws_nil. Qed.

Lemma print_parse_canonical : forall t v, parse t = Some v -> parse (print v) = Some v.
Proof. intros t v H. apply parse_print_roundtrip. eapply derives_wf. apply parse_sound. eauto. Qed.

Lemma print_idempotent : forall v, wf_json v = true ->
  option_map print (parse (print v)) = Some (print v).
Proof. intros. rewrite parse_print_roundtrip; auto. Qed.

(* two texts denote the same value iff they have the same canonical form *)
Lemma canonical_form_decides : forall t1 t2 v1 v2, parse t1 = Some v1 -> parse t2 = Some v2 ->
  (print v1 = print v2 <-> v1 = v2).
Proof.
  intros t1 t2 v1 v2 H1 H2. split; [|congruence]. intros E.
  apply print_parse_canonical in H1. apply print_parse_canonical in H2. rewrite E in H1. congruence.
Qed.
