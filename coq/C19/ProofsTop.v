(* C19 — parse accepts exactly the grammar (top-level statements). *)
From Coq Require Import List NArith ZArith Bool Lia ZifyBool Arith.
Import ListNotations.
From Verif.C19 Require Import Model ProofsLex ProofsParse.
Local Open Scope N_scope.

Lemma parse_sound : forall t v, parse t = Some v -> Derives v t.
Proof.
  unfold parse, Derives. intros t v H.
  destruct (parse_val (S (length t)) (skip_ws t)) as [[v' r]|] eqn:E; try discriminate.
  destruct (skip_ws r) eqn:SR; try discriminate. inversion H; subst v'.
  destruct (parse_sound_mut (S (length t))) as [PS _]. apply PS in E. destruct E as [u [A B]].
  destruct (skip_ws_spec t) as [w1 [W1 [W2 _]]].
  destruct (skip_ws_spec r) as [w2 [V1 [V2 _]]]. rewrite SR in V2. rewrite app_nil_r in V2. subst r.
  rewrite W2, A. constructor; auto.
Qed.

Lemma parse_complete : forall t v, Derives v t -> parse t = Some v.
Proof.
  unfold parse, Derives. intros t v H. inversion H; subst.
  destruct (DVal_head _ _ H1) as [c [tl [A [B _]]]].
  rewrite skip_ws_app by auto. rewrite skip_ws_nows by (rewrite A; simpl; auto).
  destruct parse_complete_mut as [PC _].
  rewrite (PC v t0 H1 (S (length (w1 ++ t0 ++ w2))) w2).
  - rewrite skip_ws_all; auto.
  - repeat rewrite app_length. lia.
  - destruct w2 as [|x w2']; simpl; auto. apply ws_inv in H2. destruct H2. chars.
Qed.

Lemma parse_iff_derives : forall t v, parse t = Some v <-> Derives v t.
Proof. split; [apply parse_sound | apply parse_complete]. Qed.

(* the grammar is unambiguous as far as values go: a text denotes at most one value *)
Lemma derives_functional : forall t v1 v2, Derives v1 t -> Derives v2 t -> v1 = v2.
Proof.
  intros t v1 v2 H1 H2. apply parse_complete in H1. apply parse_complete in H2. congruence.
Qed.

(* rejection: a text outside the grammar is a SyntaxError *)
Lemma parse_rejects : forall t, (forall v, ~ Derives v t) -> parse t = None.
Proof.
  intros t H. destruct (parse t) eqn:E; auto. apply parse_sound in E. exfalso. eapply H; eauto.
Qed.
