(* C19 — the recursive-descent parser accepts exactly the grammar. *)
From Coq Require Import List NArith ZArith Bool Lia ZifyBool Arith.
Import ListNotations.
From Verif.C19 Require Import Model ProofsLex.
Local Open Scope N_scope.

Lemma strip_prefix_sound : forall p t r, strip_prefix p t = Some r -> t = p ++ r.
Proof.
  induction p as [|c p IH]; simpl; intros t r H.
  - inversion H; auto.
  - destruct t as [|d t]; try discriminate. destruct (d =? c) eqn:E; try discriminate.
    apply IH in H. subst. f_equal. lia.
Qed.

Lemma strip_prefix_app : forall p r, strip_prefix p (p ++ r) = Some r.
Proof. induction p; simpl; intros; auto. rewrite N.eqb_refl. auto. Qed.

Lemma peek_is_sound : forall c t r, peek_is c t = Some r -> t = c :: r.
Proof.
  intros c [|d t] r H; simpl in H; try discriminate.
  destruct (d =? c) eqn:E; try discriminate. inversion H; subst. f_equal. lia.
Qed.

(* ------------------------------------------------------------------ *)
(* soundness *)

Lemma parse_sound_mut : forall f,
  (forall t v r, parse_val f t = Some (v, r) -> exists u, t = u ++ r /\ DVal v u) /\
  (forall t vs r, parse_elems f t = Some (vs, r) -> exists u, t = u ++ 93 :: r /\ DElems vs u) /\
  (forall t ms r, parse_members f t = Some (ms, r) -> exists u, t = u ++ 125 :: r /\ DMembers ms u).
Proof.
  induction f as [|f [IHv [IHe IHm]]].
  { repeat split; intros; simpl in *; discriminate. }
  repeat split.
  - (* values *)
    intros t v r H. simpl in H. destruct t as [|c t1]; try discriminate.
    destruct (c =? 91) eqn:E91.
    { assert (c = 91) by lia. subst c.
      destruct (peek_is 93 (skip_ws t1)) as [r0|] eqn:P.
      - inversion H; subst. apply peek_is_sound in P.
        destruct (skip_ws_spec t1) as [w [W1 [W2 W3]]]. rewrite P in W2.
        exists (91 :: w ++ [93]). split.
        + simpl. f_equal. rewrite <- app_assoc. exact W2.
        + apply DV_arr0; auto.
      - destruct (parse_elems f t1) as [[vs r0]|] eqn:PE; try discriminate. inversion H; subst.
        apply IHe in PE. destruct PE as [u [A B]]. subst t1.
        exists (91 :: u ++ [93]). split.
        + simpl. f_equal. rewrite <- app_assoc. reflexivity.
        + apply DV_arr; auto. }
    destruct (c =? 123) eqn:E123.
    { assert (c = 123) by lia. subst c.
      destruct (peek_is 125 (skip_ws t1)) as [r0|] eqn:P.
      - inversion H; subst. apply peek_is_sound in P.
        destruct (skip_ws_spec t1) as [w [W1 [W2 W3]]]. rewrite P in W2.
        exists (123 :: w ++ [125]). split.
        + simpl. f_equal. rewrite <- app_assoc. exact W2.
        + apply DV_obj0; auto.
      - destruct (parse_members f t1) as [[ms r0]|] eqn:PE; try discriminate. inversion H; subst.
        apply IHm in PE. destruct PE as [u [A B]]. subst t1.
        exists (123 :: u ++ [125]). split.
        + simpl. f_equal. rewrite <- app_assoc. reflexivity.
        + apply DV_obj; auto. }
    destruct (c =? 34) eqn:E34.
    { assert (c = 34) by lia. subst c.
      destruct (parse_chars t1) as [[s r0]|] eqn:PC; try discriminate. inversion H; subst.
      apply parse_chars_sound in PC. destruct PC as [body [A B]]. subst t1.
      exists (34 :: body ++ [34]). split.
      - simpl. f_equal. rewrite <- app_assoc. reflexivity.
      - apply DV_str. constructor. auto. }
    destruct (c =? 110) eqn:E110.
    { assert (c = 110) by lia. subst c.
      destruct (strip_prefix [117; 108; 108] t1) as [r0|] eqn:SP; try discriminate. inversion H; subst.
      apply strip_prefix_sound in SP. subst t1. exists [110; 117; 108; 108]. split; auto. constructor. }
    destruct (c =? 116) eqn:E116.
    { assert (c = 116) by lia. subst c.
      destruct (strip_prefix [114; 117; 101] t1) as [r0|] eqn:SP; try discriminate. inversion H; subst.
      apply strip_prefix_sound in SP. subst t1. exists [116; 114; 117; 101]. split; auto. constructor. }
    destruct (c =? 102) eqn:E102.
    { assert (c = 102) by lia. subst c.
      destruct (strip_prefix [97; 108; 115; 101] t1) as [r0|] eqn:SP; try discriminate. inversion H; subst.
      apply strip_prefix_sound in SP. subst t1. exists [102; 97; 108; 115; 101]. split; auto. constructor. }
    apply parse_number_sound in H. destruct H as [neg [ip [fp [ex [u [A [B C]]]]]]]. subst v.
    exists u. split; auto. apply DV_num; auto.
  - (* elements *)
    intros t vs r H. simpl in H.
    destruct (parse_val f (skip_ws t)) as [[v r1]|] eqn:PV; try discriminate.
    apply IHv in PV. destruct PV as [u [A B]].
    destruct (skip_ws_spec t) as [w1 [W1 [W2 _]]].
    destruct (skip_ws_spec r1) as [w2 [V1 [V2 _]]].
    destruct (skip_ws r1) as [|d r2] eqn:SR; try discriminate.
    destruct (d =? 44) eqn:E44.
    + assert (d = 44) by lia. subst d.
      destruct (parse_elems f r2) as [[vs' r3]|] eqn:PE; try discriminate. inversion H; subst.
      apply IHe in PE. destruct PE as [u' [A' B']]. subst r2.
      exists ((w1 ++ u ++ w2) ++ 44 :: u'). split.
      * rewrite W2, A, V2. repeat rewrite <- app_assoc. simpl. reflexivity.
      * apply DEs_cons; auto. constructor; auto.
    + destruct (d =? 93) eqn:E93; try discriminate. assert (d = 93) by lia. subst d.
      inversion H; subst.
      exists (w1 ++ u ++ w2). split.
      * rewrite W2, A, V2. repeat rewrite <- app_assoc. reflexivity.
      * apply DEs_one. constructor; auto.
  - (* members *)
    intros t ms r H. simpl in H.
    destruct (skip_ws_spec t) as [w1 [W1 [W2 _]]].
    destruct (peek_is 34 (skip_ws t)) as [t1|] eqn:P1; try discriminate.
    apply peek_is_sound in P1.
    destruct (parse_chars t1) as [[k t2]|] eqn:PC; try discriminate.
    apply parse_chars_sound in PC. destruct PC as [body [C1 C2]].
    destruct (skip_ws_spec t2) as [w2 [X1 [X2 _]]].
    destruct (peek_is 58 (skip_ws t2)) as [t3|] eqn:P2; try discriminate.
    apply peek_is_sound in P2.
    destruct (parse_val f (skip_ws t3)) as [[v r1]|] eqn:PV; try discriminate.
    apply IHv in PV. destruct PV as [u [A B]].
    destruct (skip_ws_spec t3) as [w3 [Y1 [Y2 _]]].
    destruct (skip_ws_spec r1) as [w4 [V1 [V2 _]]].
    assert (T : t = (w1 ++ (34 :: body ++ [34]) ++ w2 ++ 58 :: (w3 ++ u ++ w4)) ++ skip_ws r1).
    { rewrite W2, P1, C1, X2, P2, Y2, A, V2 at 1. repeat (rewrite <- app_assoc; simpl). reflexivity. }
    destruct (skip_ws r1) as [|d r2] eqn:SR; try discriminate.
    destruct (d =? 44) eqn:E44.
    + assert (d = 44) by lia. subst d.
      destruct (parse_members f r2) as [[ms' r3]|] eqn:PE; try discriminate. inversion H; subst ms r3.
      apply IHm in PE. destruct PE as [u' [A' B']]. subst r2.
      exists ((w1 ++ (34 :: body ++ [34]) ++ w2 ++ 58 :: (w3 ++ u ++ w4)) ++ 44 :: u'). split.
      * rewrite T. repeat (rewrite <- app_assoc; simpl). reflexivity.
      * apply DMs_cons; auto. constructor; auto. constructor; auto.
    + destruct (d =? 125) eqn:E125; try discriminate. assert (d = 125) by lia. subst d.
      inversion H; subst ms r2.
      exists (w1 ++ (34 :: body ++ [34]) ++ w2 ++ 58 :: (w3 ++ u ++ w4)). split.
      * exact T.
      * apply DMs_one; auto. constructor; auto. constructor; auto.
Qed.
