(* C19 — the recursive-descent parser accepts exactly the grammar. *)
From Coq Require Import List NArith ZArith Bool Lia ZifyBool Arith.
Import ListNotations.
From Verif.C19 Require Import Model ProofsLex.
Local Open Scope N_scope.

Lemma strip_prefix_sound : forall p t r, strip_prefix p t = Some r -> t = p ++ r.
Proof.
  induction p as [|c p IH]; simpl; intros t r H.
  - inversion H; auto.
  - destruct t as [|d t]; try discriminate. destruct (d =? c) eqn:E; try discriminate.
    apply IH in H. subst. f_equal. lia.
Qed.

Lemma strip_prefix_app : forall p r, strip_prefix p (p ++ r) = Some r.
Proof. induction p; simpl; intros; auto. rewrite N.eqb_refl. auto. Qed.

Lemma peek_is_sound : forall c t r, peek_is c t = Some r -> t = c :: r.
Proof.
  intros c [|d t] r H; simpl in H; try discriminate.
  destruct (d =? c) eqn:E; try discriminate. inversion H; subst. f_equal. lia.
Qed.

Local Arguments strip_prefix : simpl never.
Local Arguments parse_chars : simpl never.
Local Arguments parse_number : simpl never.
Local Arguments skip_ws : simpl never.
Local Arguments peek_is : simpl never.

(* ------------------------------------------------------------------ *)
(* soundness *)

Lemma parse_sound_mut : forall f,
  (forall t v r, parse_val f t = Some (v, r) -> exists u, t = u ++ r /\ DVal v u) /\
  (forall t vs r, parse_elems f t = Some (vs, r) -> exists u, t = u ++ 93 :: r /\ DElems vs u) /\
  (forall t ms r, parse_members f t = Some (ms, r) -> exists u, t = u ++ 125 :: r /\ DMembers ms u).
Proof.
  induction f as [|f [IHv [IHe IHm]]].
  { repeat split; intros; simpl in *; discriminate. }
  repeat split.
  - (* values *)
    intros t v r H. simpl in H. destruct t as [|c t1]; try discriminate.
    destruct (c =? 91) eqn:E91.
    { assert (c = 91) by lia. subst c.
      destruct (peek_is 93 (skip_ws t1)) as [r0|] eqn:P.
      - inversion H; subst. apply peek_is_sound in P.
        destruct (skip_ws_spec t1) as [w [W1 [W2 W3]]]. rewrite P in W2.
        exists (91 :: w ++ [93]). split.
        + simpl. f_equal. rewrite <- app_assoc. exact W2.
        + apply DV_arr0; auto.
      - destruct (parse_elems f t1) as [[vs r0]|] eqn:PE; try discriminate. inversion H; subst.
        apply IHe in PE. destruct PE as [u [A B]]. subst t1.
        exists (91 :: u ++ [93]). split.
        + simpl. f_equal. rewrite <- app_assoc. reflexivity.
        + apply DV_arr; auto. }
    destruct (c =? 123) eqn:E123.
    { assert (c = 123) by lia. subst c.
      destruct (peek_is 125 (skip_ws t1)) as [r0|] eqn:P.
      - inversion H; subst. apply peek_is_sound in P.
        destruct (skip_ws_spec t1) as [w [W1 [W2 W3]]]. rewrite P in W2.
        exists (123 :: w ++ [125]). split.
        + simpl. f_equal. rewrite <- app_assoc. exact W2.
        + apply DV_obj0; auto.
      - destruct (parse_members f t1) as [[ms r0]|] eqn:PE; try discriminate. inversion H; subst.
        apply IHm in PE. destruct PE as [u [A B]]. subst t1.
        exists (123 :: u ++ [125]). split.
        + simpl. f_equal. rewrite <- app_assoc. reflexivity.
        + apply DV_obj; auto. }
    destruct (c =? 34) eqn:E34.
    { assert (c = 34) by lia. subst c.
      destruct (parse_chars t1) as [[s r0]|] eqn:PC; try discriminate. inversion H; subst.
      apply parse_chars_sound in PC. destruct PC as [body [A B]]. subst t1.
      exists (34 :: body ++ [34]). split.
      - simpl. f_equal. rewrite <- app_assoc. reflexivity.
      - apply DV_str. constructor. auto. }
    destruct (c =? 110) eqn:E110.
    { assert (c = 110) by lia. subst c.
      destruct (strip_prefix [117; 108; 108] t1) as [r0|] eqn:SP; try discriminate. inversion H; subst.
      apply strip_prefix_sound in SP. subst t1. exists [110; 117; 108; 108]. split; auto. constructor. }
    destruct (c =? 116) eqn:E116.
    { assert (c = 116) by lia. subst c.
      destruct (strip_prefix [114; 117; 101] t1) as [r0|] eqn:SP; try discriminate. inversion H; subst.
      apply strip_prefix_sound in SP. subst t1. exists [116; 114; 117; 101]. split; auto. constructor. }
    destruct (c =? 102) eqn:E102.
    { assert (c = 102) by lia. subst c.
      destruct (strip_prefix [97; 108; 115; 101] t1) as [r0|] eqn:SP; try discriminate. inversion H; subst.
      apply strip_prefix_sound in SP. subst t1. exists [102; 97; 108; 115; 101]. split; auto. constructor. }
    apply parse_number_sound in H. destruct H as [neg [ip [fp [ex [u [A [B C]]]]]]]. subst v.
    exists u. split; auto. apply DV_num; auto.
  - (* elements *)
    intros t vs r H. simpl in H.
    destruct (parse_val f (skip_ws t)) as [[v r1]|] eqn:PV; try discriminate.
    apply IHv in PV. destruct PV as [u [A B]].
    destruct (skip_ws_spec t) as [w1 [W1 [W2 _]]].
    destruct (skip_ws_spec r1) as [w2 [V1 [V2 _]]].
    assert (T : t = (w1 ++ u ++ w2) ++ skip_ws r1).
    { rewrite W2, A, V2 at 1. repeat rewrite <- app_assoc. reflexivity. }
    destruct (skip_ws r1) as [|d r2] eqn:SR; try discriminate.
    destruct (d =? 44) eqn:E44.
    + assert (d = 44) by lia. subst d.
      destruct (parse_elems f r2) as [[vs' r3]|] eqn:PE; try discriminate. inversion H; subst vs r3.
      apply IHe in PE. destruct PE as [u' [A' B']]. subst r2.
      exists ((w1 ++ u ++ w2) ++ 44 :: u'). split.
      * rewrite T. repeat (rewrite <- app_assoc; simpl). reflexivity.
      * apply DEs_cons; auto. constructor; auto.
    + destruct (d =? 93) eqn:E93; try discriminate. assert (d = 93) by lia. subst d.
      inversion H; subst vs r2.
      exists (w1 ++ u ++ w2). split.
      * exact T.
      * apply DEs_one. constructor; auto.
  - (* members *)
    intros t ms r H. simpl in H.
    destruct (skip_ws_spec t) as [w1 [W1 [W2 _]]].
    destruct (peek_is 34 (skip_ws t)) as [t1|] eqn:P1; try discriminate.
    apply peek_is_sound in P1.
    destruct (parse_chars t1) as [[k t2]|] eqn:PC; try discriminate.
    apply parse_chars_sound in PC. destruct PC as [body [C1 C2]].
    destruct (skip_ws_spec t2) as [w2 [X1 [X2 _]]].
    destruct (peek_is 58 (skip_ws t2)) as [t3|] eqn:P2; try discriminate.
    apply peek_is_sound in P2.
    destruct (parse_val f (skip_ws t3)) as [[v r1]|] eqn:PV; try discriminate.
    apply IHv in PV. destruct PV as [u [A B]].
    destruct (skip_ws_spec t3) as [w3 [Y1 [Y2 _]]].
    destruct (skip_ws_spec r1) as [w4 [V1 [V2 _]]].
    assert (T : t = (w1 ++ (34 :: body ++ [34]) ++ w2 ++ 58 :: (w3 ++ u ++ w4)) ++ skip_ws r1).
    { rewrite W2, P1, C1, X2, P2, Y2, A, V2 at 1. repeat (rewrite <- app_assoc; simpl). reflexivity. }
    destruct (skip_ws r1) as [|d r2] eqn:SR; try discriminate.
    destruct (d =? 44) eqn:E44.
    + assert (d = 44) by lia. subst d.
      destruct (parse_members f r2) as [[ms' r3]|] eqn:PE; try discriminate. inversion H; subst ms r3.
      apply IHm in PE. destruct PE as [u' [A' B']]. subst r2.
      exists ((w1 ++ (34 :: body ++ [34]) ++ w2 ++ 58 :: (w3 ++ u ++ w4)) ++ 44 :: u'). split.
      * rewrite T. repeat (rewrite <- app_assoc; simpl). reflexivity.
      * apply DMs_cons; auto. constructor; auto. constructor; auto.
    + destruct (d =? 125) eqn:E125; try discriminate. assert (d = 125) by lia. subst d.
      inversion H; subst ms r2.
      exists (w1 ++ (34 :: body ++ [34]) ++ w2 ++ 58 :: (w3 ++ u ++ w4)). split.
      * exact T.
      * apply DMs_one; auto. constructor; auto. constructor; auto.
Qed.

(* ------------------------------------------------------------------ *)
(* completeness *)

Scheme DVal_min := Minimality for DVal Sort Prop
  with DElem_min := Minimality for DElem Sort Prop
  with DElems_min := Minimality for DElems Sort Prop
  with DMembers_min := Minimality for DMembers Sort Prop.
Combined Scheme D_mutind from DVal_min, DElem_min, DElems_min, DMembers_min.

Lemma DVal_head : forall v t, DVal v t ->
  exists c tl, t = c :: tl /\ is_ws c = false /\ c <> 93 /\ c <> 125.
Proof.
  intros v t H. destruct H; try (eexists; eexists; split; [reflexivity|]; repeat split; chars).
  - inversion H; subst. destruct neg; simpl.
    + eexists; eexists; split; [reflexivity|]. repeat split; chars.
    + apply int_okb_inv in H0. destruct H0 as [A | [c [ds [A [B C]]]]]; subst; simpl;
        (eexists; eexists; split; [reflexivity|]; repeat split; chars).
  - inversion H; subst. eexists; eexists; split; [reflexivity|]. repeat split; chars.
Qed.

Lemma DNumber_head : forall neg ip fp ex t, DNumber neg ip fp ex t ->
  exists c tl, t = c :: tl /\ (is_digit c = true \/ c = 45).
Proof.
  intros neg ip fp ex t H. inversion H; subst. destruct neg; simpl.
  - eexists; eexists; split; [reflexivity|]. auto.
  - apply int_okb_inv in H0. destruct H0 as [A | [c [ds [A [B C]]]]]; subst; simpl;
      (eexists; eexists; split; [reflexivity|]); left; chars.
Qed.

Lemma DElem_head : forall v t x, DElem v t ->
  exists c tl, skip_ws (t ++ x) = c :: tl /\ is_ws c = false /\ c <> 93 /\ c <> 125.
Proof.
  intros v t x H. inversion H; subst.
  destruct (DVal_head _ _ H1) as [c [tl [A [B [C D]]]]]. subst t0.
  rewrite <- app_assoc. rewrite skip_ws_app; auto. simpl.
  exists c, ((tl ++ w2) ++ x). split; auto.
  apply skip_ws_nows. simpl. auto.
Qed.

Lemma DElems_head : forall vs t x, DElems vs t -> exists c tl, skip_ws (t ++ x) = c :: tl /\ c <> 93.
Proof.
  intros vs t x H. inversion H; subst.
  - destruct (DElem_head _ _ x H0) as [c [tl [A [B [C D]]]]]. eauto.
  - rewrite <- app_assoc. destruct (DElem_head _ _ ((44 :: t') ++ x) H0) as [c [tl [A [B [C D]]]]]. eauto.
Qed.

Lemma DMembers_head : forall ms t x, DMembers ms t -> exists tl, skip_ws (t ++ x) = 34 :: tl.
Proof.
  intros ms t x H.
  assert (G : forall w1 k tk rest, ws w1 -> DString k tk -> exists tl, skip_ws ((w1 ++ tk ++ rest) ++ x) = 34 :: tl).
  { intros w1 k tk rest W S. inversion S; subst. rewrite <- app_assoc. rewrite skip_ws_app; auto.
    simpl. eexists. apply skip_ws_nows. simpl. reflexivity. }
  inversion H; subst.
  - eapply G; eauto.
  - rewrite <- app_assoc. rewrite <- app_assoc.
    inversion H1; subst. rewrite skip_ws_app; auto. simpl. eexists. apply skip_ws_nows. reflexivity.
Qed.

Lemma peek_is_cons_ne : forall c d tl, d <> c -> peek_is c (d :: tl) = None.
Proof. intros. unfold peek_is. assert (E : (d =? c) = false) by lia. rewrite E. auto. Qed.

Lemma peek_is_cons_eq : forall c tl, peek_is c (c :: tl) = Some tl.
Proof. intros. unfold peek_is. rewrite N.eqb_refl. auto. Qed.

Lemma efollow_follow : forall r, efollow r -> follow r.
Proof. destruct r; simpl; auto. intros. chars. Qed.

Lemma efollow_nows : forall r, efollow r -> nows_start r.
Proof. destruct r; simpl; auto. intros. chars. Qed.

Lemma parse_complete_mut :
  (forall v u, DVal v u -> forall f r, (length u < f)%nat -> follow r -> parse_val f (u ++ r) = Some (v, r)) /\
  (forall v u, DElem v u -> forall f r, (length u < f)%nat -> efollow r ->
      exists r', parse_val f (skip_ws (u ++ r)) = Some (v, r') /\ skip_ws r' = r) /\
  (forall vs u, DElems vs u -> forall f r, (length u + 1 < f)%nat -> parse_elems f (u ++ 93 :: r) = Some (vs, r)) /\
  (forall ms u, DMembers ms u -> forall f r, (length u + 1 < f)%nat -> parse_members f (u ++ 125 :: r) = Some (ms, r)).
Proof.
  apply D_mutind.
  - (* null *) intros f r L F. destruct f; [simpl in L; lia|]. reflexivity.
  - intros f r L F. destruct f; [simpl in L; lia|]. reflexivity.
  - intros f r L F. destruct f; [simpl in L; lia|]. reflexivity.
  - (* number *)
    intros neg ip fp ex t H f r L F. destruct f; [lia|].
    pose proof (parse_number_complete _ _ _ _ _ r H F) as PN.
    destruct (DNumber_head _ _ _ _ _ H) as [c [tl [A HC]]].
    rewrite A in *. simpl app. cbn [parse_val].
    assert (E1 : (c =? 91) = false) by (destruct HC; chars).
    assert (E2 : (c =? 123) = false) by (destruct HC; chars).
    assert (E3 : (c =? 34) = false) by (destruct HC; chars).
    assert (E4 : (c =? 110) = false) by (destruct HC; chars).
    assert (E5 : (c =? 116) = false) by (destruct HC; chars).
    assert (E6 : (c =? 102) = false) by (destruct HC; chars).
    rewrite E1, E2, E3, E4, E5, E6. exact PN.
  - (* string *)
    intros s t H f r L F. destruct f; [lia|]. inversion H; subst.
    simpl app. cbn [parse_val]. simpl. rewrite <- app_assoc. simpl.
    rewrite (parse_chars_complete _ _ H0). reflexivity.
  - (* [] *)
    intros w W f r L F. destruct f; [lia|]. simpl app. cbn [parse_val]. simpl.
    rewrite <- app_assoc. rewrite skip_ws_app by auto. simpl. reflexivity.
  - (* [elems] *)
    intros vs t H IH f r L F. destruct f; [lia|]. simpl app. cbn [parse_val]. simpl.
    rewrite <- app_assoc. simpl.
    destruct (DElems_head _ _ (93 :: r) H) as [c [tl [A B]]]. rewrite A.
    rewrite peek_is_cons_ne by auto.
    rewrite IH; auto. simpl in L. rewrite app_length in L. simpl in L. lia.
  - (* {} *)
    intros w W f r L F. destruct f; [lia|]. simpl app. cbn [parse_val]. simpl.
    rewrite <- app_assoc. rewrite skip_ws_app by auto. simpl. reflexivity.
  - (* {members} *)
    intros ms t H IH f r L F. destruct f; [lia|]. simpl app. cbn [parse_val]. simpl.
    rewrite <- app_assoc. simpl.
    destruct (DMembers_head _ _ (125 :: r) H) as [tl A]. rewrite A.
    rewrite peek_is_cons_ne by lia.
    rewrite IH; auto. simpl in L. rewrite app_length in L. simpl in L. lia.
  - (* element *)
    intros v w1 t w2 W1 H IH W2 f r L F.
    destruct (DVal_head _ _ H) as [c [tl [A [B _]]]].
    repeat rewrite <- app_assoc. rewrite skip_ws_app by auto.
    rewrite skip_ws_nows by (rewrite A; simpl; auto).
    exists (w2 ++ r). split.
    + apply IH.
      * repeat rewrite app_length in L. lia.
      * destruct w2 as [|x w2']; simpl.
        -- apply efollow_follow; auto.
        -- apply ws_inv in W2. destruct W2. chars.
    + rewrite skip_ws_app by auto. apply skip_ws_nows. apply efollow_nows; auto.
  - (* one element *)
    intros v t H IH f r L. destruct f; [lia|]. cbn [parse_elems].
    destruct (IH f (93 :: r)) as [r' [A B]]; [lia | reflexivity |].
    rewrite A, B. simpl. reflexivity.
  - (* more elements *)
    intros v t vs t' H IH H' IH' f r L. destruct f; [lia|]. cbn [parse_elems].
    rewrite <- app_assoc. simpl.
    rewrite app_length in L. simpl in L.
    destruct (IH f (44 :: t' ++ 93 :: r)) as [r' [A B]]; [lia | reflexivity |].
    rewrite A, B. simpl. rewrite IH'; auto. lia.
  - (* one member *)
    intros k v w1 tk w2 tv W1 HS W2 H IH f r L. destruct f; [lia|]. cbn [parse_members].
    inversion HS; subst.
    repeat (rewrite <- app_assoc; simpl). rewrite skip_ws_app by auto.
    rewrite skip_ws_nows by (simpl; reflexivity). rewrite peek_is_cons_eq.
    rewrite (parse_chars_complete _ _ H0).
    rewrite skip_ws_app by auto. rewrite skip_ws_nows by (simpl; reflexivity). rewrite peek_is_cons_eq.
    repeat first [rewrite app_length in L | progress cbn [length] in L].
    destruct (IH f (125 :: r)) as [r' [A B]]; [lia | reflexivity |].
    rewrite A, B. simpl. reflexivity.
  - (* more members *)
    intros k v w1 tk w2 tv ms t' W1 HS W2 H IH H' IH' f r L. destruct f; [lia|]. cbn [parse_members].
    inversion HS; subst.
    repeat (rewrite <- app_assoc; simpl). rewrite skip_ws_app by auto.
    rewrite skip_ws_nows by (simpl; reflexivity). rewrite peek_is_cons_eq.
    rewrite (parse_chars_complete _ _ H0).
    rewrite skip_ws_app by auto. rewrite skip_ws_nows by (simpl; reflexivity). rewrite peek_is_cons_eq.
    repeat first [rewrite app_length in L | progress cbn [length] in L].
    destruct (IH f (44 :: t' ++ 125 :: r)) as [r' [A B]]; [lia | reflexivity |].
    rewrite A, B. simpl. rewrite IH'; auto. lia.
Qed.
