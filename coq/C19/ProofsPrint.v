(* C19 — QuoteJSONString and the canonical printer produce derivable texts; round trips. *)
From Coq Require Import List NArith ZArith Bool Lia ZifyBool Arith.
Import ListNotations.
From Verif.C19 Require Import Model ProofsLex ProofsParse ProofsTop.
Local Open Scope N_scope.


(* ------------------------------------------------------------------ *)
(* \uXXXX *)

Lemma hexval_hexdig : forall n, n < 16 -> hexval (hexdig n) = Some n.
Proof.
  intros n H. unfold hexval, hexdig. destruct (n <? 10) eqn:E.
  - assert (D : is_digit (48 + n) = true) by chars. rewrite D. f_equal. lia.
  - assert (D : is_digit (87 + n) = false) by chars. rewrite D.
    assert (D2 : (97 <=? 87 + n) && (87 + n <=? 102) = true) by lia. rewrite D2. f_equal. lia.
Qed.

Lemma hexsplit : forall c, c < 65536 ->
  c / 4096 * 4096 + (c / 256) mod 16 * 256 + (c / 16) mod 16 * 16 + c mod 16 = c /\ c / 4096 < 16
  /\ (c / 256) mod 16 < 16 /\ (c / 16) mod 16 < 16 /\ c mod 16 < 16.
Proof.
  intros.
  assert (N16 : 16 <> 0) by lia. assert (N256 : 256 <> 0) by lia.
  pose proof (N.div_mod c 16 N16) as A1. pose proof (N.div_mod (c/16) 16 N16) as A2.
  pose proof (N.div_mod (c/256) 16 N16) as A3.
  pose proof (N.div_div c 16 16 N16 N16) as B1. pose proof (N.div_div c 256 16 N256 N16) as B2.
  pose proof (N.mod_upper_bound c 16 N16). pose proof (N.mod_upper_bound (c/16) 16 N16).
  pose proof (N.mod_upper_bound (c/256) 16 N16).
  change (16*16) with 256 in B1. change (256*16) with 4096 in B2.
  rewrite B1 in A2. rewrite B2 in A3.
  generalize dependent (c / 4096). generalize dependent ((c/256) mod 16). generalize dependent (c / 256).
  generalize dependent ((c/16) mod 16). generalize dependent (c / 16). generalize dependent (c mod 16).
  intros. lia.
Qed.

Lemma hex4_uesc : forall c, c < 65536 ->
  hex4 (hexdig (c / 4096)) (hexdig ((c / 256) mod 16)) (hexdig ((c / 16) mod 16)) (hexdig (c mod 16)) = Some c.
Proof.
  intros c H. unfold hex4. destruct (hexsplit c H) as [E [L1 [L2 [L3 L4]]]].
  rewrite (hexval_hexdig (c / 4096)) by auto.
  rewrite (hexval_hexdig ((c / 256) mod 16)) by auto.
  rewrite (hexval_hexdig ((c / 16) mod 16)) by auto.
  rewrite (hexval_hexdig (c mod 16)) by auto.
  f_equal. exact E.
Qed.

Lemma DChars_uesc : forall c s t, c < 65536 -> DChars s t -> DChars (c :: s) (uesc c ++ t).
Proof. intros c s t H D. unfold uesc. simpl. apply DC_uni; auto. apply hex4_uesc; auto. Qed.

Lemma DChars_quote_unit : forall c s t, is_hi c = false -> is_lo c = false -> DChars s t ->
  DChars (c :: s) (quote_unit c ++ t).
Proof.
  intros c s t Hh Hl D. unfold quote_unit.
  destruct (c =? 8) eqn:E1. { assert (c = 8) by lia. subst. simpl. apply DC_esc; auto. }
  destruct (c =? 9) eqn:E2. { assert (c = 9) by lia. subst. simpl. apply DC_esc; auto. }
  destruct (c =? 10) eqn:E3. { assert (c = 10) by lia. subst. simpl. apply DC_esc; auto. }
  destruct (c =? 12) eqn:E4. { assert (c = 12) by lia. subst. simpl. apply DC_esc; auto. }
  destruct (c =? 13) eqn:E5. { assert (c = 13) by lia. subst. simpl. apply DC_esc; auto. }
  destruct (c =? 34) eqn:E6. { assert (c = 34) by lia. subst. simpl. apply DC_esc; auto. }
  destruct (c =? 92) eqn:E7. { assert (c = 92) by lia. subst. simpl. apply DC_esc; auto. }
  destruct (c <? 32) eqn:E8.
  - apply DChars_uesc; auto. lia.
  - simpl. apply DC_plain; auto; lia.
Qed.

Lemma quote_body_cons : forall c r, quote_body (c :: r) =
  if is_hi c then
    match r with
    | d :: r' => if is_lo d then c :: d :: quote_body r' else uesc c ++ quote_body r
    | [] => uesc c
    end
  else if is_lo c then uesc c ++ quote_body r
  else quote_unit c ++ quote_body r.
Proof. reflexivity. Qed.

Lemma quote_body_chars_n : forall n s, (length s <= n)%nat -> DChars s (quote_body s).
Proof.
  induction n; intros s L.
  - destruct s; [constructor | simpl in L; lia].
  - destruct s as [|c r]; [constructor|]. simpl in L. rewrite quote_body_cons.
    destruct (is_hi c) eqn:Hh.
    + destruct r as [|d r'].
      * rewrite <- (app_nil_r (uesc c)). apply DChars_uesc; [chars | constructor].
      * destruct (is_lo d) eqn:Hl.
        -- simpl in L. apply DC_plain; [chars | chars | chars |].
           apply DC_plain; [chars | chars | chars |]. apply IHn. lia.
        -- apply DChars_uesc; [chars|]. apply IHn. lia.
    + destruct (is_lo c) eqn:Hl.
      * apply DChars_uesc; [chars|]. apply IHn. lia.
      * apply DChars_quote_unit; auto. apply IHn. lia.
Qed.

Lemma quote_body_chars : forall s, DChars s (quote_body s).
Proof. intros. eapply quote_body_chars_n; eauto. Qed.

Lemma quote_string : forall s, DString s (quote s).
Proof. intros. unfold quote. constructor. apply quote_body_chars. Qed.

(* QuoteJSONString followed by the string lexer is the identity, for EVERY unit list (lone surrogates included) *)
Lemma quote_roundtrip : forall s r, parse_chars (quote_body s ++ 34 :: r) = Some (s, r).
Proof. intros. apply parse_chars_complete. apply quote_body_chars. Qed.

(* ------------------------------------------------------------------ *)
(* the quoted text has no raw control character and is well-formed UTF-16 *)

Lemma hexdig_ge : forall n, 48 <= hexdig n.
Proof. intros. unfold hexdig. destruct (n <? 10); lia. Qed.

Lemma hexdig_lt : forall n, n < 16 -> hexdig n < 128.
Proof. intros. unfold hexdig. destruct (n <? 10) eqn:E; lia. Qed.

Lemma uesc_safe : forall c, Forall (fun x => 32 <= x) (uesc c).
Proof.
  intros. unfold uesc. repeat constructor; try lia;
  match goal with |- 32 <= hexdig ?n => pose proof (hexdig_ge n); lia end.
Qed.

Lemma quote_unit_safe : forall c, Forall (fun x => 32 <= x) (quote_unit c).
Proof.
  intros. unfold quote_unit.
  repeat match goal with |- context [if ?b then _ else _] => destruct b eqn:? end;
    try apply uesc_safe; repeat constructor; lia.
Qed.

Lemma quote_safe_n : forall n s, (length s <= n)%nat -> Forall (fun x => 32 <= x) (quote_body s).
Proof.
  induction n; intros s L.
  - destruct s; [constructor | simpl in L; lia].
  - destruct s as [|c r]; [constructor|]. simpl in L. rewrite quote_body_cons.
    destruct (is_hi c) eqn:Hh.
    + destruct r as [|d r'].
      * apply uesc_safe.
      * destruct (is_lo d) eqn:Hl.
        -- simpl in L. constructor; [chars|]. constructor; [chars|]. apply IHn. lia.
        -- apply Forall_app. split; [apply uesc_safe | apply IHn; lia].
    + destruct (is_lo c) eqn:Hl.
      * apply Forall_app. split; [apply uesc_safe | apply IHn; lia].
      * apply Forall_app. split; [apply quote_unit_safe | apply IHn; lia].
Qed.

Lemma quote_safe : forall s, Forall (fun x => 32 <= x) (quote_body s).
Proof. intros. eapply quote_safe_n; eauto. Qed.

Definition plain16 (x : N) : Prop := is_hi x = false /\ is_lo x = false.

Lemma wf_utf16_app_plain : forall pre rest, Forall plain16 pre -> wf_utf16 (pre ++ rest) = wf_utf16 rest.
Proof.
  induction pre as [|x pre IH]; intros rest H; simpl; auto.
  inversion H; subst. destruct H2 as [A B]. rewrite A, B. auto.
Qed.

Lemma uesc_plain : forall c, c < 65536 -> Forall plain16 (uesc c).
Proof.
  intros c H. unfold uesc. destruct (hexsplit c H) as [E [L1 [L2 [L3 L4]]]].
  pose proof (hexdig_lt (c / 4096) L1). pose proof (hexdig_lt ((c / 256) mod 16) L2).
  pose proof (hexdig_lt ((c / 16) mod 16) L3). pose proof (hexdig_lt (c mod 16) L4).
  repeat constructor; unfold plain16; try chars.
Qed.

Lemma quote_unit_plain : forall c, is_hi c = false -> is_lo c = false -> Forall plain16 (quote_unit c).
Proof.
  intros c Hh Hl. unfold quote_unit.
  repeat match goal with |- context [if ?b then _ else _] => destruct b eqn:? end;
    try (apply uesc_plain; lia); repeat constructor; unfold plain16; try chars; auto.
Qed.

Lemma quote_wellformed_n : forall n s, (length s <= n)%nat -> wf_utf16 (quote_body s) = true.
Proof.
  induction n; intros s L.
  - destruct s; [reflexivity | simpl in L; lia].
  - destruct s as [|c r]; [reflexivity|]. simpl in L. rewrite quote_body_cons.
    destruct (is_hi c) eqn:Hh.
    + destruct r as [|d r'].
      * rewrite <- (app_nil_r (uesc c)). rewrite wf_utf16_app_plain; auto. apply uesc_plain. chars.
      * destruct (is_lo d) eqn:Hl.
        -- simpl in L. simpl. rewrite Hh, Hl. simpl. apply IHn. lia.
        -- rewrite wf_utf16_app_plain; [apply IHn; lia | apply uesc_plain; chars].
    + destruct (is_lo c) eqn:Hl.
      * rewrite wf_utf16_app_plain; [apply IHn; lia | apply uesc_plain; chars].
      * rewrite wf_utf16_app_plain; [apply IHn; lia | apply quote_unit_plain; auto].
Qed.

Lemma quote_wellformed : forall s, wf_utf16 (quote_body s) = true.
Proof. intros. eapply quote_wellformed_n; eauto. Qed.
