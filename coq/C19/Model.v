(* C19 — JSON.parse / JSON.stringify.  Executable definitions and the grammar relation only;
   no proofs in this file.

   Texts are lists of UTF-16 code units ([N]).  Part 1 is the lexical layer: JSON values that keep the
   lexical parts of numbers, the ECMA-404 / ECMA-262 JSON grammar as an inductive relation [Derives],
   a recursive-descent parser [parse], QuoteJSONString [quote_body] and the canonical printer
   [print_g] (with or without gap).  Part 2 is the ECMAScript side: what JSON.parse returns
   ([to_js]: duplicate keys, "__proto__", integer-like keys), and SerializeJSONProperty /
   SerializeJSONObject / SerializeJSONArray over a small universe of JS values ([ser], [stringify]). *)
From Coq Require Import List NArith ZArith Bool.
Require Verif.Base.F64.
Require Verif.C12.Model.      (* the executable Number::toString specification (proved in coq/C12/Proofs.v) *)
Import ListNotations.
Local Open Scope N_scope.

Definition text := list N.

(* ------------------------------------------------------------------ *)
(* characters *)

Definition is_ws (c : N) : bool := (c =? 9) || (c =? 10) || (c =? 13) || (c =? 32).
Definition is_digit (c : N) : bool := (48 <=? c) && (c <=? 57).
Definition is_digit19 (c : N) : bool := (49 <=? c) && (c <=? 57).

Definition hexval (c : N) : option N :=
  if is_digit c then Some (c - 48)
  else if (97 <=? c) && (c <=? 102) then Some (c - 87)
  else if (65 <=? c) && (c <=? 70) then Some (c - 55)
  else None.

Definition hex4 (a b c d : N) : option N :=
  match hexval a, hexval b, hexval c, hexval d with
  | Some x, Some y, Some z, Some w => Some (x * 4096 + y * 256 + z * 16 + w)
  | _, _, _, _ => None
  end.

(* the eight simple escapes: the character after the backslash -> the unit it denotes *)
Definition esc_of (e : N) : option N :=
  if e =? 34 then Some 34 else if e =? 92 then Some 92 else if e =? 47 then Some 47
  else if e =? 98 then Some 8 else if e =? 102 then Some 12 else if e =? 110 then Some 10
  else if e =? 114 then Some 13 else if e =? 116 then Some 9 else None.

(* ------------------------------------------------------------------ *)
(* JSON values, numbers kept as their lexical parts *)

Inductive json :=
| JNull
| JBool (b : bool)
| JNum (neg : bool) (ip fp : list N) (ex : option (bool * list N))
| JStr (s : list N)
| JArr (l : list json)
| JObj (l : list (list N * json)).

(* ------------------------------------------------------------------ *)
(* S: the grammar (ECMA-404; ECMA-262 JSON.parse) *)

Definition ws (w : text) : Prop := forallb is_ws w = true.

Definition int_okb (ip : list N) : bool :=
  match ip with
  | [] => false
  | c :: ds => if c =? 48 then (match ds with [] => true | _ => false end)
               else is_digit19 c && forallb is_digit ds
  end.

Inductive DSign : bool -> text -> Prop :=
| DSign_minus : DSign true [45]
| DSign_plus : DSign false [43]
| DSign_none : DSign false [].

Inductive DExp : option (bool * list N) -> text -> Prop :=
| DExp_none : DExp None []
| DExp_some : forall e sgn st ds, (e = 101 \/ e = 69) -> DSign sgn st -> ds <> [] ->
    forallb is_digit ds = true -> DExp (Some (sgn, ds)) (e :: st ++ ds).

(* -? (0 | [1-9][0-9]* ) ( . [0-9]+ )? ( [eE] [+-]? [0-9]+ )? *)
Inductive DNumber : bool -> list N -> list N -> option (bool * list N) -> text -> Prop :=
| DNumber_intro : forall neg ip fp ex te,
    int_okb ip = true -> forallb is_digit fp = true -> DExp ex te ->
    DNumber neg ip fp ex
      ((if neg then [45] else []) ++ ip ++ (match fp with [] => [] | _ => 46 :: fp end) ++ te).

(* characters between the quotes *)
Inductive DChars : list N -> text -> Prop :=
| DC_nil : DChars [] []
| DC_plain : forall c s t, (32 <=? c) = true -> c <> 34 -> c <> 92 -> DChars s t -> DChars (c :: s) (c :: t)
| DC_esc : forall e u s t, esc_of e = Some u -> DChars s t -> DChars (u :: s) (92 :: e :: t)
| DC_uni : forall a b c d u s t, hex4 a b c d = Some u -> DChars s t ->
    DChars (u :: s) (92 :: 117 :: a :: b :: c :: d :: t).

Inductive DString : list N -> text -> Prop :=
| DString_intro : forall s body, DChars s body -> DString s (34 :: body ++ [34]).

Inductive DVal : json -> text -> Prop :=
| DV_null : DVal JNull [110; 117; 108; 108]
| DV_true : DVal (JBool true) [116; 114; 117; 101]
| DV_false : DVal (JBool false) [102; 97; 108; 115; 101]
| DV_num : forall neg ip fp ex t, DNumber neg ip fp ex t -> DVal (JNum neg ip fp ex) t
| DV_str : forall s t, DString s t -> DVal (JStr s) t
| DV_arr0 : forall w, ws w -> DVal (JArr []) (91 :: w ++ [93])
| DV_arr : forall vs t, DElems vs t -> DVal (JArr vs) (91 :: t ++ [93])
| DV_obj0 : forall w, ws w -> DVal (JObj []) (123 :: w ++ [125])
| DV_obj : forall ms t, DMembers ms t -> DVal (JObj ms) (123 :: t ++ [125])
(* element = ws value ws *)
with DElem : json -> text -> Prop :=
| DE_intro : forall v w1 t w2, ws w1 -> DVal v t -> ws w2 -> DElem v (w1 ++ t ++ w2)
(* elements = element | element ',' elements   (non-empty) *)
with DElems : list json -> text -> Prop :=
| DEs_one : forall v t, DElem v t -> DElems [v] t
| DEs_cons : forall v t vs t', DElem v t -> DElems vs t' -> DElems (v :: vs) (t ++ 44 :: t')
(* member = ws string ws ':' element ;  members non-empty *)
with DMembers : list (list N * json) -> text -> Prop :=
| DMs_one : forall k v w1 tk w2 tv, ws w1 -> DString k tk -> ws w2 -> DElem v tv ->
    DMembers [(k, v)] (w1 ++ tk ++ w2 ++ 58 :: tv)
| DMs_cons : forall k v w1 tk w2 tv ms t', ws w1 -> DString k tk -> ws w2 -> DElem v tv ->
    DMembers ms t' -> DMembers ((k, v) :: ms) ((w1 ++ tk ++ w2 ++ 58 :: tv) ++ 44 :: t').

(* a JSON text *)
Definition Derives (v : json) (t : text) : Prop := DElem v t.

(* ------------------------------------------------------------------ *)
(* the parser *)

Fixpoint skip_ws (t : text) : text :=
  match t with
  | c :: r => if is_ws c then skip_ws r else t
  | [] => []
  end.

Fixpoint span_digits (t : text) : list N * text :=
  match t with
  | c :: r => if is_digit c then let (ds, r') := span_digits r in (c :: ds, r') else ([], t)
  | [] => ([], [])
  end.

Definition lex_int (t : text) : option (list N * text) :=
  match t with
  | [] => None
  | c :: r => if c =? 48 then Some ([48], r)
              else if is_digit19 c then let (ds, r') := span_digits r in Some (c :: ds, r')
              else None
  end.

Definition lex_frac (t : text) : option (list N * text) :=
  match t with
  | c :: r => if c =? 46 then
                match span_digits r with
                | ([], _) => None
                | (ds, r') => Some (ds, r')
                end
              else Some ([], t)
  | [] => Some ([], t)
  end.

Definition lex_sign (t : text) : bool * text :=
  match t with
  | c :: r => if c =? 45 then (true, r) else if c =? 43 then (false, r) else (false, t)
  | [] => (false, t)
  end.

Definition lex_exp (t : text) : option (option (bool * list N) * text) :=
  match t with
  | c :: r => if (c =? 101) || (c =? 69) then
                let (sgn, r1) := lex_sign r in
                match span_digits r1 with
                | ([], _) => None
                | (ds, r2) => Some (Some (sgn, ds), r2)
                end
              else Some (None, t)
  | [] => Some (None, t)
  end.

Definition lex_minus (t : text) : bool * text :=
  match t with
  | c :: r => if c =? 45 then (true, r) else (false, t)
  | [] => (false, t)
  end.

Definition parse_number (t : text) : option (json * text) :=
  let (neg, t0) := lex_minus t in
  match lex_int t0 with
  | None => None
  | Some (ip, t1) =>
    match lex_frac t1 with
    | None => None
    | Some (fp, t2) =>
      match lex_exp t2 with
      | None => None
      | Some (ex, t3) => Some (JNum neg ip fp ex, t3)
      end
    end
  end.

(* after the opening quote; consumes the closing quote *)
Fixpoint parse_chars (t : text) : option (list N * text) :=
  match t with
  | [] => None
  | c :: t1 =>
    if c =? 34 then Some ([], t1)
    else if c =? 92 then
      match t1 with
      | [] => None
      | e :: t2 =>
        if e =? 117 then
          match t2 with
          | a :: b :: c' :: d :: t3 =>
            match hex4 a b c' d with
            | Some u => match parse_chars t3 with Some (s, r) => Some (u :: s, r) | None => None end
            | None => None
            end
          | _ => None
          end
        else
          match esc_of e with
          | Some u => match parse_chars t2 with Some (s, r) => Some (u :: s, r) | None => None end
          | None => None
          end
      end
    else if 32 <=? c then
      match parse_chars t1 with Some (s, r) => Some (c :: s, r) | None => None end
    else None
  end.

Fixpoint strip_prefix (p t : text) : option text :=
  match p with
  | [] => Some t
  | c :: p' => match t with
               | d :: t' => if d =? c then strip_prefix p' t' else None
               | [] => None
               end
  end.

Definition peek_is (c : N) (t : text) : option text :=
  match t with
  | d :: r => if d =? c then Some r else None
  | [] => None
  end.

Fixpoint parse_val (fuel : nat) (t : text) : option (json * text) :=
  match fuel with
  | O => None
  | S f =>
    match t with
    | [] => None
    | c :: t1 =>
      if c =? 91 then
        match peek_is 93 (skip_ws t1) with
        | Some r => Some (JArr [], r)
        | None => match parse_elems f t1 with
                  | Some (vs, r) => Some (JArr vs, r)
                  | None => None
                  end
        end
      else if c =? 123 then
        match peek_is 125 (skip_ws t1) with
        | Some r => Some (JObj [], r)
        | None => match parse_members f t1 with
                  | Some (ms, r) => Some (JObj ms, r)
                  | None => None
                  end
        end
      else if c =? 34 then
        match parse_chars t1 with Some (s, r) => Some (JStr s, r) | None => None end
      else if c =? 110 then
        match strip_prefix [117; 108; 108] t1 with Some r => Some (JNull, r) | None => None end
      else if c =? 116 then
        match strip_prefix [114; 117; 101] t1 with Some r => Some (JBool true, r) | None => None end
      else if c =? 102 then
        match strip_prefix [97; 108; 115; 101] t1 with Some r => Some (JBool false, r) | None => None end
      else parse_number t
    end
  end
(* element (',' element)* ']'   — consumes the closing bracket *)
with parse_elems (fuel : nat) (t : text) : option (list json * text) :=
  match fuel with
  | O => None
  | S f =>
    match parse_val f (skip_ws t) with
    | None => None
    | Some (v, r) =>
      match skip_ws r with
      | [] => None
      | d :: r2 =>
        if d =? 44 then
          match parse_elems f r2 with
          | Some (vs, r3) => Some (v :: vs, r3)
          | None => None
          end
        else if d =? 93 then Some ([v], r2)
        else None
      end
    end
  end
(* member (',' member)* '}'   — consumes the closing brace *)
with parse_members (fuel : nat) (t : text) : option (list (list N * json) * text) :=
  match fuel with
  | O => None
  | S f =>
    match peek_is 34 (skip_ws t) with
    | None => None
    | Some t1 =>
      match parse_chars t1 with
      | None => None
      | Some (k, t2) =>
        match peek_is 58 (skip_ws t2) with
        | None => None
        | Some t3 =>
          match parse_val f (skip_ws t3) with
          | None => None
          | Some (v, r) =>
            match skip_ws r with
            | [] => None
            | d :: r2 =>
              if d =? 44 then
                match parse_members f r2 with
                | Some (ms, r3) => Some ((k, v) :: ms, r3)
                | None => None
                end
              else if d =? 125 then Some ([(k, v)], r2)
              else None
            end
          end
        end
      end
    end
  end.

(* JSON.parse's syntactic part: [None] = SyntaxError.  Fuel = input length + 1. *)
Definition parse (t : text) : option json :=
  match parse_val (S (length t)) (skip_ws t) with
  | Some (v, r) => match skip_ws r with [] => Some v | _ => None end
  | None => None
  end.

(* ------------------------------------------------------------------ *)
(* QuoteJSONString *)

Definition is_hi (c : N) : bool := (55296 <=? c) && (c <=? 56319).   (* D800..DBFF *)
Definition is_lo (c : N) : bool := (56320 <=? c) && (c <=? 57343).   (* DC00..DFFF *)

Definition hexdig (n : N) : N := if n <? 10 then 48 + n else 87 + n.   (* lower case *)

Definition uesc (c : N) : text :=
  [92; 117; hexdig (c / 4096); hexdig ((c / 256) mod 16); hexdig ((c / 16) mod 16); hexdig (c mod 16)].

Definition quote_unit (c : N) : text :=
  if c =? 8 then [92; 98] else if c =? 9 then [92; 116] else if c =? 10 then [92; 110]
  else if c =? 12 then [92; 102] else if c =? 13 then [92; 114]
  else if c =? 34 then [92; 34] else if c =? 92 then [92; 92]
  else if c <? 32 then uesc c
  else [c].

Fixpoint quote_body (s : list N) : text :=
  match s with
  | [] => []
  | c :: r =>
    if is_hi c then
      match r with
      | d :: r' => if is_lo d then c :: d :: quote_body r' else uesc c ++ quote_body r
      | [] => uesc c
      end
    else if is_lo c then uesc c ++ quote_body r
    else quote_unit c ++ quote_body r
  end.

Definition quote (s : list N) : text := 34 :: quote_body s ++ [34].

(* ------------------------------------------------------------------ *)
(* canonical printer of JSON values (what SerializeJSON* does on JSON-shaped values) *)

Fixpoint join (sep : text) (items : list text) : text :=
  match items with
  | [] => []
  | x :: r => match r with [] => x | _ => x ++ sep ++ join sep r end
  end.

(* open pre item (',' pre item)* post close ;  empty list: open close *)
Definition wrap (o c : N) (pre post : text) (items : list text) : text :=
  match items with
  | [] => [o; c]
  | _ => o :: pre ++ join (44 :: pre) items ++ post ++ [c]
  end.

Definition nl_pre (gap ind : text) : text := match gap with [] => [] | _ => 10 :: ind end.
Definition colon (gap : text) : text := match gap with [] => [58] | _ => [58; 32] end.

Definition print_exp (ex : option (bool * list N)) : text :=
  match ex with
  | None => []
  | Some (sgn, ds) => 101 :: (if sgn then 45 else 43) :: ds      (* e-7, e+21 as Number::toString writes *)
  end.

Definition print_num (neg : bool) (ip fp : list N) (ex : option (bool * list N)) : text :=
  (if neg then [45] else []) ++ ip ++ (match fp with [] => [] | _ => 46 :: fp end) ++ print_exp ex.

Fixpoint print_g (gap ind : text) (v : json) : text :=
  match v with
  | JNull => [110; 117; 108; 108]
  | JBool true => [116; 114; 117; 101]
  | JBool false => [102; 97; 108; 115; 101]
  | JNum neg ip fp ex => print_num neg ip fp ex
  | JStr s => quote s
  | JArr l => wrap 91 93 (nl_pre gap (ind ++ gap)) (nl_pre gap ind)
                (map (print_g gap (ind ++ gap)) l)
  | JObj l => wrap 123 125 (nl_pre gap (ind ++ gap)) (nl_pre gap ind)
                (map (fun kv => quote (fst kv) ++ colon gap ++ print_g gap (ind ++ gap) (snd kv)) l)
  end.

Definition print (v : json) : text := print_g [] [] v.

(* well-formed JSON value: the lexical parts of its numbers are legal *)

Definition exp_okb (ex : option (bool * list N)) : bool :=
  match ex with
  | None => true
  | Some (_, ds) => match ds with [] => false | _ => forallb is_digit ds end
  end.

Fixpoint wf_json (v : json) : bool :=
  match v with
  | JNull | JBool _ => true
  | JNum _ ip fp ex => int_okb ip && forallb is_digit fp && exp_okb ex
  | JStr _ => true
  | JArr l => forallb wf_json l
  | JObj l => forallb (fun kv => wf_json (snd kv)) l
  end.

(* well-formed UTF-16: every surrogate is half of a pair *)
Fixpoint wf_utf16 (s : list N) : bool :=
  match s with
  | [] => true
  | c :: r =>
    if is_hi c then match r with d :: r' => is_lo d && wf_utf16 r' | [] => false end
    else if is_lo c then false
    else wf_utf16 r
  end.

(* ------------------------------------------------------------------ *)
(* Part 2.  What JSON.parse returns (InternalizeJSONProperty without reviver) *)

Fixpoint list_eqb (a b : list N) : bool :=
  match a, b with
  | [], [] => true
  | x :: a', y :: b' => (x =? y) && list_eqb a' b'
  | _, _ => false
  end.

(* CreateDataProperty on an ordinary object: an existing key keeps its position, takes the new value *)
Fixpoint upsert {A} (k : list N) (v : A) (l : list (list N * A)) : list (list N * A) :=
  match l with
  | [] => [(k, v)]
  | (k', v') :: r => if list_eqb k k' then (k', v) :: r else (k', v') :: upsert k v r
  end.

Definition dedupe {A} (l : list (list N * A)) : list (list N * A) :=
  fold_left (fun acc kv => upsert (fst kv) (snd kv) acc) l [].

Definition digits_val (ds : list N) : N := fold_left (fun a c => 10 * a + (c - 48)) ds 0.

(* array index: canonical decimal string of an integer < 2^32 - 1 *)
Definition arr_index (k : list N) : option N :=
  if int_okb k && (length k <=? 10)%nat then
    let n := digits_val k in if n <? 4294967295 then Some n else None
  else None.

Fixpoint insert_idx {A} (i : N) (x : A) (l : list (N * A)) : list (N * A) :=
  match l with
  | [] => [(i, x)]
  | (j, y) :: r => if i <? j then (i, x) :: l else (j, y) :: insert_idx i x r
  end.

(* OrdinaryOwnPropertyKeys: array indices ascending, then strings in creation order *)
Definition order_props {A} (l : list (list N * A)) : list (list N * A) :=
  let idx := fold_left (fun acc kv => match arr_index (fst kv) with
                                      | Some i => insert_idx i kv acc
                                      | None => acc end) l [] in
  map snd idx ++ filter (fun kv => match arr_index (fst kv) with Some _ => false | None => true end) l.

Definition norm_props {A} (l : list (list N * A)) : list (list N * A) := order_props (dedupe l).

(* the numeric value of a JSON number: (negative?, mantissa, decimal exponent) = ± m * 10^e, exact *)
Definition exp_val (ex : option (bool * list N)) : Z :=
  match ex with
  | None => 0%Z
  | Some (sgn, ds) => let e := Z.of_N (digits_val ds) in if sgn then Z.opp e else e
  end.

Inductive pval :=
| PNull | PBool (b : bool) | PNum (neg : bool) (m : N) (e : Z) | PStr (s : list N)
| PArr (l : list pval) | PObj (l : list (list N * pval)).

Fixpoint to_js (v : json) : pval :=
  match v with
  | JNull => PNull
  | JBool b => PBool b
  | JNum neg ip fp ex => PNum neg (digits_val (ip ++ fp)) (exp_val ex - Z.of_nat (length fp))
  | JStr s => PStr s
  | JArr l => PArr (map to_js l)
  | JObj l => PObj (norm_props (map (fun kv => (fst kv, to_js (snd kv))) l))
  end.

(* ------------------------------------------------------------------ *)
(* JSON.stringify over a universe of JS values *)

(* numbers whose Number::toString is simple: quarter-integers z/4 of moderate size, -0, NaN, ±Infinity *)
Inductive num := NQ (z : Z) | NNegZero | NNaN | NInf (neg : bool)
               | NBits (b : N).     (* ANY double, given by its binary64 bit pattern *)

Definition f64_of_bits (b : N) : Verif.Base.F64.f64 := Verif.Base.F64.of_bits (Z.of_N b).

(* Number::toString of an arbitrary double: property C12's specification (shortest round-trip digits and
   the ECMAScript layout: exponent form from 1e21 and below 1e-6) *)
Definition bits_tostring (b : N) : list N :=
  map Z.to_N (Verif.C12.Model.to_string (f64_of_bits b)).

Fixpoint dec_digits_aux (fuel : nat) (n : N) (acc : list N) : list N :=
  match fuel with
  | O => acc
  | S f => let acc' := (48 + n mod 10) :: acc in
           if n / 10 =? 0 then acc' else dec_digits_aux f (n / 10) acc'
  end.
Definition dec_digits (n : N) : list N := dec_digits_aux (S (N.size_nat n)) n [].

Definition quarter_frac (r : N) : list N :=
  if r =? 0 then [] else if r =? 1 then [50; 53] else if r =? 2 then [53] else [55; 53].

(* lexical parts of the Number::toString of z/4 (valid below 10^21) *)
Definition nq_json (z : Z) : json :=
  let a := Z.to_N (Z.abs z) in
  JNum (Z.ltb z 0) (dec_digits (a / 4)) (quarter_frac (a mod 4)) None.

Definition num_tostring (n : num) : text :=
  match n with
  | NQ z => print (nq_json z)
  | NNegZero => [48]
  | NNaN => [78; 97; 78]
  | NInf neg => (if neg then [45] else []) ++ [73; 110; 102; 105; 110; 105; 116; 121]
  | NBits b => bits_tostring b
  end.

Inductive jv :=
| VUndef | VNull | VBool (b : bool) | VNum (n : num) | VStr (s : list N) | VBigInt | VSym | VFun
| VBoxNum (n : num) | VBoxStr (s : list N) | VBoxBool (b : bool) | VBoxBigInt | VBoxSym
| VArr (l : list jv)                       (* a hole reads as undefined: written VUndef *)
| VObj (l : list (list N * jv))            (* own enumerable string-keyed data properties, in assignment order *)
| VCyc (up : nat)                          (* a reference to an enclosing array/object *)
| VToJSON (k : N) (inner : jv).            (* object whose only property is toJSON = family member k:
                                              0: returns [inner]; 1: returns its key argument; else undefined *)

(* replacer argument *)
Inductive repl := RNone | RList (l : list jv) | RFun (k : N).
(* function replacers: 0: (k,v) => v ; 1: (k,v) => k === "a" ? undefined : v ;
   2: (k,v) => typeof v === "number" ? "#" + k : v *)

(* result of serialising one property: None = TypeError thrown; Some None = undefined *)
Definition sres := option (option text).

Definition str_a : list N := [97].

Definition rf_drops (rf : option N) (key : list N) : bool :=
  match rf with Some 1 => list_eqb key str_a | _ => false end.

Definition str_proto : list N := [95; 95; 112; 114; 111; 116; 111; 95; 95].

Definition selects_proto (pl : option (list (list N))) : bool :=
  match pl with Some ks => existsb (list_eqb str_proto) ks | None => false end.

(* Under a property list K the members are read with [[Get]], which also sees the inherited accessor
   "__proto__".  An object without own selected properties that has [n] prototype objects above it (the last
   one Object.prototype, whose __proto__ is null) is therefore written {"__proto__": ... } when K selects
   "__proto__", and {} otherwise.  (Other inherited properties an allow-list could name are functions, which
   are skipped; allow-lists naming accessors such as Symbol.prototype.description are outside the model.) *)
Fixpoint proto_chain_text (n : nat) (gap ind : text) : text :=
  let ind' := ind ++ gap in
  wrap 123 125 (nl_pre gap ind') (nl_pre gap ind)
    [quote str_proto ++ colon gap ++
     match n with O => [110; 117; 108; 108] | S m => proto_chain_text m gap ind' end].

Definition bare_object_text (pl : option (list (list N))) (n : nat) (gap ind : text) : text :=
  if selects_proto pl then proto_chain_text n gap ind else [123; 125].

(* a non-container value after toJSON: apply the function replacer, unwrap primitive wrappers, serialise.
   A Symbol wrapper is an ordinary object without serialisable own properties. *)
Definition ser_leaf (pl : option (list (list N))) (rf : option N) (gap ind : text)
                    (key : list N) (v : jv) : sres :=
  if rf_drops rf key then Some None else
  let v1 := match rf, v with
            | Some 2, VNum _ => VStr (35 :: key)
            | _, _ => v
            end in
  match v1 with
  | VNull => Some (Some [110; 117; 108; 108])
  | VBool true | VBoxBool true => Some (Some [116; 114; 117; 101])
  | VBool false | VBoxBool false => Some (Some [102; 97; 108; 115; 101])
  | VStr s | VBoxStr s => Some (Some (quote s))
  | VNum n | VBoxNum n =>
    match n with
    | NQ z => Some (Some (print (nq_json z)))
    | NNegZero => Some (Some [48])
    | NNaN | NInf _ => Some (Some [110; 117; 108; 108])
    | NBits b => if Verif.Base.F64.is_finite (f64_of_bits b) then Some (Some (bits_tostring b))
                 else Some (Some [110; 117; 108; 108])
    end
  | VBigInt | VBoxBigInt => None
  | VUndef | VSym | VFun => Some None
  | VBoxSym => Some (Some (bare_object_text pl 2 gap ind))
  | VCyc _ => None
  | VToJSON _ _ => Some (Some (bare_object_text pl 1 gap ind))   (* its only own property is a function *)
  | VArr _ | VObj _ => Some None               (* not reached: containers are handled by [ser] *)
  end.

Fixpoint lookup {A} (k : list N) (l : list (list N * A)) (d : A) : A :=
  match l with
  | [] => d
  | (k', v) :: r => if list_eqb k k' then v else lookup k r d
  end.

(* sequence member results: TypeError aborts, undefined members are skipped *)
Fixpoint collect_members (gap : text) (l : list (list N * sres)) : option (list text) :=
  match l with
  | [] => Some []
  | (k, r) :: rest =>
    match r with
    | None => None
    | Some None => collect_members gap rest
    | Some (Some t) => match collect_members gap rest with
                       | None => None
                       | Some ts => Some ((quote k ++ colon gap ++ t) :: ts)
                       end
    end
  end.

Fixpoint collect_elems (l : list sres) : option (list text) :=
  match l with
  | [] => Some []
  | r :: rest =>
    match r with
    | None => None
    | Some o => match collect_elems rest with
                | None => None
                | Some ts => Some ((match o with Some t => t | None => [110; 117; 108; 108] end) :: ts)
                end
    end
  end.

(* SerializeJSONProperty(key, holder) where holder[key] = v.  [tj]: the toJSON step is still to be done. *)
Fixpoint ser (pl : option (list (list N))) (rf : option N) (gap ind : text)
             (tj : bool) (key : list N) (v : jv) {struct v} : sres :=
  match v with
  | VToJSON k inner =>
    if tj then
      (if k =? 0 then ser pl rf gap ind false key inner
       else if k =? 1 then ser_leaf pl rf gap ind key (VStr key)
       else ser_leaf pl rf gap ind key VUndef)
    else ser_leaf pl rf gap ind key v
  | VArr l =>
    if rf_drops rf key then Some None else
    let ind' := ind ++ gap in
    match collect_elems
            ((fix go (i : N) (l : list jv) : list sres :=
                match l with
                | [] => []
                | x :: r => ser pl rf gap ind' true (dec_digits i) x :: go (i + 1) r
                end) 0 l) with
    | None => None
    | Some items => Some (Some (wrap 91 93 (nl_pre gap ind') (nl_pre gap ind) items))
    end
  | VObj l =>
    if rf_drops rf key then Some None else
    let ind' := ind ++ gap in
    let rs := norm_props (map (fun kv => (fst kv, ser pl rf gap ind' true (fst kv) (snd kv))) l) in
    let sel := match pl with
               | Some ks => map (fun k => (k, lookup k rs
                                                (if list_eqb k str_proto
                                                 then Some (Some (proto_chain_text 0 gap ind'))
                                                 else ser_leaf pl rf gap ind' k VUndef))) ks
               | None => rs
               end in
    match collect_members gap sel with
    | None => None
    | Some items => Some (Some (wrap 123 125 (nl_pre gap ind') (nl_pre gap ind) items))
    end
  | _ => ser_leaf pl rf gap ind key v
  end.

(* the property list of an array replacer *)
Fixpoint add_unique (k : list N) (l : list (list N)) : list (list N) :=
  match l with
  | [] => [k]
  | x :: r => if list_eqb k x then l else x :: add_unique k r
  end.

Definition prop_list (l : list jv) : list (list N) :=
  fold_left (fun acc e => match e with
                          | VStr s | VBoxStr s => add_unique s acc
                          | VNum n | VBoxNum n => add_unique (num_tostring n) acc
                          | _ => acc
                          end) l [].

(* the gap of a space argument *)
Definition gap_of (space : jv) : text :=
  match space with
  | VNum n | VBoxNum n =>
    match n with
    | NQ z => let k := Z.min 10 (Z.quot z 4) in repeat 32 (Z.to_nat k)
    | NInf false => repeat 32 10
    | NBits b =>
      let x := f64_of_bits b in
      match Verif.Base.F64.trunc_Z x with
      | Some k => repeat 32 (Z.to_nat (Z.min 10 k))
      | None => if Verif.Base.F64.is_inf x && negb (Verif.Base.F64.sign_bit x) then repeat 32 10 else repeat 32 0
      end
    | _ => []
    end
  | VStr s | VBoxStr s => firstn 10 s
  | _ => []
  end.

Inductive sout := SText (t : text) | SUndef | SThrow.

Definition sout_of (r : sres) : sout :=
  match r with None => SThrow | Some None => SUndef | Some (Some t) => SText t end.

Definition stringify (v : jv) (r : repl) (space : jv) : sout :=
  let pl := match r with RList l => Some (prop_list l) | _ => None end in
  let rf := match r with RFun k => Some k | _ => None end in
  sout_of (ser pl rf (gap_of space) [] true [] v).

Definition stringify_plain (v : jv) : sout := stringify v RNone VUndef.

(* Object.MarshalJSON: stringify without replacer and gap; undefined is written as null *)
Definition marshal (v : jv) : sout :=
  match stringify v RNone VUndef with
  | SUndef => SText [110; 117; 108; 108]
  | x => x
  end.

(* A history of serialisations on one runtime through the Go API / a script; every result is RETAINED by the caller.
   The specification has no state: the value returned by a step is a function of that step alone, and stays what it
   was whatever is serialised afterwards (the bytes returned by Object.MarshalJSON belong to the caller). *)
Inductive hstep := HMarshal (v : jv) | HStringify (v : jv).

Definition step_result (s : hstep) : sout :=
  match s with
  | HMarshal v => marshal v
  | HStringify v => stringify v RNone VUndef
  end.

Definition run_history (h : list hstep) : list sout := map step_result h.

(* JSON-shaped JS values (what JSON.parse can return, numbers restricted to the modelled ones) and the
   JSON value they denote; object members in OrdinaryOwnPropertyKeys order *)
Fixpoint json_shaped (v : jv) : bool :=
  match v with
  | VNull | VBool _ | VStr _ => true
  | VNum (NQ _) | VNum NNegZero => true
  | VArr l => forallb json_shaped l
  | VObj l => forallb (fun kv => json_shaped (snd kv)) l
  | _ => false
  end.

Fixpoint to_json (v : jv) : json :=
  match v with
  | VBool b => JBool b
  | VNum (NQ z) => nq_json z
  | VNum NNegZero => JNum false [48] [] None
  | VStr s => JStr s
  | VArr l => JArr (map to_json l)
  | VObj l => JObj (norm_props (map (fun kv => (fst kv, to_json (snd kv))) l))
  | _ => JNull
  end.
