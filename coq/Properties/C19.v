(* C19 — JSON.parse and JSON.stringify conform to the JSON grammar and round-trip.
   ONLY theorem statements; each is closed by [exact] of a lemma of C19/Proofs*.v.
   Texts are lists of UTF-16 code units; [Derives] is the ECMA-404 / ECMA-262 JSON grammar written as an
   inductive relation (coq/C19/Model.v), [parse] the model's JSON.parse (None = SyntaxError), [print_g] /
   [print] / [quote_body] the model's SerializeJSON* / QuoteJSONString on JSON values. *)
From Coq Require Import List NArith ZArith Bool.
Import ListNotations.
From Verif.C19 Require Import Model Proofs.
Local Open Scope N_scope.

(* 1. parse accepts EXACTLY the grammar, for every text (white space in every position included):
      whatever it returns is derivable, and every derivable text is accepted with that value. *)
Theorem parse_sound : forall t v, parse t = Some v -> Derives v t.
Proof. exact Proofs.parse_sound. Qed.

Theorem parse_complete : forall t v, Derives v t -> parse t = Some v.
Proof. exact Proofs.parse_complete. Qed.

Theorem parse_iff_derives : forall t v, parse t = Some v <-> Derives v t.
Proof. exact Proofs.parse_iff_derives. Qed.

(* every text outside the grammar is rejected (SyntaxError) *)
Theorem parse_rejects : forall t, (forall v, ~ Derives v t) -> parse t = None.
Proof. exact Proofs.parse_rejects. Qed.

(* a text denotes at most one value *)
Theorem derives_functional : forall t v1 v2, Derives v1 t -> Derives v2 t -> v1 = v2.
Proof. exact Proofs.derives_functional. Qed.

Example parse_sound_nonvacuous :
  parse [32; 123; 34; 97; 34; 58; 91; 49; 44; 32; 45; 48; 46; 53; 101; 43; 50; 93; 125; 10]
  = Some (JObj [([97], JArr [JNum false [49] [] None; JNum true [48] [53] (Some (false, [50]))])]).
Proof. vm_compute. reflexivity. Qed.

Example parse_rejects_trailing_comma : parse [91; 49; 44; 93] = None.        (* [1,] *)
Proof. vm_compute. reflexivity. Qed.
Example parse_rejects_leading_zero : parse [48; 49] = None.                   (* 01 *)
Proof. vm_compute. reflexivity. Qed.
Example parse_rejects_vtab : parse [11; 49] = None.                           (* \v1 *)
Proof. vm_compute. reflexivity. Qed.

(* 2. round trip: the serialiser's text (with any white-space gap, or none) parses back to the same value,
      for every JSON value whose numbers are lexically legal *)
Theorem parse_print_gap_roundtrip : forall v gap, wf_json v = true -> ws gap ->
  parse (print_g gap [] v) = Some v.
Proof. exact Proofs.parse_print_gap_roundtrip. Qed.

Theorem parse_print_roundtrip : forall v, wf_json v = true -> parse (print v) = Some v.
Proof. exact Proofs.parse_print_roundtrip. Qed.

(* the printed text is itself in the grammar *)
Theorem print_derives : forall v gap, wf_json v = true -> ws gap -> Derives v (print_g gap [] v).
Proof. exact Proofs.print_g_derives_text. Qed.

(* 3. canonical form: stringify(parse t) re-parses to parse t, printing is idempotent through parse, and two
      accepted texts have the same canonical form iff they denote the same value *)
Theorem print_parse_canonical : forall t v, parse t = Some v -> parse (print v) = Some v.
Proof. exact Proofs.print_parse_canonical. Qed.

Theorem print_idempotent : forall v, wf_json v = true ->
  option_map print (parse (print v)) = Some (print v).
Proof. exact Proofs.print_idempotent. Qed.

Theorem canonical_form_decides : forall t1 t2 v1 v2, parse t1 = Some v1 -> parse t2 = Some v2 ->
  (print v1 = print v2 <-> v1 = v2).
Proof. exact Proofs.canonical_form_decides. Qed.

(* every value the parser returns is well formed, so 2 and 3 apply to it *)
Theorem derives_wf : forall v t, Derives v t -> wf_json v = true.
Proof. exact Proofs.derives_wf. Qed.

Example roundtrip_nonvacuous :
  let v := JObj [([34; 55296], JArr [JStr [10; 56320; 55357; 56832]; JNull; JArr []; JObj []])] in
  wf_json v = true /\ parse (print_g [32; 32] [] v) = Some v /\
  print v = [123; 34; 92; 34; 92; 117; 100; 56; 48; 48; 34; 58; 91; 34; 92; 110; 92; 117; 100; 99; 48; 48;
             55357; 56832; 34; 44; 110; 117; 108; 108; 44; 91; 93; 44; 123; 125; 93; 125].
Proof. vm_compute. repeat split; reflexivity. Qed.

(* 4. QuoteJSONString: for EVERY list of code units (lone surrogates included) the quoted text lexes back to
      the same list, contains no raw control character, and is well-formed UTF-16 *)
Theorem quote_roundtrip : forall s r, parse_chars (quote_body s ++ 34 :: r) = Some (s, r).
Proof. exact Proofs.quote_roundtrip. Qed.

Theorem quote_safe : forall s, Forall (fun x => 32 <= x) (quote_body s).
Proof. exact Proofs.quote_safe. Qed.

Theorem quote_wellformed : forall s, wf_utf16 (quote_body s) = true.
Proof. exact Proofs.quote_wellformed. Qed.

Example quote_nonvacuous :
  quote_body [34; 92; 8; 31; 55296; 97; 55357; 56832; 57343]
  = [92; 34; 92; 92; 92; 98; 92; 117; 48; 48; 49; 102; 92; 117; 100; 56; 48; 48; 97; 55357; 56832;
     92; 117; 100; 102; 102; 102].
Proof. vm_compute. reflexivity. Qed.

(* 5. The model of JSON.stringify itself (SerializeJSONProperty / Object / Array over JS values, the function that
      is compared with goja on every run): on JSON-shaped values (null, booleans, modelled numbers, strings, arrays,
      objects with ANY keys in ANY creation order incl. duplicates and integer-like keys) and without replacer it
      writes exactly the canonical text of the denoted JSON value, with the gap of any space argument; hence
      JSON.parse(JSON.stringify(v, undefined, space)) is that value whenever the gap is white space (always for a
      numeric space). *)
Theorem stringify_json_shaped : forall v space, json_shaped v = true ->
  stringify v RNone space = SText (print_g (gap_of space) [] (to_json v)).
Proof. exact Proofs.stringify_json_shaped. Qed.

Theorem stringify_parse_roundtrip : forall v space, json_shaped v = true ->
  wf_json (to_json v) = true -> ws (gap_of space) ->
  exists t, stringify v RNone space = SText t /\ parse t = Some (to_json v).
Proof. exact Proofs.stringify_parse_roundtrip. Qed.

Theorem gap_of_number_ws : forall n, ws (gap_of (VNum n)).
Proof. exact Proofs.gap_of_number_ws. Qed.

(* Object.MarshalJSON (stringify without replacer and gap, undefined written as null) agrees with JSON.stringify
   wherever JSON.stringify yields a text or throws *)
Theorem marshal_agrees : forall v, stringify v RNone VUndef <> SUndef -> marshal v = stringify v RNone VUndef.
Proof. exact Proofs.marshal_agrees. Qed.

Example stringify_nonvacuous :
  let v := VObj [([98], VNum (NQ 6)); ([49], VArr [VNull; VStr [34]; VArr []]); ([98], VBool true)] in
  json_shaped v = true /\ wf_json (to_json v) = true /\
  to_json v = JObj [([49], JArr [JNull; JStr [34]; JArr []]); ([98], JBool true)] /\
  stringify v RNone (VNum (NQ 4)) =
    SText [123; 10; 32; 34; 49; 34; 58; 32; 91; 10; 32; 32; 110; 117; 108; 108; 44; 10; 32; 32; 34; 92; 34; 34; 44;
           10; 32; 32; 91; 93; 10; 32; 93; 44; 10; 32; 34; 98; 34; 58; 32; 116; 114; 117; 101; 10; 125].
Proof. vm_compute. repeat split; reflexivity. Qed.

(* Formerly recorded findings (all repaired in /repo, see known/C19.json "fixed"); the model never had an
   implementation-shaped variant left: what is compared with goja is the specification.  F-C19-4: a Symbol wrapper
   object serialises as an ordinary object.  F13: the grammar derives 1e400, so JSON.parse accepts it (+Infinity). *)
Theorem symbol_wrapper_is_object :
  stringify VBoxSym RNone VUndef = SText [123; 125] /\
  stringify (VArr [VBoxSym]) RNone VUndef = SText [91; 123; 125; 93] /\
  marshal VBoxSym = SText [123; 125].
Proof. exact Proofs.symbol_wrapper_is_object. Qed.

Example parse_accepts_1e400 :
  parse [49; 101; 52; 48; 48] = Some (JNum false [49] [] (Some (false, [52; 48; 48]))) /\
  to_js (JNum false [49] [] (Some (false, [52; 48; 48]))) = PNum false 1 400.
Proof. vm_compute. split; reflexivity. Qed.

(* 6. Histories.  Results of a sequence of serialisations on one runtime (Object.MarshalJSON through the Go API,
      JSON.stringify from scripts) are all retained by the caller: the result of a step is what that step alone
      returns, whatever is serialised before or afterwards, and MarshalJSON(o) is JSON.stringify(o) throughout. *)
Theorem history_result_stable : forall pre s post,
  nth_error (run_history (pre ++ s :: post)) (length pre) = Some (step_result s).
Proof. exact Proofs.history_result_stable. Qed.

Theorem history_marshal_is_stringify : forall pre v post t,
  stringify v RNone VUndef = SText t ->
  nth_error (run_history (pre ++ HMarshal v :: post)) (length pre) = Some (SText t) /\
  nth_error (run_history (pre ++ HStringify v :: post)) (length pre) = Some (SText t).
Proof. exact Proofs.history_marshal_is_stringify. Qed.

Example history_nonvacuous :
  run_history [HMarshal (VObj [([97], VNull)]); HStringify (VArr [VBool true; VFun]); HMarshal VFun]
  = [SText [123; 34; 97; 34; 58; 110; 117; 108; 108; 125];
     SText [91; 116; 114; 117; 101; 44; 110; 117; 108; 108; 93];
     SText [110; 117; 108; 108]].
Proof. vm_compute. reflexivity. Qed.

Print Assumptions parse_sound.
Print Assumptions parse_complete.
Print Assumptions parse_iff_derives.
Print Assumptions parse_rejects.
Print Assumptions derives_functional.
Print Assumptions parse_print_gap_roundtrip.
Print Assumptions parse_print_roundtrip.
Print Assumptions print_derives.
Print Assumptions print_parse_canonical.
Print Assumptions print_idempotent.
Print Assumptions canonical_form_decides.
Print Assumptions derives_wf.
Print Assumptions quote_roundtrip.
Print Assumptions quote_safe.
Print Assumptions quote_wellformed.
Print Assumptions stringify_json_shaped.
Print Assumptions stringify_parse_roundtrip.
Print Assumptions gap_of_number_ws.
Print Assumptions marshal_agrees.
Print Assumptions symbol_wrapper_is_object.
Print Assumptions history_result_stable.
Print Assumptions history_marshal_is_stringify.
