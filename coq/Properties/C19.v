(* C19 — JSON.parse / JSON.stringify conform to the JSON grammar and round-trip.
   ONLY theorem statements; each is closed by [exact] of a lemma of C19/Proofs.v. *)
From Coq Require Import List NArith ZArith Bool.
Import ListNotations.
From Verif.C19 Require Import Model Proofs.
Theorem parse_example : parse [91; 49; 93]%N = Some (JArr [JNum false [49%N] [] None]).
Proof. exact Proofs.parse_example. Qed.
Print Assumptions parse_example.
