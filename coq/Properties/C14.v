(* C14 — Errors cross the Go/JS boundary in both directions with identity preserved.
   ONLY theorem statements; each is closed by [exact] of a lemma of C14/Proofs.v.
   All statements quantify over frame lists of ANY length (proved by induction on the chain) and over
   every starting depth d.  [unwind d fs s] = what leaves the outermost frame of fs, and the events logged. *)
From Coq Require Import List NArith Bool Arith.
Import ListNotations.
From Verif.C14 Require Import Model Proofs.

(* 1. identity_preserved.  A thrown value v (as a JS throw, as panic(v), or as panic(ex)) crossing any chain
      of frames that neither replace it (catch→swallow / catch→throw new) nor wrap it in a Go error
      (fmt.Errorf / errors.Join around the *Exception) — with the one documented exception that an
      ExportTo'd func with an error result unwraps a GoError — is received as THE SAME value by every JS
      catch and promise rejection handler, every intermediate Go caller receives an *Exception whose
      Value() is v, and what leaves the chain still carries v. *)
Theorem identity_preserved : forall fs d p v,
  sig_value (SPanic p) = Some v ->
  forallb (transparent_for v) fs = true ->
  let '(s, ev) := unwind d fs (SPanic p) in
  sig_value s = Some v /\
  Forall (fun x => x = v) (catch_obs ev) /\
  Forall (fun e => match e with EvNative _ g => exists st, g = exc_err v st | _ => True end) ev.
Proof. exact Proofs.identity_preserved. Qed.

(* 1b. the same for a whole case: every host entry convention, with or without a promise-job boundary;
       the embedder's Exception.Value() (returned or panicked, according to the convention) is v. *)
Theorem identity_preserved_host : forall c v,
  thrower_value (c_thrower c) = Some v ->
  forallb (transparent_for v) (c_pre c) = true ->
  match c_post c with Some post => forallb (transparent_for v) post = true | None => True end ->
  cb_transparent_for v (c_entry c) = true ->
  let '(ev, g) := propagate c in
  Forall (fun x => x = v) (catch_obs ev) /\
  (c_post c = None -> host_value g = Some v).
Proof. exact Proofs.identity_preserved_host. Qed.

(* 1c. an Error object (or GoError) keeps the stack captured at its creation through every transparent
       chain: the *Exception finally seen carries that stack (the throw-site position is then checked by
       the harness against the generator's record, outside this model). *)
Theorem errobj_stack_preserved : forall fs d p v,
  sig_value (SPanic p) = Some v -> is_errobj v = true ->
  (forall st, p = PVExc v st -> st = SCreated) ->
  forallb (transparent_for v) fs = true ->
  forall st', fst (unwind d fs (SPanic p)) = SPanic (PVExc v st') -> st' = SCreated.
Proof. exact Proofs.errobj_stack_preserved. Qed.

(* 2. goerror_recoverable.  If sentinel t is recoverable (errors.Is) from what is in flight, it stays
      recoverable through ANY native frames (every callback convention, every handler incl. wrapping,
      joining, re-panicking, ExportTo unwrapping, NewGoError re-wrapping) and any JS frames that do not
      swallow/replace; every JS catch on the way receives a value from which t is recoverable (a GoError
      whose "value" unwraps to it) and every Go caller on the way an error for which errors.Is holds. *)
Theorem goerror_recoverable : forall fs d p t,
  pv_is t p = true ->
  forallb no_swallow fs = true ->
  let '(s, ev) := unwind d fs (SPanic p) in
  (exists p', s = SPanic p' /\ pv_is t p' = true) /\
  Forall (fun x => value_is t x = true) (catch_obs ev) /\
  Forall (fun e => match e with EvNative _ g => gerr_is t g = true | _ => True end) ev.
Proof. exact Proofs.goerror_recoverable. Qed.

(* 2b. at the embedder, for every entry convention *)
Theorem goerror_recoverable_host : forall cb d p t,
  pv_is t p = true -> host_is t (cb_convert d cb (SPanic p)) = true.
Proof. exact Proofs.goerror_recoverable_host. Qed.

(* 2c. a Go error returned by a reflect-wrapped native (not an *Exception, not uncatchable) arrives in the
       calling script as a catchable GoError object holding exactly that error *)
Theorem goerror_catchable : forall d e act fin fa,
  uncatchable e = false -> (forall v st, e <> exc_err v st) ->
  snd (step_js d (mkJS (Some act) fin fa) (init_signal (S d) (TNatReturnErr e))) =
    EvCatch d (VGoErr (fresh_goerr (S d)) e) :: fin_ev d (mkJS (Some act) fin fa).
Proof. exact Proofs.goerror_catchable. Qed.

(* 3. uncatchable_invisible.  An InterruptedError / StackOverflowError — possibly wrapped by fmt.Errorf "%w"
      and/or errors.Join any number of times (fix 63ed9d0: isUncatchableException uses errors.As) — reaches no JS
      catch, runs no JS finally, triggers no rejection handler, in ANY chain (every frame kind, every handler);
      it leaves the chain as the same base error (same interrupt value). *)
Theorem uncatchable_invisible : forall fs d e,
  hard_unc e = true ->
  let '(s, ev) := unwind d fs (SPanic (PVErr e)) in
  js_events ev = [] /\
  exists e', s = SPanic (PVErr e') /\ hard_unc e' = true /\ gerr_base e' = gerr_base e.
Proof. exact Proofs.uncatchable_invisible. Qed.

(* 3b. at the embedder: returned as an error by runWrapped/RunProgram-based conventions, a panic with
       that error otherwise; never a JS exception *)
Theorem uncatchable_host : forall cb d e,
  hard_unc e = true ->
  match cb_convert d cb (SPanic (PVErr e)) with
  | GErrRes e' => e' = e
  | GPanic (PVErr e') => e' = e /\ (cb = CbExportNoErr \/ runs_jobs cb = false)
  | _ => False
  end.
Proof. exact Proofs.uncatchable_host. Qed.

(* 3c. whole cases: interrupt / stack overflow / a returned or panicked (wrapped) uncatchable error as the
       innermost event, with or without a promise-job boundary: no JS catch/finally/rejection event happens
       after the throw (the JS events are exactly those of the synchronous part, which ran before the job) *)
Theorem uncatchable_invisible_case : forall c e,
  init_signal (length (c_pre c) + match c_post c with Some post => length post | None => 0 end) (c_thrower c)
    = SPanic (PVErr e) ->
  hard_unc e = true ->
  js_events (fst (propagate c)) =
    match c_post c with None => [] | Some _ => js_events (snd (unwind 0 (c_pre c) SNormal)) end /\
  catch_obs (fst (propagate c)) =
    match c_post c with None => [] | Some _ => catch_obs (snd (unwind 0 (c_pre c) SNormal)) end.
Proof. exact Proofs.uncatchable_invisible_case. Qed.

(* 3d. (was uncatchable_join_refuted, finding C14-N1, repaired by 63ed9d0) a native that returns
       errors.Join(err, x) for an uncatchable err keeps it uncatchable: wrapReflectFunc re-panics it *)
Theorem join_stays_uncatchable : forall d s e,
  hard_unc e = true -> reflect_ret d (join s e) = PVErr (join s e) /\ hard_unc (join s e) = true.
Proof. exact Proofs.join_stays_uncatchable. Qed.

(* 4. foreign_propagates.  A non-goja panic crosses ANY chain unchanged: no JS handler, no finally, no Go
      caller's error path sees it, nothing swallows it, and every entry convention lets it reach the
      embedder as that very panic. *)
Theorem foreign_propagates : forall fs d x,
  unwind d fs (SPanic (PVForeign x)) = (SPanic (PVForeign x), []).
Proof. exact Proofs.foreign_propagates. Qed.

Theorem foreign_host : forall cb d x, cb_convert d cb (SPanic (PVForeign x)) = GPanic (PVForeign x).
Proof. exact Proofs.foreign_host. Qed.

(* 4b. the same for panic(err) with an ordinary Go error (neither *Exception nor uncatchable) *)
Theorem plain_error_panic_propagates : forall fs d e cb,
  uncatchable e = false -> (forall v st, e <> exc_err v st) ->
  unwind d fs (SPanic (PVErr e)) = (SPanic (PVErr e), []) /\
  cb_convert d cb (SPanic (PVErr e)) = GPanic (PVErr e).
Proof. exact Proofs.plain_error_panic_propagates. Qed.

(* 5. rethrow_identity.  catch (e) { throw e } re-throws the caught value; a frame without catch (with or
      without a finally that completes normally) passes on the very same Exception pointer (same stack). *)
Theorem rethrow_identity : forall d fin p v st,
  exc_of d p = Some (v, st) ->
  step_js d (mkJS (Some CRethrow) fin FinQuiet) (SPanic p) =
    (SPanic (PVExc v (stack_of d v)), EvCatch d v :: fin_ev d (mkJS (Some CRethrow) fin FinQuiet)) /\
  step_js d (mkJS None fin FinQuiet) (SPanic p) = (SPanic (PVExc v st), fin_ev d (mkJS None fin FinQuiet)).
Proof. exact Proofs.rethrow_identity. Qed.

(* 6. promise jobs: a JS exception inside a job never reaches the embedder or the frames that scheduled it;
      the rejection handler receives it *)
Theorem job_exception_contained : forall c post,
  c_post c = Some post ->
  snd (propagate c) = cb_convert 0 (c_entry c) (fst (unwind 0 (c_pre c) SNormal)) \/
  exists p, snd (propagate c) = cb_convert 0 (c_entry c) (SPanic p) /\ exc_of 0 p = None.
Proof. exact Proofs.job_exception_contained. Qed.

(* 7. generator / async bodies.  A body that suspended inside a try statement, left it, suspended again and only
      then makes the call has no active try at the throw point: it is the frame [mkJS None false FinQuiet], which logs
      nothing and passes on the exception (same value, same stack), an uncatchable error, a foreign panic and a
      normal completion unchanged — so every theorem above holds across it (it is transparent, does not swallow).
      The correspondence harness builds such bodies (driven by next(), for-of, Runtime.ForOf from native frames and
      promise jobs) and the model term does not mention them. *)
Theorem suspended_body_transparent : forall d s,
  snd (step_js d (mkJS None false FinQuiet) s) = [] /\
  sig_value (fst (step_js d (mkJS None false FinQuiet) s)) = sig_value s /\
  (forall v st, s = SPanic (PVExc v st) -> fst (step_js d (mkJS None false FinQuiet) s) = s) /\
  (forall p, s = SPanic p -> exc_of d p = None -> fst (step_js d (mkJS None false FinQuiet) s) = s) /\
  (s = SNormal -> fst (step_js d (mkJS None false FinQuiet) s) = SNormal).
Proof. exact Proofs.suspended_body_transparent. Qed.

(* 8. host-built Error objects.  An Error object constructed by the embedder while nothing was executing
      (Runtime.NewTypeError / NewGoError / New(Error) with an empty call stack) has an empty recorded stack: a script
      throw statement (first throw and catch-and-rethrow alike) captures the stack at the throw site, whereas a Go
      panic with that Value keeps the empty stack (exceptionFromValue re-captures only a nil stack).  The harness
      checks the top frame (function and line) of such Exceptions against the throw site. *)
Theorem hostbuilt_error_stack_at_throw : forall d v fin p st,
  is_hostbuilt v = true ->
  init_signal d (TJsThrow v) = SPanic (PVExc v (SAt d)) /\
  (exc_of d p = Some (v, st) ->
     fst (step_js d (mkJS (Some CRethrow) fin FinQuiet) (SPanic p)) = SPanic (PVExc v (SAt d))) /\
  exc_of d (PVValue v) = Some (v, SEmpty).
Proof. exact Proofs.hostbuilt_error_stack_at_throw. Qed.

Print Assumptions identity_preserved.
Print Assumptions identity_preserved_host.
Print Assumptions errobj_stack_preserved.
Print Assumptions goerror_recoverable.
Print Assumptions goerror_recoverable_host.
Print Assumptions goerror_catchable.
Print Assumptions uncatchable_invisible.
Print Assumptions uncatchable_host.
Print Assumptions uncatchable_invisible_case.
Print Assumptions join_stays_uncatchable.
Print Assumptions foreign_propagates.
Print Assumptions foreign_host.
Print Assumptions plain_error_panic_propagates.
Print Assumptions rethrow_identity.
Print Assumptions job_exception_contained.
Print Assumptions suspended_body_transparent.
Print Assumptions hostbuilt_error_stack_at_throw.
