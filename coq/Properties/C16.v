(* C16 — Programs and primitive values are shareable across goroutines without data races (PARTIAL).
   ONLY theorem statements; each is closed by [exact] of a lemma of C16/Proofs.v.
   What is proved is about the interleaving model of C16/Model.v, whose event lists are a hand
   transcription of which memory the Go code touches (asserted; sampled by the -race stage). *)
From Coq Require Import List Arith NArith Bool.
Import ListNotations.
From Verif.C16 Require Import Model Proofs Locks.

(* 1. For ANY number of threads and ANY interleaving: if every thread writes only locations it owns and
      touches no location owned by another thread (all its accesses to shared locations are reads),
      there is no data race. *)
Theorem readonly_no_race : forall (ths : list (list event)) (tr : trace),
  interleaving ths tr ->
  (forall t e, t < length ths -> In e (nth t ths []) -> respects t e) ->
  ~ race tr.
Proof. exact Proofs.readonly_no_race. Qed.

(* 2. The modelled event list of a Program run (any sequence of modelled VM steps other than the
      template-cell redefinition of finding C16-N1) contains no write to Program-owned memory and respects
      ownership. *)
Theorem program_run_readonly : forall r p ops, forallb vop_ok ops = true ->
  forall e, In e (events_of_run r p ops) -> writes_prog p e = false /\ respects r e.
Proof. exact Proofs.program_run_readonly. Qed.

(* 3. Hence: any number of Runtimes running one Program concurrently, each also using shared
      ascii/unicode strings, symbols, numbers, booleans, null/undefined — race-free under every schedule. *)
Theorem race_free_shared_program : forall (p : N) (ths : list (list event)),
  (forall t, t < length ths ->
     exists ops uses, forallb vop_ok ops = true /\
                      nth t ths [] = events_of_run t p ops ++ events_of_prims t uses) ->
  forall tr, interleaving ths tr -> ~ race tr.
Proof. exact Proofs.race_free_shared_program. Qed.

Theorem primitive_share : forall (ths : list (list event)),
  (forall t, t < length ths -> exists uses, nth t ths [] = events_of_prims t uses) ->
  forall tr, interleaving ths tr -> ~ race tr.
Proof. exact Proofs.primitive_share. Qed.

(* 4. The faithful model of the CURRENT importedString refutes the property (finding F14): two goroutines
      calling Length() on one unscanned imported string, a value-consistent schedule, a race on [scanned]. *)
Theorem imported_race_refuted : forall s, exists tr,
  interleaving [ev_length s false; ev_length s false] tr /\ consistent tr /\ lock_wf tr /\ race tr.
Proof. exact Proofs.imported_race_refuted. Qed.

(* 5. Finding C16-N1: the permitted no-op redefinition of a tagged-template cell writes Program-owned memory;
      two runtimes doing it race (even when scheduled one after the other: nothing orders them). *)
Theorem tmpl_redefine_race_refuted : forall p site raw i, exists tr,
  interleaving [events_of_run 0 p [OTmplRedefine site raw i]; events_of_run 1 p [OTmplRedefine site raw i]] tr /\
  race tr.
Proof. exact Proofs.tmpl_redefine_race_refuted. Qed.

(* 6. Objects do not cross runtimes: toValue rejects an Object of another runtime with a TypeError. *)
Theorem cross_runtime_object_rejected : forall r rt, rt <> r -> to_value r (GObject rt) = TVTypeError.
Proof. exact Proofs.cross_runtime_object_rejected. Qed.

(* 7. The lockset theorem: in ANY trace that respects mutual exclusion, locations that are only accessed
      while holding mutex m are never raced on (critical sections are totally ordered by happens-before). *)
Theorem guarded_no_race : forall tr m (G : loc -> Prop),
  lock_wf tr ->
  (forall i t k l v, nth_error tr i = Some (t, Acc k l v) -> G l -> holds tr t m i) ->
  forall i j, race_at tr i j ->
  forall t k l v, nth_error tr i = Some (t, Acc k l v) -> ~ G l.
Proof. exact Locks.guarded_no_race. Qed.

(* 8. What a fix of F14 must achieve: the SAME importedString method bodies (every method, either branch),
      each executed under one mutex per string, by any number of goroutines, are race-free under every
      interleaving that respects mutual exclusion. (A sync.Once-based fix is modelled in Model.v
      [ev_length_once]; its race-freedom is not proved here.) *)
Theorem imported_race_free_if_locked : forall (s : N) (ths : list (list event)) (tr : trace),
  (forall t, t < length ths -> exists m seen, nth t ths [] = ev_imethod_locked s m seen) ->
  interleaving ths tr -> lock_wf tr -> ~ race tr.
Proof. exact Locks.imported_race_free_if_locked. Qed.

(* non-vacuity of 8: a mutual-exclusion-respecting, value-consistent two-goroutine schedule exists *)
Example locked_schedule_nonvacuous :
  let ths := [ev_imethod_locked 0 IEnsureThenU false; ev_imethod_locked 0 IEnsureThenU true] in
  let tr := map (pair 0) (nth 0 ths []) ++ map (pair 1) (nth 1 ths []) in
  interleaving ths tr /\ lock_wf tr /\ consistent tr.
Proof. exact Locks.locked_schedule_nonvacuous. Qed.

(* non-vacuity of 1-3: the hypotheses are satisfiable by a real two-runtime execution that shares a
   Program with a regexp literal, a tagged template and a shared unicode string *)
Example shared_run_nonvacuous :
  let ops := [OFetch; ONewRegexp 1; ORegexExec 1; OTaggedTmpl 2; OTmplRead 2 false 0; OEnterFunc 3 true; OEvalBindVar] in
  let th t := events_of_run t 7%N ops ++ events_of_prims t [(VUnicode 5%N, PHash); (VSym 1%N, PAsKey)] in
  let tr := interleave ([0;1;0;1;1;0;0;0;1;1;0;1;0;1] ++ repeat 0 30 ++ repeat 1 30) [th 0; th 1] in
  proj 0 tr = th 0 /\ proj 1 tr = th 1 /\ length tr = length (th 0) + length (th 1).
Proof. vm_compute. repeat split. Qed.

Print Assumptions readonly_no_race.
Print Assumptions program_run_readonly.
Print Assumptions race_free_shared_program.
Print Assumptions primitive_share.
Print Assumptions imported_race_refuted.
Print Assumptions tmpl_redefine_race_refuted.
Print Assumptions cross_runtime_object_rejected.
Print Assumptions guarded_no_race.
Print Assumptions imported_race_free_if_locked.
