(* C16 — Programs and primitive values are shareable across goroutines without data races (PARTIAL).
   ONLY theorem statements; each is closed by [exact] of a lemma of C16/{Proofs,Locks,Once}.v.
   What is proved is about the interleaving model of C16/Model.v, whose event lists are a hand
   transcription of which memory the Go code touches (asserted; sampled by the -race stage). *)
From Coq Require Import List Arith NArith Bool.
Import ListNotations.
From Verif.C16 Require Import Model Proofs Locks Once.

(* 1. For ANY number of threads and ANY interleaving: if every thread writes only locations it owns and
      touches no location owned by another thread (all its accesses to shared locations are reads),
      there is no data race. *)
Theorem readonly_no_race : forall (ths : list (list event)) (tr : trace),
  interleaving ths tr ->
  (forall t e, t < length ths -> In e (nth t ths []) -> respects t e) ->
  ~ race tr.
Proof. exact Proofs.readonly_no_race. Qed.

(* 2. The modelled event list of a Program run — ANY sequence of modelled VM steps, the redefinition of
      tagged-template cells included (they are per-runtime copies since fix 34e62dd) — contains no write
      to Program-owned memory and respects ownership. *)
Theorem program_run_readonly : forall r p ops e,
  In e (events_of_run r p ops) -> writes_prog p e = false /\ respects r e.
Proof. exact Proofs.program_run_readonly. Qed.

(* 3. Hence: any number of Runtimes running one Program concurrently, each also using shared
      ascii/unicode strings, symbols, numbers, booleans, null/undefined — race-free under every schedule. *)
Theorem race_free_shared_program : forall (p : N) (ths : list (list event)),
  (forall t, t < length ths ->
     exists ops uses, nth t ths [] = events_of_run t p ops ++ events_of_prims t uses) ->
  forall tr, interleaving ths tr -> ~ race tr.
Proof. exact Proofs.race_free_shared_program. Qed.

Theorem primitive_share : forall (ths : list (list event)),
  (forall t, t < length ths -> exists uses, nth t ths [] = events_of_prims t uses) ->
  forall tr, interleaving ths tr -> ~ race tr.
Proof. exact Proofs.primitive_share. Qed.

(* 4. The lockset theorem: in ANY trace that respects mutual exclusion, locations that are only accessed
      while holding mutex m are never raced on (critical sections are totally ordered by happens-before). *)
Theorem guarded_no_race : forall tr m (G : loc -> Prop),
  lock_wf tr ->
  (forall i t k l v, nth_error tr i = Some (t, Acc k l v) -> G l -> holds tr t m i) ->
  forall i j, race_at tr i j ->
  forall t k l v, nth_error tr i = Some (t, Acc k l v) -> ~ G l.
Proof. exact Locks.guarded_no_race. Qed.

(* 5. The scan-once protocol of importedString as it is in the code now (mutex scanMu + atomic scanDone,
      fix 17789cc): ANY number of goroutines, each performing ANY sequence of importedString methods on ANY
      strings (every method, every path through isScanned/ensureScanned/scan), under ANY interleaving that
      respects mutual exclusion and in which every Load of a scanDone flag sees 1 iff a Store precedes it:
      no data race.  The reads of [u] after a Load that observed the flag are ordered after the write of [u]
      by the Store->Load happens-before edge; the writes by the mutex. *)
Theorem imported_race_free : forall (ths : list (list event)) (tr : trace),
  (forall t, t < length ths -> exists calls, nth t ths [] = events_of_imported calls) ->
  interleaving ths tr -> lock_wf tr -> consistent tr -> ~ race tr.
Proof. exact Once.imported_race_free. Qed.

(* 6. Everything together: goroutines with their own Runtimes, each performing any sequence of steps of
      shared Programs, operations on shared ascii/unicode strings, symbols, numbers, and methods of shared
      imported strings — race-free under every such interleaving. *)
Theorem sharing_race_free : forall (ths : list (list event)) (tr : trace),
  (forall t, t < length ths -> exists acts, nth t ths [] = events_of_actions t acts) ->
  interleaving ths tr -> lock_wf tr -> consistent tr -> ~ race tr.
Proof. exact Once.sharing_race_free. Qed.

(* 7. Objects do not cross runtimes: toValue rejects an Object of another runtime with a TypeError, and so does the
      direct path (this / newTarget / arguments of a Callable or Constructor wrapper, Runtime.New; fix ecabeef of
      finding C16-N2), which agrees with toValue on every value that can be passed directly. *)
Theorem cross_runtime_object_rejected : forall r rt, rt <> r ->
  to_value r (GObject rt) = TVTypeError /\ call_arg_impl r (GObject rt) = TVTypeError.
Proof. exact (fun r rt H => conj (Proofs.cross_runtime_object_rejected r rt H) (Proofs.cross_runtime_object_rejected_call r rt H)). Qed.

Theorem call_arg_agrees : forall r g, g <> GNilObject -> call_arg_impl r g = to_value r g.
Proof. exact Proofs.call_arg_agrees. Qed.

(* 8. The race notion is not vacuous: two unsynchronised accesses, one a write, do race. *)
Theorem unsynchronised_access_races : forall l, race [(0, Wr l); (1, Rd l)].
Proof. exact Proofs.unsynchronised_access_races. Qed.

(* non-vacuity of 5/6: a contended execution (goroutine 1 sees the flag unset, goroutine 0 scans and
   publishes, goroutine 1 then takes the mutex and sees the flag set) satisfies every hypothesis *)
Example sharing_nonvacuous :
  (forall t, t < length contended_threads -> exists acts, nth t contended_threads [] = events_of_actions t acts) /\
  interleaving contended_threads contended_trace /\ lock_wf contended_trace /\ consistent contended_trace.
Proof. exact Once.sharing_nonvacuous. Qed.

(* non-vacuity of 1-3: a real two-runtime execution that shares a Program with a regexp literal, a tagged
   template whose cells are redefined, and a shared unicode string *)
Example shared_run_nonvacuous :
  let ops := [OFetch; ONewRegexp 1; ORegexExec 1; OTaggedTmpl 2 3; OTmplRead 2 false 0; OTmplRedefine 2 false 0;
              OEnterFunc 3 true; OEvalBindVar] in
  let th t := events_of_run t 7%N ops ++ events_of_prims t [(VUnicode 5%N, PHash); (VSym 1%N, PAsKey)] in
  let tr := interleave ([0;1;0;1;1;0;0;0;1;1;0;1;0;1] ++ repeat 0 40 ++ repeat 1 40) [th 0; th 1] in
  proj 0 tr = th 0 /\ proj 1 tr = th 1 /\ length tr = length (th 0) + length (th 1).
Proof. vm_compute. repeat split. Qed.

Print Assumptions readonly_no_race.
Print Assumptions program_run_readonly.
Print Assumptions race_free_shared_program.
Print Assumptions primitive_share.
Print Assumptions guarded_no_race.
Print Assumptions imported_race_free.
Print Assumptions sharing_race_free.
Print Assumptions cross_runtime_object_rejected.
Print Assumptions call_arg_agrees.
Print Assumptions unsynchronised_access_races.
