(* C03 — a Runtime stays consistent and reusable after every kind of abrupt outcome.
   ONLY theorem statements; each is closed by [exact] of a lemma of C03/Proofs.v.
   Model: C03/Model.v ([fixed = false] is goja's bookkeeping algorithm as on the current tree, [fixed = true] the
   repaired algorithm). *)
From Coq Require Import List ZArith Bool Arith.
Import ListNotations.
From Verif.C03 Require Import Model Proofs.
Open Scope Z_scope.

(* 1. The snapshot/restore lemma of handleThrow, for EVERY state: take any state s0 at which a try frame tf
      (a JS catch/finally frame or a tryPanicMarker frame) is pushed, and ANY later state s that piled contexts xs
      on the call stack (the lowest one saving s0's frame registers), iterator records ys, k references and frames
      that the payload skips (dead frames; for an uncatchable payload every non-marker frame) on top of s0's stacks,
      with arbitrary sp/sb/prg/stash.  Unwinding from s lands exactly on s0's call stack, iterator stack, reference
      stack, scope, frame registers and sp (+1 for the caught value), with tf on top of s0's try stack, closing
      exactly the dropped iterators, and reports the handler kind of tf. *)
Theorem handleThrow_restores : forall p m c f s0 above s xs ys k,
  let tf := new_frame m c f s0 in
  skippable p tf = false ->
  forallb (skippable p) above = true ->
  ts s = above ++ tf :: ts s0 ->
  extends s0 s xs ys k ->
  let s' := fst (handle_throw p s) in
  cs s' = cs s0 /\ its s' = its s0 /\ refs s' = refs s0 /\ stash s' = stash s0 /\
  prg s' = prg s0 /\ sb s' = sb s0 /\ args s' = args s0 /\
  sp s' = (if negb m && c then sp s0 + 1 else sp s0) /\
  tl (ts s') = ts s0 /\ length (ts s') = S (length (ts s0)) /\
  log s' = log s ++ map close_ev ys /\
  snd (handle_throw p s) =
    (if m then OUnwound p else if c then OCaught (length (ts s0)) HCatch p else OCaught (length (ts s0)) HFin p).
Proof. exact Proofs.handleThrow_restores. Qed.

Example handleThrow_restores_nonvacuous :
  (* try { f() -> for-of -> throw }: two contexts, one iterator above the frame *)
  let s0 := set_sp 4 (set_stash 1 init) in
  let s := set_its [7%nat] (set_cs [mkCtx true 0 5 0; mkCtx false 0 (-1) 0] (set_sp 9 (push_try false true false s0))) in
  regs (fst (handle_throw PCatch s)) = regs (set_sp 5 (set_ts [mkTf 0 0 0 4 1 false false false] s0))
  /\ log (fst (handle_throw PCatch s)) = [1007%nat].
Proof. vm_compute. auto. Qed.

(* 2. handleThrow applied twice at a marker frame (vm.throw, then runTryInner's recover) is the same as once. *)
Theorem handleThrow_idem : forall p s0 above s xs ys k,
  let tf := new_frame true false false s0 in
  forallb (skippable p) above = true ->
  ts s = above ++ tf :: ts s0 ->
  extends s0 s xs ys k ->
  let s1 := fst (handle_throw p s) in
  regs (fst (handle_throw p s1)) = regs s1 /\ snd (handle_throw p s1) = snd (handle_throw p s) /\
  log (fst (handle_throw p s1)) = log s1.
Proof. exact Proofs.handleThrow_idem. Qed.

(* 3. For every try stack whatsoever an uncatchable payload (stack overflow, interrupt, foreign panic) is never
      delivered to a JS catch/finally handler; and handleThrow never grows the try stack. *)
Theorem uncatchable_never_caught : forall p s, catchable p = false -> snd (handle_throw p s) = OUnwound p.
Proof. exact Proofs.uncatchable_never_caught. Qed.

Theorem handleThrow_shrinks : forall p s, (length (ts (fst (handle_throw p s))) <= length (ts s))%nat.
Proof. exact Proofs.handleThrow_shrinks. Qed.

(* 4. nested_entry_restored — the Go-level recover boundary vm.try (used by Callable, ForOf, Try, Object.Get
      getters, promise jobs): for EVERY computation f run inside it (any execution tree), if f either returns with
      the registers it was entered with or panics leaving the try stack balanced above the boundary's marker
      (contexts / iterator records / references may be piled on top of the caller's), then the caller's sp, sb,
      args, prg, scope and all four stacks are restored exactly, whatever the payload. *)
Theorem nested_entry_restored : forall (f : state -> state * outcome) s,
  let s1 := push_try true false false s in
  (snd (f s1) = ONorm -> regs (fst (f s1)) = regs s1) ->
  (forall p, snd (f s1) = OPanic p -> balanced_panic s1 (fst (f s1))) ->
  (snd (f s1) = ONorm \/ exists p, snd (f s1) = OPanic p) ->
  regs (fst (vm_try f s)) = regs s.
Proof. exact Proofs.vm_try_restores. Qed.

Example nested_entry_restored_nonvacuous :
  (* a native function calls back a JS function that overflows the stack at limit 6: registers restored *)
  let s := set_cs [mkCtx true 0 1 0; halt_ctx] (set_sb 2 (set_sp 2 init)) in
  regs (fst (exec (Some 6%nat) [] false 40 (NCallable true [Rec]) s)) = regs s.
Proof. vm_compute. auto. Qed.

(* 5. The current tree does NOT restore the idle state in four situations; each is exhibited by the faithful model
      (and replayed on the implementation by the correspondence check), and in each the repaired algorithm is idle. *)
Theorem idle_refuted_F16 : exists lim faults a, idle_after lim faults false a = false /\ idle_after lim faults true a = true.
Proof. exact Proofs.idle_refuted_F16. Qed.
Theorem idle_refuted_F16_overflow : exists lim faults a, idle_after lim faults false a = false /\ idle_after lim faults true a = true.
Proof. exact Proofs.idle_refuted_F16_overflow. Qed.
Theorem idle_refuted_F17 : exists lim faults a, idle_after lim faults false a = false /\ idle_after lim faults true a = true.
Proof. exact Proofs.idle_refuted_F17. Qed.
Theorem idle_refuted_F22 : exists lim faults a, idle_after lim faults false a = false /\ idle_after lim faults true a = true.
Proof. exact Proofs.idle_refuted_F22. Qed.
Theorem nested_refuted_F21 : nested_regs false <> nested_regs true.
Proof. exact Proofs.nested_refuted_F21. Qed.

Print Assumptions handleThrow_restores.
Print Assumptions handleThrow_idem.
Print Assumptions uncatchable_never_caught.
Print Assumptions handleThrow_shrinks.
Print Assumptions nested_entry_restored.
Print Assumptions idle_refuted_F16.
Print Assumptions idle_refuted_F16_overflow.
Print Assumptions idle_refuted_F17.
Print Assumptions idle_refuted_F22.
Print Assumptions nested_refuted_F21.
