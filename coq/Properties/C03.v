(* C03 — a Runtime stays consistent and reusable after every kind of abrupt outcome.
   ONLY theorem statements; each is closed by [exact] of a lemma of C03/Proofs.v.
   Model: C03/Model.v: goja's bookkeeping algorithm as on the current tree.  Every finding of this property (F16, F17,
   F21, F22, F23; F12 of C08) is repaired in /repo and in the model, so the theorems need no guard any more.
   An execution tree is a [node] (19 kinds: run-loop items and native actions); [api] is one outermost API call;
   [exec]/[api_exec] take fuel, [RStuck]/[OStuck] = out of fuel or an ill-formed tree (a native action among run-loop
   items or vice versa). *)
From Coq Require Import List ZArith Bool Arith.
Import ListNotations.
From Verif.C03 Require Import Model Proofs.
Open Scope Z_scope.

(* 1. idle_restored — for EVERY API call (every execution tree), every call-depth limit, every fault plan and every
      fuel: if the runtime is idle before the call and the call does not get stuck, then after the call sp, sb, args,
      prg, the scope and all four stacks are back at their idle values, however the call ended. *)
Theorem idle_restored : forall lim faults fuel a st,
  idle_regs st = true ->
  snd (api_exec lim faults fuel a st) <> RStuck ->
  idle_regs (fst (api_exec lim faults fuel a st)) = true.
Proof. exact Proofs.idle_restored. Qed.

(* 1b. ... and after an outermost RunProgram / Callable the job queue is empty as well (drained by leave, dropped by
      leaveAbrupt or by the foreign-panic exit), whatever the outcome. *)
Theorem idle_restored_jobs : forall lim faults fuel body st,
  idle_regs st = true ->
  (snd (api_exec lim faults fuel (ARun body) st) <> RStuck ->
   idle_regs (fst (api_exec lim faults fuel (ARun body) st)) = true /\
   jq (fst (api_exec lim faults fuel (ARun body) st)) = []) /\
  (snd (api_exec lim faults fuel (ACall body) st) <> RStuck ->
   idle_regs (fst (api_exec lim faults fuel (ACall body) st)) = true /\
   jq (fst (api_exec lim faults fuel (ACall body) st)) = []).
Proof. exact Proofs.idle_restored_jobs. Qed.

Example idle_restored_nonvacuous :
  (* limit 7, a JS exception at the 3rd probe inside a for-of inside try inside a native callback inside a getter *)
  let a := ACall [Getter [Native [NCallable true [Try [ForOf 1 [Probe] 2 [Scope [Probe; RefCall [Probe]]] None] [Effect 1] [Rec] true true]]]; Probe] in
  let r := api_exec (Some 7%nat) [(2%nat, FThrow)] 40 a init in
  snd r = RError PSO /\ leaked (fst r) = [] /\ idle_regs (fst r) = true /\ log (fst r) = [1001%nat; 1%nat].
Proof. vm_compute. auto. Qed.

(* 2. whole histories: idle after every history of API calls that does not get stuck. *)
Theorem history_idle : forall lim faults fuel ops st,
  idle_regs st = true ->
  snd (run_calls lim faults fuel ops st) = true ->
  idle_regs (fst (run_calls lim faults fuel ops st)) = true.
Proof. exact Proofs.history_idle. Qed.

(* 4. nested_entry_restored — for EVERY node (every tree) started in ANY state (TopOK only says: an empty call stack
      means the top-level Go context): a node that completes restores every register and stack of its caller; a
      native action that panics leaves everything but sp as it found it, and the two error-returning conventions
      (Callable, RunProgram) restore sp as well. *)
Theorem nested_entry_restored : forall lim faults fuel nd s,
  TopOK s ->
  match snd (exec lim faults fuel nd s) with
  | ONorm => regs (fst (exec lim faults fuel nd s)) = regs s
  | OPanic _ =>
      same_but_sp s (fst (exec lim faults fuel nd s)) /\
      (match nd with NCallable _ _ | NRun _ _ => regs (fst (exec lim faults fuel nd s)) = regs s | _ => True end)
  | _ => True
  end.
Proof. exact Proofs.nested_entry_restored. Qed.

Example nested_entry_restored_nonvacuous :
  (* a native function (called from JS at depth 2) calls back a JS function that overflows the stack at limit 6 *)
  let s := set_cs [mkCtx true 0 1 0; halt_ctx] (set_sb 2 (set_sp 2 init)) in
  let r := exec (Some 6%nat) [] 40 (NCallable true [Rec]) s in
  snd r = OPanic PSO /\ regs (fst r) = regs s /\ leaked (fst r) = [].
Proof. vm_compute. auto. Qed.

(* 5. next_run_equivalent — an idle runtime with an empty job queue IS a fresh runtime that carries only the
      completed-effects log (plus the interrupt flag, which the API documents as persistent, and the harness's probe
      counter / observation fields): every later call behaves identically on both. *)
Theorem next_run_equivalent : forall lim faults fuel a s,
  idle_regs s = true -> jq s = [] ->
  api_exec lim faults fuel a s =
  api_exec lim faults fuel a (fresh_with (log s) (pcount s) (intr s) (trace s) (leaked s)).
Proof. exact Proofs.next_run_equivalent. Qed.

(* 6. The snapshot/restore lemma of handleThrow, for EVERY state: a frame tf whose snapshot was taken at s0, ANY later
      state s that piled contexts xs, iterator records ys, k references on s0's stacks, any frames [above] that the
      payload skips; unwinding lands exactly on s0's stacks, scope and sp (+1 for the caught value); prg/sb/args are
      those saved by the lowest piled context.  (This is the pure part: frame search, register restore, truncation;
      restoreStacks' walk over the dropped iterator records is theorem 6b.) *)
Theorem handleThrow_restores : forall p tf s0 above below s xs ys k,
  snap_of tf s0 -> skippable p tf = false -> forallb (skippable p) above = true ->
  ts s = above ++ tf :: below -> extends s0 s xs ys k ->
  let r := handle_throw p s in
  let s' := fst r in
  cs s' = cs s0 /\ its s' = its s0 /\ refs s' = refs s0 /\ stash s' = stash s0 /\
  sp s' = (if negb (t_marker tf) && t_catch tf then sp s0 + 1 else sp s0) /\
  (prg s', sb s', args s') = bottom_regs xs s /\
  ts s' = flagged tf :: below /\
  log s' = log s /\
  leaked s' = leaked s /\ jq s' = jq s /\ intr s' = intr s /\ pcount s' = pcount s /\ trace s' = trace s /\
  snd r = (if t_marker tf then OUnwound p
           else if t_catch tf then OCaught (length below) HCatch p else OCaught (length below) HFin p).
Proof. exact Proofs.handleThrow_restores. Qed.

Example handleThrow_restores_nonvacuous :
  let s0 := set_sp 4 (set_stash 1 init) in
  let s := set_its [(7%nat, None)] (set_cs [mkCtx true 0 5 0; mkCtx false 0 (-1) 0] (set_sp 9 (push_try false true false s0))) in
  regs (fst (handle_throw PCatch s)) = regs (set_sp 5 (set_ts [mkTf 0 0 0 4 1 false false false] s0)).
Proof. vm_compute. auto. Qed.

(* 6b. handleThrow with restoreStacks' walk ([raise]), for EVERY tree run by the return() methods: for a JS exception
      whose target frame is tf, (i) the walk starts with the iterator stack untouched (its sm = its s): whatever a
      return() call iterates is pushed ABOVE the tail being walked; (ii) [raise] is the walk followed by the pure
      handleThrow (or, when an uncatchable panic leaves a return() call, by the handling of that panic); (iii) if no
      ghost deviation is recorded (none can be any more), every return() call that comes back has restored every register and stack, and only THEN are the
      iterator and reference stacks cut to the frame's snapshot.  Native return() methods close in stack order, each
      dropped record exactly once, the outermost last. *)
Theorem raise_closes_then_truncates : forall lim faults fuel inrec p s tf rest,
  catchable p = true -> target p (ts s) = Some (tf, rest) ->
  let sm := set_ts (tf :: rest) (restore_regs tf s) in
  let dropped := firstn (length (its s) - t_iter tf) (its s) in
  let r := close_items lim (exec lim faults fuel) dropped sm in
  its sm = its s /\
  raise lim (exec lim faults fuel) inrec p s =
    match r with
    | (s1, ONorm) => handle_throw p s1
    | (s1, OPanic p') =>
        let s2 := restore_stacks (t_iter tf) (t_ref tf) s1 in     (* the deferred dropStacks *)
        handle_throw p' (with_regs_of s s2)
    | (s1, _) => (s1, OStuck)
    end /\
  (snd r = ONorm -> dv (fst r) = dv s ->
     regs (fst r) = regs sm /\
     its (fst (handle_throw p (fst r))) = low (t_iter tf) (its s) /\
     refs (fst (handle_throw p (fst r))) = Nat.min (t_ref tf) (refs s)).
Proof. exact Proofs.raise_closes_then_truncates. Qed.

Theorem close_items_native_log : forall lim ex items s,
  Forall (fun it : irec => snd it = None) items ->
  close_items lim ex items s = (set_log (log s ++ map (fun it => close_ev (fst it)) items) s, ONorm).
Proof. exact Proofs.close_items_native_log. Qed.

Example raise_closes_nonvacuous :
  (* try { for (a of outer) for (b of inner) throw } catch {}: inner.return() itself runs a for-of; closes: inner, outer *)
  let t := ARun [Try [ForOf 1 [] 2 [ForOf 2 [] 2 [Probe; Throw] (Some [ForOf 3 [] 1 [Probe] None; Effect 1002])] (Some [Effect 1001])] [Effect 5] [] true false] in
  let r := api_exec None [] 40 t init in
  snd r = RNormal /\ log (fst r) = [1002%nat; 1001%nat; 5%nat] /\ idle_full (fst r) = true /\
  map (fun x => match x with (_, _, _, _, _, _, n, _, _) => n end) (rev (trace (fst r))) = [2%nat; 3%nat].
Proof. vm_compute. auto. Qed.

Theorem handleThrow_idem : forall p tf s0 above below s xs ys k,
  snap_of tf s0 -> t_marker tf = true -> forallb (skippable p) above = true ->
  ts s = above ++ tf :: below -> extends s0 s xs ys k ->
  let s1 := fst (handle_throw p s) in
  regs (fst (handle_throw p s1)) = regs s1 /\ snd (handle_throw p s1) = snd (handle_throw p s) /\
  log (fst (handle_throw p s1)) = log s1.
Proof. exact Proofs.handleThrow_idem. Qed.

Theorem uncatchable_never_caught : forall p s, catchable p = false -> snd (handle_throw p s) = OUnwound p.
Proof. exact Proofs.uncatchable_never_caught. Qed.

Theorem handleThrow_shrinks : forall p s, (length (ts (fst (handle_throw p s))) <= length (ts s))%nat.
Proof. exact Proofs.handleThrow_shrinks. Qed.

(* 7. The former findings F16 (195c9cc), F17 (60d9770), F21 (82237e3), F22 (7d68b51), F23 (bd17f67) are repaired in
      /repo: their witnesses are idle under the current algorithm. *)
Theorem former_findings_repaired :
  idle_after None [(0%nat, FIntr)] w16 = true /\ idle_after (Some 3%nat) [] w16b = true /\
  idle_after None [(0%nat, FIntr)] w16c = true /\ idle_after (Some 0%nat) [] w17 = true /\
  idle_after (Some 2%nat) [] w21 = true /\ idle_after None [(0%nat, FGo)] w22 = true /\
  idle_after None [(0%nat, FThrow); (1%nat, FIntr)] w23 = true.
Proof. exact Proofs.former_findings_repaired. Qed.

Print Assumptions idle_restored.
Print Assumptions idle_restored_jobs.
Print Assumptions history_idle.
Print Assumptions nested_entry_restored.
Print Assumptions next_run_equivalent.
Print Assumptions handleThrow_restores.
Print Assumptions raise_closes_then_truncates.
Print Assumptions close_items_native_log.
Print Assumptions handleThrow_idem.
Print Assumptions uncatchable_never_caught.
Print Assumptions handleThrow_shrinks.
Print Assumptions former_findings_repaired.
