(* C05 — Equal numbers are indistinguishable however computed; conversions follow spec.
   ONLY theorem statements; each is closed by [exact] of a lemma of C05/Proofs*.v, C05/Refuted.v. *)
From Coq Require Import ZArith Bool List SpecFloat.
From Verif.Base Require Import F64.
From Verif.C05 Require Import Model Proofs Refuted.
Local Open Scope Z_scope.

Theorem canon_of_canon : forall f, canon (canon_of f) = true.
Proof. exact Proofs.canon_of_canon. Qed.

(* ---- findings: the transcription of the current tree does not have the full-strength property ---- *)
Theorem inc_canon_refuted : exists a, canon a = true /\ wf a = true /\ canon (op_inc a) = false.
Proof. exact Refuted.inc_canon_refuted. Qed.
Theorem dec_canon_refuted : exists a, canon a = true /\ wf a = true /\ canon (op_dec a) = false.
Proof. exact Refuted.dec_canon_refuted. Qed.
Theorem neg_canon_refuted : exists a, canon a = true /\ wf a = true /\ canon (op_neg a) = false.
Proof. exact Refuted.neg_canon_refuted. Qed.
Theorem intToValue_canon_refuted : exists i, canon (intToValue i) = false.
Proof. exact Refuted.intToValue_canon_refuted. Qed.
Theorem add_canon_refuted : exists a b, canon a = true /\ canon b = true /\ canon (op_add a b) = false.
Proof. exact Refuted.add_canon_refuted. Qed.
Theorem mul_canon_refuted : exists a b, canon a = true /\ canon b = true /\ canon (op_mul a b) = false.
Proof. exact Refuted.mul_canon_refuted. Qed.
Theorem toInt32_refuted : exists a, canon a = true /\ wf a = true /\ toInt32 a <> ToInt32_spec (val a).
Proof. exact Refuted.toInt32_refuted. Qed.
Theorem mul_zero_sign_refuted : exists a b, canon a = true /\ canon b = true /\
  num_sem (op_mul a b) <> num_sem (S_bin BMul a b).
Proof. exact Refuted.mul_zero_sign_refuted. Qed.
Theorem sameAs_noncanonical_asymmetric : exists a b, wf a = true /\ wf b = true /\ num_sem a = num_sem b /\
  sameAs a b = false /\ sameAs b a = true /\ hash a <> hash b.
Proof. exact Refuted.sameAs_noncanonical_asymmetric. Qed.

Print Assumptions canon_of_canon.
Print Assumptions inc_canon_refuted.
Print Assumptions toInt32_refuted.

(* ---- theorems over ALL inputs of the model ---- *)
From Verif.C05 Require Import Proofs2.

(* 1. one mathematical value has exactly one canonical, well-formed representation *)
Theorem canon_unique : forall a b, canon a = true -> canon b = true -> wf a = true -> wf b = true ->
  num_sem a = num_sem b -> a = b.
Proof. exact Proofs2.canon_unique. Qed.

(* 2. goja's canonicaliser is total, always canonical, and IS the specification-level canonicaliser *)
Theorem floatToValue_canon : forall f, canon (floatToValue f) = true.
Proof. exact Proofs2.floatToValue_canon. Qed.
Theorem floatToValue_eq_canon_of : forall f, floatToValue f = canon_of f.
Proof. exact Proofs2.floatToValue_eq_canon_of. Qed.
Theorem toNumeric_canon_id : forall a, canon a = true -> toNumeric a = a.
Proof. exact Proofs2.toNumeric_canon_id. Qed.

(* 3. intToValue is canonical on the guarded range (full statement refuted above: F9) *)
Theorem intToValue_canon_partial : forall i, Z.abs i <=? two53 = true -> canon (intToValue i) = true.
Proof. exact Proofs2.intToValue_canon_partial. Qed.

(* 4. closure: producers routed through floatToValue are canonical for every input; + and ++ on
      integers under the explicit range guard (unguarded statements refuted above: F7, F9) *)
Theorem un_canon_float_routed : forall o a, In o (UAbs :: UFloor :: UCeil :: UFround :: USqrt :: nil) ->
  canon (I_un o a) = true.
Proof. exact Proofs2.un_canon_float_routed. Qed.
Theorem bin_canon_float_routed : forall a b, canon (m_max a b) = true /\ canon (m_min a b) = true.
Proof. exact Proofs2.bin_canon_float_routed. Qed.
Theorem add_float_canon : forall a g, canon (op_add a (NFlt g)) = true.
Proof. exact Proofs2.add_float_canon. Qed.
Theorem add_int_canon_partial : forall x y, Z.abs x <=? two53 = true -> Z.abs y <=? two53 = true ->
  Z.abs (x + y) <=? two53 = true -> op_add (NInt x) (NInt y) = NInt (x + y) /\ canon (op_add (NInt x) (NInt y)) = true.
Proof. exact Proofs2.add_int_canon_partial. Qed.
Theorem inc_int_canon_partial : forall n, Z.abs n <=? two53 = true -> Z.abs (n + 1) <=? two53 = true ->
  canon (op_inc (NInt n)) = true.
Proof. exact Proofs2.inc_int_canon_partial. Qed.

Print Assumptions canon_unique.
Print Assumptions floatToValue_canon.
Print Assumptions floatToValue_eq_canon_of.
Print Assumptions toNumeric_canon_id.
Print Assumptions intToValue_canon_partial.
Print Assumptions un_canon_float_routed.
Print Assumptions bin_canon_float_routed.
Print Assumptions add_float_canon.
Print Assumptions add_int_canon_partial.
Print Assumptions inc_int_canon_partial.
