(* C05 — Equal numbers are indistinguishable however computed; conversions follow spec.
   ONLY theorem statements; each is closed by [exact] of a lemma of C05/Proofs*.v, C05/Refuted.v. *)
From Coq Require Import ZArith Bool List SpecFloat.
From Verif.Base Require Import F64.
From Verif.C05 Require Import Model Proofs Refuted.
Local Open Scope Z_scope.

Theorem canon_of_canon : forall f, canon (canon_of f) = true.
Proof. exact Proofs.canon_of_canon. Qed.

(* ---- findings: the transcription of the current tree does not have the full-strength property ---- *)
Theorem inc_canon_refuted : exists a, canon a = true /\ wf a = true /\ canon (op_inc a) = false.
Proof. exact Refuted.inc_canon_refuted. Qed.
Theorem dec_canon_refuted : exists a, canon a = true /\ wf a = true /\ canon (op_dec a) = false.
Proof. exact Refuted.dec_canon_refuted. Qed.
Theorem neg_canon_refuted : exists a, canon a = true /\ wf a = true /\ canon (op_neg a) = false.
Proof. exact Refuted.neg_canon_refuted. Qed.
Theorem intToValue_canon_refuted : exists i, canon (intToValue i) = false.
Proof. exact Refuted.intToValue_canon_refuted. Qed.
Theorem add_canon_refuted : exists a b, canon a = true /\ canon b = true /\ canon (op_add a b) = false.
Proof. exact Refuted.add_canon_refuted. Qed.
Theorem mul_canon_refuted : exists a b, canon a = true /\ canon b = true /\ canon (op_mul a b) = false.
Proof. exact Refuted.mul_canon_refuted. Qed.
Theorem toInt32_refuted : exists a, canon a = true /\ wf a = true /\ toInt32 a <> ToInt32_spec (val a).
Proof. exact Refuted.toInt32_refuted. Qed.
Theorem mul_zero_sign_refuted : exists a b, canon a = true /\ canon b = true /\
  num_sem (op_mul a b) <> num_sem (S_bin BMul a b).
Proof. exact Refuted.mul_zero_sign_refuted. Qed.
Theorem sameAs_noncanonical_asymmetric : exists a b, wf a = true /\ wf b = true /\ num_sem a = num_sem b /\
  sameAs a b = false /\ sameAs b a = true /\ hash a <> hash b.
Proof. exact Refuted.sameAs_noncanonical_asymmetric. Qed.

Print Assumptions canon_of_canon.
Print Assumptions inc_canon_refuted.
Print Assumptions toInt32_refuted.
