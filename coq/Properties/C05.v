(* C05 — Equal numbers are indistinguishable however computed; conversions follow spec.
   ONLY theorem statements; each is closed by [exact] of a lemma of C05/Proofs*.v, C05/Refuted.v.
   I = goja's numeric paths transcribed (coq/C05/Model.v, tree after the fixes of F7-F10);
   S = the ECMAScript operations on the mathematical value [num_sem]. *)
From Coq Require Import ZArith Bool List SpecFloat.
From Verif.Base Require Import F64.
From Verif.C05 Require Import Model Proofs Proofs2 Proofs3 Proofs4 Proofs5 Refuted.
From Verif.C05 Require GoSem LeafGen LeafTie.
Local Open Scope Z_scope.

(* 1. one mathematical value has exactly one canonical, well-formed representation *)
Theorem canon_unique : forall a b, canon a = true -> canon b = true -> wf a = true -> wf b = true ->
  num_sem a = num_sem b -> a = b.
Proof. exact Proofs2.canon_unique. Qed.

(* 2. the canonicalisers: total, always canonical, equal to the specification-level canonicaliser *)
Theorem canon_of_canon : forall f, canon (canon_of f) = true.
Proof. exact Proofs.canon_of_canon. Qed.
Theorem floatToValue_canon : forall f, canon (floatToValue f) = true.
Proof. exact Proofs2.floatToValue_canon. Qed.
Theorem floatToValue_eq_canon_of : forall f, floatToValue f = canon_of f.
Proof. exact Proofs2.floatToValue_eq_canon_of. Qed.
Theorem intToValue_canon : forall i, canon (intToValue i) = true.
Proof. exact Proofs2.intToValue_canon. Qed.
Theorem toNumeric_canon_id : forall a, canon a = true -> toNumeric a = a.
Proof. exact Proofs2.toNumeric_canon_id. Qed.

(* 3. closure, full strength: every unary/binary operator, Math function and integer conversion of the
      model returns a canonical Number on canonical operands; hence so does every expression tree *)
Theorem un_canon_closed : forall o a, canon a = true -> canon (I_un o a) = true.
Proof. exact Proofs4.un_canon_closed. Qed.
Theorem bin_canon_closed : forall o a b, canon a = true -> canon b = true -> canon (I_bin o a b) = true.
Proof. exact Proofs4.bin_canon_closed. Qed.
Theorem pow_canon_closed : forall a b r, op_pow a b = Some r -> canon r = true.
Proof. exact Proofs4.pow_canon_closed. Qed.
Theorem canon_closed : forall e rho, (forall x, canon (rho x) = true) -> canon (eval rho e) = true.
Proof. exact Proofs4.canon_closed. Qed.

(* 4. float64(i) is exact on the safe range (the bridge between the two representations) *)
Theorem of_Z_exact : forall z, z <> 0 -> Z.abs z <= two53 ->
  exists s m e, of_Z z = S754_finite s m e /\ s = (z <? 0) /\
    is_integral (of_Z z) = true /\ trunc_Z (of_Z z) = Some z /\
    valid_binary prec64 emax64 (of_Z z) = true /\ int_like (of_Z z) = true.
Proof. exact Proofs3.of_Z_exact. Qed.

(* 5. SameValue / === / SameValueZero as goja implements them per constructor pair agree with the
      specification on canonical values, in BOTH argument orders *)
Theorem sameAs_iff_eq : forall a b, canon a = true -> canon b = true -> (sameAs a b = true <-> a = b).
Proof. exact Proofs3.sameAs_iff_eq. Qed.
Theorem sameAs_sound : forall a b, canon a = true -> canon b = true -> wf a = true -> wf b = true ->
  sameAs a b = sameAs b a /\ sameAs a b = same_value_spec (num_sem a) (num_sem b).
Proof. exact Proofs3.sameAs_sound. Qed.
Theorem strictEquals_sound : forall a b, canon a = true -> canon b = true -> wf a = true -> wf b = true ->
  strictEquals a b = strictEquals b a /\ strictEquals a b = strict_eq_spec (num_sem a) (num_sem b).
Proof. exact Proofs4.strictEquals_sound. Qed.
Theorem sameValueZero_sound : forall a b, canon a = true -> canon b = true -> wf a = true -> wf b = true ->
  sameValueZero a b = sameValueZero b a /\
  sameValueZero a b = same_value_zero_spec (num_sem a) (num_sem b).
Proof. exact Proofs3.sameValueZero_sound. Qed.

(* 6. hashing respects SameValueZero on canonical numbers (self-contained: imported by C18) *)
Theorem hash_respects_svz_num : forall a b, canon a = true -> canon b = true ->
  sameValueZero a b = true -> hash_words a = hash_words b.
Proof. exact Proofs3.hash_respects_svz_num. Qed.

(* 7. integer conversions equal the specification for every canonical input (no |x| < 2^63 guard) *)
Theorem toIntN_eq_spec : forall signed bits a, 0 < bits <= 32 -> canon a = true ->
  toIntN signed bits a = spec_modulo bits signed (val a).
Proof. exact Proofs4.toIntN_eq_spec. Qed.
Theorem toInt32_eq_spec : forall a, canon a = true -> toInt32 a = ToInt32_spec (val a).
Proof. exact Proofs4.toInt32_eq_spec. Qed.
Theorem toUint32_eq_spec : forall a, canon a = true -> toUint32 a = ToUint32_spec (val a).
Proof. exact Proofs4.toUint32_eq_spec. Qed.

(* 8. well-formedness of the float payloads.  Unconditional: the canonicaliser keeps it and float64(i) has
      it on the safe range.  For the arithmetic the closure is proved GIVEN that SpecFloat's rounding
      primitives return valid_binary values ([prims_valid]: Flocq proves that with the real-number axioms;
      it is an explicit premise here, not an assumption hidden in the context). *)
Theorem floatToValue_wf : forall f, valid f = true -> wf (floatToValue f) = true.
Proof. exact Proofs5.floatToValue_wf. Qed.
Theorem of_Z_safe_valid : forall z, Z.abs z <= two53 -> valid (of_Z z) = true.
Proof. exact Proofs5.of_Z_safe_valid. Qed.
Theorem wf_closed_given_prims : prims_valid ->
  (forall o a, wf a = true -> wf (I_un o a) = true) /\
  (forall o a b, wf a = true -> wf b = true -> wf (I_bin o a b) = true).
Proof. exact Proofs5.wf_closed_given_prims. Qed.

(* ---- the canonical-form hypothesis is necessary: outside it SameAs is asymmetric and the hash differs ---- *)
Theorem sameAs_noncanonical_asymmetric : exists a b, wf a = true /\ wf b = true /\ num_sem a = num_sem b /\
  sameAs a b = false /\ sameAs b a = true /\ hash a <> hash b.
Proof. exact Refuted.sameAs_noncanonical_asymmetric. Qed.

Print Assumptions canon_unique.
Print Assumptions canon_of_canon.
Print Assumptions floatToValue_canon.
Print Assumptions floatToValue_eq_canon_of.
Print Assumptions intToValue_canon.
Print Assumptions toNumeric_canon_id.
Print Assumptions un_canon_closed.
Print Assumptions bin_canon_closed.
Print Assumptions pow_canon_closed.
Print Assumptions canon_closed.
Print Assumptions of_Z_exact.
Print Assumptions sameAs_iff_eq.
Print Assumptions sameAs_sound.
Print Assumptions strictEquals_sound.
Print Assumptions sameValueZero_sound.
Print Assumptions hash_respects_svz_num.
Print Assumptions toIntN_eq_spec.
Print Assumptions toInt32_eq_spec.
Print Assumptions toUint32_eq_spec.
Print Assumptions floatToValue_wf.
Print Assumptions of_Z_safe_valid.
Print Assumptions wf_closed_given_prims.
Print Assumptions sameAs_noncanonical_asymmetric.

(* 9. the leaf layer AS TRANSLATED FROM THE GO SOURCE (C05/LeafGen.v, regenerated by harness/cmd/go2v on every run of the
      check) equals the model the theorems above are about: for all arguments in the range of their Go type / all
      well-formed float payloads.  Hence sections 2, 3 and 7 hold of the code of these functions as it is now. *)
Theorem leaf_intToValue : forall i, GoSem.in_int64 i -> LeafGen.intToValue_gen i = intToValue i.
Proof. exact LeafTie.intToValue_gen_tie. Qed.
Theorem leaf_intToValue_bounds : forall rf ri i, LeafGen.intToValue_bounds rf ri i = true.
Proof. exact LeafTie.intToValue_bounds_ok. Qed.
Theorem leaf_floatToValue : forall f, valid f = true -> LeafGen.floatToValue_gen f = floatToValue f.
Proof. exact LeafTie.floatToValue_gen_tie. Qed.
Theorem leaf_floatToInt : forall f, valid f = true ->
  LeafGen.floatToInt_gen f = match floatToInt f with Some k => (k, true) | None => (0, false) end.
Proof. exact LeafTie.floatToInt_gen_tie. Qed.
Theorem leaf_floatToInt64Mod32 : forall f, valid f = true -> LeafGen.floatToInt64Mod32_gen f = floatToInt64Mod32 f.
Proof. exact LeafTie.floatToInt64Mod32_gen_tie. Qed.
Theorem leaf_toInt8 : forall a, wf a = true -> LeafGen.toInt8_gen a = toIntN true 8 a.
Proof. exact LeafTie.toInt8_gen_tie. Qed.
Theorem leaf_toUint8 : forall a, wf a = true -> LeafGen.toUint8_gen a = toIntN false 8 a.
Proof. exact LeafTie.toUint8_gen_tie. Qed.
Theorem leaf_toInt16 : forall a, wf a = true -> LeafGen.toInt16_gen a = toIntN true 16 a.
Proof. exact LeafTie.toInt16_gen_tie. Qed.
Theorem leaf_toUint16 : forall a, wf a = true -> LeafGen.toUint16_gen a = toIntN false 16 a.
Proof. exact LeafTie.toUint16_gen_tie. Qed.
Theorem leaf_toInt32 : forall a, wf a = true -> LeafGen.toInt32_gen a = toInt32 a.
Proof. exact LeafTie.toInt32_gen_tie. Qed.
Theorem leaf_toUint32 : forall a, wf a = true -> LeafGen.toUint32_gen a = toUint32 a.
Proof. exact LeafTie.toUint32_gen_tie. Qed.
Theorem leaf_toInt64 : forall a, LeafGen.toInt64_gen a = LeafTie.toInt64_ref a.
Proof. exact LeafTie.toInt64_gen_tie. Qed.
Theorem leaf_toUint64 : forall a, LeafGen.toUint64_gen a = LeafTie.toUint64_ref a.
Proof. exact LeafTie.toUint64_gen_tie. Qed.
Theorem leaf_toUint8Clamp : forall a, LeafGen.toUint8Clamp_gen a = toUint8Clamp a.
Proof. exact LeafTie.toUint8Clamp_gen_tie. Qed.
Theorem leaf_floatToIntClip : forall n, LeafGen.floatToIntClip_gen n = floatToIntClip n.
Proof. exact LeafTie.floatToIntClip_gen_tie. Qed.
Theorem leaf_ToInteger : forall a, LeafGen.Value_ToInteger_gen a = toInteger a.
Proof. exact LeafTie.Value_ToInteger_gen_tie. Qed.
Theorem leaf_toLength : forall a, LeafGen.toLength_gen a = toLength a.
Proof. exact LeafTie.toLength_gen_tie. Qed.
Theorem leaf_relToIdx : forall rel l, GoSem.in_int64 rel -> 0 <= l <= two53 ->
  LeafGen.relToIdx_gen rel l = (if 0 <=? rel then Z.min rel l else Z.max (l + rel) 0) /\
  0 <= LeafGen.relToIdx_gen rel l <= l.
Proof. exact LeafTie.relToIdx_gen_spec. Qed.
Theorem leaf_toIdx : forall v, GoSem.in_int64 v ->
  LeafGen.toIdx_gen v = (if (0 <=? v) && (v <? 4294967295) then v else 4294967295) /\
  0 <= LeafGen.toIdx_gen v <= 4294967295.
Proof. exact LeafTie.toIdx_gen_spec. Qed.
Theorem leaf_toIntStrict : forall i, LeafGen.toIntStrict_gen i = i.
Proof. exact LeafTie.toIntStrict_gen_id. Qed.
Theorem leaf_toIntClamp : forall i, LeafGen.toIntClamp_gen i = i.
Proof. exact LeafTie.toIntClamp_gen_id. Qed.
(* transfer, spelled out for two of them *)
Theorem leaf_intToValue_canon : forall i, GoSem.in_int64 i -> canon (LeafGen.intToValue_gen i) = true.
Proof. exact LeafTie.intToValue_gen_canon. Qed.
Theorem leaf_toInt32_eq_spec : forall a, canon a = true -> wf a = true -> LeafGen.toInt32_gen a = ToInt32_spec (val a).
Proof. exact LeafTie.toInt32_gen_eq_spec. Qed.
(* the generated file reports no function outside the translatable subset *)
Theorem leaf_all_translated : LeafGen.untranslated = nil.
Proof. reflexivity. Qed.

Print Assumptions leaf_intToValue.
Print Assumptions leaf_floatToValue.
Print Assumptions leaf_floatToInt64Mod32.
Print Assumptions leaf_toInt32.
Print Assumptions leaf_toUint8Clamp.
Print Assumptions leaf_toLength.
Print Assumptions leaf_relToIdx.
Print Assumptions leaf_toInt32_eq_spec.
