(* C11 - A forwarding Proxy equals its target; invariant-breaking handlers are rejected.
   Statements only; proofs in C11/Proofs.v and C11/Proofs2.v. *)
From Coq Require Import List NArith Bool.
Import ListNotations.
From Verif.C11 Require Import Model Proofs Proofs2.

(* (1) goja's post-trap checks (proxy.go after fixes beda41a, 178fa38) = ECMA-262 10.5 post-conditions: all 13 traps, every trap result, every well-formed target of any size.  No guard. *)
Theorem checks_eq_spec :
  forall c t, wf t = true -> goja_check c t = spec_check c t.
Proof. exact Proofs2.checks_eq_spec. Qed.

(* __isCompatibleDescriptor = IsCompatiblePropertyDescriptor (ValidateAndApplyPropertyDescriptor with O undefined) for every descriptor and every existing property *)
Theorem compat_eq :
  forall ext d cur,
  desc_invalid d = false -> goja_compat ext d cur = spec_compat ext d cur.
Proof. exact Proofs.compat_eq. Qed.

(* ownKeys: goja's one-pass keySet algorithm = the spec's two-pass algorithm, for key lists and property tables of any length *)
Theorem ownkeys_eq :
  forall r t, wf t = true -> goja_ownkeys r t = spec_ownkeys r t.
Proof. exact Proofs.ownkeys_eq. Qed.

(* getOwnPropertyDescriptor: unguarded *)
Theorem gopd_eq :
  forall r cur ext, goja_gopd r cur ext = spec_gopd r cur ext.
Proof. exact Proofs.gopd_eq. Qed.

(* defineProperty: unguarded *)
Theorem define_eq :
  forall d (r : bool) cur ext,
  desc_invalid d = false -> goja_define d r cur ext = spec_define d r cur ext.
Proof. exact Proofs.define_eq. Qed.

(* the former witnesses of F6/F6b/F6c now agree with the spec (regressions) *)
Theorem f6_repaired :
  goja_check (CGopd 1%N (GDesc (of_prop (PAcc (Some 1%N) None false false)))) acc_target
    = RDesc (Some (PAcc (Some 1%N) None false false)) /\
  goja_check (CGopd 1%N (GDesc (of_prop (PAcc (Some 2%N) None false false)))) acc_target = RTypeError /\
  goja_check (CDefine 1%N (mkD None None None None (Some (Some 1%N)) None) true) data_target = RTypeError.
Proof. exact Proofs2.f6_repaired. Qed.

Theorem f6c_repaired :
  goja_check (CGopd 1%N (GDesc (of_prop (PAcc None None true true)))) undef_acc_target
    = RDesc (Some (PAcc None None true true)).
Proof. exact Proofs2.f6c_repaired. Qed.

(* target operations keep the property table duplicate-free *)
Theorem ord_step_wf :
  forall w o t, wf t = true -> wf (snd (ord_step w o t)) = true.
Proof. exact Proofs2.ord_step_wf. Qed.

(* (2) a trap that reports what Reflect.<op> on the target answered is never rejected and its answer becomes the result - every operation, every target *)
Theorem honest_accepted :
  forall w o t, wf t = true ->
  let '(r, t') := ord_step w o t in
  r <> RTypeError ->
  exists c, honest_call o r = Some c /\ spec_check c t' = r.
Proof. exact Proofs2.honest_accepted. Qed.

(* (3) n layers of forwarding proxies = the target itself (result and target state), by induction on n *)
Theorem forwarding_transparent :
  forall w n o t, wf t = true ->
  layered spec_check w n o t = ord_step w o t.
Proof. exact Proofs2.forwarding_transparent. Qed.

(* the same through goja's own checks, unguarded *)
Theorem goja_forwarding_transparent :
  forall w n o t, wf t = true ->
  layered goja_check w n o t = ord_step w o t.
Proof. exact Proofs2.goja_forwarding_transparent. Qed.

(* (4) exactly the lying results are rejected *)
Theorem lying_has :
  forall k r t, spec_check (CHas k r) t = RTypeError <->
  r = false /\ exists c, find_prop k (t_props t) = Some c /\ (p_conf c = false \/ t_ext t = false).
Proof. exact Proofs2.lying_has. Qed.

Theorem lying_delete :
  forall k r t, spec_check (CDelete k r) t = RTypeError <->
  r = true /\ exists c, find_prop k (t_props t) = Some c /\ (p_conf c = false \/ t_ext t = false).
Proof. exact Proofs2.lying_delete. Qed.

Theorem lying_get :
  forall k r t, spec_check (CGet k r) t = RTypeError <->
  (exists v e, find_prop k (t_props t) = Some (PData v false e false) /\ r <> v) \/
  (exists s e, find_prop k (t_props t) = Some (PAcc None s e false) /\ r <> vundef).
Proof. exact Proofs2.lying_get. Qed.

Theorem lying_set :
  forall k v r t, spec_check (CSet k v r) t = RTypeError <->
  r = true /\
  ((exists v' e, find_prop k (t_props t) = Some (PData v' false e false) /\ v <> v') \/
   (exists g e, find_prop k (t_props t) = Some (PAcc g None e false))).
Proof. exact Proofs2.lying_set. Qed.

Theorem lying_extensibility :
  forall t,
  (forall r, spec_check (CIsExt r) t = RTypeError <-> r <> t_ext t) /\
  (forall r, spec_check (CPrevExt r) t = RTypeError <-> r = true /\ t_ext t = true).
Proof. exact Proofs2.lying_extensibility. Qed.

Theorem lying_prototype :
  forall t,
  (forall r, spec_check (CGetProto r) t = RTypeError <->
     r = PRNonObj \/ (t_ext t = false /\
       match r with PRObj o => t_proto t <> Some o | PRNull => t_proto t <> None | PRNonObj => True end)) /\
  (forall v r, spec_check (CSetProto v r) t = RTypeError <-> r = true /\ t_ext t = false /\ v <> t_proto t).
Proof. exact Proofs2.lying_prototype. Qed.

Theorem lying_ownkeys :
  forall l t, wf t = true ->
  (spec_check (COwnKeys (KList l)) t <> RTypeError <->
   exists u, entries_keys l = Some u /\ NoDup u /\
     (forall k p, In (k, p) (t_props t) -> p_conf p = false -> In k u) /\
     (t_ext t = false -> (forall k, In k (keys_of t) -> In k u) /\ (forall k, In k u -> In k (keys_of t)))).
Proof. exact Proofs2.lying_ownkeys. Qed.

Theorem lying_gopd :
  forall k t,
  (* "does not exist" for a non-configurable property or on a non-extensible target *)
  (forall c, find_prop k (t_props t) = Some c -> p_conf c = false \/ t_ext t = false ->
     spec_check (CGopd k GUndef) t = RTypeError) /\
  (* a non-object *)
  spec_check (CGopd k GNonObj) t = RTypeError /\
  (* a property that does not exist, on a non-extensible target *)
  (forall d, find_prop k (t_props t) = None -> t_ext t = false -> spec_check (CGopd k (GDesc d)) t = RTypeError) /\
  (* reporting non-configurable what is absent or configurable *)
  (forall d, flag_false (d_conf (complete d)) = true ->
     match find_prop k (t_props t) with None => True | Some c => p_conf c = true end ->
     spec_check (CGopd k (GDesc d)) t = RTypeError) /\
  (* reporting configurable what is non-configurable *)
  (forall d c, find_prop k (t_props t) = Some c -> p_conf c = false -> d_conf d = Some true ->
     spec_check (CGopd k (GDesc d)) t = RTypeError) /\
  (* a different value for a non-configurable non-writable data property *)
  (forall d v v' e, find_prop k (t_props t) = Some (PData v false e false) -> d_value d = Some v' -> v' <> v ->
     spec_check (CGopd k (GDesc d)) t = RTypeError) /\
  (* a different getter or setter for a non-configurable accessor *)
  (forall d g s e g', find_prop k (t_props t) = Some (PAcc g s e false) -> d_get d = Some g' -> g' <> g ->
     spec_check (CGopd k (GDesc d)) t = RTypeError) /\
  (forall d g s e s', find_prop k (t_props t) = Some (PAcc g s e false) -> d_set d = Some s' -> s' <> s ->
     spec_check (CGopd k (GDesc d)) t = RTypeError).
Proof. exact Proofs2.lying_gopd. Qed.

Theorem lying_define :
  forall k d t, desc_invalid d = false ->
  (* claiming success for a new property on a non-extensible target *)
  (find_prop k (t_props t) = None -> t_ext t = false -> spec_check (CDefine k d true) t = RTypeError) /\
  (* claiming to have made non-configurable what is absent or still configurable *)
  (d_conf d = Some false ->
     match find_prop k (t_props t) with None => True | Some c => p_conf c = true end ->
     spec_check (CDefine k d true) t = RTypeError) /\
  (* claiming success for a descriptor the target's property is incompatible with *)
  (forall c, find_prop k (t_props t) = Some c -> spec_compat (t_ext t) d (Some c) = false ->
     spec_check (CDefine k d true) t = RTypeError) /\
  (* claiming to have made non-writable a non-configurable property that is still writable *)
  (forall v e, find_prop k (t_props t) = Some (PData v true e false) -> d_writable d = Some false ->
     spec_check (CDefine k d true) t = RTypeError).
Proof. exact Proofs2.lying_define. Qed.

Theorem lying_construct :
  forall r t, spec_check (CConstruct r) t = RTypeError <-> r = None.
Proof. exact Proofs2.lying_construct. Qed.

(* goja's checks reject exactly the same lies, every trap *)
Theorem goja_rejects_lies :
  forall c t, wf t = true ->
  (goja_check c t = RTypeError <-> spec_check c t = RTypeError).
Proof. exact Proofs2.goja_rejects_lies. Qed.

(* (5) a revoked proxy throws TypeError on every operation *)
Theorem revoked_throws :
  forall c t, goja_proxy_op true c t = RTypeError /\ spec_proxy_op true c t = RTypeError.
Proof. exact Proofs2.revoked_throws. Qed.

(* non-vacuity *)
Example ex_checks_guard :
  wf ex_target = true /\
  goja_check (CHas 1%N false) ex_target = RTypeError /\ spec_check (CHas 1%N true) ex_target = RBool true.
Proof. exact Proofs2.ex_checks_guard. Qed.

Example ex_ownkeys :
  goja_check (COwnKeys (KList [EKey 1%N; EKey 2%N; EKey 4%N])) ex_target = RKeys [1%N; 2%N; 4%N] /\
  goja_check (COwnKeys (KList [EKey 1%N; EKey 2%N])) ex_target = RTypeError /\
  goja_check (COwnKeys (KList [EKey 1%N; EKey 2%N; EKey 4%N; EKey 4%N])) ex_target = RTypeError /\
  goja_check (COwnKeys (KList [EKey 1%N; EKey 2%N; EKey 4%N; EKey 5%N])) ex_target = RTypeError.
Proof. exact Proofs2.ex_ownkeys. Qed.

Example ex_honest :
  ord_step w0 (ODefine 4%N (mkD (Some 5%N) None None (Some false) None None)) ex_target
  = (RBool true, mkT false (Some 1%N) [(1%N, PData 1%N false true false); (2%N, PAcc None (Some 2%N) false false); (4%N, PData 5%N true true false)])
  /\ layered goja_check w0 3 (ODefine 4%N (mkD (Some 5%N) None None (Some false) None None)) ex_target
     = ord_step w0 (ODefine 4%N (mkD (Some 5%N) None None (Some false) None None)) ex_target
  /\ layered goja_check w0 2 (OGopd 2%N) ex_target = ord_step w0 (OGopd 2%N) ex_target.
Proof. exact Proofs2.ex_honest. Qed.

Example ex_lying_get :
  spec_check (CGet 1%N 2%N) ex_target = RTypeError /\ spec_check (CGet 2%N 1%N) ex_target = RTypeError /\
  spec_check (CGet 1%N 1%N) ex_target = RVal 1%N /\ spec_check (CSet 2%N 1%N true) ex_target = RBool true /\
  spec_check (CSet 1%N 2%N true) ex_target = RTypeError.
Proof. exact Proofs2.ex_lying_get. Qed.

Print Assumptions checks_eq_spec.
Print Assumptions compat_eq.
Print Assumptions ownkeys_eq.
Print Assumptions gopd_eq.
Print Assumptions define_eq.
Print Assumptions f6_repaired.
Print Assumptions f6c_repaired.
Print Assumptions ord_step_wf.
Print Assumptions honest_accepted.
Print Assumptions forwarding_transparent.
Print Assumptions goja_forwarding_transparent.
Print Assumptions lying_has.
Print Assumptions lying_delete.
Print Assumptions lying_get.
Print Assumptions lying_set.
Print Assumptions lying_extensibility.
Print Assumptions lying_prototype.
Print Assumptions lying_ownkeys.
Print Assumptions lying_gopd.
Print Assumptions lying_define.
Print Assumptions lying_construct.
Print Assumptions goja_rejects_lies.
Print Assumptions revoked_throws.
