From Coq Require Import List NArith Bool.
From Verif.C11 Require Import Model.
Theorem placeholder : True. Proof. exact I. Qed.
Print Assumptions placeholder.
