(* C12 — Number <-> string conversions are exact.  ONLY theorem statements; each is closed by [exact]
   of a lemma of C12/Proofs.v.  All statements are over exact integers:
   a non-negative rational is N/D; every finite double is an integer multiple of 2^-1074, and
   [round_pos N D = (q, k)] denotes the value q * 2^k in that unit (k = binary exponent + 1074). *)
From Coq Require Import ZArith Bool List SpecFloat.
From Verif.Base Require Import F64.
From Verif.C12 Require Import Model Proofs ProofsRound ProofsShortest ProofsLayout.
Import ListNotations.
Local Open Scope Z_scope.

(* 1. parse_decimal / every string->number front end rounds through [round_pos]: for EVERY positive
      rational N/D the result is at least as close to N/D as ANY double m' * 2^k' (m' < 2^53, any
      exponent k' >= 0 in units of 2^-1074, i.e. subnormals included, exponent unbounded above), and
      when some other double is equally close the chosen significand is even.  Cross-multiplied by D. *)
Theorem parse_decimal_nearest_even : forall N D m' k', 0 < N -> 0 < D -> 0 <= m' < 2 ^ 53 -> 0 <= k' ->
  let q := fst (round_pos N D) in let k := snd (round_pos N D) in
  let Nn := N * 2 ^ 1074 in let G := m' * 2 ^ k' in
  Z.abs (Nn - q * (D * 2 ^ k)) <= Z.abs (Nn - G * D) /\
  (Z.abs (Nn - q * (D * 2 ^ k)) = Z.abs (Nn - G * D) -> G * D <> q * (D * 2 ^ k) -> Z.even q = true).
Proof. exact Proofs.round_pos_nearest. Qed.

(* 2. the rounded significand has at most 53 bits (2^53 only as the carry-out of 2^53-1), and is
      normalised (>= 2^52) unless the exponent is the subnormal one *)
Theorem parse_decimal_wellformed : forall N D, 0 < N -> 0 < D ->
  let q := fst (round_pos N D) in let k := snd (round_pos N D) in
  0 <= k /\ 0 <= q <= 2 ^ 53 /\ (0 < k -> 2 ^ 52 <= q).
Proof. exact Proofs.round_pos_wellformed. Qed.

(* 3. packing (q, k) into a binary64 datum keeps sign, value and parity; the result is never NaN, is a
      zero only for q = 0, and is infinite only when the rounded value q*2^k is >= 2^1024
      (k > 2045, or q = 2^53 with k = 2045: the overflow threshold 2^1024 - 2^970 rounds up to it) *)
Theorem parse_decimal_pack : forall s q k, 0 <= k -> 0 <= q <= 2 ^ 53 ->
  match pack s (q, k) with
  | S754_nan => False
  | S754_zero s' => s' = s /\ q = 0
  | S754_infinity s' => s' = s /\ 0 < q /\ (2045 < k \/ (q = 2 ^ 53 /\ 2045 <= k))
  | S754_finite s' m e =>
      s' = s /\ 0 < q /\ -1074 <= e <= 971 /\ Z.pos m * 2 ^ (e + 1074) = q * 2 ^ k /\
      Z.even (Z.pos m) = Z.even q /\ Z.pos m < 2 ^ 53
  end.
Proof. exact Proofs.pack_spec. Qed.

(* 4. the shift-based division used by the model is the mathematical one *)
Theorem divmod_spec : forall A B, 0 < B -> divmod A B = (A / B, A mod B).
Proof. exact Proofs.divmod_spec. Qed.

(* 5. toFixed / toExponential / toPrecision digit selection: n = rhu A B minimises |n - A/B| over ALL
      integers n', and on a tie it is the LARGER one (A/B = x * 10^f for toFixed, for every f) *)
Theorem fixed_correct : forall A B n', 0 < B ->
  let n := rhu A B in
  Z.abs (n * B - A) <= Z.abs (n' * B - A) /\
  (Z.abs (n * B - A) = Z.abs (n' * B - A) -> n' <= n).
Proof. exact Proofs.rhu_nearest. Qed.

(* 6. shortest, FULL: for every canonical binary64 significand/exponent (what every finite bit pattern
      decodes to: theorem 6c) the search returns (6b), and its result d0*10^e0 has n <= 17 digits,
      parses back to x, and NO decimal d*10^t with fewer digits -- any digits d, any exponent t --
      parses to x (6a).  Uses monotonicity of rounding (10) and exactness on doubles (12). *)
Theorem shortest_correct : forall s m e d0 e0, canon64 m e ->
  shortest (S754_finite s m e) = Some (d0, e0) ->
  let x := S754_finite false m e in
  exists n, 1 <= n <= 17 /\ 10 ^ (n - 1) <= d0 < 10 ^ n /\
    rounds_to x d0 e0 = true /\
    (forall n' d t, 1 <= n' < n -> 10 ^ (n' - 1) <= d < 10 ^ n' -> rounds_to x d t = false).
Proof. exact ProofsShortest.shortest_correct. Qed.

Theorem shortest_total : forall s m e, canon64 m e -> exists r, shortest (S754_finite s m e) = Some r.
Proof. exact ProofsShortest.shortest_total. Qed.

Theorem of_bits_canonical : forall b,
  match of_bits b with S754_finite _ m e => canon64 m e | _ => True end.
Proof. exact ProofsLayout.of_bits_canon. Qed.

(* 6d. same length: if ANY n-digit decimal rounds to x then one of the two n-digit neighbours of x
      (floor / ceiling of x*10^(n-pt)) does, and it is at least as close; between the two neighbours
      the nearer one is returned, the even digit on an exact tie (which cannot arise for shortest). *)
Theorem neighbours_suffice : forall N D pt n sx mx ex d t,
  0 < N -> 0 < D -> dec_pt N D = Some pt -> 1 <= n ->
  round_ratio false N D = S754_finite sx mx ex ->
  10 ^ (n - 1) <= d < 10 ^ n ->
  rounds_to (S754_finite sx mx ex) d t = true ->
  let lo := fst (fst (fst (cands N D pt n))) in
  rounds_to (S754_finite sx mx ex) lo (- (n - pt)) = true \/
  rounds_to (S754_finite sx mx ex) (lo + 1) (- (n - pt)) = true.
Proof. exact ProofsShortest.neighbours_suffice. Qed.

Theorem shortest_closest_of_neighbours : forall x N D pt n d e,
  pick_cand x N D pt n = Some (d, e) ->
  let '(lo, r, B, s) := cands N D pt n in
  (rounds_to x lo (- s) = true -> rounds_to x (lo + 1) (- s) = true ->
     (2 * r < B /\ (d, e) = norm_cand lo (- s) n) \/
     (B < 2 * r /\ (d, e) = norm_cand (lo + 1) (- s) n) \/
     (2 * r = B /\ (d, e) = norm_cand (if Z.even lo then lo else lo + 1) (- s) n)).
Proof. exact ProofsLayout.pick_cand_closer. Qed.

(* 7. the decimal point position used by shortest/toExponential/toPrecision is certified:
      10^(pt-1) <= N/D < 10^pt *)
Theorem dec_pt_sound : forall N D pt, dec_pt N D = Some pt ->
  le_pow10 N D (pt - 1) = true /\ le_pow10 N D pt = false.
Proof. exact Proofs.dec_pt_sound. Qed.

(* 8. verified validator for toString(radix): acceptance means the emitted string, read EXACTLY as a
      rational in that radix, rounds (by the function of theorems 1-3) to x *)
Theorem radix_check_sound : forall s r x,
  radix_roundtrip_check s r x = true ->
  exists neg N D, radix_value s r = Some (neg, N, D) /\ round_ratio neg N D = x.
Proof. exact Proofs.radix_check_sound. Qed.

(* 9. layout: [digs n d] has exactly n digits *)
Theorem digs_length : forall n d, 0 <= n -> zlen (digs n d) = n.
Proof. exact Proofs.digs_length. Qed.

(* 10. rounding depends on the VALUE N/D only, and is monotone in it *)
Theorem parse_decimal_unique : forall N1 D1 N2 D2, 0 < N1 -> 0 < D1 -> 0 < N2 -> 0 < D2 ->
  N1 * D2 = N2 * D1 -> round_pos N1 D1 = round_pos N2 D2.
Proof. exact ProofsRound.round_pos_det. Qed.

Theorem parse_decimal_monotone : forall N1 D1 N2 D2, 0 < N1 -> 0 < D1 -> 0 < N2 -> 0 < D2 ->
  N1 * D2 <= N2 * D1 -> rval (round_pos N1 D1) <= rval (round_pos N2 D2).
Proof. exact ProofsRound.round_pos_monotone. Qed.

(* 11. hence the rationals that round to a finite double form an interval *)
Theorem rounding_interval_convex : forall s N1 D1 N2 D2 N3 D3 sx mx ex,
  0 < N1 -> 0 < D1 -> 0 < N2 -> 0 < D2 -> 0 < N3 -> 0 < D3 ->
  N1 * D2 <= N2 * D1 -> N2 * D3 <= N3 * D2 ->
  round_ratio s N1 D1 = S754_finite sx mx ex -> round_ratio s N3 D3 = S754_finite sx mx ex ->
  round_ratio s N2 D2 = S754_finite sx mx ex.
Proof. exact ProofsRound.round_ratio_squeeze. Qed.

(* 12. a double rounds to itself (Number(String(x)) = x then follows from 6) *)
Theorem round_ratio_exact : forall s m e, canon64 m e ->
  round_ratio s (fst (ratio_of m e)) (snd (ratio_of m e)) = S754_finite s m e.
Proof. exact ProofsRound.round_ratio_exact. Qed.

(* 13. overflow: the result is an infinity EXACTLY from the midpoint 2^1024 - 2^970 upwards *)
Theorem parse_decimal_overflow_iff : forall s N D, 0 < N -> 0 < D ->
  (round_ratio s N D = S754_infinity s <-> (2 ^ 1024 - 2 ^ 970) * D <= N).
Proof. exact ProofsRound.round_ratio_overflow_iff. Qed.

(* 14. a rational within half a gap of a double rounds to it (above: gap 2^k; below: the gap to the
       predecessor mp*2^kp, which is half as wide just above a power of two) *)
Theorem round_up_side : forall m k Nw Dw, 0 < m < 2 ^ 53 -> 0 <= k -> (2 ^ 52 <= m \/ k = 0) ->
  0 < Nw -> 0 < Dw ->
  (m * 2 ^ k) * Dw <= Nw * 2 ^ 1074 ->
  2 * (Nw * 2 ^ 1074 - (m * 2 ^ k) * Dw) < 2 ^ k * Dw ->
  rval (round_pos Nw Dw) = m * 2 ^ k.
Proof. exact ProofsShortest.round_up_side. Qed.

Theorem round_down_side : forall m k mp kp Nw Dw, 0 < m < 2 ^ 53 -> 0 <= k ->
  0 <= mp -> 0 <= kp -> (2 ^ 52 <= mp \/ kp = 0) -> (mp + 1) * 2 ^ kp = m * 2 ^ k ->
  0 < Nw -> 0 < Dw ->
  Nw * 2 ^ 1074 <= (m * 2 ^ k) * Dw ->
  2 * ((m * 2 ^ k) * Dw - Nw * 2 ^ 1074) < 2 ^ kp * Dw ->
  rval (round_pos Nw Dw) = m * 2 ^ k.
Proof. exact ProofsShortest.round_down_side. Qed.

(* 15. dec_pt (used by shortest / toExponential / toPrecision) is total on binary64 values *)
Theorem dec_pt_total : forall m e, canon64 m e ->
  exists pt, dec_pt (fst (ratio_of m e)) (snd (ratio_of m e)) = Some pt.
Proof. exact ProofsShortest.dec_pt_total. Qed.

(* 16. the layout functions, branch by branch, against ECMA-262: Number::toString steps 5-10,
       toFixed step 10, toPrecision steps 10-13 *)
Theorem tostring_layout_steps : forall ds n, let k := zlen ds in 1 <= k ->
  (k <= n <= 21 -> tostring_layout ds n = ds ++ zeros (n - k)) /\
  (0 < n <= 21 -> n < k -> tostring_layout ds n = zfirstn n ds ++ 46 :: zskipn n ds) /\
  (-6 < n <= 0 -> tostring_layout ds n = 48 :: 46 :: zeros (- n) ++ ds) /\
  (n <= -6 \/ 21 < n -> forall d1, ds = [d1] -> tostring_layout ds n = d1 :: exp_suffix (n - 1)) /\
  (n <= -6 \/ 21 < n -> forall d1 d2 rest, ds = d1 :: d2 :: rest ->
     tostring_layout ds n = d1 :: 46 :: (d2 :: rest) ++ exp_suffix (n - 1)).
Proof. exact ProofsLayout.tostring_layout_steps. Qed.

Theorem fixed_body_steps : forall n f, 0 <= f ->
  let ds := if n =? 0 then [48] else digits_of n in
  (f = 0 -> fixed_body n f = ds) /\
  (0 < f -> f < zlen ds -> fixed_body n f = zfirstn (zlen ds - f) ds ++ 46 :: zskipn (zlen ds - f) ds) /\
  (0 < f -> zlen ds <= f ->
     let ds' := zeros (f + 1 - zlen ds) ++ ds in
     fixed_body n f = zfirstn (zlen ds' - f) ds' ++ 46 :: zskipn (zlen ds' - f) ds').
Proof. exact ProofsLayout.fixed_body_steps. Qed.

Theorem prec_layout_steps : forall ds e p,
  (e < -6 \/ p <= e -> prec_layout ds e p = exp_layout ds e) /\
  (-6 <= e < p -> e = p - 1 -> prec_layout ds e p = ds) /\
  (0 <= e < p - 1 -> prec_layout ds e p = zfirstn (e + 1) ds ++ 46 :: zskipn (e + 1) ds) /\
  (-6 <= e < 0 -> e < p - 1 -> prec_layout ds e p = 48 :: 46 :: zeros (- (e + 1)) ++ ds).
Proof. exact ProofsLayout.prec_layout_steps. Qed.

(* ---- non-vacuity: the model on the classical hard inputs (closed computations) ---- *)
Example ex_min_subnormal : to_bits (parse_decimal 5 (-324)) = 1.
Proof. vm_compute. reflexivity. Qed.
Example ex_half_min_subnormal_ties_to_zero :
  to_bits (parse_decimal 24703282292062327208828439644 (-352)) = 1 /\
  to_bits (parse_decimal 24703282292062327208828439643 (-352)) = 0 /\
  to_bits (round_ratio false 1 (2 ^ 1075)) = 0.
Proof. vm_compute. repeat split; reflexivity. Qed.
Example ex_max_double : to_bits (parse_decimal 17976931348623157 292) = 9218868437227405311.
Proof. vm_compute. reflexivity. Qed.
Example ex_overflow_threshold :
  round_ratio false (2 ^ 1024 - 2 ^ 970) 1 = S754_infinity false /\
  to_bits (round_ratio false (2 ^ 1024 - 2 ^ 970 - 1) 1) = 9218868437227405311.
Proof. vm_compute. split; reflexivity. Qed.
Example ex_2p53_plus_1_ties_to_even :
  parse_decimal 9007199254740993 0 = parse_decimal 9007199254740992 0 /\
  parse_decimal 9007199254740995 0 = parse_decimal 9007199254740996 0.
Proof. vm_compute. split; reflexivity. Qed.
Example ex_shortest_0_1_plus_0_2 :
  shortest (of_bits 4599075939470750516) = Some (30000000000000004, -17).
Proof. vm_compute. reflexivity. Qed.
Example ex_shortest_5e324 : shortest (of_bits 1) = Some (5, -324).
Proof. vm_compute. reflexivity. Qed.
Example ex_fixed_ties : fixed_n 5 2 0 = 3 /\ fixed_n 1 2 0 = 1 /\ to_fixed (of_bits 4612811918334230528) 0 = [51].
Proof. vm_compute. repeat split; reflexivity. Qed.
Example ex_radix_validator :
  radix_roundtrip_check [45; 49; 46; 49] 2 (of_bits 13832806255468478464) = true /\
  radix_roundtrip_check [49; 46; 49] 2 (of_bits 13832806255468478464) = false.
Proof. vm_compute. split; reflexivity. Qed.

Print Assumptions parse_decimal_nearest_even.
Print Assumptions parse_decimal_wellformed.
Print Assumptions parse_decimal_pack.
Print Assumptions divmod_spec.
Print Assumptions fixed_correct.
Print Assumptions shortest_correct.
Print Assumptions shortest_total.
Print Assumptions of_bits_canonical.
Print Assumptions neighbours_suffice.
Print Assumptions shortest_closest_of_neighbours.
Print Assumptions parse_decimal_unique.
Print Assumptions parse_decimal_monotone.
Print Assumptions rounding_interval_convex.
Print Assumptions round_ratio_exact.
Print Assumptions parse_decimal_overflow_iff.
Print Assumptions round_up_side.
Print Assumptions round_down_side.
Print Assumptions dec_pt_total.
Print Assumptions tostring_layout_steps.
Print Assumptions fixed_body_steps.
Print Assumptions prec_layout_steps.
Print Assumptions dec_pt_sound.
Print Assumptions radix_check_sound.
Print Assumptions digs_length.
