(* C12 — Number <-> string conversions are exact.  ONLY theorem statements; each is closed by [exact]
   of a lemma of C12/Proofs.v.  All statements are over exact integers:
   a non-negative rational is N/D; every finite double is an integer multiple of 2^-1074, and
   [round_pos N D = (q, k)] denotes the value q * 2^k in that unit (k = binary exponent + 1074). *)
From Coq Require Import ZArith Bool List SpecFloat.
From Verif.Base Require Import F64.
From Verif.C12 Require Import Model Proofs.
Import ListNotations.
Local Open Scope Z_scope.

(* 1. parse_decimal / every string->number front end rounds through [round_pos]: for EVERY positive
      rational N/D the result is at least as close to N/D as ANY double m' * 2^k' (m' < 2^53, any
      exponent k' >= 0 in units of 2^-1074, i.e. subnormals included, exponent unbounded above), and
      when some other double is equally close the chosen significand is even.  Cross-multiplied by D. *)
Theorem parse_decimal_nearest_even : forall N D m' k', 0 < N -> 0 < D -> 0 <= m' < 2 ^ 53 -> 0 <= k' ->
  let q := fst (round_pos N D) in let k := snd (round_pos N D) in
  let Nn := N * 2 ^ 1074 in let G := m' * 2 ^ k' in
  Z.abs (Nn - q * (D * 2 ^ k)) <= Z.abs (Nn - G * D) /\
  (Z.abs (Nn - q * (D * 2 ^ k)) = Z.abs (Nn - G * D) -> G * D <> q * (D * 2 ^ k) -> Z.even q = true).
Proof. exact Proofs.round_pos_nearest. Qed.

(* 2. the rounded significand has at most 53 bits (2^53 only as the carry-out of 2^53-1), and is
      normalised (>= 2^52) unless the exponent is the subnormal one *)
Theorem parse_decimal_wellformed : forall N D, 0 < N -> 0 < D ->
  let q := fst (round_pos N D) in let k := snd (round_pos N D) in
  0 <= k /\ 0 <= q <= 2 ^ 53 /\ (0 < k -> 2 ^ 52 <= q).
Proof. exact Proofs.round_pos_wellformed. Qed.

(* 3. packing (q, k) into a binary64 datum keeps sign, value and parity; the result is never NaN, is a
      zero only for q = 0, and is infinite only when the rounded value q*2^k is >= 2^1024
      (k > 2045, or q = 2^53 with k = 2045: the overflow threshold 2^1024 - 2^970 rounds up to it) *)
Theorem parse_decimal_pack : forall s q k, 0 <= k -> 0 <= q <= 2 ^ 53 ->
  match pack s (q, k) with
  | S754_nan => False
  | S754_zero s' => s' = s /\ q = 0
  | S754_infinity s' => s' = s /\ 0 < q /\ (2045 < k \/ (q = 2 ^ 53 /\ 2045 <= k))
  | S754_finite s' m e =>
      s' = s /\ 0 < q /\ -1074 <= e <= 971 /\ Z.pos m * 2 ^ (e + 1074) = q * 2 ^ k /\
      Z.even (Z.pos m) = Z.even q /\ Z.pos m < 2 ^ 53
  end.
Proof. exact Proofs.pack_spec. Qed.

(* 4. the shift-based division used by the model is the mathematical one *)
Theorem divmod_spec : forall A B, 0 < B -> divmod A B = (A / B, A mod B).
Proof. exact Proofs.divmod_spec. Qed.

(* 5. toFixed / toExponential / toPrecision digit selection: n = rhu A B minimises |n - A/B| over ALL
      integers n', and on a tie it is the LARGER one (A/B = x * 10^f for toFixed, for every f) *)
Theorem fixed_correct : forall A B n', 0 < B ->
  let n := rhu A B in
  Z.abs (n * B - A) <= Z.abs (n' * B - A) /\
  (Z.abs (n * B - A) = Z.abs (n' * B - A) -> n' <= n).
Proof. exact Proofs.rhu_nearest. Qed.

(* 6. shortest: the result is one of the two neighbours floor/ceil of x*10^(n-pt) for some length n
      (up to the 10^n -> 10^(n-1) renormalisation), it rounds back to x, and for every shorter length
      m neither neighbour of that length rounds to x.
      PARTIAL: not proved here (a) that a shorter decimal other than those two neighbours cannot round
      to x (needs monotonicity of rounding), (b) that the search always succeeds within 17 digits. *)
Theorem shortest_roundtrips_and_minimal_partial : forall fuel x N D pt d e,
  shortest_from fuel 1 x N D pt = Some (d, e) ->
  exists n, 1 <= n < 1 + Z.of_nat fuel /\
    (exists c, (c = fst (fst (fst (cands N D pt n))) \/ c = fst (fst (fst (cands N D pt n))) + 1) /\
               rounds_to x c (- (n - pt)) = true /\
               ((e = - (n - pt) /\ d = c) \/ (e = - (n - pt) + 1 /\ c = 10 ^ n /\ d * 10 = c))) /\
    forall m, 1 <= m < n ->
      let lo := fst (fst (fst (cands N D pt m))) in
      rounds_to x lo (- (m - pt)) = false /\ rounds_to x (lo + 1) (- (m - pt)) = false.
Proof.
  intros fuel x N D pt d e H.
  destruct (Proofs.shortest_from_spec fuel 1 x N D pt d e ltac:(reflexivity) H) as [n [Hn [Hp Hm]]].
  exists n. split; [exact Hn|]. split.
  - exact (Proofs.pick_cand_sound x N D pt n d e ltac:(apply Hn) Hp).
  - intros m Hm'. exact (Proofs.pick_cand_none x N D pt m (Hm m Hm')).
Qed.

(* 7. the decimal point position used by shortest/toExponential/toPrecision is certified:
      10^(pt-1) <= N/D < 10^pt *)
Theorem dec_pt_sound : forall N D pt, dec_pt N D = Some pt ->
  le_pow10 N D (pt - 1) = true /\ le_pow10 N D pt = false.
Proof. exact Proofs.dec_pt_sound. Qed.

(* 8. verified validator for toString(radix): acceptance means the emitted string, read EXACTLY as a
      rational in that radix, rounds (by the function of theorems 1-3) to x *)
Theorem radix_check_sound : forall s r x,
  radix_roundtrip_check s r x = true ->
  exists neg N D, radix_value s r = Some (neg, N, D) /\ round_ratio neg N D = x.
Proof. exact Proofs.radix_check_sound. Qed.

(* 9. layout: [digs n d] has exactly n digits *)
Theorem digs_length : forall n d, 0 <= n -> zlen (digs n d) = n.
Proof. exact Proofs.digs_length. Qed.

(* ---- non-vacuity: the model on the classical hard inputs (closed computations) ---- *)
Example ex_min_subnormal : to_bits (parse_decimal 5 (-324)) = 1.
Proof. vm_compute. reflexivity. Qed.
Example ex_half_min_subnormal_ties_to_zero :
  to_bits (parse_decimal 24703282292062327208828439644 (-352)) = 1 /\
  to_bits (parse_decimal 24703282292062327208828439643 (-352)) = 0 /\
  to_bits (round_ratio false 1 (2 ^ 1075)) = 0.
Proof. vm_compute. repeat split; reflexivity. Qed.
Example ex_max_double : to_bits (parse_decimal 17976931348623157 292) = 9218868437227405311.
Proof. vm_compute. reflexivity. Qed.
Example ex_overflow_threshold :
  round_ratio false (2 ^ 1024 - 2 ^ 970) 1 = S754_infinity false /\
  to_bits (round_ratio false (2 ^ 1024 - 2 ^ 970 - 1) 1) = 9218868437227405311.
Proof. vm_compute. split; reflexivity. Qed.
Example ex_2p53_plus_1_ties_to_even :
  parse_decimal 9007199254740993 0 = parse_decimal 9007199254740992 0 /\
  parse_decimal 9007199254740995 0 = parse_decimal 9007199254740996 0.
Proof. vm_compute. split; reflexivity. Qed.
Example ex_shortest_0_1_plus_0_2 :
  shortest (of_bits 4599075939470750516) = Some (30000000000000004, -17).
Proof. vm_compute. reflexivity. Qed.
Example ex_shortest_5e324 : shortest (of_bits 1) = Some (5, -324).
Proof. vm_compute. reflexivity. Qed.
Example ex_fixed_ties : fixed_n 5 2 0 = 3 /\ fixed_n 1 2 0 = 1 /\ to_fixed (of_bits 4612811918334230528) 0 = [51].
Proof. vm_compute. repeat split; reflexivity. Qed.
Example ex_radix_validator :
  radix_roundtrip_check [45; 49; 46; 49] 2 (of_bits 13832806255468478464) = true /\
  radix_roundtrip_check [49; 46; 49] 2 (of_bits 13832806255468478464) = false.
Proof. vm_compute. split; reflexivity. Qed.

Print Assumptions parse_decimal_nearest_even.
Print Assumptions parse_decimal_wellformed.
Print Assumptions parse_decimal_pack.
Print Assumptions divmod_spec.
Print Assumptions fixed_correct.
Print Assumptions shortest_roundtrips_and_minimal_partial.
Print Assumptions dec_pt_sound.
Print Assumptions radix_check_sound.
Print Assumptions digs_length.
