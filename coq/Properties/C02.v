(* C02 — compiled code matches definitional semantics; compiler choices are invisible.
   ONLY theorem statements; each is closed by [exact] of a lemma of C02/Proofs*.v. *)
From Coq Require Import List ZArith NArith Bool.
Import ListNotations.
From Verif.C02 Require Import Model Proofs ProofsPos ProofsCF ProofsMin.

(* 1. Every allocation of bindings to frame slots / stash cells that respects goja's rule
      ("a binding referenced from inside an inner function lives in the stash") is observationally
      equal to the environment-record semantics: same log, same completion value, same exception
      (TDZ ReferenceErrors and const TypeErrors included), for EVERY program of the fragment and every
      fuel, the out-of-fuel outcome included. *)
Theorem allocation_invisible : forall al n p, valid_alloc al p = true ->
  run_slots al n p = run_env n p.
Proof. exact (fun al n p => Proofs.allocation_invisible_pm al PSpec n p). Qed.

(* 1'. the same under the statement-position variant of evaluation *)
Theorem allocation_invisible_pm : forall al pm n p, valid_alloc al p = true ->
  obs_of (run_prog (Imem al) pm n p) = obs_of (run_prog Smem pm n p).
Proof. exact Proofs.allocation_invisible_pm. Qed.

(* 2. the two extreme allocations are valid for EVERY program, so 1 is not vacuous:
      everything in the stash ... *)
Theorem alloc_all_stash_valid : forall p, valid_alloc alloc_all_stash p = true.
Proof. exact Proofs.alloc_all_stash_valid. Qed.

(* ... and the minimal one (stash exactly what some reference reaches across a function boundary) *)
Theorem alloc_minimal_valid : forall p, valid_alloc (alloc_minimal p) p = true.
Proof. exact ProofsMin.alloc_minimal_valid. Qed.

Corollary alloc_minimal_invisible : forall n p, run_slots (alloc_minimal p) n p = run_env n p.
Proof. exact (fun n p => Proofs.allocation_invisible_pm _ PSpec n p (ProofsMin.alloc_minimal_valid p)). Qed.

(* on a program with a loop variable captured per iteration the minimal allocation mixes stash and frame;
   "everything in a frame" is invalid there and really misbehaves *)
Theorem alloc_example :
  valid_alloc (alloc_minimal p_example) p_example = true /\
  alloc_minimal p_example 2%N = true /\ alloc_minimal p_example 1%N = false /\
  run_env 50 p_example = ([ONum 1%Z true], ONormal (Some OUndef)) /\
  valid_alloc (fun _ => false) p_example = false /\
  snd (run_slots (fun _ => false) 50 p_example) = OBadSlot.
Proof. exact Proofs.example_minimal_valid. Qed.

(* 3. expression vs statement position: evaluating every discarded-result expression by the
      "putOnStack = false" variant (for ++/--: no old value kept) gives, for EVERY program and fuel, the
      same log, the same exceptions and the same returned values; only normal completion values — the
      very values that are discarded — may differ. *)
Theorem position_invisible : forall n p, erase_nv (run_env_pm PUnused n p) = erase_nv (run_env n p).
Proof. exact ProofsPos.position_invisible. Qed.

Theorem position_example :
  run_env_pm PUnused 10 p_incdec = ([ONum 3%Z true], ONormal (Some OUndef)) /\
  run_env 10 p_incdec = ([ONum 3%Z true], ONormal (Some OUndef)).
Proof. exact ProofsPos.position_example. Qed.

(* 4. constant folding (operators on literals, ?: && || with a literal test, inside function bodies too)
      preserves the observation of every program whose run does not exhaust the fuel ... *)
Theorem constfold_sound : forall n p, snd (run_env n p) <> OFuelOut ->
  run_env n (cf_stmt p) = run_env n p.
Proof. exact ProofsCF.constfold_sound. Qed.

Theorem constfold_example :
  cf_stmt p_cf <> p_cf /\
  run_env 20 (cf_stmt p_cf) = run_env 20 p_cf /\
  fst (run_env 20 p_cf) = [OStr 6%N; ONum 3%Z true].
Proof. exact ProofsCF.constfold_example. Qed.

(* ... which needs: more fuel never changes a run that did not run out (any memory model, any mode) *)
Theorem fuel_monotone : forall MM pm n c rho u e s,
  nofuel MM (eval MM pm n c rho u e s) -> eval MM pm (S n) c rho u e s = eval MM pm n c rho u e s.
Proof. exact (fun MM pm n => proj1 (ProofsCF.mono_all MM pm n)). Qed.

(* 5. goja's emission of && / || with a constant left operand leaves exactly the wanted number of
      values on the operand stack (after fix 06cb082 for &&) *)
Theorem goja_and_const_left_balanced : forall putOnStack left_truthy,
  goja_and_const_left putOnStack left_truthy = want putOnStack.
Proof. exact Proofs.goja_and_const_left_balanced. Qed.

Theorem goja_or_const_left_balanced : forall putOnStack left_truthy,
  goja_or_const_left putOnStack left_truthy = want putOnStack.
Proof. exact Proofs.goja_or_const_left_balanced. Qed.

Print Assumptions allocation_invisible.
Print Assumptions allocation_invisible_pm.
Print Assumptions alloc_all_stash_valid.
Print Assumptions alloc_minimal_valid.
Print Assumptions alloc_minimal_invisible.
Print Assumptions alloc_example.
Print Assumptions position_invisible.
Print Assumptions position_example.
Print Assumptions constfold_sound.
Print Assumptions constfold_example.
Print Assumptions fuel_monotone.
Print Assumptions goja_and_const_left_balanced.
Print Assumptions goja_or_const_left_balanced.
