(* C02 — placeholder while proofs are being written *)
From Verif.C02 Require Import Model.
