(* C02 — compiled code matches definitional semantics; compiler choices are invisible.
   ONLY theorem statements; each is closed by [exact] of a lemma of C02/Proofs.v. *)
From Coq Require Import List ZArith NArith Bool.
Import ListNotations.
From Verif.C02 Require Import Model Proofs.

(* 1. Every allocation of bindings to frame slots / stash cells that respects goja's rule
      ("a binding referenced from inside an inner function lives in the stash") is observationally
      equal to the environment-record semantics: same log, same completion value, same exception
      (TDZ ReferenceErrors and const TypeErrors included), for EVERY program of the fragment and every
      fuel, the out-of-fuel outcome included. *)
Theorem allocation_invisible : forall al n p, valid_alloc al p = true ->
  run_slots al n p = run_env n p.
Proof. exact (fun al n p => Proofs.allocation_invisible_pm al PSpec n p). Qed.

(* 1'. the same under each variant of statement-position evaluation *)
Theorem allocation_invisible_pm : forall al pm n p, valid_alloc al p = true ->
  obs_of (run_prog (Imem al) pm n p) = obs_of (run_prog Smem pm n p).
Proof. exact Proofs.allocation_invisible_pm. Qed.

(* 2. non-vacuity: "everything in the stash" is always valid ... *)
Theorem alloc_all_stash_valid : forall p, valid_alloc alloc_all_stash p = true.
Proof. exact Proofs.alloc_all_stash_valid. Qed.

(* ... and on a program with a loop variable captured per iteration the minimal allocation is valid and
   mixes stash and frame; "everything in a frame" is invalid there and really misbehaves *)
Theorem alloc_minimal_valid_example :
  valid_alloc (alloc_minimal p_example) p_example = true /\
  alloc_minimal p_example 2%N = true /\ alloc_minimal p_example 1%N = false /\
  run_env 50 p_example = ([ONum 1%Z true], ONormal (Some OUndef)) /\
  valid_alloc (fun _ => false) p_example = false /\
  snd (run_slots (fun _ => false) 50 p_example) = OBadSlot.
Proof. exact Proofs.example_minimal_valid. Qed.

(* 3. expression vs statement position: the result-unused variant of ++/-- that keeps ToNumber has the
      same effects and exceptions as the value-position one (any memory model) ... *)
Theorem position_invisible_incdec_partial : forall MM n c rho pre inc x s,
  let r1 := eval MM PUnused (S n) c rho true (EIncDec pre inc x) s in
  let r2 := eval MM PUnused (S n) c rho false (EIncDec pre inc x) s in
  snd r1 = snd r2 /\
  match fst r1, fst r2 with inl _, inl _ => True | inr e1, inr e2 => e1 = e2 | _, _ => False end.
Proof. exact Proofs.position_invisible_incdec. Qed.

(* ... whereas goja's transcription (ToNumber dropped, vm.go _inc/_dec on a non-int) is observably
   different: finding F7 *)
Theorem incdec_unused_refuted : exists p n, run_env_pm PGoja n p <> run_env n p.
Proof. exact Proofs.incdec_unused_refuted. Qed.

(* 4. goja's order of checks for a store to a const binding in its TDZ: TypeError instead of ReferenceError *)
Theorem const_tdz_assign_refuted : exists p n, run_env_pm PGojaC n p <> run_env n p.
Proof. exact Proofs.const_tdz_assign_refuted. Qed.

(* 5. constant folding of && with a constant falsy left operand leaves a value on the operand stack
      when the result is unused (finding F18); the || sibling is balanced *)
Theorem constfold_goja_refuted : exists putOnStack left_truthy,
  goja_and_const_left putOnStack left_truthy <> want putOnStack.
Proof. exact Proofs.constfold_goja_refuted. Qed.

Theorem goja_or_const_left_balanced : forall putOnStack left_truthy,
  goja_or_const_left putOnStack left_truthy = want putOnStack.
Proof. exact Proofs.goja_or_const_left_balanced. Qed.

Print Assumptions allocation_invisible.
Print Assumptions allocation_invisible_pm.
Print Assumptions alloc_all_stash_valid.
Print Assumptions alloc_minimal_valid_example.
Print Assumptions position_invisible_incdec_partial.
Print Assumptions incdec_unused_refuted.
Print Assumptions const_tdz_assign_refuted.
Print Assumptions constfold_goja_refuted.
Print Assumptions goja_or_const_left_balanced.
