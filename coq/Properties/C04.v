(* C04 — Essential object invariants. ONLY theorem statements. *)
From Coq Require Import List Arith NArith Bool.
Import ListNotations.
From Verif.C04 Require Import Model Proofs.

Theorem define_refuted :
  exists ext ex d, desc_wf d = true /\ oiprop_wf ex = true /\
    option_map absP (GojaDefine fx_none ext ex d) <> ValidateAndApply ext (option_map absP ex) d.
Proof. exact Proofs.define_refuted. Qed.

Print Assumptions define_refuted.
