(* C04 — Essential object invariants hold for every object kind and every key kind.
   ONLY theorem statements; each is closed by [exact] of a lemma of C04/Proofs*.v.
   S = ECMA-262 10.1 ordinary object (Model.v, first half); I = goja's baseObject transcribed from the
   current tree (second half).  All six C04 findings (F1 F2 N1 N2 N3 N4) are repaired in /repo; the
   theorems below are full strength. *)
From Coq Require Import List Arith NArith Bool Permutation Lia.
Import ListNotations.
From Verif.C04 Require Import Model Proofs ProofsKeys ProofsSet ProofsSetEq ProofsInv.

(* ---------------------------------------------------------------------------------------------- *)
(* 1. The define decision table: goja's _defineOwnProperty = ValidateAndApplyPropertyDescriptor, for
      EVERY existing property (bare value, data, accessor) and EVERY partial descriptor; and it keeps
      the representation invariant of valueProperty (an accessor carries no value and no writable flag,
      a data property no getter/setter) unconditionally — so the hypothesis [oiprop_wf] holds along
      every history (define_step_wf), and define on related heaps gives related heaps. *)

Theorem define_eq_spec : forall ext ex d,
  desc_wf d = true -> oiprop_wf ex = true ->
  option_map absP (GojaDefine ext ex d) = ValidateAndApply ext (option_map absP ex) d.
Proof. exact Proofs.define_eq_spec. Qed.

Theorem define_wf : forall ext ex d,
  desc_wf d = true -> oiprop_wf ex = true -> oiprop_wf (GojaDefine ext ex d) = true.
Proof. exact Proofs.define_wf. Qed.

Theorem define_step_eq_spec : forall (h : iheap) (hs : heap) o k d,
  heap_rel h hs -> heap_wf h ->
  heap_rel (fst (fst (istep h (ODefine o k d)))) (fst (fst (sstep hs (ODefine o k d)))) /\
  snd (fst (istep h (ODefine o k d))) = snd (fst (sstep hs (ODefine o k d))).
Proof. exact ProofsSetEq.define_step_eq_spec. Qed.

Theorem define_step_wf : forall (h : iheap) o k d, heap_wf h -> heap_wf (fst (fst (istep h (ODefine o k d)))).
Proof. exact ProofsSetEq.define_step_wf. Qed.

(* non-vacuity: a non-trivial point of the table, and the inputs of the repaired defects F1, N2, N1, N3
   now give what the specification demands *)
Example define_eq_spec_nonvacuous :
  let ex := Some (IProp (mkVP (Some (VNum 1)) true false true false None None)) in
  let d := mkDesc (Some (VNum 2)) (Some false) None None None None in
  desc_wf d = true /\ oiprop_wf ex = true /\
  option_map absP (GojaDefine true ex d) = Some (PData (VNum 2) false true false) /\
  GojaDefine true (Some f1_existing) f1_desc = None /\
  GojaDefine true (Some n2_existing) n2_desc = None /\
  option_map absP (GojaDefine true (GojaDefine true (Some (IBare (VNum 1))) (mkDesc None None (Some (Some 0)) None None None))
                              (d_value_only (VNum 2))) = Some (PData (VNum 2) false true true) /\
  GojaDefine true (Some n3_existing) (mkDesc None (Some true) None None None None)
    = Some (IProp (mkVP (Some VUndef) true true false false None None)).
Proof. vm_compute. repeat split. Qed.

(* ---------------------------------------------------------------------------------------------- *)
(* 2. Essential invariants along EVERY history of S-operations, from ANY heap (induction over the
      history): a non-configurable property is never deleted, keeps kind, enumerability and
      non-configurability, keeps get/set if it is an accessor, and keeps its value and stays
      non-writable if it is a non-writable data property; a non-extensible object stays non-extensible,
      keeps its prototype and gains no key. *)

Theorem essential_invariants : forall (h : heap) (ops : list op) i k p,
  find k (o_props (hget h i)) = Some p -> p_conf p = false ->
  exists p', find k (o_props (hget (srun h ops) i)) = Some p' /\ frozen_part p p'.
Proof. exact Proofs.essential_invariants. Qed.

Theorem nonextensible_invariants : forall (h : heap) (ops : list op) i,
  o_ext (hget h i) = false ->
  o_ext (hget (srun h ops) i) = false /\
  o_proto (hget (srun h ops) i) = o_proto (hget h i) /\
  forall k, find k (o_props (hget (srun h ops) i)) <> None -> find k (o_props (hget h i)) <> None.
Proof. exact Proofs.nonextensible_invariants. Qed.

Theorem frozen_is_final : forall (h : heap) (ops : list op) i,
  is_frozen (hget h i) = true ->
  forall k, find k (o_props (hget (srun h ops) i)) = find k (o_props (hget h i)).
Proof. exact Proofs.frozen_is_final. Qed.

Theorem history_preserves_objects : forall (h : heap) (ops : list op), length (srun h ops) = length h.
Proof. intros h ops. symmetry. exact (proj1 (Proofs.srun_le ops h)). Qed.

(* non-vacuity: a history that attacks a non-configurable non-writable property and a sealed object
   in every way; the hypotheses hold and the attacked state is non-trivial *)
Example essential_invariants_nonvacuous :
  let h0 := [mkObj None true [(KStr 0, PData (VNum 1) false true false); (KIdx 2, PAcc (Some 0) None false false)];
             mkObj (Some 0) false [(KSym 0, PData (VNum 2) true true true)]] in
  let ops := [ODelete 0 (KStr 0); ODefine 0 (KStr 0) (mkDesc (Some (VNum 9)) None None None None None);
              OSet 1 (KStr 0) false (VNum 9) 0; ODefine 0 (KIdx 2) (mkDesc None (Some false) None None None None);
              ODefine 1 (KStr 5) (d_create (VNum 3)); OSetProto 1 None; ODelete 1 (KSym 0); OFreeze 0;
              OSet 1 (KSym 0) false (VNum 7) 1] in
  find (KStr 0) (o_props (hget h0 0)) = Some (PData (VNum 1) false true false) /\
  o_ext (hget h0 1) = false /\
  map s_dump (srun h0 ops) =
    [(None, false, [(KIdx 2, PAcc (Some 0) None false false); (KStr 0, PData (VNum 1) false true false)]);
     (Some 0, false, [])].
Proof. vm_compute. repeat split. Qed.

(* ---------------------------------------------------------------------------------------------- *)
(* 3. Own-key order: for EVERY history of add / delete / enumerate (enumeration mutates
      lastSortedPropLen and idxPropCount), goja's lazily ordered propNames, once ordered, is exactly
      OrdinaryOwnPropertyKeys of the keys in creation order: array indices ascending, then strings in
      creation order (symbols are kept in a separate insertion-ordered table: property C18).  Keys are
      unique, the two sides hold the same key set, and idxPropCount — which setForeignIdx trusts to skip
      a lookup — is exact. *)

Theorem ownkeys_order : forall ops : list kop, no_sym_ops ops ->
  n_names (ensure_order (krun_i ops)) = sort_idx (filter is_idx (krun_s ops)) ++ filter is_str (krun_s ops).
Proof. exact ProofsKeys.ownkeys_order. Qed.

Theorem ownkeys_unique : forall ops : list kop, NoDup (n_names (krun_i ops)) /\ NoDup (krun_s ops).
Proof. exact ProofsKeys.ownkeys_unique. Qed.

Theorem ownkeys_same_set : forall (ops : list kop) k, In k (n_names (krun_i ops)) <-> In k (krun_s ops).
Proof. exact ProofsKeys.ownkeys_same_set. Qed.

Theorem idxcount_exact : forall ops : list kop,
  n_idxc (ensure_order (krun_i ops)) = length (filter is_idx (krun_s ops)).
Proof. exact ProofsKeys.idxcount_exact. Qed.

Theorem sort_idx_is_sorted : forall l, NoDup l -> (forall k, In k l -> is_idx k = true) ->
  SortedIdx (sort_idx l) /\ Permutation l (sort_idx l).
Proof. exact ProofsKeys.sort_idx_is_sorted. Qed.

Example ownkeys_order_nonvacuous :
  let ops := [KAdd (KStr 0); KAdd (KIdx 5); KAdd (KIdx 2); KEnum; KAdd (KIdx 3); KDel (KIdx 5);
              KAdd (KStr 1); KAdd (KIdx 1); KEnum; KAdd (KIdx 0); KAdd (KIdx 5)] in
  n_names (krun_i ops) = [KIdx 1; KIdx 2; KIdx 3; KStr 0; KStr 1; KIdx 0; KIdx 5] /\
  krun_s ops = [KStr 0; KIdx 2; KIdx 3; KStr 1; KIdx 1; KIdx 0; KIdx 5] /\
  n_names (ensure_order (krun_i ops)) = [KIdx 0; KIdx 1; KIdx 2; KIdx 3; KIdx 5; KStr 0; KStr 1].
Proof. vm_compute. repeat split. Qed.

(* ---------------------------------------------------------------------------------------------- *)
(* 4. [[Set]]: goja's Object.setStr/setIdx/setSym over setOwnStr/setOwnSym and
      _setForeignStr/_setForeignIdx/setForeignSym (transcribed, including setForeignIdx's shortcut on
      idxPropCount = 0) equals OrdinarySet / OrdinarySetWithOwnDescriptor: on heaps that describe the same
      objects (heap_rel), for EVERY target, key kind (index passed as number or string, string, symbol),
      value, receiver and prototype chain — setters and non-writable properties on the chain, receiver
      inside or outside the chain, accessor / non-writable / missing property on the receiver — the result,
      the accessor calls and the resulting heaps agree.  Hypotheses: the representation invariant (kept by
      define: define_step_wf) and the bookkeeping invariant heap_ok, which holds along every history
      (bookkeeping_invariant) and yields the soundness of idxPropCount (idxcount_sound).
      Corollaries on both sides: only the receiver can change. *)

(* the bookkeeping invariant (propNames / lastSortedPropLen / idxPropCount consistent with the values map,
   keys unique) holds along EVERY history of I-operations from any heap that has it (e.g. fresh objects),
   and it implies that idxPropCount = 0 after ordering means "no index key" *)
Theorem bookkeeping_invariant : forall (ops : list op) (h : iheap), heap_ok h -> heap_ok (irun h ops).
Proof. exact ProofsInv.irun_ok. Qed.

(* together with the representation invariant of the stored properties: both hold along EVERY history of
   I-operations (define, set, delete, freeze, seal, ...), so the hypotheses of the refinement theorems below
   never have to be re-established *)
Theorem invariants_along_histories : forall (ops : list op) (h : iheap),
  heap_ok h -> heap_wf h -> heap_ok (irun h ops) /\ heap_wf (irun h ops).
Proof. exact ProofsInv.irun_ok_wf. Qed.

Theorem bookkeeping_initial : forall n, heap_ok (repeat iobj0 n).
Proof. exact ProofsInv.heap_ok_empty_objects. Qed.

Theorem idxcount_sound : forall h, heap_ok h -> idx_sound h.
Proof. exact ProofsInv.heap_ok_idx_sound. Qed.

Theorem set_eq_spec : forall (h : iheap) (hs : heap) o k num v r,
  heap_rel h hs -> heap_wf h -> heap_ok h ->
  heap_rel (fst (fst (istep h (OSet o k num v r)))) (fst (fst (sstep hs (OSet o k num v r)))) /\
  snd (fst (istep h (OSet o k num v r))) = snd (fst (sstep hs (OSet o k num v r))) /\
  snd (istep h (OSet o k num v r)) = snd (sstep hs (OSet o k num v r)).
Proof. exact ProofsInv.set_eq_spec_ok. Qed.

(* [[Get]] (with receiver), [[HasProperty]] and [[GetOwnProperty]] on related heaps *)
Theorem get_eq_spec : forall (h : iheap) (hs : heap) o k r,
  heap_rel h hs -> heap_wf h ->
  snd (fst (istep h (OGet o k r))) = snd (fst (sstep hs (OGet o k r))) /\
  snd (istep h (OGet o k r)) = snd (sstep hs (OGet o k r)) /\
  fst (fst (istep h (OGet o k r))) = h.
Proof. exact ProofsSetEq.get_eq_spec. Qed.

Theorem has_eq_spec : forall (h : iheap) (hs : heap) o k,
  heap_rel h hs -> snd (fst (istep h (OHas o k))) = snd (fst (sstep hs (OHas o k))).
Proof. exact ProofsSetEq.has_eq_spec. Qed.

Theorem getown_eq_spec : forall (h : iheap) (hs : heap) o k,
  heap_rel h hs -> snd (fst (istep h (OGetOwn o k))) = snd (fst (sstep hs (OGetOwn o k))).
Proof. exact ProofsSetEq.getown_eq_spec. Qed.

Theorem set_only_receiver : forall fuel (h : heap) o k v r,
  (forall j, j <> r -> hget (fst (fst (s_set fuel h o k v r))) j = hget h j) /\
  (snd (s_set fuel h o k v r) = [] \/ exists s, snd (s_set fuel h o k v r) = [Ev s r (Some v)]).
Proof. exact ProofsSet.s_set_only_receiver. Qed.

Theorem goja_set_only_receiver : forall (h : iheap) o k num v r,
  forall j, j <> r -> i_dump (ihget (fst (fst (i_set h o k num v r))) j) = i_dump (ihget h j).
Proof. exact ProofsSet.i_set_only_receiver. Qed.

(* non-vacuity: related, well-formed heaps with a setter and a non-writable property on the chain; the
   former F2 input (symbol key, receiver = an ancestor of the target) and its string-keyed twin *)
Example set_eq_spec_nonvacuous :
  let hi := [mkIObj None true [(KIdx 1, IProp (mkVP None false false true true None (Some 4)))] (mkNames [KIdx 1] 0 0)
                    [(KSym 0, IProp (mkVP (Some (VNum 1)) false true true false None None))];
             mkIObj (Some 0) true [] names0 []; mkIObj (Some 1) false [] names0 []] in
  let hs := [mkObj None true [(KIdx 1, PAcc None (Some 4) true false); (KSym 0, PData (VNum 1) false true true)];
             mkObj (Some 0) true []; mkObj (Some 1) false []] in
  map i_dump hi = map s_dump hs /\
  snd (fst (istep hi (OSet 2 (KIdx 1) true (VNum 7) 1))) = RBool true /\
  snd (istep hi (OSet 2 (KIdx 1) true (VNum 7) 1)) = [Ev 4 1 (Some (VNum 7))] /\
  snd (fst (sstep hs (OSet 2 (KSym 0) false (VNum 7) 2))) = RBool false /\
  snd (fst (sstep hs (OSet 2 (KStr 0) false (VNum 7) 2))) = RBool false /\
  snd (fst (sstep hs (OSet 2 (KStr 0) false (VNum 7) 1))) = RBool true.
Proof. vm_compute. repeat split. Qed.

Theorem set_f2_case_agrees :
  map s_dump (fst (fst (sstep f2_sheap f2_op))) = map i_dump (fst (fst (istep f2_iheap f2_op))).
Proof. exact ProofsSet.set_f2_case_agrees. Qed.

Theorem set_str_twin_agrees :
  let op := OSet 2 (KStr 0) false (VNum 3) 1 in
  map s_dump (fst (fst (sstep f2_sheap op))) = map i_dump (fst (fst (istep f2_iheap op))).
Proof. exact ProofsSet.set_str_twin_agrees. Qed.

Print Assumptions define_eq_spec.
Print Assumptions define_wf.
Print Assumptions define_step_eq_spec.
Print Assumptions define_step_wf.
Print Assumptions essential_invariants.
Print Assumptions nonextensible_invariants.
Print Assumptions frozen_is_final.
Print Assumptions history_preserves_objects.
Print Assumptions ownkeys_order.
Print Assumptions ownkeys_unique.
Print Assumptions ownkeys_same_set.
Print Assumptions idxcount_exact.
Print Assumptions sort_idx_is_sorted.
Print Assumptions bookkeeping_invariant.
Print Assumptions invariants_along_histories.
Print Assumptions bookkeeping_initial.
Print Assumptions idxcount_sound.
Print Assumptions set_eq_spec.
Print Assumptions get_eq_spec.
Print Assumptions has_eq_spec.
Print Assumptions getown_eq_spec.
Print Assumptions set_only_receiver.
Print Assumptions goja_set_only_receiver.
Print Assumptions set_f2_case_agrees.
Print Assumptions set_str_twin_agrees.
