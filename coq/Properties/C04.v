(* C04 — Essential object invariants hold for every object kind and every key kind.
   ONLY theorem statements; each is closed by [exact] of a lemma of C04/Proofs*.v.
   S = ECMA-262 10.1 ordinary object (Model.v, first half); I = goja's baseObject transcribed (second
   half); fx_cur = the current tree (F1, F2, N2 repaired in /repo), fx_none = the tree before those
   repairs, fx_all = all five one-line repairs switched on. *)
From Coq Require Import List Arith NArith Bool Permutation.
Import ListNotations.
From Verif.C04 Require Import Model Proofs ProofsKeys ProofsSet.

(* ---------------------------------------------------------------------------------------------- *)
(* 1. The define decision table: goja's _defineOwnProperty (current tree, fx_cur: F1 and N2 repaired by
      commits 7dd46dd and 8a03683) = ValidateAndApplyPropertyDescriptor, for EVERY existing property
      (bare value, data, accessor) satisfying the representation invariant and EVERY partial
      descriptor.  The tree before those commits differed exactly in the regions in_F1 / in_N2. *)

Theorem define_eq_spec : forall ext ex d,
  desc_wf d = true -> oiprop_wf ex = true ->
  option_map absP (GojaDefine fx_cur ext ex d) = ValidateAndApply ext (option_map absP ex) d.
Proof. exact Proofs.define_eq_spec. Qed.

Theorem define_prefix_tree_differs_exactly : forall ext ex d,
  desc_wf d = true -> oiprop_wf ex = true ->
  (in_F1 ex d || in_N2 ex d = true <->
   option_map absP (GojaDefine fx_none ext ex d) <> option_map absP (GojaDefine fx_cur ext ex d)).
Proof. exact Proofs.define_prefix_tree_differs_exactly. Qed.

Theorem define_eq_spec_repaired : forall ext ex d,
  desc_wf d = true -> oiprop_wf ex = true ->
  option_map absP (GojaDefine fx_all ext ex d) = ValidateAndApply ext (option_map absP ex) d
  /\ oiprop_wf (GojaDefine fx_all ext ex d) = true.
Proof. exact Proofs.define_eq_spec_fixed. Qed.

(* the representation invariant of valueProperty (an accessor carries no value and no writable flag, a
   data property no getter/setter) — the hypothesis of define_eq_spec — is kept by define on the current
   tree outside the regions N1 and N3, and broken exactly there (open findings C04-N1, C04-N3); with
   all repairs on it is kept everywhere (define_eq_spec_repaired) *)
Theorem define_wf_partial : forall ext ex d,
  desc_wf d = true -> oiprop_wf ex = true ->
  in_N1 fx_cur ext ex d = false -> in_N3 fx_cur ext ex d = false ->
  oiprop_wf (GojaDefine fx_cur ext ex d) = true.
Proof. exact Proofs.define_wf_partial. Qed.

Theorem define_wf_guard_exact : forall ext ex d,
  desc_wf d = true -> oiprop_wf ex = true ->
  in_N1 fx_cur ext ex d || in_N3 fx_cur ext ex d = true ->
  oiprop_wf (GojaDefine fx_cur ext ex d) = false.
Proof. exact Proofs.define_wf_guard_exact. Qed.

(* N1 refuted as a two-step history: data(writable) -> accessor -> {value}: goja reports writable:true *)
Theorem define_hidden_writable_refuted :
  exists ip, n1_step1 = Some ip /\ iprop_wf ip = false /\
    option_map absP (GojaDefine fx_cur true (Some ip) (d_value_only (VNum 2))) = Some (PData (VNum 2) true true true) /\
    ValidateAndApply true (Some (absP ip)) (d_value_only (VNum 2)) = Some (PData (VNum 2) false true true).
Proof. exact Proofs.define_hidden_writable_refuted. Qed.

(* N3 refuted: accessor -> {writable:true} leaves the getter installed on a "data" property *)
Theorem define_stale_getter_refuted :
  exists p, GojaDefine fx_cur true (Some n3_existing) (mkDesc None (Some true) None None None None) = Some (IProp p)
            /\ vp_accessor p = false /\ vp_getter p = Some 0 /\ vprop_wf p = false.
Proof. exact Proofs.define_stale_getter_refuted. Qed.

(* non-vacuity: a non-trivial point (a non-configurable, writable data property is made non-writable and
   given a new value); the former F1 / N2 inputs are now refused as the specification demands *)
Example define_eq_spec_nonvacuous :
  let ex := Some (IProp (mkVP (Some (VNum 1)) true false true false None None)) in
  let d := mkDesc (Some (VNum 2)) (Some false) None None None None in
  desc_wf d = true /\ oiprop_wf ex = true /\
  option_map absP (GojaDefine fx_cur true ex d) = Some (PData (VNum 2) false true false) /\
  GojaDefine fx_cur true (Some f1_existing) f1_desc = None /\ in_F1 (Some f1_existing) f1_desc = true /\
  GojaDefine fx_cur true (Some n2_existing) n2_desc = None /\ in_N2 (Some n2_existing) n2_desc = true.
Proof. vm_compute. repeat split. Qed.

(* ---------------------------------------------------------------------------------------------- *)
(* 2. Essential invariants along EVERY history of S-operations, from ANY heap (induction over the
      history): a non-configurable property is never deleted, keeps kind, enumerability and
      non-configurability, keeps get/set if it is an accessor, and keeps its value and stays
      non-writable if it is a non-writable data property; a non-extensible object stays non-extensible,
      keeps its prototype and gains no key. *)

Theorem essential_invariants : forall (h : heap) (ops : list op) i k p,
  find k (o_props (hget h i)) = Some p -> p_conf p = false ->
  exists p', find k (o_props (hget (srun h ops) i)) = Some p' /\ frozen_part p p'.
Proof. exact Proofs.essential_invariants. Qed.

Theorem nonextensible_invariants : forall (h : heap) (ops : list op) i,
  o_ext (hget h i) = false ->
  o_ext (hget (srun h ops) i) = false /\
  o_proto (hget (srun h ops) i) = o_proto (hget h i) /\
  forall k, find k (o_props (hget (srun h ops) i)) <> None -> find k (o_props (hget h i)) <> None.
Proof. exact Proofs.nonextensible_invariants. Qed.

Theorem frozen_is_final : forall (h : heap) (ops : list op) i,
  is_frozen (hget h i) = true ->
  forall k, find k (o_props (hget (srun h ops) i)) = find k (o_props (hget h i)).
Proof. exact Proofs.frozen_is_final. Qed.

Theorem history_preserves_objects : forall (h : heap) (ops : list op), length (srun h ops) = length h.
Proof. intros h ops. symmetry. exact (proj1 (Proofs.srun_le ops h)). Qed.

(* non-vacuity: a history that attacks a non-configurable non-writable property and a sealed object
   in every way; the hypotheses hold and the attacked state is non-trivial *)
Example essential_invariants_nonvacuous :
  let h0 := [mkObj None true [(KStr 0, PData (VNum 1) false true false); (KIdx 2, PAcc (Some 0) None false false)];
             mkObj (Some 0) false [(KSym 0, PData (VNum 2) true true true)]] in
  let ops := [ODelete 0 (KStr 0); ODefine 0 (KStr 0) (mkDesc (Some (VNum 9)) None None None None None);
              OSet 1 (KStr 0) false (VNum 9) 0; ODefine 0 (KIdx 2) (mkDesc None (Some false) None None None None);
              ODefine 1 (KStr 5) (d_create (VNum 3)); OSetProto 1 None; ODelete 1 (KSym 0); OFreeze 0;
              OSet 1 (KSym 0) false (VNum 7) 1] in
  find (KStr 0) (o_props (hget h0 0)) = Some (PData (VNum 1) false true false) /\
  o_ext (hget h0 1) = false /\
  map s_dump (srun h0 ops) =
    [(None, false, [(KIdx 2, PAcc (Some 0) None false false); (KStr 0, PData (VNum 1) false true false)]);
     (Some 0, false, [])].
Proof. vm_compute. repeat split. Qed.

(* ---------------------------------------------------------------------------------------------- *)
(* 3. Own-key order: for EVERY history of add / delete / enumerate (enumeration mutates
      lastSortedPropLen and idxPropCount), goja's lazily ordered propNames, once ordered, is exactly
      OrdinaryOwnPropertyKeys of the keys in creation order: array indices ascending, then strings in
      creation order (symbols are kept in a separate insertion-ordered table: property C18).  Keys are
      unique, the two sides hold the same key set, and idxPropCount — which setForeignIdx trusts to skip
      a lookup — is exact. *)

Theorem ownkeys_order : forall ops : list kop, no_sym_ops ops ->
  n_names (ensure_order (krun_i ops)) = sort_idx (filter is_idx (krun_s ops)) ++ filter is_str (krun_s ops).
Proof. exact ProofsKeys.ownkeys_order. Qed.

Theorem ownkeys_unique : forall ops : list kop, NoDup (n_names (krun_i ops)) /\ NoDup (krun_s ops).
Proof. exact ProofsKeys.ownkeys_unique. Qed.

Theorem ownkeys_same_set : forall (ops : list kop) k, In k (n_names (krun_i ops)) <-> In k (krun_s ops).
Proof. exact ProofsKeys.ownkeys_same_set. Qed.

Theorem idxcount_exact : forall ops : list kop,
  n_idxc (ensure_order (krun_i ops)) = length (filter is_idx (krun_s ops)).
Proof. exact ProofsKeys.idxcount_exact. Qed.

Theorem sort_idx_is_sorted : forall l, NoDup l -> (forall k, In k l -> is_idx k = true) ->
  SortedIdx (sort_idx l) /\ Permutation l (sort_idx l).
Proof. exact ProofsKeys.sort_idx_is_sorted. Qed.

Example ownkeys_order_nonvacuous :
  let ops := [KAdd (KStr 0); KAdd (KIdx 5); KAdd (KIdx 2); KEnum; KAdd (KIdx 3); KDel (KIdx 5);
              KAdd (KStr 1); KAdd (KIdx 1); KEnum; KAdd (KIdx 0); KAdd (KIdx 5)] in
  n_names (krun_i ops) = [KIdx 1; KIdx 2; KIdx 3; KStr 0; KStr 1; KIdx 0; KIdx 5] /\
  krun_s ops = [KStr 0; KIdx 2; KIdx 3; KStr 1; KIdx 1; KIdx 0; KIdx 5] /\
  n_names (ensure_order (krun_i ops)) = [KIdx 0; KIdx 1; KIdx 2; KIdx 3; KIdx 5; KStr 0; KStr 1].
Proof. vm_compute. repeat split. Qed.

(* ---------------------------------------------------------------------------------------------- *)
(* 4. [[Set]] with a receiver.  In S, whatever the target and its prototype chain, OrdinarySet changes
      no object other than the receiver and calls at most one setter, with this = receiver.  The same
      receiver-only property is proved for goja's own walk (setOwnStr / _setForeignStr / _setForeignIdx /
      setForeignSym and Object.setStr/setIdx/setSym transcribed) for all heaps and all key kinds on the
      current tree; the guarded form shows that on the tree before commit 3750984 it held exactly for
      non-symbol keys (F2), and the former F2 input now agrees with S. *)

Theorem set_only_receiver : forall fuel (h : heap) o k v r,
  (forall j, j <> r -> hget (fst (fst (s_set fuel h o k v r))) j = hget h j) /\
  (snd (s_set fuel h o k v r) = [] \/ exists s, snd (s_set fuel h o k v r) = [Ev s r (Some v)]).
Proof. exact ProofsSet.s_set_only_receiver. Qed.

Theorem goja_set_only_receiver : forall (h : iheap) o k num v r,
  forall j, j <> r -> i_dump (ihget (fst (fst (i_set fx_cur h o k num v r))) j) = i_dump (ihget h j).
Proof. exact ProofsSet.i_set_only_receiver_cur. Qed.

Theorem goja_set_only_receiver_guarded : forall fx (h : iheap) o k num v r,
  is_sym k && negb (fix_f2 fx) = false ->
  forall j, j <> r -> i_dump (ihget (fst (fst (i_set fx h o k num v r))) j) = i_dump (ihget h j).
Proof. exact ProofsSet.i_set_only_receiver. Qed.

Theorem set_f2_case_agrees :
  map s_dump (fst (fst (sstep f2_sheap f2_op))) = map i_dump (fst (fst (istep fx_cur f2_iheap f2_op)))
  /\ map s_dump (fst (fst (sstep f2_sheap f2_op))) <> map i_dump (fst (fst (istep fx_none f2_iheap f2_op))).
Proof. exact ProofsSet.set_f2_case_agrees. Qed.

Theorem set_str_twin_agrees :
  let op := OSet 2 (KStr 0) false (VNum 3) 1 in
  map s_dump (fst (fst (sstep f2_sheap op))) = map i_dump (fst (fst (istep fx_cur f2_iheap op))).
Proof. exact ProofsSet.set_str_twin_agrees. Qed.

Print Assumptions define_eq_spec.
Print Assumptions define_prefix_tree_differs_exactly.
Print Assumptions define_eq_spec_repaired.
Print Assumptions define_wf_partial.
Print Assumptions define_wf_guard_exact.
Print Assumptions define_hidden_writable_refuted.
Print Assumptions define_stale_getter_refuted.
Print Assumptions essential_invariants.
Print Assumptions nonextensible_invariants.
Print Assumptions frozen_is_final.
Print Assumptions history_preserves_objects.
Print Assumptions ownkeys_order.
Print Assumptions ownkeys_unique.
Print Assumptions ownkeys_same_set.
Print Assumptions idxcount_exact.
Print Assumptions sort_idx_is_sorted.
Print Assumptions set_only_receiver.
Print Assumptions goja_set_only_receiver.
Print Assumptions goja_set_only_receiver_guarded.
Print Assumptions set_f2_case_agrees.
Print Assumptions set_str_twin_agrees.
