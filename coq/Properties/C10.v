(* C10 — Promise jobs run exactly once, in spec FIFO order, before control returns to Go.
   ONLY theorem statements; each is closed by [exact] of a lemma of C10/Proofs*.v.
   [T] = the thenable objects of the program, [runs] = the program split into runs (one run = one
   outermost call into the runtime: RunString/RunProgram or a Go-side resolver), [fuel] = bound on
   the number of jobs one drain may execute (a drain that hits it sets [exhausted] and accounts the
   rest of the queue as dropped, so the statements below hold for EVERY program, split and fuel). *)
From Coq Require Import List Arith Bool Permutation.
Import ListNotations.
From Verif.C10 Require Import Model Proofs Proofs2 Proofs3 Proofs4 Proofs5.

(* 1. goja's machine (double-buffered drain loop of Runtime.leave, leaveAbrupt) reaches exactly the
      state of the specification machine (HostEnqueuePromiseJob = plain FIFO): same event log, same
      tracker log, same promise states/results, same per-run outcomes — and the same ghost history. *)
Theorem promise_refines : forall T fuel runs,
  runI T fuel runs = runS T fuel runs.
Proof. exact Proofs.runI_runS. Qed.

Corollary promise_refines_obs : forall T fuel runs,
  log (runI T fuel runs) = log (runS T fuel runs) /\ tlog (runI T fuel runs) = tlog (runS T fuel runs) /\
  proms (runI T fuel runs) = proms (runS T fuel runs) /\ outs (runI T fuel runs) = outs (runS T fuel runs).
Proof. intros; rewrite Proofs.runI_runS; auto. Qed.

(* 2. the job queue is empty whenever control returns to Go *)
Theorem queue_empty_on_return : forall T fuel runs,
  queue (runI T fuel runs) = [].
Proof. intros; rewrite Proofs.runI_runS; apply Proofs.runS_queue. Qed.

(* 3. every enqueued job (reaction job or thenable job) has a unique id; no job is executed twice; at
      return the executed and the discarded jobs together are exactly the enqueued ones; a discarded
      job never ran. *)
Theorem each_reaction_once : forall T fuel runs,
  let s := runI T fuel runs in
  NoDup (enq s) /\ NoDup (ran s) /\ NoDup (dropped s) /\ Permutation (ran s ++ dropped s) (enq s) /\
  (forall x, In x (dropped s) -> ~ In x (ran s)).
Proof. exact Proofs2.accounting. Qed.

(* 3b. a stored reaction record is turned into a job at most once: the ids of all records that ever
       became jobs are distinct, and a record still stored in a promise has not been a job. *)
Theorem reaction_record_jobbed_once : forall T fuel runs,
  NoDup (jobbed (runI T fuel runs)) /\
  (forall x, In x (prids (proms (runI T fuel runs))) -> ~ In x (jobbed (runI T fuel runs))).
Proof. intros; split; [apply Proofs4.jobbed_nodup | intros x; apply Proofs4.stored_not_jobbed]. Qed.

(* hence: a history in which nothing was discarded (no interrupt, no fuel exhaustion) executed
   exactly the enqueued jobs, each once *)
Corollary each_job_exactly_once : forall T fuel runs,
  dropped (runI T fuel runs) = [] ->
  NoDup (ran (runI T fuel runs)) /\ Permutation (ran (runI T fuel runs)) (enq (runI T fuel runs)).
Proof.
  intros T fuel runs H. destruct (Proofs2.accounting T fuel runs) as (_ & B & _ & D & _).
  rewrite H, app_nil_r in D. auto.
Qed.

(* 4. interrupt: jobs discarded by leaveAbrupt never run, in this or any later run *)
Theorem interrupt_discards : forall T fuel runs x,
  In x (dropped (runI T fuel runs)) -> ~ In x (ran (runI T fuel runs)).
Proof. intros T fuel runs. exact (proj2 (proj2 (proj2 (proj2 (Proofs2.accounting T fuel runs))))). Qed.

(* 5. settle once.  fulfill/reject (which, as in goja, do not test the state) are called at most once
      per promise over the whole history: the alreadyResolved latches and the one-fresh-pair-per-
      thenable-job discipline guarantee it.  [settles] records every call. *)
Theorem settle_once : forall T fuel runs,
  NoDup (settles (runI T fuel runs)) /\
  (forall p, In p (settles (runI T fuel runs)) ->
     exists pr, get_prom p (runI T fuel runs) = Some pr /\ p_state pr <> Pending).
Proof. intros; split; [apply Proofs3.settle_once | apply Proofs3.settled_are_settled]. Qed.

(* ... and calls through a latched pair are no-ops, in any state *)
Theorem latched_pair_is_noop : forall T r x s pa,
  get_pair r s = Some pa -> pr_latched pa = true -> resolve_fn T r x s = s /\ reject_fn r x s = s.
Proof. exact Proofs3.latched_noop. Qed.

(* 6. HostPromiseRejectionTracker language, per promise (named or internal):
      not rejected                      -> the tracker never heard of it
      rejected, handled = false         -> exactly [reject]
      rejected, handled = true          -> nothing (a reaction existed before the rejection)
                                           or [reject; handle] (first reaction added afterwards) *)
Theorem tracker_language : forall T fuel runs p,
  let s := runI T fuel runs in
  match get_prom p s with
  | None => tf p (tlog s) = []
  | Some pr =>
      match p_state pr, p_handled pr with
      | Rejected, false => tf p (tlog s) = [TReject]
      | Rejected, true => tf p (tlog s) = [] \/ tf p (tlog s) = [TReject; THandle]
      | _, _ => tf p (tlog s) = []
      end
  end.
Proof. exact Proofs3.tracker_language. Qed.

Corollary tracker_prefix : forall T fuel runs p,
  exists rest, tf p (tlog (runI T fuel runs)) ++ rest = [TReject; THandle].
Proof. exact Proofs3.tracker_prefix. Qed.

(* 1b. no re-entrant drain (f7b1efa).  A native reaction handler may call an outermost entry point of
       the Runtime from inside a job (acts AResN / ARejN); its exit path reaches leave() again.  With the
       [draining] flag that nested leave() is the identity, and [promise_refines] above — stated over the
       language WITH such handlers — says the jobs it queued run in plain FIFO order after the rest of
       the current batch.  The code before f7b1efa ([runI_old]: the nested leave() drains) did not
       refine S: *)
Theorem nested_leave_returns_at_once : forall drain s, leave_nested true drain s = s.
Proof. reflexivity. Qed.

Definition ex_native : list (list op) :=
  [ [ONew; ONew; OThen 0 (Some (mkScript 1 [AResN 1 (VInt 5)] RetArg)) None;
     OThen 0 (Some (mkScript 2 [] RetArg)) None; OThen 1 (Some (mkScript 3 [] RetArg)) None];
    [ORes 0 (VInt 1)] ].
Theorem old_reentrant_drain_breaks_fifo :
  log (runI_old [] 100 ex_native) <> log (runS [] 100 ex_native) /\
  log (runI [] 100 ex_native) = [(1, VInt 1); (2, VInt 1); (3, VInt 5)] /\
  log (runI_old [] 100 ex_native) = [(1, VInt 1); (3, VInt 5); (2, VInt 1)].
Proof. vm_compute. repeat split; discriminate. Qed.

(* 7. fuel is only a bound: a history that did not exhaust its fuel is unchanged by any larger fuel.
      (The correspondence check requires exhausted = false, so what it compares with goja is the
      fuel-free meaning of the program.  Termination of every stratified program is NOT proved.) *)
Theorem fuel_irrelevant : forall T fuel k runs,
  exhausted (runI T fuel runs) = false -> runI T (fuel + k) runs = runI T fuel runs.
Proof. exact Proofs5.fuel_irrelevant. Qed.

(* ---------------------------------------------------------------------------------------------- *)
(* non-vacuity: concrete programs exercising each statement *)

Definition h (id : nat) (r : ret) := Some (mkScript id [] r).
(* p0 rejected with no handler (reject), handler added in a later run (handle), chains of different
   length interleave, a thenable resolves p1, a handler returns a promise, p2 resolved twice *)
Definition ex_T := [TFun 200 [TRes (VInt 7); TRej (VInt 8)]].
Definition ex_runs : list (list op) :=
  [ [ONew; ONew; ONew; ORej 0 (VInt 1); ORes 1 (VThen 0); ORes 2 (VInt 5); ORes 2 (VInt 6);
     OThen 1 (h 1 RetArg) None; OThen 2 (h 2 (RetVal (VProm (PN 1)))) None; OThen 4 (h 3 (Throw (VInt 9))) None];
    [OThen 0 None (h 4 RetArg); OComb CAll [VProm (PN 1); VProm (PN 2); VInt 3]] ].

Example ex_log :
  log (runI ex_T 100 ex_runs) = [(200, VUndef); (2, VInt 5); (1, VInt 7); (3, VInt 7); (4, VInt 1)]
  /\ tf (PN 0) (tlog (runI ex_T 100 ex_runs)) = [TReject; THandle]
  /\ length (ran (runI ex_T 100 ex_runs)) = 10 /\ dropped (runI ex_T 100 ex_runs) = []
  /\ exhausted (runI ex_T 100 ex_runs) = false
  /\ length (settles (runI ex_T 100 ex_runs)) = 13.
Proof. vm_compute. repeat split. Qed.

(* an interrupt in the first of three queued handlers: the other two jobs are discarded and never
   run; the next run works *)
Definition ex_intr : list (list op) :=
  [ [ONew; ORes 0 (VInt 1); OThen 0 (h 1 Intr) None; OThen 0 (h 2 RetArg) None; OThen 0 (h 3 RetArg) None];
    [OThen 0 (h 4 RetArg) None] ].
Example ex_interrupt :
  log (runI [] 100 ex_intr) = [(1, VInt 1); (4, VInt 1)]
  /\ length (dropped (runI [] 100 ex_intr)) = 2 /\ length (ran (runI [] 100 ex_intr)) = 2
  /\ outs (runI [] 100 ex_intr) = [(true, 0, 1); (false, 0, 2)].
Proof. vm_compute. repeat split. Qed.

(* async functions: `return p0` (a native promise) from an async function costs the thenable job and
   its then job — the function's promise settles after t1, t2, t3 of a parallel chain; an await of a
   fulfilled promise costs one tick; finally adds its two internal thens *)
Definition ex_async : list (list op) :=
  [ [ONew; ORes 0 (VInt 1)];
    [OThen 0 (h 1 RetArg) None; OThen 1 (h 2 RetArg) None; OThen 2 (h 3 RetArg) None;
     OAsync 50 false [] (ARet (VProm (PN 0))); OThen 4 (h 9 RetArg) None] ].
Example ex_async_ticks :
  log (runI [] 100 ex_async) = [(50, VUndef); (1, VInt 1); (2, VInt 1); (3, VInt 1); (9, VInt 1)].
Proof. vm_compute. reflexivity. Qed.
Definition ex_async2 : list (list op) :=
  [ [ONew; ORes 0 (VInt 1)];
    [OThen 0 (h 1 RetArg) None; OThen 1 (h 2 RetArg) None; OThen 2 (h 3 RetArg) None;
     OAsync 50 false [VProm (PN 0); VInt 4] (ARet (VInt 7)); OThen 4 (h 9 RetArg) None;
     OFinally 0 (mkScript 20 [] RetArg); OThen 6 (h 21 RetArg) None] ].
Example ex_async_await_finally :
  log (runI [] 100 ex_async2) =
  [(50, VUndef); (1, VInt 1); (50, VInt 1); (20, VUndef); (2, VInt 1); (50, VInt 4); (3, VInt 1); (9, VInt 7); (21, VInt 1)].
Proof. vm_compute. reflexivity. Qed.

Print Assumptions promise_refines.
Print Assumptions queue_empty_on_return.
Print Assumptions each_reaction_once.
Print Assumptions each_job_exactly_once.
Print Assumptions interrupt_discards.
Print Assumptions settle_once.
Print Assumptions latched_pair_is_noop.
Print Assumptions tracker_language.
Print Assumptions tracker_prefix.
Print Assumptions reaction_record_jobbed_once.
Print Assumptions fuel_irrelevant.
Print Assumptions nested_leave_returns_at_once.
Print Assumptions old_reentrant_drain_breaks_fifo.
