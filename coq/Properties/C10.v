(* C10 — Promise jobs run exactly once, in spec FIFO order, before control returns to Go.
   ONLY theorem statements; each is closed by [exact] of a lemma of C10/Proofs*.v.
   [T] = the thenable objects of the program, [runs] = the program split into runs (one run = one
   outermost call into the runtime: RunString/RunProgram or a Go-side resolver), [fuel] = bound on
   the number of jobs a drain may execute (a drain that hits it sets [exhausted] and accounts the
   rest of the queue as dropped, so the statements below hold for EVERY fuel). *)
From Coq Require Import List Arith Bool Permutation.
Import ListNotations.
From Verif.C10 Require Import Model Proofs Proofs2.

(* 1. goja's machine (double-buffered drain loop of Runtime.leave, leaveAbrupt) reaches exactly the
      state of the specification machine (HostEnqueuePromiseJob = plain FIFO): same event log, same
      tracker log, same promise states/results, same per-run outcomes — and same ghost history. *)
Theorem promise_refines : forall T fuel runs,
  runI T fuel runs = runS T fuel runs.
Proof. exact Proofs.runI_runS. Qed.

Corollary promise_refines_obs : forall T fuel runs,
  log (runI T fuel runs) = log (runS T fuel runs) /\ tlog (runI T fuel runs) = tlog (runS T fuel runs) /\
  proms (runI T fuel runs) = proms (runS T fuel runs) /\ outs (runI T fuel runs) = outs (runS T fuel runs).
Proof. intros; rewrite Proofs.runI_runS; auto. Qed.

(* 2. the job queue is empty whenever control returns to Go *)
Theorem queue_empty_on_return : forall T fuel runs,
  queue (runI T fuel runs) = [].
Proof. intros; rewrite Proofs.runI_runS; apply Proofs.runS_queue. Qed.

(* 3. every enqueued job has a unique id; no job is executed twice; at return the executed and the
      discarded jobs together are exactly the enqueued ones; a discarded job never ran. *)
Theorem each_job_once : forall T fuel runs,
  let s := runI T fuel runs in
  NoDup (enq s) /\ NoDup (ran s) /\ NoDup (dropped s) /\ Permutation (ran s ++ dropped s) (enq s) /\
  (forall x, In x (dropped s) -> ~ In x (ran s)).
Proof. exact Proofs2.accounting. Qed.

(* hence: a history in which nothing was discarded (no interrupt, no fuel exhaustion) executed
   exactly the enqueued jobs, each once *)
Corollary each_job_exactly_once : forall T fuel runs,
  dropped (runI T fuel runs) = [] ->
  NoDup (ran (runI T fuel runs)) /\ Permutation (ran (runI T fuel runs)) (enq (runI T fuel runs)).
Proof.
  intros T fuel runs H. destruct (Proofs2.accounting T fuel runs) as (_ & B & _ & D & _).
  rewrite H, app_nil_r in D. auto.
Qed.

(* 4. interrupt: jobs discarded by leaveAbrupt never run, in this or any later run *)
Theorem interrupt_discards : forall T fuel runs x,
  In x (dropped (runI T fuel runs)) -> ~ In x (ran (runI T fuel runs)).
Proof. intros T fuel runs. exact (proj2 (proj2 (proj2 (proj2 (Proofs2.accounting T fuel runs))))). Qed.

Print Assumptions promise_refines.
Print Assumptions queue_empty_on_return.
Print Assumptions each_job_once.
Print Assumptions each_job_exactly_once.
Print Assumptions interrupt_discards.
