(* C13 — Go<->JS value bridge: round-trip identity and aliasing coherence (PARTIAL: see the limits below).
   ONLY theorem statements; each is closed by [exact] of a lemma of C13/Proofs*.v.

   Modelled: the dispatch of Runtime.toValue / Export on a universe of Go values in a heap, wrappers as
   locations into that heap, struct-field resolution under a FieldNameMapper, the export identity cache,
   the element-wrapper cache (Live / Detached) of objectGoArrayReflect/objectGoSliceReflect.
   NOT modelled (exercised by the correspondence harness only): reflect addressability and panics, method
   sets, named scalar types, numeric width conversion of every kind pair, and the per-field valueCache of
   nested struct/array fields (where finding C13-F20 lives). *)
From Coq Require Import List ZArith NArith Bool Arith.
Import ListNotations.
From Verif.C13 Require Import Model Proofs.

(* 1. Round trip.  Export(ToValue g) is the documented normal form of g for EVERY g of the universe
      (numbers become int64/float64, a nil pointer chain / nil map[string]interface{} becomes nil), ... *)
Theorem export_toValue_norm : forall h g,
  export (fst (toValue h g)) (snd (toValue h g)) = normalize h g.
Proof. exact Proofs.export_toValue_norm. Qed.

(* ... hence the identity on export-normal values: the SAME address for pointers, maps, slices; the same
   code pointer for funcs; structs/arrays by value through the wrapper's private copy *)
Theorem export_toValue_id : forall h g, wf_gval h g = true ->
  export (fst (toValue h g)) (snd (toValue h g)) = g.
Proof. exact Proofs.export_toValue_id. Qed.

Example export_toValue_id_ptr :       (* non-vacuity: a **struct keeps its outer address 1 *)
  let h := [CVal (GStruct [GInt KInt 5]); CVal (GPtr (TStruct [TNum KInt]) (Some 0))] in
  let g := GPtr (TPtr (TStruct [TNum KInt])) (Some 1) in
  wf_gval h g = true /\ export (fst (toValue h g)) (snd (toValue h g)) = g /\
  normalize h (GPtr (TPtr (TStruct [TNum KInt])) None) = GNil /\
  normalize h (GInt KUint8 200) = GInt KInt64 200.
Proof. repeat split; reflexivity. Qed.

(* 3. Live view: a wrapper IS a location.  What script writes at a location is what Go reads there, what
      Go writes there is what script reads (one law: both sides read/write the same location) ... *)
Theorem live_view_write_then_read : forall h l x h',
  lwrite h l x = Some h' -> lread h' l = Some x.
Proof. exact Proofs.lread_lwrite_same. Qed.

(* ... and no other (disjoint) wrapper path observes the write *)
Theorem live_view_frame : forall h l1 l2 x h',
  disjoint l1 l2 -> lwrite h l1 x = Some h' -> lread h' l2 = lread h l2.
Proof. exact Proofs.lread_lwrite_other. Qed.

(* struct fields by js name — promoted fields of embedded structs included — under ANY FieldNameMapper *)
Theorem live_view_fields : forall mapper h fs l n x h' q,
  field_path mapper fs n = Some q ->
  (js_set_field mapper h fs l n x = Some h' -> lread h' (lext l q) = Some x) /\
  (lwrite h (lext l q) x = Some h' -> js_get_field mapper h' fs l n = Some x).
Proof. exact Proofs.live_view_fields. Qed.

Example live_view_promoted :          (* non-vacuity: promoted field "1" of an embedded struct, nil mapper *)
  let fs := [FD 11 None true true (Some [FD 1 None true false None]); FD 2 None true false None] in
  let h := [CVal (GStruct [GStruct [GInt KInt 7]; GInt KInt 8])] in
  field_path (fun n _ => Some n) fs 1 = Some [SField 0; SField 0] /\
  js_get_field (fun n _ => Some n) h fs (LCell 0 []) 1 = Some (GInt KInt 7) /\
  (exists h', js_set_field (fun n _ => Some n) h fs (LCell 0 []) 1 (GInt KInt 9) = Some h' /\
              lread h' (LCell 0 [SField 0; SField 0]) = Some (GInt KInt 9)).
Proof. repeat split; try reflexivity. eexists; split; reflexivity. Qed.

(* 4. Element wrappers of a slice/array of structs (valueCache, copy-on-change).
      [inv]: the Live wrappers are exactly the cached ones (so a slot has at most one Live wrapper).
      It holds initially and along EVERY history of get / put / put-handle / delete / length= (shrink and
      grow) / Go-side element write / write-through-handle / read.
      LIMIT: the swap step of the in-place sort (PSwap) is part of the model and of the correspondence
      check, but its preservation lemma is not proved yet: histories here are swap-free ([noswap]). *)
Section Elements.
Context {V U : Type} (zero : V) (app : U -> V -> V).

Theorem inv_preserved : forall (l : list V) (ops : list (pop V U)),
  noswap V U ops = true -> inv V (fst (irun V zero U app (iinit V l) ops)).
Proof. intros. apply (Proofs.inv_run V zero U app); auto. apply Proofs.inv_init. Qed.

(* a wrapper handed out earlier keeps denoting the value it was taken from (still-valid Live slot or
   Detached copy) across every history that does not write to it (through a handle bound to it, or by
   an in-place Go assignment to the slot it currently lives in) *)
Theorem handed_out_wrappers_stable : forall (ops : list (pop V U)) s w,
  inv V s -> noswap V U ops = true -> untouched V zero U app s w ops = true ->
  wdenote V s w <> None ->
  wdenote V (fst (irun V zero U app s ops)) w = wdenote V s w.
Proof. exact (Proofs.stable_run V zero U app). Qed.

(* live view of elements: a write through a Live wrapper lands in the Go slice at its slot *)
Theorem write_through_live : forall s k u w i v,
  nth_error (i_hs V s) k = Some (Some w) -> nth_error (i_ws V s) w = Some (Live i) ->
  nth_error (i_arr V s) i = Some v ->
  nth_error (i_arr V (fst (istep V zero U app s (PWriteH k u)))) i = Some (app u v) /\
  wdenote V (fst (istep V zero U app s (PWriteH k u))) w = Some (app u v).
Proof. exact (Proofs.write_through_live V zero U app). Qed.
End Elements.

Example handed_out_stable_nonvacuous :     (* var e = arr[1]; arr[1] = 9; arr.length = 1; arr.push(..): e still 20 *)
  let ops := [PGet 1; PPut 1 9%Z; PLen 1; PPut 3 7%Z; PDel 0; PReadH 0] : list (pop Z Z) in
  let s1 := fst (istep Z 0%Z Z Z.add (iinit Z [10; 20; 30]%Z) (PGet 1)) in
  untouched Z 0%Z Z Z.add s1 0 (tl ops) = true /\ wdenote Z s1 0 = Some 20%Z /\
  snd (irun Z 0%Z Z Z.add (iinit Z [10; 20; 30]%Z) ops) = [OUnit; OUnit; OUnit; OUnit; OUnit; OV (Some 20%Z)] /\
  i_arr Z (fst (irun Z 0%Z Z Z.add (iinit Z [10; 20; 30]%Z) ops)) = [0; 0; 0; 7]%Z.
Proof. repeat split; reflexivity. Qed.

Print Assumptions export_toValue_norm.
Print Assumptions export_toValue_id.
Print Assumptions live_view_write_then_read.
Print Assumptions live_view_frame.
Print Assumptions live_view_fields.
Print Assumptions inv_preserved.
Print Assumptions handed_out_wrappers_stable.
Print Assumptions write_through_live.
