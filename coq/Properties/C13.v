(* C13 — Go<->JS value bridge: round-trip identity and aliasing coherence (PARTIAL: see the limits below).
   ONLY theorem statements; each is closed by [exact] of a lemma of C13/Proofs*.v.

   Modelled: the dispatch of Runtime.toValue / Export on a universe of Go values in a heap, wrappers as
   locations into that heap, struct-field resolution under a FieldNameMapper, the export identity cache,
   the element-wrapper cache (Live / Detached) of objectGoArrayReflect/objectGoSliceReflect.
   NOT modelled (exercised by the correspondence harness only): reflect addressability and panics, method
   sets, named scalar types, numeric width conversion of every kind pair; the recursion by which
   setReflectValue re-points cached nested wrappers is abstracted (a field wrapper refers to its owner). *)
From Coq Require Import List ZArith NArith Bool Arith.
Import ListNotations.
From Verif.C13 Require Import Model Proofs.

(* 1. Round trip.  Export(ToValue g) is the documented normal form of g for EVERY g of the universe
      (numbers become int64/float64, a nil pointer chain / nil map[string]interface{} becomes nil), ... *)
Theorem export_toValue_norm : forall h g,
  export (fst (toValue h g)) (snd (toValue h g)) = normalize h g.
Proof. exact Proofs.export_toValue_norm. Qed.

(* ... hence the identity on export-normal values: the SAME address for pointers, maps, slices; the same
   code pointer for funcs; structs/arrays by value through the wrapper's private copy *)
Theorem export_toValue_id : forall h g, wf_gval h g = true ->
  export (fst (toValue h g)) (snd (toValue h g)) = g.
Proof. exact Proofs.export_toValue_id. Qed.

Example export_toValue_id_ptr :       (* non-vacuity: a **struct keeps its outer address 1 *)
  let h := [CVal (GStruct [GInt KInt 5]); CVal (GPtr (TStruct [TNum KInt]) (Some 0))] in
  let g := GPtr (TPtr (TStruct [TNum KInt])) (Some 1) in
  wf_gval h g = true /\ export (fst (toValue h g)) (snd (toValue h g)) = g /\
  normalize h (GPtr (TPtr (TStruct [TNum KInt])) None) = GNil /\
  normalize h (GInt KUint8 200) = GInt KInt64 200.
Proof. repeat split; reflexivity. Qed.

(* 3. Live view: a wrapper IS a location.  What script writes at a location is what Go reads there, what
      Go writes there is what script reads (one law: both sides read/write the same location) ... *)
Theorem live_view_write_then_read : forall h l x h',
  lwrite h l x = Some h' -> lread h' l = Some x.
Proof. exact Proofs.lread_lwrite_same. Qed.

(* ... and no other (disjoint) wrapper path observes the write *)
Theorem live_view_frame : forall h l1 l2 x h',
  disjoint l1 l2 -> lwrite h l1 x = Some h' -> lread h' l2 = lread h l2.
Proof. exact Proofs.lread_lwrite_other. Qed.

(* struct fields by js name — promoted fields of embedded structs included — under ANY FieldNameMapper *)
Theorem live_view_fields : forall mapper h fs l n x h' q,
  field_path mapper fs n = Some q ->
  (js_set_field mapper h fs l n x = Some h' -> lread h' (lext l q) = Some x) /\
  (lwrite h (lext l q) x = Some h' -> js_get_field mapper h' fs l n = Some x).
Proof. exact Proofs.live_view_fields. Qed.

Example live_view_promoted :          (* non-vacuity: promoted field "1" of an embedded struct, nil mapper *)
  let fs := [FD 11 None true true (Some [FD 1 None true false None]); FD 2 None true false None] in
  let h := [CVal (GStruct [GStruct [GInt KInt 7]; GInt KInt 8])] in
  field_path (fun n _ => Some n) fs 1 = Some [SField 0; SField 0] /\
  js_get_field (fun n _ => Some n) h fs (LCell 0 []) 1 = Some (GInt KInt 7) /\
  (exists h', js_set_field (fun n _ => Some n) h fs (LCell 0 []) 1 (GInt KInt 9) = Some h' /\
              lread h' (LCell 0 [SField 0; SField 0]) = Some (GInt KInt 9)).
Proof. repeat split; try reflexivity. eexists; split; reflexivity. Qed.

(* 2. Exporting a script-built object graph with the identity cache (objectExportCtx), any sharing, any cycles.
      [ext s s']: the cache keeps its size, only gains entries, the number of objects without a result
      does not grow.  Every (sub-)export extends the context and records its result for the object ... *)
Theorem export_records_result : forall g fuel st v st' r,
  length (e_cache st) = length g -> exp_val fuel g st v = Some (st', r) ->
  ext st st' /\ (forall id, v = JR id -> cache_get st' id = Some r).
Proof. exact Proofs.exp_val_ext. Qed.

(* ... hence equal object ids => identical Go results: whenever the same object is reached again, in ANY
   later context of the same export, the result is the very same reference (same address) and nothing is
   exported twice *)
Theorem export_preserves_sharing : forall g fuel st id st1 r fuel' st2,
  length (e_cache st) = length g ->
  exp_val fuel g st (JR id) = Some (st1, r) -> ext st1 st2 ->
  exp_val fuel' g st2 (JR id) = Some (st2, r).
Proof. exact Proofs.export_sharing. Qed.

(* the traversal terminates on every closed graph, cyclic or not, with fuel = number of objects + 1 *)
Theorem export_terminates : forall g root, graph_closed g = true -> jv_closed (length g) root = true ->
  exists st r, export_graph g root = Some (st, r).
Proof. exact Proofs.export_graph_total. Qed.

Example export_cycle_shared :          (* a = {x: b, y: b}; b = [a]: one map, one slice, tied into a cycle *)
  let g := [NObj [(0%N, JR 1); (1%N, JR 1)]; NArr [JR 0]] in
  graph_closed g = true /\
  option_map (fun p => (snd p, e_heap (fst p))) (export_graph g (JR 0)) =
    Some (RMap 0, [GCMap [(0%N, RSlice 1); (1%N, RSlice 1)]; GCSlice [RMap 0]]).
Proof. split; reflexivity. Qed.

(* 4. Element wrappers of a slice/array of structs (valueCache, copy-on-change).
      [inv]: the Live wrappers are exactly the cached ones (so a slot has at most one Live wrapper).
      It holds initially and along EVERY history of get / put / put-handle / delete / sort swaps /
      length= (shrink and grow) / Go-side element write / write-through-handle / read. *)
Section Elements.
Context {V U : Type} (zero : V) (app : U -> V -> V).

Theorem inv_preserved : forall (l : list V) (ops : list (pop V U)),
  inv V (fst (irun V zero U app (iinit V l) ops)).
Proof. intros. apply (Proofs.inv_run V zero U app). apply Proofs.inv_init. Qed.

(* a wrapper handed out earlier keeps denoting the value it was taken from (still-valid Live slot -- which
   moves with the value under sort -- or Detached copy) across every history that does not write to it
   (through a handle bound to it, or by an in-place Go assignment to the slot it currently lives in) *)
Theorem handed_out_wrappers_stable : forall (ops : list (pop V U)) s w,
  inv V s -> untouched V zero U app s w ops = true ->
  wdenote V s w <> None ->
  wdenote V (fst (irun V zero U app s ops)) w = wdenote V s w.
Proof. exact (Proofs.stable_run V zero U app). Qed.

(* the swap step of the in-place sort never changes what ANY wrapper denotes *)
Theorem sort_swap_invisible : forall s i j, inv V s ->
  forall w, wdenote V (fst (istep V zero U app s (PSwap i j))) w = wdenote V s w.
Proof. intros s i j I. exact (proj2 (Proofs.swap_pres V zero U app s i j I)). Qed.

(* live view of elements: a write through a Live wrapper lands in the Go slice at its slot *)
Theorem write_through_live : forall s k u w i v,
  nth_error (i_hs V s) k = Some (Some w) -> nth_error (i_ws V s) w = Some (Live i) ->
  nth_error (i_arr V s) i = Some v ->
  nth_error (i_arr V (fst (istep V zero U app s (PWriteH k u)))) i = Some (app u v) /\
  wdenote V (fst (istep V zero U app s (PWriteH k u))) w = Some (app u v).
Proof. exact (Proofs.write_through_live V zero U app). Qed.

(* 5. Wrappers of a nested struct FIELD of an element (objectGoReflect.valueCache after the repair of
      C13-F20: a cached field wrapper addresses field In of whatever its owner addresses -- the recursion
      of setReflectValue is abstracted into that reference).  The two caches stay coherent along every
      history, incl. successful and FAILING assignments to the field ... *)
Context {F UF : Type} (getf : V -> F) (setf : F -> V -> V) (appf : UF -> F -> F).

Theorem nested_inv_preserved : forall (l : list V) (ops : list (nop V U F UF)),
  ninv2 V F (fst (nrun V zero U app F getf setf UF appf (ninit V F l) ops)).
Proof. intros. apply (Proofs.ninv2_run V zero U app F getf setf UF appf). apply Proofs.ninv2_init. Qed.

(* ... a field wrapper handed out earlier keeps denoting the value it was taken from across every history
   that does not write to it: sort, reallocation, reassignment/deletion/shrink of its owner's slot, a
   successful reassignment of the field itself (it then holds the old value), failing assignments ... *)
Theorem handed_out_field_wrappers_stable : forall (ops : list (nop V U F UF)) n c,
  ninv2 V F n -> nuntouched V zero U app F getf setf UF appf n c ops = true ->
  fdenote V F getf n c <> None ->
  fdenote V F getf (fst (nrun V zero U app F getf setf UF appf n ops)) c = fdenote V F getf n c.
Proof. exact (Proofs.nstable_run V zero U app F getf setf UF appf). Qed.

(* ... it is a live view: a write through it reaches what its owner addresses ... *)
Theorem field_write_through : forall n c x w u v, ninv2 V F n ->
  nth_error (n_fhs V F n) c = Some (Some x) -> nth_error (n_fws V F n) x = Some (FSub w) ->
  wdenote V (n_s V F n) w = Some v ->
  wdenote V (n_s V F (fst (nstep V zero U app F getf setf UF appf n (NWriteF c u)))) w
    = Some (setf (appf u (getf v)) v).
Proof. exact (Proofs.field_write_through V zero U app F getf setf UF appf). Qed.

(* ... and a FAILING assignment to the field (H[k].In = 5) changes nothing at all *)
Theorem failing_assignment_noop : forall n k,
  fst (nstep V zero U app F getf setf UF appf n (NPutFBad k)) = n.
Proof. exact (Proofs.failing_assignment_noop V zero U app F getf setf UF appf). Qed.
End Elements.

Example handed_out_stable_nonvacuous :     (* var e = arr[1]; arr[1] = 9; sort swap; arr.length = 1; ...: e still 20 *)
  let ops := [PGet 1; PSwap 0 1; PPut 0 9%Z; PLen 1; PPut 3 7%Z; PDel 0; PReadH 0] : list (pop Z Z) in
  let s1 := fst (istep Z 0%Z Z Z.add (iinit Z [10; 20; 30]%Z) (PGet 1)) in
  untouched Z 0%Z Z Z.add s1 0 (tl ops) = true /\ wdenote Z s1 0 = Some 20%Z /\
  snd (irun Z 0%Z Z Z.add (iinit Z [10; 20; 30]%Z) ops) =
    [OUnit; OUnit; OUnit; OUnit; OUnit; OUnit; OV (Some 20%Z)] /\
  i_arr Z (fst (irun Z 0%Z Z Z.add (iinit Z [10; 20; 30]%Z) ops)) = [0; 0; 0; 7]%Z.
Proof. repeat split; reflexivity. Qed.

Example field_wrapper_nonvacuous :
  (* elements are pairs (A, In); w = arr[0].In; arr[0].In = 5 fails; swap; w.X = 7 reaches Go at slot 1; w === arr[..].In *)
  let getf := (fun v : Z * Z => snd v) in let setf := (fun (f : Z) (v : Z * Z) => (fst v, f)) in
  let run := nrun (Z * Z) (0, 0)%Z Z (fun _ v => v) Z getf setf Z (fun u _ => u) in
  let ops := [NBase (PGet 0); NGetF 0; NPutFBad 0; NBase (PSwap 0 1); NWriteF 0 7%Z; NSameF 0 0; NReadF 0; NBase PDump] in
  snd (run (ninit (Z * Z) Z [(1, 10); (2, 20)]%Z) ops) =
    [NO OUnit; NO OUnit; NO OUnit; NO OUnit; NO OUnit; NB true; NF (Some 7%Z); NO (OArr [(2, 20); (1, 7)]%Z)].
Proof. reflexivity. Qed.

Print Assumptions export_toValue_norm.
Print Assumptions export_toValue_id.
Print Assumptions live_view_write_then_read.
Print Assumptions live_view_frame.
Print Assumptions live_view_fields.
Print Assumptions export_records_result.
Print Assumptions export_preserves_sharing.
Print Assumptions export_terminates.
Print Assumptions inv_preserved.
Print Assumptions handed_out_wrappers_stable.
Print Assumptions write_through_live.
Print Assumptions sort_swap_invisible.
Print Assumptions nested_inv_preserved.
Print Assumptions handed_out_field_wrappers_stable.
Print Assumptions field_write_through.
Print Assumptions failing_assignment_noop.
