(* C17 — typed arrays / DataViews never touch memory outside their buffer; bytes match the spec.
   ONLY theorem statements; each is closed by [exact] of a lemma of C17/Proofs*.v.
   Model (C17/Model.v): buffers are byte lists with a detached flag (a detached buffer keeps its bytes:
   they are the Go owner's memory); views (buffer, byteOffset, length, kind); every operation returns
   the new state, the result and the byte ranges it touched with the liveness of the buffer at that
   moment.  Two readings: MS = ECMA-262, MI = goja's arithmetic. *)
From Coq Require Import ZArith List Bool NArith SpecFloat.
From Verif.Base Require Import F64.
From Verif.C17 Require Import Model Proofs ProofsTouch ProofsCodec ProofsEq ProofsInv.
Import ListNotations.
Local Open Scope Z_scope.

(* ------------------------------------------------------------------------------------------------
   1. touched_in_view.  The view invariant: byteOffset, length >= 0, byteOffset aligned to the
   element size, byteOffset + length*size <= the memory of the buffer (same for DataViews). *)

(* For BOTH readings, every state satisfying the invariant, every one of the 24 operations and every
   argument combination (incl. arguments whose valueOf detaches any buffer): each touched range is
   empty, or lies on a buffer that is NOT detached at the moment of the access and inside a region the
   operation is entitled to — the view(s)/DataView it was called on, the receiver buffer of
   ArrayBuffer.prototype.slice, or the buffer the operation itself creates. *)
Theorem touched_in_view : forall m st o,
  ViewInv st -> Forall (fun t => touch_ok (allowed st o) t = true) (snd (step m st o)).
Proof. exact ProofsTouch.touched_in_view. Qed.

(* ... and those regions lie inside the current memory of their buffer *)
Theorem allowed_in_buffer : forall st o b lo hi,
  ViewInv st -> In (b, lo, hi) (allowed st o) -> (b < length (bufs st))%nat -> 0 <= lo /\ hi <= mlen st b.
Proof. exact ProofsTouch.allowed_in_buffer. Qed.

(* The invariant holds in every state without views and is preserved by every operation of both
   readings (constructors validate offset/length; subarray/slice derive in-range views; nothing
   shrinks a buffer), hence along every history. *)
Theorem inv_init : forall st, no_views st -> ViewInv st.
Proof. exact ProofsInv.inv_init. Qed.
Theorem inv_step : forall m st o, ViewInv st -> ViewInv (fst (fst (step m st o))).
Proof. exact ProofsInv.inv_step. Qed.
Theorem touched_in_view_history : forall m st ops o,
  no_views st ->
  Forall (fun t => touch_ok (allowed (run m st ops) o) t = true) (snd (step m (run m st ops) o)).
Proof. exact ProofsInv.touched_in_view_history. Qed.

(* non-vacuity: a reachable state with a view at a non-zero offset, and an operation that touches *)
Definition ex_ops : list op :=
  [OCtor Int16 0 (Some (num 2 None)) (Some (num 6 None)); OSubarray 0 (Some (num (-4) None)) (Some (num 100 None));
   ODetach 1].
Definition ex_st0 : state := mkSt [mkBuf b16 false; mkBuf b16 false] [] [].
Example touched_nonvacuous :
  snd (step MI (run MI ex_st0 ex_ops) (OCopyWithin 1 (num 1 None) (num 0 None) None))
  = [mkT 0 6 6 true; mkT 0 8 6 true] /\
  views (run MI ex_st0 ex_ops) = [mkView 0 2 6 Int16; mkView 0 6 4 Int16].
Proof. vm_compute. split; reflexivity. Qed.

(* ------------------------------------------------------------------------------------------------
   2. bytes_eq_spec: goja's arithmetic = the specification, on the new state (all bytes), the result
   and the touched ranges, for every state satisfying the invariant and every operation inside the
   explicit guard.  The guard excludes exactly one region: set(typedArray) between DIFFERENT element
   kinds on the SAME buffer (goja copies in place in an address-dependent order, the spec from a clone:
   the order of the touches differs; equality of the bytes is proved for distinct buffers and covered
   by the correspondence runs, incl. the all-pairs corpus sweep, for overlapping ones). *)
Theorem bytes_eq_spec : forall st o,
  ViewInv st -> eq_guard st o = true -> step MI st o = step MS st o.
Proof. exact ProofsEq.bytes_eq_spec. Qed.

Example guard_examples :
  eq_guard st_ov (OSetTyped 0 1 (num 0 None)) = false /\ eq_guard st_ov (OSetTyped 0 2 (num 0 None)) = true /\
  eq_guard st_ov (OSetTyped 1 2 (num 0 None)) = true /\ eq_guard st_n8 (OFill 0 (vnum 1 None) (Some (num 0 (Some 0%nat))) None) = true /\
  fst (fst (step MI st_ov (OSetTyped 0 1 (num 0 None)))) = fst (fst (step MS st_ov (OSetTyped 0 1 (num 0 None)))) /\
  step MI st_ov (OSetTyped 0 1 (num 0 None)) <> step MS st_ov (OSetTyped 0 1 (num 0 None)).
Proof. exact ProofsEq.guard_examples. Qed.

(* goja's integer element conversions (floatToInt64Mod32 + narrowing) are the modular ones, for every
   float incl. |x| >= 2^63 (F10 repaired) *)
Theorem int_conv_eq : forall k p, raw_bits MI k p = raw_bits MS k p.
Proof. exact ProofsEq.raw_bits_eq. Qed.

(* ------------------------------------------------------------------------------------------------
   3. raw_roundtrip: RawBytesToNumeric (NumericToRawBytes k v) = ToType k v for all 11 kinds, both
   byte orders, both readings, every BigInt and every well-formed binary64 (None = None is the
   TypeError of a value of the wrong type). *)
Theorem raw_roundtrip : forall m k le p,
  pv_wf p -> option_map (raw_to_num k le) (num_to_raw m k le p) = to_type m k p.
Proof. exact ProofsCodec.raw_roundtrip. Qed.

(* every Number a script can supply is a 64-bit pattern: no side condition *)
Theorem raw_roundtrip_bits : forall m k le z,
  option_map (raw_to_num k le) (num_to_raw m k le (PNum (of_bits z))) = to_type m k (PNum (of_bits z)).
Proof. exact ProofsCodec.raw_roundtrip_bits. Qed.

(* the bit-pattern codec of Base/F64 on SpecFloat is inverted on every well-formed float *)
Theorem bits64_roundtrip : forall x, wfb 53 1024 x = true -> of_bits (to_bits x mod 2 ^ 64) = x.
Proof. exact ProofsCodec.bits64_roundtrip. Qed.
Theorem bits32_roundtrip : forall x, wfb 24 128 x = true -> of_bits32 (to_bits32 x mod 2 ^ 32) = x.
Proof. exact ProofsCodec.bits32_roundtrip. Qed.
Theorem of_bits_wf : forall b, wfb 53 1024 (of_bits b) = true.
Proof. exact ProofsCodec.of_bits_wf. Qed.

(* The byte codec: n little-endian bytes of z decode to z mod 2^(8n), for every z and n. *)
Theorem le_codec : forall n z, le_val (le_bytes n z) = z mod 2 ^ (8 * Z.of_nat n).
Proof. exact Proofs.le_val_le_bytes. Qed.

Example roundtrip_examples :
  map (fun k => option_map (raw_to_num k false) (num_to_raw MI k false (PNum (of_Z (2 ^ 63 + 2048)))))
      [Int16; Uint8C; Float32]
  = [Some (EInt 2048); Some (EInt 255); Some (EFlt (of_Z (2 ^ 63)))].
Proof. vm_compute. reflexivity. Qed.

(* ------------------------------------------------------------------------------------------------
   4. clamp_spec: ToUint8Clamp is within 0..255 for every float; for a positive non-integer dyadic
   m*2^e below 255 the result is a nearest integer (|r - x| <= 1/2, scaled by d = 2^-e) and even on
   a tie. *)
Theorem clamp_range : forall f, 0 <= clamp8 f <= 255.
Proof. exact Proofs.clamp8_range. Qed.

Theorem clamp_spec : forall m e,
  e < 0 -> Z.pos m / 2 ^ (- e) < 255 ->
  let d := 2 ^ (- e) in
  let r := clamp8 (S754_finite false m e) in
  2 * Z.abs (r * d - Z.pos m) <= d /\
  (2 * Z.abs (r * d - Z.pos m) = d -> Z.even r = true).
Proof. exact Proofs.clamp8_nearest_even. Qed.

Example clamp_examples :
  map (fun z => clamp8 (of_bits z))
      [0x3FE0000000000000; 0x3FF8000000000000; 0x4004000000000000; 0x406FF00000000000; 0xBFE0000000000000]
  = [0; 2; 2; 255; 0].     (* 0.5 1.5 2.5 255.5 -0.5 *)
Proof. vm_compute. reflexivity. Qed.

Print Assumptions touched_in_view.
Print Assumptions allowed_in_buffer.
Print Assumptions inv_init.
Print Assumptions inv_step.
Print Assumptions touched_in_view_history.
Print Assumptions bytes_eq_spec.
Print Assumptions int_conv_eq.
Print Assumptions raw_roundtrip.
Print Assumptions raw_roundtrip_bits.
Print Assumptions bits64_roundtrip.
Print Assumptions bits32_roundtrip.
Print Assumptions of_bits_wf.
Print Assumptions le_codec.
Print Assumptions clamp_range.
Print Assumptions clamp_spec.
