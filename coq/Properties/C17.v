(* C17 — typed arrays / DataViews never touch memory outside their buffer; bytes match the spec.
   ONLY theorem statements; each is closed by [exact] of a lemma of C17/Proofs*.v. *)
From Coq Require Import ZArith List Bool NArith SpecFloat.
From Verif.Base Require Import F64.
From Verif.C17 Require Import Model Proofs.
Import ListNotations.
Local Open Scope Z_scope.

(* Refuted regions of goja's arithmetic (open findings), by explicit witnesses. *)

(* F11: Uint8Array(buf,0,8).copyWithin(6,0,8) on a 16-byte buffer: I writes the range [6,14) — bytes
   8..13 lie outside the view and change — while S touches only the view. *)
Theorem copyWithin_touched_refuted :
  let '(st', _, t) := step MI st_f11 op_f11 in
  forallb (touch_ok (allowed st_f11 op_f11)) t = false /\
  In (mkT 0 6 8 true) t /\
  (forall i, (8 <= i < 14)%nat -> nth_error (b_bytes (nth 0 (bufs st') (mkBuf [] true))) i <> nth_error b16 i) /\
  forallb (touch_ok (allowed st_f11 op_f11)) (snd (step MS st_f11 op_f11)) = true.
Proof. exact Proofs.copyWithin_touched_refuted. Qed.

(* set(array) with an element whose valueOf detaches the buffer: I stores into the detached memory. *)
Theorem set_arraylike_touched_refuted :
  let '(st', _, t) := step MI st_n1 op_n1 in
  In (mkT 0 1 1 false) t /\ forallb (touch_ok (allowed st_n1 op_n1)) t = false /\
  nth_error (b_bytes (nth 0 (bufs st') (mkBuf [] true))) 1 = Some 77%N /\
  let '(st2, _, t2) := step MS st_n1 op_n1 in
  forallb (touch_ok (allowed st_n1 op_n1)) t2 = true /\
  nth_error (b_bytes (nth 0 (bufs st2) (mkBuf [] true))) 1 = Some 17%N.
Proof. exact Proofs.set_arraylike_touched_refuted. Qed.

Theorem int_conv_refuted :
  raw_bits MI Int16 (PNum (of_Z (2 ^ 63 + 2048))) = Some 0 /\
  raw_bits MS Int16 (PNum (of_Z (2 ^ 63 + 2048))) = Some 2048.
Proof. exact Proofs.int_conv_refuted. Qed.

Theorem bigint64_fill_refuted :
  let st := mkSt [mkBuf b16 false] [mkView 0 0 2 BigInt64] [] in
  let o := OFill 0 (mkV true (-1) None) None None in
  b_bytes (nth 0 (bufs (fst (fst (step MI st o)))) (mkBuf [] true)) <>
  b_bytes (nth 0 (bufs (fst (fst (step MS st o)))) (mkBuf [] true)).
Proof. exact Proofs.bigint64_fill_refuted. Qed.

(* The byte codec: n little-endian bytes of z decode to z mod 2^(8n), for every z and n. *)
Theorem le_codec : forall n z, le_val (le_bytes n z) = z mod 2 ^ (8 * Z.of_nat n).
Proof. exact Proofs.le_val_le_bytes. Qed.

(* clamp_spec: ToUint8Clamp is within 0..255 for every float; for a positive non-integer dyadic m*2^e
   below 255 the result is a nearest integer (|r - x| <= 1/2, scaled by d = 2^-e) and even on a tie;
   integers are clamped; negatives give 0. *)
Theorem clamp_range : forall f, 0 <= clamp8 f <= 255.
Proof. exact Proofs.clamp8_range. Qed.

Theorem clamp_spec : forall m e,
  e < 0 -> Z.pos m / 2 ^ (- e) < 255 ->
  let d := 2 ^ (- e) in
  let r := clamp8 (S754_finite false m e) in
  2 * Z.abs (r * d - Z.pos m) <= d /\
  (2 * Z.abs (r * d - Z.pos m) = d -> Z.even r = true).
Proof. exact Proofs.clamp8_nearest_even. Qed.

Example clamp_examples :
  map (fun z => clamp8 (of_bits z))
      [0x3FE0000000000000; 0x3FF8000000000000; 0x4004000000000000; 0x406FF00000000000; 0xBFE0000000000000]
  = [0; 2; 2; 255; 0].     (* 0.5 1.5 2.5 255.5 -0.5 *)
Proof. vm_compute. reflexivity. Qed.

Print Assumptions copyWithin_touched_refuted.
Print Assumptions set_arraylike_touched_refuted.
Print Assumptions int_conv_refuted.
Print Assumptions bigint64_fill_refuted.
Print Assumptions le_codec.
Print Assumptions clamp_range.
Print Assumptions clamp_spec.

(* a value of the wrong type (BigInt for a Number kind or the reverse) is rejected consistently *)
Theorem raw_none_iff : forall m k le p, num_to_raw m k le p = None <-> to_type m k p = None.
Proof. exact Proofs.raw_none_iff. Qed.
Print Assumptions raw_none_iff.
