(* C07 — Arrays behave as spec arrays regardless of dense or sparse storage.
   ONLY theorem statements; each is closed by [exact] of a lemma of C07/Proofs*.v. *)
From Coq Require Import List NArith ZArith Bool Permutation Sorted.
Import ListNotations.
From Verif.C07 Require Import Model Proofs ProofsDense.
Local Open Scope N_scope.

(* 1. goja's _defineOwnProperty decision tree equals ValidateAndApplyPropertyDescriptor for EVERY extensible flag,
      every existing property (absent, bare value, valueProperty without stale fields) and every partial
      descriptor that does not convert the kind of the property; and it leaves no stale fields.  The kind
      conversions are carved out because the current tree gets them wrong (next theorem). *)
Theorem define_refines_spec_partial : forall ext ex d,
  desc_wf d = true -> oclean ex = true -> no_kind_change ex d = true ->
  option_map absE (goja_define ext ex d) = spec_define ext (option_map absE ex) d /\
  oclean (goja_define ext ex d) = true.
Proof. exact ProofsDefine.define_refines_spec_partial. Qed.

Theorem define_kindchange_refuted :
  (exists ex d, oclean ex = true /\ desc_wf d = true /\
     option_map absE (goja_define true ex d) <> spec_define true (option_map absE ex) d) /\
  (exists ex d, oclean ex = true /\ desc_wf d = true /\ oclean (goja_define true ex d) = false).
Proof. exact ProofsDefine.define_kindchange_refuted. Qed.

(* 2. each storage refines S for reads and delete, for every state and every key *)
Theorem sparse_refines : forall s k,
  i_getown (IS s) k = s_getown (absS s) k /\
  i_has (IS s) k = s_has (absS s) k /\
  (k < MAXIDX -> InvS s -> i_get (IS s) k = s_get (absS s) k) /\
  (k < MAXIDX -> absS (fst (sp_deleteIdx s k)) = fst (s_delete (absS s) k) /\
                 snd (sp_deleteIdx s k) = snd (s_delete (absS s) k)).
Proof.
  intros s k. exact (conj (Proofs.sparse_getown s k) (conj (Proofs.sparse_has s k)
                    (conj (Proofs.sparse_get s k) (Proofs.sparse_delete s k)))).
Qed.

Theorem dense_refines : forall d k,
  i_getown (ID d) k = s_getown (absD d) k /\
  i_has (ID d) k = s_has (absD d) k /\
  (k < MAXIDX -> InvD d -> i_get (ID d) k = s_get (absD d) k).
Proof.
  intros d k. exact (conj (ProofsDense.dense_getown d k) (conj (ProofsDense.dense_has d k) (ProofsDense.dense_get d k))).
Qed.

(* 3. switching the storage strategy, in either direction, never changes the abstract array *)
Theorem transition_invisible :
  (forall a, absS (expand_d2s a) = absD a) /\
  (forall s m, asc 0 (sa_items s) -> (forall k x, In (k, x) (sa_items s) -> k <= m) ->
               absD (expand_s2d s m) = absS s).
Proof. exact (conj Proofs.d2s_invisible Proofs.s2d_invisible). Qed.

(* 4. ArraySetLength (S): deleting from the top stops at the GREATEST non-configurable index p >= n; the new
      length is p+1, the result false, and exactly the elements with key <= p survive; without such an element
      the length is n and exactly the keys < n survive *)
Theorem setlength_nonconfigurable_tail : forall r n, desc_sorted r ->
  let '(rest, n', ok) := s_del_down r n in
  rest = filter (fun p => fst p <? n') r /\
  if ok then n' = n /\ (forall k e, In (k, e) r -> n <= k -> el_conf e = true)
  else exists p e, In (p, e) r /\ el_conf e = false /\ n <= p /\ n' = p + 1 /\
                   (forall k e', In (k, e') r -> p < k -> el_conf e' = true).
Proof. exact Proofs.del_down_spec. Qed.

(* 5. the recorded defects of the storages, each exhibited by evaluation on an explicit state *)
Theorem sparse_setlength_refuted :   (* F4 *)
  absS (fst (sp_setLength f4_state 10)) <> fst (s_array_set_length (absS f4_state) 10).
Proof. exact Proofs.sparse_setlength_refuted. Qed.

Theorem counters_refuted :           (* F5 *)
  counters_ok f5_state = true /\
  match fst (d_defineIdx f5_state 0 (mkD (Some 5) (Some true) None None (Some true) (Some true))) with
  | ID d => counters_ok d = false | _ => False end.
Proof. exact Proofs.counters_refuted. Qed.

Theorem counters_truncate_refuted : counters_ok (fst (d_setLength f5_state 2)) = false.
Proof. exact Proofs.counters_truncate_refuted. Qed.

Theorem export_refuted : d_export f3_state <> s_export (absD f3_state).   (* F3 *)
Proof. exact Proofs.export_refuted. Qed.

Theorem pvc_undercount_refuted :     (* N6 *)
  match fst (d_defineIdx n6_state 5000 (mkD (Some 1) None None None None (Some false))) with
  | IS s => sa_pvc s = 0%Z /\ count_vp_items (sa_items s) = 1%Z /\
            absS (fst (sp_setLength s 0)) <> fst (s_array_set_length (absS s) 0)
  | _ => False end.
Proof. exact Proofs.pvc_undercount_refuted. Qed.

(* 6. the verified sort validator: acceptance implies a permutation, and — whenever the recorded comparator is a
      total preorder on the elements — a sorted and stable one; arrays additionally have the shape of 23.1.3.30 *)
Theorem check_sort_sound : forall cmp i o, check_sort cmp i o = true ->
  Permutation i o /\
  (Consistent cmp i -> StronglySorted (fun a b => (cmp a b <= 0)%Z) o /\ Stable cmp i o).
Proof. exact Proofs.check_sort_sound. Qed.

Theorem check_sort_array_sound : forall cmp i o, check_sort_array cmp i o = true ->
  o = map Some (defined_of o) ++ repeat (Some vundef) (count_undef i) ++ repeat None (count_holes i) /\
  Permutation (defined_of i) (defined_of o) /\
  (Consistent cmp (defined_of i) ->
     StronglySorted (fun a b => (cmp a b <= 0)%Z) (defined_of o) /\ Stable cmp (defined_of i) (defined_of o)).
Proof. exact Proofs.check_sort_array_sound. Qed.

Print Assumptions define_refines_spec_partial.
Print Assumptions define_kindchange_refuted.
Print Assumptions sparse_refines.
Print Assumptions dense_refines.
Print Assumptions transition_invisible.
Print Assumptions setlength_nonconfigurable_tail.
Print Assumptions sparse_setlength_refuted.
Print Assumptions counters_refuted.
Print Assumptions counters_truncate_refuted.
Print Assumptions export_refuted.
Print Assumptions pvc_undercount_refuted.
Print Assumptions check_sort_sound.
Print Assumptions check_sort_array_sound.
