(* C07 — Arrays behave as spec arrays regardless of dense or sparse storage.
   ONLY theorem statements; each is closed by [exact] of a lemma of C07/Proofs*.v. *)
From Coq Require Import List NArith ZArith Bool Permutation Sorted.
Import ListNotations.
From Verif.C07 Require Import Model Proofs ProofsDense ProofsLib ProofsLen ProofsOps ProofsSet ProofsHist ProofsCount ProofsCount2 ProofsExport ProofsAlgo.
Local Open Scope N_scope.

(* 1. goja's _defineOwnProperty decision tree (as repaired by 7dd46dd/8a03683/4561dbf) equals
      ValidateAndApplyPropertyDescriptor for EVERY extensible flag, every existing property (absent, bare value,
      valueProperty without stale fields) and every well-formed partial descriptor — kind conversions included —
      and it never leaves stale fields behind. *)
Theorem define_refines_spec : forall ext ex d,
  desc_wf d = true -> oclean ex = true ->
  option_map absE (goja_define ext ex d) = spec_define ext (option_map absE ex) d.
Proof. exact ProofsDefine.define_refines_spec. Qed.

Theorem define_clean : forall ext ex d,
  desc_wf d = true -> oclean ex = true -> oclean (goja_define ext ex d) = true.
Proof. exact ProofsDefine.define_clean. Qed.

(* 2. Each storage refines S, operation by operation, for EVERY state satisfying the storage invariant and every
      argument, through every storage transition ([expand] in both directions happens inside set/define), and the
      invariant is preserved — hence, by induction, along every history (theorem 2g).
      Invariants: InvSp = items strictly sorted, below length, no stale valueProperty fields, propValueCount >= number
      of valueProperties; InvDn = the same for the enumeration of the slots, and len(values) <= length. *)

(* 2a. reads *)
Theorem sparse_reads_refine : forall s k,
  i_getown (IS s) k = s_getown (absS s) k /\
  i_has (IS s) k = s_has (absS s) k /\
  (k < MAXIDX -> InvS s -> i_get (IS s) k = s_get (absS s) k).
Proof.
  intros s k. exact (conj (Proofs.sparse_getown s k) (conj (Proofs.sparse_has s k) (Proofs.sparse_get s k))).
Qed.

Theorem dense_reads_refine : forall d k,
  i_getown (ID d) k = s_getown (absD d) k /\
  i_has (ID d) k = s_has (absD d) k /\
  (k < MAXIDX -> InvD d -> i_get (ID d) k = s_get (absD d) k).
Proof.
  intros d k. exact (conj (ProofsDense.dense_getown d k) (conj (ProofsDense.dense_has d k) (ProofsDense.dense_get d k))).
Qed.

(* 2b. length assignment = Set(O, "length", l) (ArraySetLength): both storages, after fix a4a2aa5 *)
Theorem sparse_setlength_refines : forall s l, InvSp s -> l <= 4294967295 ->
  s_setlen (absS s) l = (absS (fst (sp_setLength s l)), berr (snd (sp_setLength s l))) /\
  InvSp (fst (sp_setLength s l)).
Proof. exact ProofsLen.sparse_setlength_refines. Qed.

Theorem dense_setlength_refines : forall d l, InvDn d -> l <= 4294967295 ->
  s_setlen (absD d) l = (absD (fst (d_setLength d l)), berr (snd (d_setLength d l))) /\
  InvDn (fst (d_setLength d l)).
Proof. exact ProofsLen.dense_setlength_refines. Qed.

(* 2c. delete *)
Theorem sparse_delete_refines : forall s k, InvSp s -> k < MAXIDX ->
  s_delete (absS s) k = (absS (fst (sp_deleteIdx s k)), snd (sp_deleteIdx s k)) /\
  InvSp (fst (sp_deleteIdx s k)).
Proof. exact ProofsLen.sparse_delete_refines. Qed.

Theorem dense_delete_refines : forall d k, InvDn d -> k < MAXIDX ->
  s_delete (absD d) k = (absD (fst (d_deleteIdx d k)), snd (d_deleteIdx d k)) /\
  InvDn (fst (d_deleteIdx d k)).
Proof. exact ProofsLen.dense_delete_refines. Qed.

(* 2d. indexed write: existing elements, holes with the prototype consulted, growth, both storage switches *)
Theorem sparse_set_refines : forall s k v, InvSp s -> k < MAXIDX ->
  s_set (absS s) k v = (absA (fst (sp_setOwnIdx s k v)), snd (sp_setOwnIdx s k v)) /\
  InvA (fst (sp_setOwnIdx s k v)).
Proof. exact ProofsSet.sparse_set_refines. Qed.

Theorem dense_set_refines : forall d k v, InvDn d -> k < MAXIDX ->
  s_set (absD d) k v = (absA (fst (d_setOwnIdx d k v)), snd (d_setOwnIdx d k v)) /\
  InvA (fst (d_setOwnIdx d k v)).
Proof. exact ProofsSet.dense_set_refines. Qed.

(* 2e. index [[DefineOwnProperty]], for EVERY well-formed descriptor (kind conversions included) and through both
      storage switches; no side conditions remain (fixes 4561dbf, 8dbb372) *)
Theorem sparse_define_refines : forall s k dsc, InvSp s -> k < MAXIDX -> desc_wf dsc = true ->
  s_define (absS s) k dsc = (absA (fst (sp_defineIdx s k dsc)), snd (sp_defineIdx s k dsc)) /\
  InvA (fst (sp_defineIdx s k dsc)).
Proof. exact ProofsOps.sparse_define_refines. Qed.

Theorem dense_define_refines : forall d k dsc, InvDn d -> k < MAXIDX -> desc_wf dsc = true ->
  s_define (absD d) k dsc = (absA (fst (d_defineIdx d k dsc)), snd (d_defineIdx d k dsc)) /\
  InvA (fst (d_defineIdx d k dsc)).
Proof. exact ProofsOps.dense_define_refines. Qed.

(* 2g. all histories: the combined object (either storage, switching at will inside set/define) returns exactly
      S's results and denotes exactly S's array after EVERY history of indexed writes, length assignments, deletes
      and defines ([hist_ok] only asks for index keys, lengths <= 2^32-1 and well-formed descriptors); the invariant
      holds throughout.  An array literal starts in the invariant. *)
Theorem history_refines : forall ops a, InvA a -> hist_ok a ops ->
  s_run (absA a) ops = (absA (fst (i_run a ops)), snd (i_run a ops)) /\ InvA (fst (i_run a ops)).
Proof. exact ProofsHist.history_refines. Qed.

Theorem init_inv : forall vs, (forall x, In (Some x) vs -> exists v, x = IPlain v) ->
  InvA (ID (mkDA vs (nlen vs) (count_present vs) 0 true (mkB true [] []))).
Proof. exact ProofsHist.init_inv. Qed.

(* 2h. the bookkeeping counters (objCount = number of present slots, propValueCount = number of valueProperties) that
      gate the fast paths are EXACT after every dense operation, including truncation (57195f1) and both outcomes of
      expand (8dbb372); in the sparse storage propValueCount is exact under delete and truncation *)
Theorem dense_delete_counters : forall d k, ExactD d -> ExactD (fst (d_deleteIdx d k)).
Proof. exact ProofsCount.dense_delete_counters. Qed.

Theorem dense_setlength_counters : forall d l, InvDn d -> ExactD d -> ExactD (fst (d_setLength d l)).
Proof. exact ProofsCount.dense_setlength_counters. Qed.

Theorem dense_set_counters : forall d k v, InvDn d -> ExactD d -> ExactA (fst (d_setOwnIdx d k v)).
Proof. exact ProofsCount.dense_set_counters_all. Qed.

Theorem dense_define_counters : forall d k dsc, InvDn d -> ExactD d -> ExactA (fst (d_defineIdx d k dsc)).
Proof. exact ProofsCount.dense_define_counters_all. Qed.

Theorem sparse_delete_counters : forall s k, ascg 0 (sa_items s) -> ExactA (IS s) -> ExactA (IS (fst (sp_deleteIdx s k))).
Proof. exact ProofsCount.sparse_delete_counters. Qed.

Theorem sparse_setlength_counters : forall s l, InvSp s -> ExactA (IS s) -> ExactA (IS (fst (sp_setLength s l))).
Proof. exact ProofsCount.sparse_setlength_counters. Qed.

Theorem sparse_set_counters : forall s k v, InvSp s -> ExactA (IS s) -> ExactA (fst (sp_setOwnIdx s k v)).
Proof. exact ProofsCount2.sparse_set_counters. Qed.

Theorem sparse_define_counters : forall s k dsc, InvSp s -> ExactA (IS s) -> ExactA (fst (sp_defineIdx s k dsc)).
Proof. exact ProofsCount2.sparse_define_counters. Qed.

(* ... hence along every history, starting from an array literal *)
Theorem counters_history : forall ops a, InvA a -> ExactA a -> hist_ok a ops -> ExactA (fst (i_run a ops)).
Proof. exact ProofsCount2.counters_history. Qed.

Theorem init_exact : forall vs, (forall x, In (Some x) vs -> exists v, x = IPlain v) ->
  ExactA (ID (mkDA vs (nlen vs) (count_present vs) 0 true (mkB true [] []))).
Proof. exact ProofsCount2.init_exact. Qed.

(* 2i. Go Export(): with exact counters the fast path of arrayObject.export returns what S prescribes (holes read
      through the prototype) — the former findings F3 / C07-N12 cannot recur while 2h holds *)
Theorem export_refines : forall d, InvDn d -> ExactD d -> da_length d <= MAXIDX -> d_export d = s_export (absD d).
Proof. exact ProofsExport.export_refines. Qed.

(* 2j. Array.prototype.push / pop / shift / unshift / splice / slice: the generic algorithms of builtin_array.go run on
      goja's storages (either one, switching at will) return what the same algorithm returns on the abstract array S
      and denote the same array afterwards, for every state in the invariant and all arguments whose keys are array
      indices ([Sim rI rS] : rS = (absA (fst rI), snd rI) /\ InvA (fst rI)).  By simulation over the six primitives. *)
Theorem push_refines : forall a items, InvA a -> i_len a + nlen items <= MAXIDX ->
  Sim (a_push primI a items) (a_push primS (absA a) items).
Proof. exact ProofsAlgo.push_refines. Qed.

Theorem pop_refines : forall a, InvA a -> i_len a <= MAXIDX -> Sim (a_pop primI a) (a_pop primS (absA a)).
Proof. exact ProofsAlgo.pop_refines. Qed.

Theorem shift_refines : forall a, InvA a -> i_len a <= MAXIDX -> Sim (a_shift primI a) (a_shift primS (absA a)).
Proof. exact ProofsAlgo.shift_refines. Qed.

Theorem unshift_refines : forall a items, InvA a -> i_len a + nlen items <= MAXIDX ->
  Sim (a_unshift primI a items) (a_unshift primS (absA a) items).
Proof. exact ProofsAlgo.unshift_refines. Qed.

Theorem splice_refines : forall a st dc items, InvA a -> i_len a + nlen items <= MAXIDX ->
  Sim (a_splice primI a st dc items) (a_splice primS (absA a) st dc items).
Proof. exact ProofsAlgo.splice_refines. Qed.

Theorem slice_refines : forall a st en, InvA a -> i_len a <= MAXIDX ->
  a_slice primI a st en = a_slice primS (absA a) st en.
Proof. exact ProofsAlgo.slice_refines. Qed.

(* 3. switching the storage strategy, in either direction, never changes the abstract array *)
Theorem transition_invisible :
  (forall a, absS (expand_d2s a) = absD a) /\
  (forall s m, asc 0 (sa_items s) -> (forall k x, In (k, x) (sa_items s) -> k <= m) ->
               absD (expand_s2d s m) = absS s).
Proof. exact (conj Proofs.d2s_invisible Proofs.s2d_invisible). Qed.

(* 4. ArraySetLength (S): deleting from the top stops at the GREATEST non-configurable index p >= n; the new
      length is p+1, the result false, and exactly the elements with key <= p survive; without such an element
      the length is n and exactly the keys < n survive *)
Theorem setlength_nonconfigurable_tail : forall r n, desc_sorted r ->
  let '(rest, n', ok) := s_del_down r n in
  rest = filter (fun p => fst p <? n') r /\
  if ok then n' = n /\ (forall k e, In (k, e) r -> n <= k -> el_conf e = true)
  else exists p e, In (p, e) r /\ el_conf e = false /\ n <= p /\ n' = p + 1 /\
                   (forall k e', In (k, e') r -> p < k -> el_conf e' = true).
Proof. exact Proofs.del_down_spec. Qed.

(* 6. the verified sort validator: acceptance implies a permutation, and — whenever the recorded comparator is a
      total preorder on the elements — a sorted and stable one; arrays additionally have the shape of 23.1.3.30 *)
Theorem check_sort_sound : forall cmp i o, check_sort cmp i o = true ->
  Permutation i o /\
  (Consistent cmp i -> StronglySorted (fun a b => (cmp a b <= 0)%Z) o /\ Stable cmp i o).
Proof. exact Proofs.check_sort_sound. Qed.

Theorem check_sort_array_sound : forall cmp i o, check_sort_array cmp i o = true ->
  o = map Some (defined_of o) ++ repeat (Some vundef) (count_undef i) ++ repeat None (count_holes i) /\
  Permutation (defined_of i) (defined_of o) /\
  (Consistent cmp (defined_of i) ->
     StronglySorted (fun a b => (cmp a b <= 0)%Z) (defined_of o) /\ Stable cmp (defined_of i) (defined_of o)).
Proof. exact Proofs.check_sort_array_sound. Qed.

Print Assumptions define_refines_spec.
Print Assumptions define_clean.
Print Assumptions sparse_reads_refine.
Print Assumptions dense_reads_refine.
Print Assumptions sparse_setlength_refines.
Print Assumptions dense_setlength_refines.
Print Assumptions sparse_delete_refines.
Print Assumptions dense_delete_refines.
Print Assumptions sparse_set_refines.
Print Assumptions dense_set_refines.
Print Assumptions sparse_define_refines.
Print Assumptions dense_define_refines.
Print Assumptions history_refines.
Print Assumptions init_inv.
Print Assumptions dense_delete_counters.
Print Assumptions dense_setlength_counters.
Print Assumptions dense_set_counters.
Print Assumptions dense_define_counters.
Print Assumptions sparse_delete_counters.
Print Assumptions sparse_setlength_counters.
Print Assumptions sparse_set_counters.
Print Assumptions sparse_define_counters.
Print Assumptions counters_history.
Print Assumptions init_exact.
Print Assumptions export_refines.
Print Assumptions push_refines.
Print Assumptions pop_refines.
Print Assumptions shift_refines.
Print Assumptions unshift_refines.
Print Assumptions splice_refines.
Print Assumptions slice_refines.
Print Assumptions transition_invisible.
Print Assumptions setlength_nonconfigurable_tail.
Print Assumptions check_sort_sound.
Print Assumptions check_sort_array_sound.
