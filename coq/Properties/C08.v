From Coq Require Import List Arith ZArith Bool.
Import ListNotations.
From Verif.C08 Require Import Model Proofs.
Theorem update_empty_idem : forall c v, update_empty (update_empty c v) v = update_empty c v.
Proof. exact Proofs.update_empty_idem. Qed.
Print Assumptions update_empty_idem.
