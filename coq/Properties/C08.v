(* C08 — Abrupt exits run each pending finally and iterator close exactly once, in order.
   ONLY theorem statements; each is closed by [exact] of a lemma of C08/Proofs.v / C08/ProofsI.v.
   S = ECMA-262 completion-record semantics of the control fragment (Model.exec, fuelled: every statement
   quantifies over all fuels and all terminating runs); I = transcription of goja's compiler/VM (Model.compile, vm_step). *)
From Coq Require Import List Arith ZArith Bool.
Import ListNotations.
From Verif.C08 Require Import Model Proofs ProofsI ProofsC2 ProofsC4.

(* ---- S ---------------------------------------------------------------------------------------- *)

(* a finally block marked by a leading event [id] that occurs nowhere else in the statement: in every run of
   try/catch?/finally, whatever the try/catch part did (normal, break, continue, return, throw), the marker
   occurs exactly once, after all events of the try/catch part; never when that part died of an uncatchable error *)
Theorem finally_exactly_once : forall n b hasc c f id sc t C sc',
  evs_in id b = false -> evs_in id c = false -> evs_in id f = false ->
  exec (S n) (Try b hasc c true (SCons (Ev id) f)) sc = Some (t, C, sc') ->
  exists t1 C1 sc1, try_part n b hasc c sc = Some (t1, C1, sc1) /\ ~ In (EEv id) t1 /\
    ((is_unc C1 = true /\ t = t1 /\ C = C1) \/
     (is_unc C1 = false /\ exists t2, t = t1 ++ EEv id :: t2 /\ ~ In (EEv id) t2)).
Proof. exact Proofs.finally_exactly_once. Qed.

(* k nested try/finally statements around ANY core program, each finally marked by a distinct id: for any
   completion crossing them (whatever each finally block itself does), the markers occur exactly once each,
   innermost first *)
Theorem finally_exactly_once_innermost_first : forall fs core n sc t C sc',
  NoDup (map fst fs) ->
  clean (map fst fs) core ->
  (forall i f, In (i, f) fs -> clean (map fst fs) f) ->
  exec_list n (wrap fs core) None sc = Some (t, C, sc') ->
  is_unc C = false ->
  filter (is_marker (map fst fs)) t = map EEv (rev (map fst fs)).
Proof. exact Proofs.finally_exactly_once_innermost_first. Qed.

Example finally_innermost_first_ex :
  exec_list 50 (wrap [(1, SNil); (2, SCons (Throw 7) SNil); (3, SNil)] (SCons (Ev 9) (SCons (Return 4) SNil))) None []
  = Some ([EEv 9; EEv 3; EEv 2; EEv 1], CThrow (VNum 7), []).
Proof. vm_compute. reflexivity. Qed.

Theorem finally_overrides : forall n b hasc c f sc t C sc',
  exec (S n) (Try b hasc c true f) sc = Some (t, C, sc') ->
  exists t1 C1 sc1, try_part n b hasc c sc = Some (t1, C1, sc1) /\
    (is_unc C1 = false ->
     exists tf F, exec_list n f None sc1 = Some (tf, F, sc') /\
       (is_normal F = true -> C = update_empty C1 (Some VUndef)) /\
       (is_normal F = false -> C = update_empty F (Some VUndef))).
Proof. exact Proofs.finally_overrides. Qed.

Example finally_overrides_ex :
  exec 20 (Try (SCons (Return 1) SNil) false SNil true (SCons (Break (Some 3)) SNil)) []
  = Some ([], CBreak (Some 3) (Some VUndef), []).
Proof. vm_compute. reflexivity. Qed.

(* for-of: either the loop ended by exhaustion / a throwing next() — the trace ends with that next() call and
   return() was never called — or it was left by an abrupt completion of its body, and then return() was called
   exactly once (if there is a return method and the completion is not an uncatchable error) *)
Theorem iterator_closed_once : forall n l it body V idx sc t c sc',
  exec_forof n l it body V idx sc = Some (t, c, sc') -> it_in (it_id it) body = false ->
  (exists t0, t = t0 ++ [ENext (it_id it)] /\ cnt_ret (it_id it) t = 0 /\
              exists v, c = CNormal (Some v) \/ c = CThrow v)
  \/
  (exists t0 tb cb m scb V',
      t = t0 ++ ENext (it_id it) :: tb ++ fst (iter_close it (update_empty cb (Some V'))) /\
      exec m body scb = Some (tb, cb, sc') /\ loop_continues cb l = false /\
      c = loop_exit l (snd (iter_close it (update_empty cb (Some V')))) /\
      cnt_ret (it_id it) t =
        if is_unc cb then 0 else match it_ret it with RetMissing => 0 | _ => 1 end).
Proof. exact Proofs.iterator_closed_once. Qed.

Example iterator_closed_once_ex :
  exec 30 (ForOf None (mkIter 7 3 None RetOk) (Block (SCons (Ev 1) (SCons (If (Break None) (Ev 2)) SNil)))) [false; true]
  = Some ([ENext 7; EEv 1; EEv 2; ENext 7; EEv 1; EReturn 7], CNormal (Some VUndef), []).
Proof. vm_compute. reflexivity. Qed.

Theorem completion_value_rules :
  (forall n s r acc sc,
     exec_list (S n) (SCons s r) acc sc =
     match exec n s sc with
     | None => None
     | Some (t, c, sc1) =>
         match update_empty c acc with
         | CNormal v => match exec_list n r v sc1 with
                        | Some (t2, c2, sc2) => Some (t ++ t2, c2, sc2) | None => None end
         | c' => Some (t, c', sc1)
         end
     end) /\
  (forall n s1 s2 sc t c sc', exec n (If s1 s2) sc = Some (t, c, sc') ->
     match c with CNormal None | CBreak _ None | CContinue _ None => False | _ => True end) /\
  (forall n b hasc cc hasf f sc t c sc', exec n (Try b hasc cc hasf f) sc = Some (t, c, sc') ->
     is_unc c = false ->
     match c with CNormal None | CBreak _ None | CContinue _ None => False | _ => True end) /\
  (forall n k l body V skip sc t c sc', exec_loop n k l body V skip sc = Some (t, c, sc') ->
     match c with CNormal None | CBreak _ None | CContinue _ None => False | _ => True end).
Proof. exact Proofs.completion_value_rules. Qed.

Theorem uncatchable_runs_nothing_S :
  (forall n s r acc sc t p sc1, exec n s sc = Some (t, CUnc p, sc1) ->
     exec_list (S n) (SCons s r) acc sc = Some (t, CUnc p, sc1)) /\
  (forall n b hasc c hasf f sc t p sc1, exec_list n b None sc = Some (t, CUnc p, sc1) ->
     exec (S n) (Try b hasc c hasf f) sc = Some (t, CUnc p, sc1)) /\
  (forall n l it body V idx sc t p sc1,
     (match it_throw it with Some (j, _) => Nat.eqb j idx | None => false end) = false ->
     Nat.leb (it_len it) idx = false ->
     exec n body sc = Some (t, CUnc p, sc1) ->
     exec_forof (S n) l it body V idx sc = Some (ENext (it_id it) :: t, CUnc p, sc1)).
Proof. exact Proofs.uncatchable_runs_nothing_S. Qed.

(* every event of a run is syntactically present in the program (used by the counting theorems) *)
Theorem trace_in_syntax : forall n s sc t c sc', exec n s sc = Some (t, c, sc') -> forall ev, In ev t -> ok_ev ev s.
Proof. intro n. exact (proj1 (Proofs.trace_in_syntax n)). Qed.

(* ---- I ---------------------------------------------------------------------------------------- *)
(* compile_control_correct, partial: FUNCTION-BODY mode (needResult = false), for every program without a for-of
   statement (frags), at any nesting depth - every shape of try/catch/finally including finally lists with direct
   break/continue ('breaking' blocks; finding C08-N7 repaired by f0be104), the three loop kinds, labels, if, blocks,
   break/continue/return/throw/uncatchable at any position - for which goja's compiler resolves every break/continue
   target (no INil placeholder, i.e. no "Could not find block"/"Illegal continue" SyntaxError):
   running [compile_prog true prog] on the VM model from [boot sc] yields exactly S's event trace, the same completion
   kind (and the same thrown value / uncatchable payload), and ends with the try stack back at the marker frame and the
   iterator and operand stacks at their entry values.  If moreover no return statement occurs inside a finally block
   (rffs: outside the region of the open finding C08-N2) the returned VALUE is S's as well.
   Missing for the full compile_control_correct: for-of (iterStack, enumPopClose) and script mode (needResult /
   completion values: open findings C08-N4..N6 make it false there). *)
Theorem compile_control_correct_partial : forall n prog sc tr c sc',
  frags prog = true ->
  ~ In INil (compile_prog true prog) ->
  exec_list n prog None sc = Some (tr, c, sc') ->
  exists k, let o := vm_run k (compile_prog true prog) (boot sc) in
    vout_trace o = tr /\
    okind (vout_outcome o) = okind (outcome_of true c) /\
    (rffs prog = true -> vout_outcome o = outcome_of true c) /\
    vout_balanced o = true.
Proof. exact ProofsC4.compile_control_correct_partial. Qed.

(* non-vacuity: L0: while (c()) { try { ev 1; if (c()) break L0 else continue } catch { ev 2 } finally { ev 3; if (c()) throw 9 else {} } }; return 5 *)
Definition ex_ccc : stmts :=
  sl [Loop LWhile (Some 0)
        (Block (sl [Try (sl [Ev 1; If (Break (Some 0)) (Continue None)]) true (sl [Ev 2]) true
                        (sl [Ev 3; If (Throw 9) (Block SNil)])]));
      Return 5].
Example compile_control_correct_partial_ex :
  frags ex_ccc = true /\ rffs ex_ccc = true /\
  existsb (fun i => match i with INil => true | _ => false end) (compile_prog true ex_ccc) = false /\
  run_S 100 true ex_ccc [true; false; false; true; true; false] = ([EEv 1; EEv 3; EEv 1; EEv 3], OValue (VNum 5)) /\
  run_I 1000 true ex_ccc [true; false; false; true; true; false] = run_S 100 true ex_ccc [true; false; false; true; true; false].
Proof. vm_compute. repeat split; reflexivity. Qed.

(* regression of the repaired finding C08-N1 (enterFinally now disarms the catch) *)
Theorem finally_throw_not_caught_by_own_catch :
  run_I 1000 true w_n1 [] = run_S 100 true w_n1 [] /\
  run_S 100 true w_n1 [] = ([EEv 1; EEv 3], OThrow (VNum 9)).
Proof. exact ProofsI.finally_throw_not_caught_by_own_catch. Qed.

Theorem pending_return_value_refuted :
  exists prog sc, run_S 100 true prog sc = ([], OValue (VNum 1)) /\ run_I 1000 true prog sc = ([], OValue (VNum 2)).
Proof. exact ProofsI.pending_return_value_refuted. Qed.

Theorem finally_nested_break_value_refuted :
  exists prog sc, run_S 100 false prog sc = ([], OValue VUndef) /\ run_I 1000 false prog sc = ([], OValue (VNum 2)).
Proof. exact ProofsI.finally_nested_break_value_refuted. Qed.

Theorem caught_throw_stale_value_refuted :
  exists prog sc, run_S 100 false prog sc = ([], OValue VUndef) /\ run_I 1000 false prog sc = ([], OValue (VNum 4)).
Proof. exact ProofsI.caught_throw_stale_value_refuted. Qed.

Theorem nested_branch_loses_value_refuted :
  exists prog sc, run_S 100 false prog sc = ([], OValue (VNum 1)) /\ run_I 1000 false prog sc = ([], OValue VUndef).
Proof. exact ProofsI.nested_branch_loses_value_refuted. Qed.

Example branch_in_breaking_finally_regression :
  run_I 1000 true w_n7 [true] = run_S 100 true w_n7 [true] /\
  run_S 100 true w_n7 [true] = ([EEv 1; EEv 2], OValue VUndef).
Proof. exact ProofsI.branch_in_breaking_finally_regression. Qed.

(* uncatchable_runs_nothing on I (full, since fix 22853aa of finding F12): for EVERY VM state, try stack and
   payload, unwinding an uncatchable error emits no event *)
Theorem uncatchable_runs_nothing : forall p fs st,
  match handle_throw None p st fs with
  | UncOut q st' => q = p /\ trace st' = trace st
  | Crashed => True
  | _ => False
  end.
Proof. exact ProofsI.uncatchable_runs_nothing. Qed.

Theorem uncatchable_step_runs_nothing : forall code st p,
  nth_error code (pc st) = Some (IUnc p) ->
  match vm_step code st with
  | UncOut q st' => q = p /\ trace st' = trace st
  | Crashed => True
  | _ => False
  end.
Proof. exact ProofsI.uncatchable_step_runs_nothing. Qed.

Example uncatchable_in_forof_regression :
  run_I 1000 true w_f12 [] = run_S 100 true w_f12 [] /\
  run_S 100 true w_f12 [] = ([ENext 7; EEv 5], OUnc PStackOverflow).
Proof. exact ProofsI.uncatchable_in_forof_regression. Qed.

(* the VM's finally dispatch: leaveTry parks pc+1 in finallyRet and leaveFinally resumes there, frame popped *)
Theorem leaveTry_leaveFinally_roundtrip : forall code st tf r fp,
  nth_error code (pc st) = Some ILeaveTry -> trys st = tf :: r -> f_fin tf = Some fp ->
  exists st1, vm_step code st = Running st1 /\ pc st1 = fp /\ trace st1 = trace st /\
    exists tf', trys st1 = tf' :: r /\ f_catch tf' = None /\ f_fin tf' = None /\ f_ret tf' = Some (S (pc st)) /\
    forall code2 st2, nth_error code2 (pc st2) = Some ILeaveFinally -> trys st2 = tf' :: r -> f_exc tf' = None ->
      exists st3, vm_step code2 st2 = Running st3 /\ pc st3 = S (pc st) /\ trys st3 = r /\ trace st3 = trace st2.
Proof. exact ProofsI.leaveTry_leaveFinally_roundtrip. Qed.

Print Assumptions finally_exactly_once.
Print Assumptions finally_exactly_once_innermost_first.
Print Assumptions finally_overrides.
Print Assumptions iterator_closed_once.
Print Assumptions completion_value_rules.
Print Assumptions uncatchable_runs_nothing_S.
Print Assumptions trace_in_syntax.
Print Assumptions compile_control_correct_partial.
Print Assumptions finally_throw_not_caught_by_own_catch.
Print Assumptions pending_return_value_refuted.
Print Assumptions finally_nested_break_value_refuted.
Print Assumptions caught_throw_stale_value_refuted.
Print Assumptions nested_branch_loses_value_refuted.
Print Assumptions uncatchable_runs_nothing.
Print Assumptions uncatchable_step_runs_nothing.
Print Assumptions leaveTry_leaveFinally_roundtrip.
