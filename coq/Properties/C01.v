(* C01 -- No script can crash the host: the part carried by proof is a verified bytecode verifier.
   ONLY theorem statements; each is closed by [exact] of a lemma of C01/Proofs.v.

   [verify] / [verify_func] / [verify_init] are run (vm_compute) on goja's actual compiler output for every
   generated program (C01/Run.v); the theorems say what acceptance means: in the small-step model of the VM's
   operand-stack / try-stack behaviour (C01/Model.v [step]), EVERY run of accepted code -- every outcome of
   every conditional jump, an exception raised by any instruction, every path through catch and finally
   blocks, any number of values produced by a spread -- never pops below the frame base (nor below a variadic
   marker), never executes an unknown instruction, never jumps outside the code, and finishes only with the
   calling-convention shape. *)
From Coq Require Import List Arith ZArith Bool.
Import ListNotations.
From Verif.C01 Require Import Model Proofs.

(* 1. a map accepted by the checker is an inductive invariant: all runs are safe (any mode) *)
Theorem check_sound : forall code md m, check code md m = true ->
  forall fuel orc st, entry_ok md st -> stack_safe (vm_run fuel code md orc st).
Proof. exact Proofs.check_sound. Qed.

(* 2. global and eval code *)
Theorem verify_sound : forall code, verify code = true ->
  forall fuel orc st, entry_ok MGlobal st -> stack_safe (vm_run fuel code MGlobal orc st).
Proof. exact Proofs.verify_sound. Qed.

(* 3. function bodies (functions, arrows, methods, generators, async functions, class constructors) *)
Theorem verify_func_sound : forall code, verify_func code = true ->
  forall fuel orc st, entry_ok MFunc st -> stack_safe (vm_run fuel code MFunc orc st).
Proof. exact Proofs.verify_func_sound. Qed.

(* 4. class field initialisers *)
Theorem verify_init_sound : forall code, verify_init code = true ->
  forall fuel orc st, entry_ok MInit st -> stack_safe (vm_run fuel code MInit orc st).
Proof. exact Proofs.verify_init_sound. Qed.

(* 5. a normal exit has the calling-convention shape: code that runs to its end leaves exactly what it was
      entered with (nothing for global/eval code: RunProgram and eval assume vm.sp is back at its entry
      value), no stack locals and no try frame ... *)
Theorem done_end_shape : forall code md ch st, md <> MFunc -> step code md ch st = Done ->
  pc st = length code /\ norm (cx st) = aux0 /\ segs st = a_segs (init_state md) /\ frames st = [].
Proof. exact Proofs.done_end_shape. Qed.

(* ... and a function returns through ret with exactly its `this` slot, the stack locals of the blocks that
   are still open (a return does not emit leaveBlock), at most one adopted operand per adopting block (catch
   parameter / switch discriminant kept on the stack) and the result: [ret_lo = 2 + sum of open block sizes],
   [ret_hi = ret_lo + number of open adopting blocks]; outside any variadic region; no try frame left *)
Theorem done_func_shape : forall code ch st, step code MFunc ch st = Done ->
  nth (pc st) code SUnknown = SRet /\
  (exists n, ret_lo (cx st) <= n <= ret_hi (cx st) /\ segs st = [mkseg n true]) /\ frames st = [].
Proof. exact Proofs.done_func_shape. Qed.

(* non-vacuity: code with try/catch/finally and a spread call is accepted and its runs finish; the shape of
   finding F18 ("(false && x), 1;" = push; push; pop) is rejected and its run faults *)
Theorem ex_code_verifies : verify ex_code = true.
Proof. exact Proofs.ex_code_verifies. Qed.
Theorem ex_code_runs : vm_run 40 ex_code MGlobal (fun _ => CNext) (entry_state MGlobal) = Done.
Proof. exact Proofs.ex_code_runs. Qed.
Theorem f18_refuted : verify f18_code = false /\
  vm_run 10 f18_code MGlobal (fun _ => CNext) (entry_state MGlobal) = Fault.
Proof. exact (conj Proofs.f18_rejected Proofs.f18_faults). Qed.

Print Assumptions check_sound.
Print Assumptions verify_sound.
Print Assumptions verify_func_sound.
Print Assumptions verify_init_sound.
Print Assumptions done_end_shape.
Print Assumptions done_func_shape.
Print Assumptions ex_code_verifies.
Print Assumptions ex_code_runs.
Print Assumptions f18_refuted.
