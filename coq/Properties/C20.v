(* C20 — RegExp results are independent of engine and fast path; indices are UTF-16 exact.
   ONLY theorem statements; each is closed by [exact] of a lemma of C20/Proofs.v.
   The two regular-expression engines are external code: they appear here as an arbitrary
   function [find]; the theorems cover goja's own glue. *)
From Coq Require Import List ZArith NArith Bool.
Import ListNotations.
From Verif.C20 Require Import Model Proofs.
Open Scope Z_scope.

(* 1. AdvanceStringIndex as goja computes it is the specification's, moves forward by 1 or 2, and
      under u steps over a surrogate pair as a whole. *)
Theorem advance_string_index_spec : forall s pos u,
  advance s pos u = advance_spec s pos u /\ pos < advance s pos u <= pos + 2.
Proof. intros. split; [exact (Proofs.advance_spec_eq s pos u)|exact (Proofs.advance_bounds s pos u)]. Qed.
Example advance_over_pair : advance [97; 55357; 56832; 98]%N 1 true = 3 /\ advance [97; 55357; 56832; 98]%N 1 false = 2.
Proof. split; reflexivity. Qed.

Theorem advance_skips_pair : forall s pos a b,
  unit_at s pos = Some a -> unit_at s (pos + 1) = Some b -> is_hi a = true -> is_lo b = true ->
  pos + 1 < slen s -> advance s pos true = pos + 2.
Proof. exact Proofs.advance_skips_pair. Qed.

(* 2. Flag strings: valid iff duplicate-free and drawn from gimsuy *)
Theorem valid_flags_spec : forall l,
  valid_flags l = true <-> (NoDup l /\ forall c, In c l -> In c supported_flags).
Proof. exact Proofs.valid_flags_spec. Qed.
Example valid_flags_giu : valid_flags [ch_g; ch_i; ch_u] = true /\ valid_flags [ch_g; ch_g] = false /\ valid_flags [100%N] = false.
Proof. repeat split. Qed.
(* the flag loop of compileRegexp (as repaired by a2c2456, F15) accepts exactly the valid flag strings *)
Theorem goja_flags_eq_valid_flags : forall l, goja_accepts_flags l = valid_flags l.
Proof. exact Proofs.goja_flags_eq_valid_flags. Qed.
Example goja_rejects_uu : goja_accepts_flags [ch_u; ch_u] = false /\ goja_accepts_flags [ch_y; ch_u; ch_g] = true.
Proof. split; reflexivity. Qed.

Section Protocol.
  Variable find : str -> Z -> option mres.
  Variable fl : flags.
  Variable s : str.
  (* the only thing assumed of the engine: a match lies inside the subject *)
  Hypothesis Hwf : forall p m, 0 <= p <= slen s -> find s p = Some m ->
                               0 <= ms m /\ ms m <= me m /\ me m <= slen s.

  (* 3. lastIndex stays inside the subject after any exec under g/y, is reset to 0 on failure,
        a lastIndex beyond the length fails, and a sticky match starts exactly AT lastIndex *)
  Theorem lastIndex_in_bounds : forall li r li',
    exec_core find fl s li = (r, li') -> fg fl || fy fl = true -> 0 <= li' <= slen s.
  Proof. exact (Proofs.exec_lastIndex_in_bounds find fl s Hwf). Qed.
  Theorem exec_fail_resets : forall li li',
    fg fl || fy fl = true -> exec_core find fl s li = (None, li') -> li' = 0.
  Proof. exact (Proofs.exec_fail_resets find fl s). Qed.
  Theorem exec_beyond_length : forall li,
    fg fl || fy fl = true -> slen s < li -> exec_core find fl s li = (None, 0).
  Proof. exact (Proofs.exec_beyond_length find fl s). Qed.
  Theorem exec_sticky_at : forall li m li',
    fy fl = true -> exec_core find fl s li = (Some m, li') -> ms m = to_length li /\ li' = me m.
  Proof. exact (Proofs.exec_sticky_at find fl s). Qed.

  (* 4. search: the optimised and the generic path agree (result and lastIndex) for EVERY engine,
        and both leave lastIndex as it was *)
  Theorem search_paths_agree : forall li, search_fast find fl s li = search_generic find fl s li.
  Proof. exact (Proofs.search_paths_agree find fl s). Qed.
  Theorem search_restores_lastIndex : forall li,
    snd (search_generic find fl s li) = li /\ snd (search_fast find fl s li) = li.
  Proof. exact (Proofs.search_restores_lastIndex find fl s). Qed.
End Protocol.


(* 5. under u, advancing from a code-point boundary lands on a code-point boundary *)
Theorem advance_boundary : forall s pos, 0 <= pos < slen s -> is_boundary s pos = true ->
  is_boundary s (advance s pos true) = true.
Proof. exact Proofs.advance_boundary. Qed.
Example advance_boundary_ex : is_boundary [55357; 56832; 97]%N 1 = false /\ is_boundary [55357; 56832; 97]%N (advance [55357; 56832; 97]%N 0 true) = true.
Proof. split; reflexivity. Qed.

(* 6. THE VALIDATOR IS SOUND: what [match_wf = true] means.  Indices are UTF-16 unit positions inside the
      subject (code-point boundaries under u), the match starts at or after the scan start (under u a
      start inside a surrogate pair may back up by one), match[0] is that slice of the subject, every
      defined capture is a piece of the subject located inside the match, the groups object mirrors the
      numbered captures, and the raw capture ranges (when supplied) agree with all of it. *)
Theorem match_wf_sound : forall u ncap names s start m,
  match_wf u ncap names s start m = true ->
     0 <= start /\ 0 <= ms m /\ ms m <= me m /\ me m <= slen s
  /\ (start <= ms m \/ (u = true /\ is_boundary s start = false /\ ms m = start - 1))
  /\ (u = true -> is_boundary s (ms m) = true /\ is_boundary s (me m) = true)
  /\ length (mcaps m) = S (N.to_nat ncap)
  /\ nth_cap (mcaps m) 0 = Some (slice s (ms m) (me m))
  /\ (forall x, In (Some x) (mcaps m) -> located u s x (ms m) (me m))
  /\ groups_mirror names (mcaps m) (mgroups m)
  /\ (mrng m <> [] -> Forall2 (rng_fact u s (ms m) (me m)) (mcaps m) (mrng m) /\
                      nth_error (mrng m) 0 = Some (Some (ms m, me m))).
Proof. exact Proofs.match_wf_sound. Qed.
Example match_wf_accepts :
  match_wf true 1 [(1%N, [110]%N)] [120; 55357; 56832; 121]%N 0
    (mkM 1 3 [Some [55357; 56832]%N; Some [55357; 56832]%N] (Some [([110]%N, Some [55357; 56832]%N)]) [Some (1, 3); Some (1, 3)]) = true
  /\ (* an end index inside the surrogate pair is rejected under u *)
  match_wf true 0 [] [120; 55357; 56832; 121]%N 0 (mkM 1 2 [Some [55357]%N] None []) = false
  /\ (* ... and accepted without u *)
  match_wf false 0 [] [120; 55357; 56832; 121]%N 0 (mkM 1 2 [Some [55357]%N] None []) = true.
Proof. repeat split. Qed.

(* 7. POSITION MAPS.  buildUTF8PosMap bails out exactly when the subject has a lone surrogate; otherwise
      positionMap.get maps the UTF-8 offset of EVERY code-point boundary to the UTF-16 offset of the
      same boundary (total on boundaries, correct), rejects every other positive offset, and both
      offset sequences are strictly increasing; the last boundary is the length of the subject. *)
Theorem posmap_bailout_iff : forall s, build_utf8_posmap s = None <-> has_lone_surrogate s = true.
Proof. exact Proofs.bailout_iff. Qed.
Theorem posmap_correct : forall s pm bytes k,
  build_utf8_posmap s = Some (pm, bytes) -> (k <= length (decode_lenient s))%nat ->
  pm_get pm (utf8_off (decode_lenient s) k) = Some (utf16_off (decode_lenient s) k).
Proof. exact Proofs.posmap_correct. Qed.
Theorem posmap_only_boundaries : forall s pm bytes b,
  build_utf8_posmap s = Some (pm, bytes) -> 0 < b ->
  (forall k, (k <= length (decode_lenient s))%nat -> utf8_off (decode_lenient s) k <> b) ->
  pm_get pm b = None.
Proof. exact Proofs.posmap_only_boundaries. Qed.
Theorem posmap_monotone : forall s j k, (j < k <= length (decode_lenient s))%nat ->
  utf16_off (decode_lenient s) j < utf16_off (decode_lenient s) k /\
  utf8_off (decode_lenient s) j < utf8_off (decode_lenient s) k.
Proof. exact Proofs.posmap_monotone. Qed.
Theorem utf16_off_total : forall s, utf16_off (decode_lenient s) (length (decode_lenient s)) = slen s.
Proof. exact Proofs.utf16_off_total. Qed.
(* buildPosMap (rune index -> UTF-16 offset, used with regexp2 and single RE2 matches under u) *)
Theorem posmap16_correct : forall s k, (k <= length (decode_lenient s))%nat ->
  nth_error (build_posmap16 s) k = Some (utf16_off (decode_lenient s) k).
Proof. exact Proofs.posmap16_correct. Qed.
Example posmap_ex :   (* "a" U+1F600 "é": UTF-8 offsets 1,5,7 -> UTF-16 offsets 1,3,4; byte 3 is inside the emoji *)
  let s := [97; 55357; 56832; 233]%N in
  match build_utf8_posmap s with
  | Some (pm, bytes) => map (pm_get pm) [0; 1; 5; 7; 3] = [Some 0; Some 1; Some 3; Some 4; None] /\ length bytes = 7%nat
  | None => False
  end /\ build_utf8_posmap [97; 55357; 233]%N = None /\ build_posmap16 s = [0; 1; 3; 4].
Proof. repeat split. Qed.

Section Global.
  Variable find : str -> Z -> option mres.
  Variable fl : flags.
  Variable rep : mres -> str.
  Variable s : str.
  Variable ncap : N.
  Variable names : list (N * str).
  Hypothesis Hg : fg fl = true.      (* g alone, or g together with y *)
  (* EVERY abstract engine whose results pass the validator *)
  Hypothesis Hwf : forall p m, 0 <= p <= slen s -> find s p = Some m -> match_wf (fu fl) ncap names s p m = true.

  Let Hfind := Proofs.wf_engine_ok find fl ncap names s Hwf.

  (* 8. the exec loop of @@match / @@replace under g terminates: empty matches advance, so any fuel beyond
        |s|+2 gives the same result and the loop ends by itself; lastIndex ends at 0 *)
  Theorem global_loop_terminates : forall n, (loop_fuel s <= n)%nat ->
    g_loop find fl s n 0 = g_loop find fl s (loop_fuel s) 0 /\ snd (g_loop find fl s n 0) = true.
  Proof. exact (Proofs.global_loop_terminates find fl s Hg Hfind). Qed.
  Theorem global_matches_lastIndex_zero : snd (g_matches find fl s) = 0.
  Proof. rewrite (Proofs.g_matches_rx2 find fl s Hg Hfind). reflexivity. Qed.

  (* 9. PATH INDEPENDENCE for match and replace with g, sticky or not (regexp2's find-all iteration, which is
        what the optimised path uses whenever it does not go through Go's FindAll): results AND lastIndex.
        (Before 4fe706d this failed for g together with y: finding F202, fixed.) *)
  Theorem protocol_paths_agree_match_g : forall li, match_fast find fl s RX2 li = match_generic find fl s li.
  Proof. exact (Proofs.match_g_paths_agree find fl s Hg Hfind). Qed.
  Theorem protocol_paths_agree_replace_g : forall li,
    replace_fast find fl rep s RX2 li = replace_generic find fl rep s li.
  Proof. exact (Proofs.replace_g_paths_agree find fl rep s Hg Hfind). Qed.
End Global.

Section SplitPaths.
  Variable find : str -> Z -> option mres.
  Variable fl : flags.
  Variable s : str.
  Variable ncap : N.
  Variable names : list (N * str).
  Hypothesis Hu : fu fl = false.
  Hypothesis Hwf : forall p m, 0 <= p <= slen s -> find s p = Some m -> match_wf (fu fl) ncap names s p m = true.
  (* the engine is a leftmost scan: starting later, but not after the match it found, finds the same
     match; a scan that failed stays failed *)
  Hypothesis Hsame : forall p m q, 0 <= p <= slen s -> find s p = Some m -> p <= q <= ms m -> find s q = Some m.
  Hypothesis Hnone : forall p q, 0 <= p <= slen s -> find s p = None -> p <= q <= slen s -> find s q = None.

  (* 9c. PATH INDEPENDENCE for split: stdSplitter over the list of Go's FindAll (which drops an empty
         match adjacent to the previous match) equals the generic @@split protocol loop, for every limit *)
  Theorem protocol_paths_agree_split : is_ascii s = true ->      (* the route on which Go's FindAll is used without u *)
    forall lim, split_fast find fl s RE2 lim = split_generic find fl s lim.
  Proof. exact (fun Hasc => Proofs.split_paths_agree_wf find fl s ncap names Hu Hasc Hwf Hsame Hnone). Qed.
  (* 9d. ... and over regexp2's match list, which contains the empty matches adjacent to the previous match
         (before 811a68b the splitter did not skip them: finding F203, fixed) *)
  Theorem protocol_paths_agree_split_rx2 : forall lim, split_fast find fl s RX2 lim = split_generic find fl s lim.
  Proof. exact (Proofs.split_paths_agree_rx2_wf find fl s ncap names Hu Hwf Hsame Hnone). Qed.
End SplitPaths.

(* 9e. PATH INDEPENDENCE for replace without g (at most one match; sticky or not), for BOTH engines, every
       lastIndex - also beyond the end of the subject (a3eeab9, F200) - and every subject (99d84e8, F204) *)
Theorem protocol_paths_agree_replace_one : forall (find : str -> Z -> option mres) fl rep s ncap names,
  fg fl = false ->
  (forall p m, 0 <= p <= slen s -> find s p = Some m -> match_wf (fu fl) ncap names s p m = true) ->
  forall e li, replace_fast find fl rep s e li = replace_generic find fl rep s li.
Proof. exact Proofs.replace_one_paths_agree_wf. Qed.
Example replace_one_beyond_length :   (* /a*/y, lastIndex 3, "ab": no match, lastIndex reset, both paths *)
  let f := fun (_ : str) (p : Z) => Some (mkM p p [Some []] None []) in
  replace_fast f (mkFlags false false false false false true) (fun _ => [45]%N) [97; 98]%N RX2 3 = (RS [97; 98]%N, 0) /\
  replace_generic f (mkFlags false false false false false true) (fun _ => [45]%N) [97; 98]%N 3 = (RS [97; 98]%N, 0).
Proof. split; reflexivity. Qed.

(* 10. non-vacuity of 8 and 9 (a concrete engine that passes the validator: a* on "baac"), and the one
       place where the optimised path of this tree is still refuted to equal the generic path (finding F201, open) *)
Example global_nonvacuous :
  (forall p m, 0 <= p <= slen s_baac -> find_astar s_baac p = Some m -> match_wf (fu fl_g) 0 [] s_baac p m = true) /\
  match_generic find_astar fl_g s_baac 0 = (RL [Some []; Some [97; 97]%N; Some []; Some []], 0).
Proof. split; [exact Proofs.find_astar_wf|exact (proj2 (proj2 (proj2 (proj2 Proofs.baac_agreements))))]. Qed.
Example split_nonvacuous :
  is_ascii s_baac = true /\
  (forall p m q, 0 <= p <= slen s_baac -> find_astar s_baac p = Some m -> p <= q <= ms m -> find_astar s_baac q = Some m) /\
  split_generic find_astar fl_none s_baac None = RL [Some [98]%N; Some [99]%N].
Proof. split; [reflexivity|]. split; [exact (proj1 Proofs.find_astar_scan)|reflexivity]. Qed.
Theorem match_g_re2_refuted : match_fast find_astar fl_g s_baac RE2 0 <> match_generic find_astar fl_g s_baac 0.
Proof. exact Proofs.match_g_re2_refuted. Qed.

Print Assumptions advance_string_index_spec.
Print Assumptions advance_skips_pair.
Print Assumptions valid_flags_spec.
Print Assumptions goja_flags_eq_valid_flags.
Print Assumptions lastIndex_in_bounds.
Print Assumptions exec_fail_resets.
Print Assumptions exec_beyond_length.
Print Assumptions exec_sticky_at.
Print Assumptions search_paths_agree.
Print Assumptions search_restores_lastIndex.
Print Assumptions advance_boundary.
Print Assumptions match_wf_sound.
Print Assumptions posmap_bailout_iff.
Print Assumptions posmap_correct.
Print Assumptions posmap_only_boundaries.
Print Assumptions posmap_monotone.
Print Assumptions utf16_off_total.
Print Assumptions posmap16_correct.
Print Assumptions global_loop_terminates.
Print Assumptions global_matches_lastIndex_zero.
Print Assumptions protocol_paths_agree_match_g.
Print Assumptions protocol_paths_agree_replace_g.
Print Assumptions match_g_re2_refuted.
Print Assumptions protocol_paths_agree_split.
Print Assumptions protocol_paths_agree_split_rx2.
Print Assumptions protocol_paths_agree_replace_one.
