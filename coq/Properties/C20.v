(* C20 — RegExp results are independent of engine and fast path; indices are UTF-16 exact.
   ONLY theorem statements; each is closed by [exact] of a lemma of C20/Proofs.v.
   The two regular-expression engines are external code: they appear here as an arbitrary
   function [find]; the theorems cover goja's own glue. *)
From Coq Require Import List ZArith NArith Bool.
Import ListNotations.
From Verif.C20 Require Import Model Proofs.
Open Scope Z_scope.

(* 1. AdvanceStringIndex as goja computes it is the specification's, moves forward by 1 or 2, and
      under u steps over a surrogate pair as a whole. *)
Theorem advance_string_index_spec : forall s pos u,
  advance s pos u = advance_spec s pos u /\ pos < advance s pos u <= pos + 2.
Proof. intros. split; [exact (Proofs.advance_spec_eq s pos u)|exact (Proofs.advance_bounds s pos u)]. Qed.
Example advance_over_pair : advance [97; 55357; 56832; 98]%N 1 true = 3 /\ advance [97; 55357; 56832; 98]%N 1 false = 2.
Proof. split; reflexivity. Qed.

Theorem advance_skips_pair : forall s pos a b,
  unit_at s pos = Some a -> unit_at s (pos + 1) = Some b -> is_hi a = true -> is_lo b = true ->
  pos + 1 < slen s -> advance s pos true = pos + 2.
Proof. exact Proofs.advance_skips_pair. Qed.

(* 2. Flag strings: valid iff duplicate-free and drawn from gimsuy *)
Theorem valid_flags_spec : forall l,
  valid_flags l = true <-> (NoDup l /\ forall c, In c l -> In c supported_flags).
Proof. exact Proofs.valid_flags_spec. Qed.
Example valid_flags_giu : valid_flags [ch_g; ch_i; ch_u] = true /\ valid_flags [ch_g; ch_g] = false /\ valid_flags [100%N] = false.
Proof. repeat split. Qed.
(* the flag loop of compileRegexp on this tree is NOT that predicate (finding F15) *)
Theorem goja_flags_refuted : exists l, valid_flags l = false /\ goja_accepts_flags l = true.
Proof. exact Proofs.goja_flags_refuted. Qed.

Section Protocol.
  Variable find : str -> Z -> option mres.
  Variable fl : flags.
  Variable s : str.
  (* the only thing assumed of the engine: a match lies inside the subject *)
  Hypothesis Hwf : forall p m, 0 <= p <= slen s -> find s p = Some m ->
                               0 <= ms m /\ ms m <= me m /\ me m <= slen s.

  (* 3. lastIndex stays inside the subject after any exec under g/y, is reset to 0 on failure,
        a lastIndex beyond the length fails, and a sticky match starts exactly AT lastIndex *)
  Theorem lastIndex_in_bounds : forall li r li',
    exec_core find fl s li = (r, li') -> fg fl || fy fl = true -> 0 <= li' <= slen s.
  Proof. exact (Proofs.exec_lastIndex_in_bounds find fl s Hwf). Qed.
  Theorem exec_fail_resets : forall li li',
    fg fl || fy fl = true -> exec_core find fl s li = (None, li') -> li' = 0.
  Proof. exact (Proofs.exec_fail_resets find fl s). Qed.
  Theorem exec_beyond_length : forall li,
    fg fl || fy fl = true -> slen s < li -> exec_core find fl s li = (None, 0).
  Proof. exact (Proofs.exec_beyond_length find fl s). Qed.
  Theorem exec_sticky_at : forall li m li',
    fy fl = true -> exec_core find fl s li = (Some m, li') -> ms m = to_length li /\ li' = me m.
  Proof. exact (Proofs.exec_sticky_at find fl s). Qed.

  (* 4. search: the optimised and the generic path agree (result and lastIndex) for EVERY engine,
        and both leave lastIndex as it was *)
  Theorem search_paths_agree : forall li, search_fast find fl s li = search_generic find fl s li.
  Proof. exact (Proofs.search_paths_agree find fl s). Qed.
  Theorem search_restores_lastIndex : forall li,
    snd (search_generic find fl s li) = li /\ snd (search_fast find fl s li) = li.
  Proof. exact (Proofs.search_restores_lastIndex find fl s). Qed.
End Protocol.

Print Assumptions advance_string_index_spec.
Print Assumptions advance_skips_pair.
Print Assumptions valid_flags_spec.
Print Assumptions goja_flags_refuted.
Print Assumptions lastIndex_in_bounds.
Print Assumptions exec_fail_resets.
Print Assumptions exec_beyond_length.
Print Assumptions exec_sticky_at.
Print Assumptions search_paths_agree.
Print Assumptions search_restores_lastIndex.
