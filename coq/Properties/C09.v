(* C09 — Generators and async functions resume faithfully under any driver call sequence.
   ONLY theorem statements; each is closed by [exact] of a lemma of C09/ProofsGen.v or C09/ProofsSeg.v. *)
From Coq Require Import List ZArith Bool.
Import ListNotations.
From Verif.C09 Require Import Model ProofsGen ProofsSeg ProofsMach.

Section C09_GeneratorObject.
(* values, body states, inner-iterator states, side-effect events: all abstract *)
Context {V B It Ev : Type}.
Variable tyerr undef : V.
(* the BODY is an arbitrary transition system; so are the inner iterators that yield* delegates to *)
Variable bstep : B -> binput V -> btree V B It Ev.
Variable istep : It -> imeth -> V -> icall V It Ev.
Variable has_meth : It -> imeth -> bool.

Local Notation g_call := (@g_call V B It Ev tyerr undef bstep istep has_meth).
Local Notation s_call := (@s_call V B It Ev tyerr undef bstep istep has_meth).

(* 1. Refinement.  For EVERY body, EVERY family of inner iterators (with any combination of present/missing
      throw/return methods, results that are done / not done / not objects, methods that throw), EVERY driver history
      over next(v)/throw(e)/return(v) — including calls the running body makes on its own generator object, calls
      after completion, return/throw before the first next — and every amount of fuel, goja's generatorObject
      (states SuspendedStart/Executing/SuspendedYield/SuspendedYieldRes/Completed + `delegated`) produces exactly the
      side effects, {value, done} answers and thrown values of ECMA-262 27.5.3 + 14.4.14.
      Hypothesis (H1): the compiler marks a yield as "value unused" only where the body ignores the value.
      (The second hypothesis of the previous round — no re-entrant call while a GetIterator failure is handled — is gone:
      findings C09-N1/N2 were repaired by d6dd1c9, the model follows the repaired code, and the theorem is unconditional
      in that respect.) *)
Theorem genobj_refines_spec :
  unused_is_ignored bstep ->
  forall n b hist,
    outs (run (g_call n) (@ginit B It b) hist) = outs (run (s_call n) (@sinit B It b) hist).
Proof. exact (ProofsGen.genobj_refines_spec tyerr undef bstep istep has_meth). Qed.

(* 2. Completed is absorbing, for goja's object and for the spec machine: the state does not change, nothing runs,
      next answers {undefined, true}, return(v) answers {v, true}, throw(e) throws e — for ever. *)
Theorem completed_is_absorbing : forall n (g : gobj B It) c,
  gstate g = GCompleted -> g_call n g c = ([], g, completed_answer undef c).
Proof. exact (ProofsGen.g_completed_absorbing tyerr undef bstep istep has_meth). Qed.

Theorem completed_is_absorbing_spec : forall n (s : sobj B It) c,
  sstate s = SCompleted -> s_call n s c = ([], s, completed_answer undef c).
Proof. exact (ProofsGen.s_completed_absorbing tyerr undef bstep istep has_meth). Qed.

Theorem completed_forever : forall n (g : gobj B It) h,
  gstate g = GCompleted -> outs (run (g_call n) g h) = map (fun c => ([], completed_answer undef c)) h.
Proof. exact (ProofsGen.g_completed_forever tyerr undef bstep istep has_meth). Qed.

(* 3. A call on a generator that is executing is rejected with a TypeError; state unchanged, nothing runs. *)
Theorem executing_rejects_reentry : forall n (g : gobj B It) c,
  gstate g = GExecuting -> g_call n g c = ([], g, OThrow tyerr).
Proof. exact (ProofsGen.g_executing_rejects tyerr undef bstep istep has_meth). Qed.

Theorem executing_rejects_reentry_spec : forall n (s : sobj B It) c,
  sstate s = SExecuting -> s_call n s c = ([], s, OThrow tyerr).
Proof. exact (ProofsGen.s_executing_rejects tyerr undef bstep istep has_meth). Qed.

(* 4. return(v) / throw(e) before the first next() complete the generator without running the body. *)
Theorem start_abrupt_skips_body : forall n (g : gobj B It),
  gstate g = GSuspendedStart ->
  (forall v, g_call n g (RReturn v) = ([], g_set_state g GCompleted, ORes v true)) /\
  (forall e, g_call n g (RThrow e) = ([], g_set_state g GCompleted, OThrow e)).
Proof. exact (ProofsGen.g_start_abrupt tyerr undef bstep istep has_meth). Qed.
(* 5. An async function is the generator state machine driven by promise reactions.  goja's asyncRunner
      (start / step / onFulfilled / onRejected, transcribed as ar_run: a bare `generator` resumed with gen.next(x) when
      the awaited promise is fulfilled with x, with gen.nextThrow(e) when it is rejected with e, the function's own
      promise resolved / rejected at completion) performs, for EVERY body without yield*, every list of settlements and
      every fuel, exactly the side effects and steps of the specification's generator object driven by
      next(undefined), then next(x) / throw(e) per settlement, until it completes.
      NOT covered by this theorem (correspondence only, and C10's theorems): that each reaction runs as its own job
      in FIFO order (the round-robin interleaving of concurrent async functions), Await's PromiseResolve / `then`
      lookup on the awaited value (open finding C09-N8 lives there), and the `curAsyncRunner` bookkeeping. *)
Theorem async_is_generator_plus_promises :
  star_free bstep -> forall n b h, no_return h ->
  @ar_run V B It Ev tyerr bstep b BStart h
  = until_done (outs (run (s_call (S n)) (@sinit B It b) (RNext undef :: h))).
Proof. exact (ProofsGen.async_is_generator_plus_promises tyerr undef bstep istep has_meth). Qed.
End C09_GeneratorObject.

Section C09_Segments.
Context {Val IterItem RefItem Payload : Type}.
Local Open Scope Z_scope.

(* 6. Suspension/resumption of the stack segment, for ALL stack shapes: a generator body whose segment is
      stack[sb-1..sp) with try frames / iterators / references above its marks is suspended (vm.suspend + the tail of
      generator.step) and later resumed by generator.enterNext into ANY VM state st' (any stack height, any number of
      pending try frames, iterators, references, any call depth).  Then the segment reappears at the new base with every
      saved tf.sp / iterLen / refLen / callStackLen shifted by exactly the base difference, nothing below the new base
      has changed, and the suspension left exactly what was below the old base. *)
Theorem suspend_resume_roundtrip :
  forall (marker : Payload) (st : vmst Val IterItem RefItem Payload) (m : marks) (st' : vmst Val IterItem RefItem Payload),
  SegWf st m ->
  let '(st1, c) := gen_suspend st m in
  let '(st2, m2) := gen_enter_next marker st' c in
  segment st2 m2 =
    shift_segment ((sb st2 - 1) - (sb st - 1)) (Z.of_nat (m_iter m2) - Z.of_nat (m_iter m))
                  (Z.of_nat (m_ref m2) - Z.of_nat (m_ref m)) (callD st2 - callD st) (segment st m)
  /\ firstn (Z.to_nat (sb st2 - 1)) (stack st2) = stack st'
  /\ firstn (m_try m2) (tryS st2) = tryS st' ++ [marker_frame marker st']
  /\ firstn (m_iter m2) (iterS st2) = iterS st'
  /\ firstn (m_ref m2) (refS st2) = refS st'
  /\ callD st2 = callD st' + 2
  /\ stack st1 = firstn (Z.to_nat (sb st - 1)) (stack st)
  /\ tryS st1 = firstn (m_try m) (tryS st) /\ iterS st1 = firstn (m_iter m) (iterS st)
  /\ refS st1 = firstn (m_ref m) (refS st) /\ callD st1 = callD st - 1.
Proof. exact ProofsSeg.suspend_resume_roundtrip. Qed.

(* 7. The saved context is base-independent: suspending right after resuming (anywhere) gives it back. *)
Theorem resume_suspend_is_identity :
  forall (marker : Payload) (st' : vmst Val IterItem RefItem Payload) (c : ectx Val IterItem RefItem Payload),
  let '(st2, m2) := gen_enter_next marker st' c in
  forget_call (snd (gen_suspend st2 m2)) = forget_call c.
Proof. exact ProofsSeg.resume_suspend_is_identity. Qed.
End C09_Segments.

(* 8. The body language: everything except hand-written iterators as for-of / yield* operands (coreS); for-of and yield*
      over inner generators of the language, re-entrant calls, try/catch/finally, loops are included.
      A suspended body is DATA — the locals and an explicit stack of frames (pending operands of partially evaluated
      expressions, loop counters, pending catch / finally blocks, the completion a running finally block will
      continue with).  A running inner generator occupies the frames above a boundary frame — its stack segment; when
      it yields, the segment is cut off at the boundary and stored inside a frame of the generator below (for-of: next to
      the loop body; yield*: the outer generator suspends around it), and resumption appends it again on a new
      boundary — the same discipline as goja's stack-segment suspend/resume (theorem 6).  For every such body the
      machine unfolds to the direct (continuation-passing) semantics; in particular at every yield, resuming the saved
      data with ANY input — a value, a throw, a return — continues exactly as the un-suspended direct evaluation
      continues with that input (mt_yield inside mtree), including forwarding through yield* and IteratorClose. *)
Theorem machine_matches_direct : forall s, coreS s = true ->
  mtree (mload s) (dS false s env0 gen_handlers (fun r => TDone VUndef r)).
Proof. exact ProofsMach.machine_matches_direct. Qed.

(* 9. resume_deterministic / locals_survive, as an equation between executable runs: for every such body and EVERY
      history h of resumptions, the machine — suspending to data at each yield and resuming that data with the next
      element of h — observes (side-effect log, yielded / returned / thrown value, locals) exactly what the direct
      evaluation observes when each yield is answered by h's values; fuel only has to be large enough. *)
Theorem resume_deterministic : forall s h, coreS s = true ->
  exists n, forall fuel, n <= fuel ->
    mwalk fuel h (mload s) = Some (twalk h (dS false s env0 gen_handlers (fun r => TDone VUndef r))).
Proof. exact ProofsMach.resume_deterministic. Qed.

(* 10. the same from any machine state that unfolds to a tree: suspended data resumed later behaves as the tree *)
Theorem locals_survive : forall h c t, mtree c t ->
  exists n, forall fuel, n <= fuel -> mwalk fuel h c = Some (twalk h t).
Proof. exact ProofsMach.mtree_walk. Qed.

Print Assumptions genobj_refines_spec.
Print Assumptions completed_is_absorbing.
Print Assumptions completed_is_absorbing_spec.
Print Assumptions completed_forever.
Print Assumptions executing_rejects_reentry.
Print Assumptions executing_rejects_reentry_spec.
Print Assumptions start_abrupt_skips_body.
Print Assumptions suspend_resume_roundtrip.
Print Assumptions resume_suspend_is_identity.
Print Assumptions async_is_generator_plus_promises.
Print Assumptions machine_matches_direct.
Print Assumptions resume_deterministic.
Print Assumptions locals_survive.
