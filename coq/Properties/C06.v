(* C06 — Strings with equal UTF-16 content are indistinguishable, whatever their origin.
   ONLY theorem statements; each is closed by [exact] of a lemma of C06/Proofs*.v.
   jsstr = goja's asciiString / unicodeString / importedString; units = the UTF-16 meaning;
   nf = goja's normal form (asciiString all < 0x80, unicodeString has a unit >= 0x80). *)
From Coq Require Import List NArith ZArith Bool.
Import ListNotations.
From Verif.C06 Require Import Model Proofs Proofs2 Proofs3 Proofs4.
Local Open Scope N_scope.

(* ---- 1. nf_closed: every constructor and every operation yields a normal-form string ------------------- *)

Theorem nf_closed_constructors : forall (s us cps rs : list N),
  nf (new_string_value s) = true /\ nf (to_value s) = true /\ nf (from_utf16 us) = true /\
  nf (from_code_points cps) = true /\ nf (from_runes rs) = true.
Proof. exact Proofs3.T_nf_closed_constructors. Qed.

Theorem nf_closed : forall a b s e, nf a = true -> nf b = true ->
  nf (concat a b) = true /\ nf (substring a s e) = true /\ nf (devirt a) = true.
Proof. exact Proofs3.T_nf_closed. Qed.

(* unicodeStringBuilder (padStart/padEnd, repeat, template literals): whatever sequence of normal-form strings is
   written, String() is in normal form and its units are the concatenation *)
Theorem builder_nf_units : forall l, Forall (fun s => nf s = true) l ->
  let st := fold_left usb_write l ([], false) in
  nf (usb_string (fst st) (snd st)) = true /\ units (usb_string (fst st) (snd st)) = List.concat (map units l).
Proof. exact Proofs3.T_builder_nf_units. Qed.

(* tree level: for EVERY expression tree over the generated operations (Go leaves with any bytes, valid UTF-8 or not;
   concat, template, slice/substring/substr/at/charAt, padStart/padEnd, repeat, trim*, case mapping, JSON), goja's
   representation of the result is in normal form — no hypothesis at all *)
Theorem nf_closed_trees : forall e : expr, nf (ieval e) = true.
Proof. exact Proofs4.ieval_nf. Qed.

Example nf_closed_nonvacuous :
  nf (SUni [97; 233]) = true /\ substring (SUni [97; 233]) 0 1 = SAscii [97] /\
  concat (SAscii [97]) (SImp [195; 169] false) = SUni [97; 233].
Proof. vm_compute. auto. Qed.

(* ---- 2. strop_eq_spec: the operations act on the UTF-16 units (surrogates are just units) ------------- *)

Theorem constructors_eq_spec : forall (s us cps : list N),
  units (new_string_value s) = flat_map enc16 (decode s) /\ units (to_value s) = flat_map enc16 (decode s) /\
  units (from_utf16 us) = us /\ units (from_code_points cps) = s_from_code_points cps.
Proof. exact Proofs3.T_constructors_eq_spec. Qed.

(* full statement [forall a b, units (concat a b) = units a ++ units b] is refuted on the current tree (below);
   proved with the unscanned+unscanned importedString fast path carved out *)
Theorem strop_eq_spec_partial : forall a b s e i, nf a = true -> nf b = true ->
  (both_unscanned a b = false -> units (concat a b) = units a ++ units b) /\
  units (substring a s e) = cut (units a) s e /\
  char_at a i = nth i (units a) 0 /\
  length_of a = length (units a) /\
  units (devirt a) = units a.
Proof. exact Proofs3.T_strop_eq_spec_partial. Qed.

Theorem concat_eq_spec_refuted : exists s t,
  units (concat (SImp s false) (SImp t false)) <> units (SImp s false) ++ units (SImp t false).
Proof. exact concat_fast_refuted. Qed.

Example strop_lone_surrogates_preserved :
  units (concat (SUni [55357]) (SUni [56832])) = [55357; 56832] /\
  units (substring (SUni [97; 55357; 56832]) 1 2) = [55357].
Proof. vm_compute. auto. Qed.

(* ---- 3. eq_hash_key_agree ------------------------------------------------------------------------------ *)

(* === never identifies strings with different units: all nine pairs, any scanned flags *)
Theorem strict_equals_sound : forall a b, nf a = true -> nf b = true ->
  strict_equals a b = true -> units a = units b.
Proof. exact Proofs2.strict_equals_sound. Qed.

(* === is exactly equality of units for the eight pairs with at most one importedString *)
Theorem strict_equals_partial : forall a b, nf a = true -> nf b = true -> both_imported a b = false ->
  (strict_equals a b = true <-> units a = units b).
Proof. exact Proofs3.T_strict_equals_partial. Qed.

(* F19: imported x imported compares raw bytes: equal units, both === a third string, not === each other,
   == true, Map lookup misses, object key hits *)
Theorem strict_equals_refuted : exists a b,
  nf a = true /\ nf b = true /\ units a = units b /\ strict_equals a b = false
  /\ equals a b = true /\ map_hit a b = false /\ objkey_hit a b = true
  /\ (exists l, nf l = true /\ strict_equals a l = true /\ strict_equals l b = true).
Proof. exact strict_equals_imported_refuted. Qed.

(* property keys and hash input agree with the units for ALL nine pairs (the 0xFEFF marker argument: an ASCII key
   never starts with FF FE) *)
Theorem key_hash_agree : forall a b, nf a = true -> nf b = true ->
  (raw_key a = raw_key b <-> units a = units b) /\ (hash_bytes a = hash_bytes b <-> units a = units b).
Proof. exact Proofs3.T_key_hash_agree. Qed.

(* the keys of an importedString and a unicodeString with the same units coincide; and the nf hypothesis is needed:
   outside normal form an "ASCII" key can collide with a UTF-16 key *)
Example key_hash_nonvacuous :
  raw_key (SImp [195; 169] false) = raw_key (SUni [233]) /\ raw_key (SAscii [255; 254]) = raw_key (SUni []).
Proof. vm_compute. split; reflexivity. Qed.

(* ---- 4. compare_eq_spec: CompareTo is the lexicographic order on units, for all nine pairs ------------- *)

Theorem compare_eq_spec : forall a b, compare_to a b = lex (units a) (units b).
Proof. exact compare_to_spec. Qed.

Theorem lex_order : forall a b, (lex a b = Eq <-> a = b) /\ CompOpp (lex a b) = lex b a.
Proof. exact Proofs3.T_lex_order. Qed.

Example compare_nonvacuous :
  compare_to (SAscii [97]) (SImp [97; 195; 169] false) = Lt /\ compare_to (SUni [65535]) (SUni [55296; 56320]) = Gt.
Proof. vm_compute. auto. Qed.

(* ---- 5. export_eq --------------------------------------------------------------------------------------- *)

Theorem export_eq_partial : forall a, nf a = true -> (forall s sc, a <> SImp s sc) ->
  export a = s_export (units a).
Proof. exact export_spec. Qed.

Theorem export_eq_refuted : exists a, nf a = true /\ export a <> s_export (units a).
Proof. exact export_imported_refuted. Qed.

Example export_lone_surrogate : export (SUni [97; 55296]) = [97; 239; 191; 189].
Proof. vm_compute. reflexivity. Qed.

Print Assumptions nf_closed_constructors.
Print Assumptions nf_closed.
Print Assumptions builder_nf_units.
Print Assumptions nf_closed_trees.
Print Assumptions constructors_eq_spec.
Print Assumptions strop_eq_spec_partial.
Print Assumptions concat_eq_spec_refuted.
Print Assumptions strict_equals_sound.
Print Assumptions strict_equals_partial.
Print Assumptions strict_equals_refuted.
Print Assumptions key_hash_agree.
Print Assumptions compare_eq_spec.
Print Assumptions lex_order.
Print Assumptions export_eq_partial.
Print Assumptions export_eq_refuted.
