(* C06 — Strings with equal UTF-16 content are indistinguishable, whatever their origin.
   ONLY theorem statements; each is closed by [exact] of a lemma of C06/Proofs*.v / Utf8.v.
   jsstr = goja's asciiString / unicodeString / importedString; units = the UTF-16 meaning;
   nf = goja's normal form (asciiString all < 0x80, unicodeString has a unit >= 0x80);
   ieval = goja's algorithms on an expression tree, seval = the same tree on plain unit lists (the spec). *)
From Coq Require Import List NArith ZArith Bool.
Import ListNotations.
From Verif.C06 Require Import Model Proofs Utf8 Proofs2 Proofs3 Proofs4 Proofs5.
Local Open Scope N_scope.

(* ---- 1. nf_closed: every constructor and every operation yields a normal-form string ------------------- *)

Theorem nf_closed_constructors : forall (s us cps rs : list N),
  nf (new_string_value s) = true /\ nf (to_value s) = true /\ nf (from_utf16 us) = true /\
  nf (from_code_points cps) = true /\ nf (from_runes rs) = true.
Proof. exact Proofs3.T_nf_closed_constructors. Qed.

Theorem nf_closed : forall a b s e, nf a = true -> nf b = true ->
  nf (concat a b) = true /\ nf (substring a s e) = true /\ nf (devirt a) = true.
Proof. exact Proofs3.T_nf_closed. Qed.

(* unicodeStringBuilder (padStart/padEnd, repeat, template literals): whatever sequence of normal-form strings is
   written, String() is in normal form and its units are the concatenation *)
Theorem builder_nf_units : forall l, Forall (fun s => nf s = true) l ->
  let st := fold_left usb_write l ([], false) in
  nf (usb_string (fst st) (snd st)) = true /\ units (usb_string (fst st) (snd st)) = List.concat (map units l).
Proof. exact Proofs3.T_builder_nf_units. Qed.

(* tree level: for EVERY expression tree over the generated operations (Go leaves with any bytes, valid UTF-8 or not;
   concat, template, slice/substring/substr/at/charAt, padStart/padEnd, repeat, trim*, case mapping, JSON), goja's
   representation of the result is in normal form — no hypothesis at all *)
Theorem nf_closed_trees : forall e : expr, nf (ieval e) = true.
Proof. exact Proofs4.ieval_nf. Qed.

Example nf_closed_nonvacuous :
  nf (SUni [97; 233]) = true /\ substring (SUni [97; 233]) 0 1 = SAscii [97] /\
  concat (SAscii [97]) (SImp [195; 169] false) = SUni [97; 233].
Proof. vm_compute. auto. Qed.

(* ---- 2. strop_eq_spec: the operations act on the UTF-16 units (surrogates are just units) ------------- *)

Theorem constructors_eq_spec : forall (s us cps : list N),
  units (new_string_value s) = flat_map enc16 (decode s) /\ units (to_value s) = flat_map enc16 (decode s) /\
  units (from_utf16 us) = us /\ units (from_code_points cps) = s_from_code_points cps.
Proof. exact Proofs3.T_constructors_eq_spec. Qed.

(* full strength: Concat for all nine pairs, including unscanned+unscanned importedStrings with ANY bytes *)
Theorem strop_eq_spec : forall a b s e i, nf a = true -> nf b = true ->
  units (concat a b) = units a ++ units b /\
  units (substring a s e) = cut (units a) s e /\
  char_at a i = nth i (units a) 0 /\
  length_of a = length (units a) /\
  units (devirt a) = units a.
Proof. exact Proofs3.T_strop_eq_spec. Qed.

(* the byte-joining fast path of importedString.Concat is taken only when this holds *)
Theorem concat_fast_path_sound : forall s t, last_rune_ok s = true -> decode (s ++ t) = decode s ++ decode t.
Proof. exact Utf8.last_rune_ok_app. Qed.

(* ... and the guard is needed (this is the defect repaired by fd1eed7) *)
Example concat_guard_needed : exists s t,
  units (SImp (s ++ t) false) <> units (SImp s false) ++ units (SImp t false) /\ last_rune_ok s = false.
Proof. exact Proofs2.raw_join_wrong. Qed.

(* the builtins as goja composes them from Substring / Concat / the builders, against the spec functions *)
Theorem builtins_eq_spec : forall a f (s e : Z) (n : nat) (st up' : bool) (m : N) l1 l2 l3,
  nf a = true -> nf f = true ->
  units (i_slice a s e) = s_slice (units a) s e /\
  units (i_substring a s e) = s_substring (units a) s e /\
  units (i_substr a s e) = s_substr (units a) s e /\
  units (i_at a s) = s_at (units a) s /\
  units (i_char_at a s) = s_char_at (units a) s /\
  units (i_repeat a n) = s_repeat (units a) n /\
  units (i_pad a s f st) = s_pad (units a) s (units f) st /\
  units (concat_strings (lit_part l1 ++ [a] ++ lit_part l2 ++ [f] ++ lit_part l3)) = l1 ++ units a ++ l2 ++ units f ++ l3 /\
  units (i_trim m a) =
    (if m =? 0 then s_trim (units a) else if m =? 1 then s_trim_start (units a) else s_trim_end (units a)) /\
  units (i_case up' a) = map (if up' then up else low) (units a).
Proof. exact Proofs3.T_builtins_eq_spec. Qed.

(* tree level: every expression tree without a JSON node evaluates to the reference units *)
Theorem tree_eq_spec : forall e, plain e = true -> units (ieval e) = seval e.
Proof. exact Proofs5.ieval_units. Qed.

Example strop_lone_surrogates_preserved :
  units (concat (SUni [55357]) (SUni [56832])) = [55357; 56832] /\
  units (substring (SUni [97; 55357; 56832]) 1 2) = [55357] /\
  units (i_trim 0 (SUni [32; 55296; 32])) = [55296] /\
  units (i_case true (SUni [97; 55296])) = [65; 55296] /\
  units (concat (SImp [97; 195] false) (SImp [169; 98] false)) = [97; 65533; 65533; 98].
Proof. vm_compute. repeat split. Qed.

(* ---- 3. eq_hash_key_agree: full strength, all nine pairs, all byte strings ----------------------------- *)

Theorem eq_hash_key_agree : forall a b, nf a = true -> nf b = true ->
  (strict_equals a b = true <-> units a = units b) /\
  (same_as a b = true <-> units a = units b) /\
  (equals a b = true <-> units a = units b) /\
  (raw_key a = raw_key b <-> units a = units b) /\
  (hash_bytes a = hash_bytes b <-> units a = units b) /\
  (map_hit a b = true <-> units a = units b) /\
  (objkey_hit a b = true <-> units a = units b).
Proof. exact Proofs3.T_eq_hash_key_agree. Qed.

(* non-vacuity, and why importedString.StrictEquals must look at the scanned form (repaired by 8242a43):
   equal units, different bytes *)
Example eq_hash_key_nonvacuous :
  strict_equals (SImp [97; 255] false) (SImp [97; 254] true) = true /\
  raw_key (SImp [195; 169] false) = raw_key (SUni [233]) /\
  raw_key (SAscii [255; 254]) = raw_key (SUni []) (* outside normal form keys can collide: nf is needed *) /\
  (exists s t, units (SImp s false) = units (SImp t false) /\ list_eqb s t = false).
Proof.
  split; [vm_compute; reflexivity|]. split; [vm_compute; reflexivity|]. split; [vm_compute; reflexivity|].
  exact Proofs2.raw_bytes_incomplete.
Qed.

(* ---- 4. compare_eq_spec: CompareTo is the lexicographic order on units, for all nine pairs ------------- *)

Theorem compare_eq_spec : forall a b, compare_to a b = lex (units a) (units b).
Proof. exact Proofs2.compare_to_spec. Qed.

Theorem lex_order : forall a b, (lex a b = Eq <-> a = b) /\ CompOpp (lex a b) = lex b a.
Proof. exact Proofs3.T_lex_order. Qed.

Example compare_nonvacuous :
  compare_to (SAscii [97]) (SImp [97; 195; 169] false) = Lt /\ compare_to (SUni [65535]) (SUni [55296; 56320]) = Gt.
Proof. vm_compute. auto. Qed.

(* ---- 5. export_eq ---------------------------------------------------------------------------------------- *)

(* UTF-8 round trip: a well-formed byte string is the UTF-8 encoding of its runes, all scalar values *)
Theorem utf8_roundtrip : forall s r, decode_strict s = Some r -> flat_map enc8 r = s /\ Forall scalar r.
Proof. exact Utf8.utf8_roundtrip. Qed.

Theorem utf16_roundtrip : forall r, Forall scalar r -> dec16 (flat_map enc16 r) = r.
Proof. exact Utf8.utf16_roundtrip. Qed.

(* Export = UTF-8 of the units (U+FFFD for lone surrogates) for asciiString, unicodeString and every importedString
   holding well-formed UTF-8 *)
Theorem export_eq : forall a, nf a = true -> (forall s sc, a = SImp s sc -> valid_utf8 s = true) ->
  export a = s_export (units a).
Proof. exact Proofs2.export_spec. Qed.

(* still true of the code (left as API behaviour, open finding F19): an importedString with invalid UTF-8 exports
   its raw bytes *)
Theorem export_eq_refuted : exists a, nf a = true /\ export a <> s_export (units a).
Proof. exact Proofs2.export_imported_refuted. Qed.

Example export_lone_surrogate : export (SUni [97; 55296]) = [97; 239; 191; 189] /\ valid_utf8 [240; 159; 152; 128] = true.
Proof. vm_compute. auto. Qed.

(* ---- 6. the property, end to end on the model ---------------------------------------------------------- *)

Theorem equal_trees_indistinguishable : forall e1 e2, plain e1 = true -> plain e2 = true -> seval e1 = seval e2 ->
  let a := ieval e1 in let b := ieval e2 in
  strict_equals a b = true /\ strict_equals b a = true /\ same_as a b = true /\ equals a b = true /\
  compare_to a b = Eq /\ compare_to b a = Eq /\
  map_hit a b = true /\ map_hit b a = true /\ objkey_hit a b = true /\ hash_bytes a = hash_bytes b /\
  length_of a = length_of b /\ (forall i, char_at a i = char_at b i).
Proof. exact Proofs3.T_equal_trees_indistinguishable. Qed.

Theorem different_trees_ordered : forall e1 e2, plain e1 = true -> plain e2 = true -> seval e1 <> seval e2 ->
  strict_equals (ieval e1) (ieval e2) = false /\ map_hit (ieval e1) (ieval e2) = false /\
  objkey_hit (ieval e1) (ieval e2) = false /\ compare_to (ieval e1) (ieval e2) = lex (seval e1) (seval e2) /\
  compare_to (ieval e1) (ieval e2) <> Eq.
Proof. exact Proofs3.T_different_trees_ordered. Qed.

Example equal_trees_nonvacuous :
  let e1 := EConcat (EImp [97; 255]) (ELit [55357]) in
  let e2 := ESlice (EPad true (EU16 [65533; 55357]) 3%Z (EGo [97])) 0%Z 9%Z in
  plain e1 = true /\ plain e2 = true /\ seval e1 = seval e2 /\ seval e1 = [97; 65533; 55357].
Proof. vm_compute. auto. Qed.

Print Assumptions nf_closed_constructors.
Print Assumptions nf_closed.
Print Assumptions builder_nf_units.
Print Assumptions nf_closed_trees.
Print Assumptions constructors_eq_spec.
Print Assumptions strop_eq_spec.
Print Assumptions concat_fast_path_sound.
Print Assumptions builtins_eq_spec.
Print Assumptions tree_eq_spec.
Print Assumptions eq_hash_key_agree.
Print Assumptions compare_eq_spec.
Print Assumptions lex_order.
Print Assumptions utf8_roundtrip.
Print Assumptions utf16_roundtrip.
Print Assumptions export_eq.
Print Assumptions export_eq_refuted.
Print Assumptions equal_trees_indistinguishable.
Print Assumptions different_trees_ordered.
