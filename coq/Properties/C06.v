(* C06 — Strings with equal UTF-16 content are indistinguishable, whatever their origin. *)
From Coq Require Import List NArith ZArith Bool.
Import ListNotations.
From Verif.C06 Require Import Model Proofs.

Theorem list_eqb_eq : forall a b, list_eqb a b = true <-> a = b.
Proof. exact Proofs.list_eqb_eq. Qed.

Print Assumptions list_eqb_eq.
