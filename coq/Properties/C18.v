(* C18 — Map and Set are insertion-ordered SameValueZero dictionaries, even while mutated.
   ONLY theorem statements; each is closed by [exact] of a lemma of C18/Proofs.v. *)
From Coq Require Import List Arith ZArith NArith Bool.
Import ListNotations.
From Verif.C18 Require Import Model Proofs HashModel.
From Verif.C18 Require Hash.

Section C18.
Context {K V : Type} (same : K -> K -> bool) (norm : K -> K) (H : K -> N).
Hypothesis H_respects : forall a b, same a b = true -> H a = H b.
Hypothesis norm_idem : forall k, norm (norm k) = norm k.

Local Notation istep := (@istep K V same norm H).
Local Notation sstep := (@sstep K V same norm).

(* 1. Refinement: for EVERY history of set/get/has/delete/clear/newIter/next/size, with any number of
      live iterators advanced at arbitrary points, goja's orderedMap (hash chains + doubly linked list
      with tombstones + back-tracking iterators) returns exactly what the specification's append-only
      [[MapData]] list with index iterators returns. *)
Theorem om_refines : forall ops : list (@op K V),
  snd (run istep iinit ops) = snd (run sstep sinit ops).
Proof. exact (Proofs.om_refines same norm H H_respects norm_idem). Qed.

(* 2. size is always the number of live entries *)
Theorem om_size_live : forall ops : list (@op K V),
  let m := fst (fst (run istep iinit ops)) in
  size m = length (filter (fun e => match ekey e with Some _ => true | None => false end) (ents m)).
Proof. exact (Proofs.om_size_live same norm H H_respects norm_idem). Qed.

(* 3. What the specification-side iterator guarantees (hence, by 1, what goja's does):
      a step returns the first entry that is present at or after the cursor, skipping only empty
      positions, and moves the cursor past it — so no surviving entry is skipped, none is revisited
      (positions are never reused: 4), and order is insertion order. *)
Theorem siter_next_some : forall (d : @sdata K V) it it' kv,
  sdone it = false -> siter_next d it = (it', Some kv) ->
  exists j, sidx it <= j /\ nth_error d j = Some (Some kv) /\
            (forall i, sidx it <= i < j -> nth_error d i = Some None) /\
            sidx it' = S j /\ sdone it' = false.
Proof. exact Proofs.siter_next_some. Qed.

Theorem siter_next_none : forall (d : @sdata K V) it it',
  sdone it = false -> siter_next d it = (it', None) ->
  (forall i, sidx it <= i < length d -> nth_error d i = Some None) /\ sdone it' = true.
Proof. exact Proofs.siter_next_none. Qed.

Theorem siter_done_stays : forall (d : @sdata K V) it,
  sdone it = true -> siter_next d it = (it, None).
Proof. exact Proofs.siter_done_stays. Qed.

(* 4. [[MapData]] positions are stable: the list only grows, and a position keeps its key until it is
      emptied; an emptied position stays empty. *)
Theorem sdata_positions_stable : forall (s : @sstate K V) o i,
  let d := fst s in let d' := fst (fst (sstep s o)) in
  length d <= length d' /\
  (i < length d ->
     match nth_error d i, nth_error d' i with
     | Some None, Some None => True
     | Some (Some (k, _)), Some (Some (k', _)) => k' = k
     | Some (Some _), Some None => True
     | _, _ => False
     end).
Proof. exact (Proofs.sdata_positions_stable same norm). Qed.

(* 5. Keys are unique up to SameValueZero along every history, provided SameValue is an equivalence. *)
Theorem sdata_keys_unique :
  (forall a, same a a = true) ->
  (forall a b, same a b = true -> same b a = true) ->
  (forall a b c, same a b = true -> same b c = true -> same a c = true) ->
  forall (ops : list (@op K V)) i j ki vi kj vj,
  let d := fst (fst (run sstep sinit ops)) in
  nth_error d i = Some (Some (ki, vi)) -> nth_error d j = Some (Some (kj, vj)) ->
  svz same norm ki kj = true -> i = j.
Proof. exact (Proofs.sdata_keys_unique same norm norm_idem). Qed.

End C18.

(* ------------------------------------------------------------------------------------------------------
   6. The hypotheses of 1 hold of goja's REAL key functions (coq/C18/HashModel.v: Value.SameAs per
      constructor pair, the negative-zero normalisation of map.go, the hash(hasher) methods; numbers are C05's
      valueInt/valueFloat, strings C06's three representations).  maphash, the four package-level hash words,
      the addresses of Symbols and Objects and the identity hash of wrapped Go values are arbitrary (section variables): nothing is assumed of them. *)
Section C18_JS.
Variables hashTrue hashFalse hashNull hashUndef : N.
Variable mh : list N -> N.
Variables ptr_sym ptr_obj host_hash : N -> N.
Local Notation goja_hash := (goja_hash hashTrue hashFalse hashNull hashUndef mh ptr_sym ptr_obj host_hash).
Local Notation wf_hash := (Hash.wf_hash hashTrue hashFalse hashNull hashUndef mh ptr_sym ptr_obj host_hash).

Theorem hash_respects_svz : forall a b, key_wf a = true -> key_wf b = true ->
  goja_same (goja_norm a) (goja_norm b) = true -> goja_hash (goja_norm a) = goja_hash (goja_norm b).
Proof. exact (Hash.hash_respects_svz hashTrue hashFalse hashNull hashUndef mh ptr_sym ptr_obj host_hash). Qed.

(* without the normalisation too: SameAs alone forces equal hashes on well-formed keys *)
Theorem hash_respects_same : forall a b, key_wf a = true -> key_wf b = true ->
  goja_same a b = true -> goja_hash a = goja_hash b.
Proof. exact (Hash.hash_respects_same hashTrue hashFalse hashNull hashUndef mh ptr_sym ptr_obj host_hash). Qed.

(* SameValueZero-equal keys hash alike even before normalisation (number case: C05 hash_respects_svz_num) *)
Theorem hash_respects_svz_raw : forall a b, key_wf a = true -> key_wf b = true ->
  goja_same (goja_norm a) (goja_norm b) = true -> goja_hash a = goja_hash b.
Proof. exact (Hash.hash_respects_svz_raw hashTrue hashFalse hashNull hashUndef mh ptr_sym ptr_obj host_hash). Qed.

Example hash_respects_svz_nonvacuous :
  let a := VStr (M6.SImp [195; 169]%N false) in let b := VStr (M6.SUni [233]%N) in   (* "é" imported / unicode *)
  let c := VNum (M5.NFlt (F64.of_bits 9223372036854775808)) in let d := VNum (M5.NInt 0) in   (* -0 / +0 *)
  key_wf a = true /\ key_wf b = true /\ goja_same (goja_norm a) (goja_norm b) = true /\ a <> b /\
  key_wf c = true /\ key_wf d = true /\ goja_same (goja_norm c) (goja_norm d) = true /\ goja_same c d = false.
Proof. vm_compute. repeat split; discriminate. Qed.

(* why key_wf is there: (a) the valueFloat 1.0 is SameAs the valueInt 1 and hashes to its bit pattern - this is
   how C05's canonicality defects were visible through Map and Set *)
Theorem hash_respects_refuted_noncanonical :
  let a := VNum (M5.NFlt M5.fone) in let b := VNum (M5.NInt 1) in
  key_wf a = false /\ key_wf b = true /\
  goja_same (goja_norm a) (goja_norm b) = true /\
  goja_hash (goja_norm a) = 4607182418800017408%N /\ goja_hash (goja_norm b) = 1%N /\
  goja_hash (goja_norm a) <> goja_hash (goja_norm b).
Proof. exact (Hash.hash_respects_refuted_noncanonical hashTrue hashFalse hashNull hashUndef mh ptr_sym ptr_obj host_hash). Qed.

(* (b) two wrappers of one Go value (and the template objects of one site) are SameAs through objectImpl.equal.
   Their hash was the wrapper's address (finding C18-H1); since 813b109 it is the hashIdentity of what they wrap,
   so key_wf no longer excludes them and 6 holds of them unconditionally.  Witness that they are covered: *)
Theorem hostwrapper_same_hash :
  let a := VObj 1 (Some 7%N) in let b := VObj 2 (Some 7%N) in let c := VObj 1 None in
  key_wf a = true /\ key_wf b = true /\ a <> b /\ goja_same (goja_norm a) (goja_norm b) = true /\
  goja_hash (goja_norm a) = goja_hash (goja_norm b) /\ goja_same a c = false.
Proof. exact (Hash.hostwrapper_same_hash hashTrue hashFalse hashNull hashUndef mh ptr_sym ptr_obj host_hash). Qed.

(* 7. what goja compares with IS ECMAScript SameValueZero on the values' denotations (numbers: mathematical
      value, C05 sameValueZero_sound; strings: UTF-16 units, C06 eq_hash_key_agree; the rest: identity) *)
Theorem goja_same_is_svz : forall a b, key_wf a = true -> key_wf b = true ->
  goja_same (goja_norm a) (goja_norm b) = svz_spec a b.
Proof. exact Hash.goja_same_is_svz. Qed.

Theorem goja_norm_wf : forall a, key_wf a = true -> key_wf (goja_norm a) = true.
Proof. exact Hash.norm_wf. Qed.
Theorem goja_norm_idem : forall a, goja_norm (goja_norm a) = goja_norm a.
Proof. exact Hash.norm_idem. Qed.

(* 8. Theorem 1 at the JS values: keys are the well-formed values (a subset type; same/norm/hash are goja's,
      applied to the underlying value).  For EVERY history of Map/Set operations over well-formed JS values,
      orderedMap with goja's real hash and SameAs returns what the SameValueZero [[MapData]] list returns. *)
Theorem om_refines_js : forall (V : Type) (ops : list (@op Hash.wfkey V)),
  snd (run (istep Hash.wf_same Hash.wf_norm wf_hash) iinit ops) =
  snd (run (sstep Hash.wf_same Hash.wf_norm) sinit ops).
Proof. exact (Hash.om_refines_js hashTrue hashFalse hashNull hashUndef mh ptr_sym ptr_obj host_hash). Qed.

(* 8'. the same statement over plain JS values: every history whose keys are all well-formed (obtained from 8 by
       the renaming lemma of coq/C18/Transfer.v; no key of such a history is left out by the subset type) *)
Theorem om_refines_js_raw : forall (V : Type) (ops : list (@op jsval V)), Forall Hash.op_wf ops ->
  snd (run (istep goja_same goja_norm goja_hash) iinit ops) = snd (run (sstep goja_same goja_norm) sinit ops).
Proof. exact (Hash.om_refines_js_raw hashTrue hashFalse hashNull hashUndef mh ptr_sym ptr_obj host_hash). Qed.

(* the three functions are literally goja's on the underlying value *)
Theorem wfkey_functions : forall a b : Hash.wfkey,
  Hash.wf_same a b = goja_same (proj1_sig a) (proj1_sig b) /\
  proj1_sig (Hash.wf_norm a) = goja_norm (proj1_sig a) /\
  wf_hash a = goja_hash (proj1_sig a) /\
  svz Hash.wf_same Hash.wf_norm a b = svz_spec (proj1_sig a) (proj1_sig b).
Proof. exact (Hash.wfkey_functions hashTrue hashFalse hashNull hashUndef mh ptr_sym ptr_obj host_hash). Qed.

(* SameValueZero on well-formed keys is an equivalence: the premises of 5 hold at the JS values *)
Theorem wf_same_equiv :
  (forall a : Hash.wfkey, Hash.wf_same a a = true) /\
  (forall a b : Hash.wfkey, Hash.wf_same a b = true -> Hash.wf_same b a = true) /\
  (forall a b c : Hash.wfkey, Hash.wf_same a b = true -> Hash.wf_same b c = true -> Hash.wf_same a c = true).
Proof. exact Hash.wf_same_equiv. Qed.

(* 9. iteration order: after ANY history, a fresh iterator drained by k calls of next() yields exactly the
      entries present in [[MapData]], in position (= insertion, by 4) order, then "done" for ever. *)
Theorem map_iteration_order_js : forall (V : Type) (ops : list (@op Hash.wfkey V)) k,
  let d := fst (fst (run (sstep Hash.wf_same Hash.wf_norm) sinit ops)) in
  let n := length (snd (fst (run (sstep Hash.wf_same Hash.wf_norm) sinit ops))) in
  skipn (length ops) (snd (run (istep Hash.wf_same Hash.wf_norm wf_hash) iinit (ops ++ ONewIter :: repeat (ONext n) k))) =
  RNat n :: map (fun kv => REntry (Some kv)) (firstn k (Hash.live d)) ++ repeat (REntry None) (k - length (Hash.live d)).
Proof. exact (Hash.map_iteration_order_js hashTrue hashFalse hashNull hashUndef mh ptr_sym ptr_obj host_hash). Qed.

(* 10. symtab_same_structure: baseObject.symValues is newOrderedMap(nil) keyed by Symbols: same = pointer
       equality, norm = identity, hash = the Symbol's address (the nil hasher is never touched).  It refines the
       same [[MapData]]-style list, hence OrdinaryOwnPropertyKeys' symbol part (baseObject.symbols(all): a fresh
       iterator drained) = the live symbol properties in insertion order. *)
Theorem symtab_same_structure : forall (V : Type) (ops : list (@op N V)),
  snd (run (istep sym_same sym_norm ptr_sym) iinit ops) = snd (run (sstep sym_same sym_norm) sinit ops).
Proof. intros V. exact (Hash.symtab_same_structure ptr_sym). Qed.

Theorem symtab_ownkeys_order : forall (V : Type) (ops : list (@op N V)) k,
  let d := fst (fst (run (sstep sym_same sym_norm) sinit ops)) in
  let n := length (snd (fst (run (sstep sym_same sym_norm) sinit ops))) in
  skipn (length ops) (snd (run (istep sym_same sym_norm ptr_sym) iinit (ops ++ ONewIter :: repeat (ONext n) k))) =
  RNat n :: map (fun kv => REntry (Some kv)) (firstn k (Hash.live d)) ++ repeat (REntry None) (k - length (Hash.live d)).
Proof. intros V. exact (Hash.symtab_ownkeys_order ptr_sym). Qed.

Theorem symtab_svz_is_identity : forall a b, svz sym_same sym_norm a b = true <-> a = b.
Proof. exact Hash.symtab_svz_is_identity. Qed.

(* non-vacuity of 9/10: set s5, s7, s6; delete s7; set s5 again: keys come out as s5, s6 *)
Example symtab_ownkeys_nonvacuous :
  let ops := [OSet 5%N 1; OSet 7%N 2; OSet 6%N 3; ODel 7%N; OSet 5%N 4] in
  skipn 5 (snd (run (istep sym_same sym_norm (fun i => N.modulo i 2)) iinit (ops ++ ONewIter :: repeat (ONext 0) 3))) =
  [RNat 0; REntry (Some (5%N, 4)); REntry (Some (6%N, 3)); REntry None].
Proof. vm_compute. reflexivity. Qed.

End C18_JS.

(* non-vacuity of 8': -0 / +0 and an imported / a unicode "e-acute" are one key each; with a hash that collides on
   everything of equal length the chains are exercised *)
Example om_refines_js_nonvacuous :
  let h := goja_hash 1 2 3 4 (fun l => N.of_nat (length l)) (fun i => i) (fun i => i) (fun i => i) in
  let ops := [OSet (VNum (M5.NFlt (F64.of_bits 9223372036854775808))) 1; OSet (VStr (M6.SImp [195; 169]%N false)) 2;
              OSet (VStr (M6.SUni [234]%N)) 3; OGet (VNum (M5.NInt 0)); OHas (VStr (M6.SUni [233]%N));
              ODel (VStr (M6.SUni [233]%N)); OGet (VStr (M6.SUni [234]%N)); OSize] in
  Forall Hash.op_wf ops /\
  snd (run (istep goja_same goja_norm h) iinit ops) =
    [RUnit; RUnit; RUnit; RVal (Some 1); RBool true; RBool true; RVal (Some 3); RNat 2].
Proof. split; [repeat constructor|vm_compute; reflexivity]. Qed.

Print Assumptions om_refines.
Print Assumptions om_size_live.
Print Assumptions siter_next_some.
Print Assumptions siter_next_none.
Print Assumptions siter_done_stays.
Print Assumptions sdata_positions_stable.
Print Assumptions sdata_keys_unique.
Print Assumptions hash_respects_svz.
Print Assumptions hash_respects_same.
Print Assumptions hash_respects_svz_raw.
Print Assumptions hash_respects_refuted_noncanonical.
Print Assumptions hostwrapper_same_hash.
Print Assumptions goja_same_is_svz.
Print Assumptions om_refines_js.
Print Assumptions om_refines_js_raw.
Print Assumptions wfkey_functions.
Print Assumptions wf_same_equiv.
Print Assumptions map_iteration_order_js.
Print Assumptions symtab_same_structure.
Print Assumptions symtab_ownkeys_order.
