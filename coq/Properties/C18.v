(* C18 — Map and Set are insertion-ordered SameValueZero dictionaries, even while mutated.
   ONLY theorem statements; each is closed by [exact] of a lemma of C18/Proofs.v. *)
From Coq Require Import List Arith NArith Bool.
Import ListNotations.
From Verif.C18 Require Import Model Proofs.

Section C18.
Context {K V : Type} (same : K -> K -> bool) (norm : K -> K) (H : K -> N).
Hypothesis H_respects : forall a b, same a b = true -> H a = H b.
Hypothesis norm_idem : forall k, norm (norm k) = norm k.

Local Notation istep := (@istep K V same norm H).
Local Notation sstep := (@sstep K V same norm).

(* 1. Refinement: for EVERY history of set/get/has/delete/clear/newIter/next/size, with any number of
      live iterators advanced at arbitrary points, goja's orderedMap (hash chains + doubly linked list
      with tombstones + back-tracking iterators) returns exactly what the specification's append-only
      [[MapData]] list with index iterators returns. *)
Theorem om_refines : forall ops : list (@op K V),
  snd (run istep iinit ops) = snd (run sstep sinit ops).
Proof. exact (Proofs.om_refines same norm H H_respects norm_idem). Qed.

(* 2. size is always the number of live entries *)
Theorem om_size_live : forall ops : list (@op K V),
  let m := fst (fst (run istep iinit ops)) in
  size m = length (filter (fun e => match ekey e with Some _ => true | None => false end) (ents m)).
Proof. exact (Proofs.om_size_live same norm H H_respects norm_idem). Qed.

(* 3. What the specification-side iterator guarantees (hence, by 1, what goja's does):
      a step returns the first entry that is present at or after the cursor, skipping only empty
      positions, and moves the cursor past it — so no surviving entry is skipped, none is revisited
      (positions are never reused: 4), and order is insertion order. *)
Theorem siter_next_some : forall (d : @sdata K V) it it' kv,
  sdone it = false -> siter_next d it = (it', Some kv) ->
  exists j, sidx it <= j /\ nth_error d j = Some (Some kv) /\
            (forall i, sidx it <= i < j -> nth_error d i = Some None) /\
            sidx it' = S j /\ sdone it' = false.
Proof. exact Proofs.siter_next_some. Qed.

Theorem siter_next_none : forall (d : @sdata K V) it it',
  sdone it = false -> siter_next d it = (it', None) ->
  (forall i, sidx it <= i < length d -> nth_error d i = Some None) /\ sdone it' = true.
Proof. exact Proofs.siter_next_none. Qed.

Theorem siter_done_stays : forall (d : @sdata K V) it,
  sdone it = true -> siter_next d it = (it, None).
Proof. exact Proofs.siter_done_stays. Qed.

(* 4. [[MapData]] positions are stable: the list only grows, and a position keeps its key until it is
      emptied; an emptied position stays empty. *)
Theorem sdata_positions_stable : forall (s : @sstate K V) o i,
  let d := fst s in let d' := fst (fst (sstep s o)) in
  length d <= length d' /\
  (i < length d ->
     match nth_error d i, nth_error d' i with
     | Some None, Some None => True
     | Some (Some (k, _)), Some (Some (k', _)) => k' = k
     | Some (Some _), Some None => True
     | _, _ => False
     end).
Proof. exact (Proofs.sdata_positions_stable same norm). Qed.

(* 5. Keys are unique up to SameValueZero along every history, provided SameValue is an equivalence. *)
Theorem sdata_keys_unique :
  (forall a, same a a = true) ->
  (forall a b, same a b = true -> same b a = true) ->
  (forall a b c, same a b = true -> same b c = true -> same a c = true) ->
  forall (ops : list (@op K V)) i j ki vi kj vj,
  let d := fst (fst (run sstep sinit ops)) in
  nth_error d i = Some (Some (ki, vi)) -> nth_error d j = Some (Some (kj, vj)) ->
  svz same norm ki kj = true -> i = j.
Proof. exact (Proofs.sdata_keys_unique same norm norm_idem). Qed.

End C18.

Print Assumptions om_refines.
Print Assumptions om_size_live.
Print Assumptions siter_next_some.
Print Assumptions siter_next_none.
Print Assumptions siter_done_stays.
Print Assumptions sdata_positions_stable.
Print Assumptions sdata_keys_unique.
