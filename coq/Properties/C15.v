(* C15 — An interrupt from any goroutine at any moment stops the script promptly, cleanly.
   ONLY theorem statements; each is closed by [exact] of a lemma of C15/Proofs.v. *)
From Coq Require Import List Arith NArith Bool.
Import ListNotations.
From Verif.C15 Require Import Model Proofs Clean.

(* ---- 1. promptly ------------------------------------------------------------------------- *)

(* The run loop of vm.run() for an ARBITRARY instruction semantics [exec], halting condition and environment
   (another goroutine acting between the poll and the instruction: env_mid, or during/after it: env_end).
   If the flag is set when iteration [it] polls, or becomes set before the next poll, this loop executes
   at most ONE more instruction (0 in the first case) and then unwinds; or it had already halted. *)
Theorem interrupt_prompt : forall (S : Type) (flag halted : S -> bool) (exec : S -> S) (env_mid env_end : nat -> S -> S)
  fuel it n s,
  (flag s = true \/ flag (env_end it (exec (env_mid it s))) = true) ->
  (exists s' n', loop S flag halted exec env_mid env_end (Datatypes.S (Datatypes.S fuel)) it n s = LInterrupted s' n'
                 /\ n' <= Datatypes.S n)
  \/ (exists s' n', loop S flag halted exec env_mid env_end (Datatypes.S (Datatypes.S fuel)) it n s = LHalted s' n' /\ n' = n).
Proof. exact Proofs.loop_prompt. Qed.

Theorem interrupt_prompt_at_poll : forall (S : Type) (flag halted : S -> bool) (exec : S -> S) env_mid env_end fuel it n s,
  flag s = true -> loop S flag halted exec env_mid env_end (Datatypes.S fuel) it n s = LInterrupted s n.
Proof. exact Proofs.loop_set_at_poll. Qed.

(* Nested native -> JS re-entries (vm.try, __call, nested RunProgram, generator resumption, promise job):
   EVERY run loop of the control skeleton, for every instruction stream and every state — any nesting depth, any
   stacks — that is entered or continued while the flag is set executes no instruction, logs nothing and unwinds
   with the InterruptedError carrying the stored value. *)
Theorem interrupt_prompt_every_level : forall c p s, flag s = true ->
  exec_c c p s = (OIntr (ival (tick c s)), tick c s).
Proof. exact Proofs.exec_c_flag_set. Qed.

(* Hence, over the WHOLE execution tree of one API call — every program, entry point, nesting, every moment
   [fire c] at which another goroutine calls Interrupt, with or without ClearInterrupt by the script — at most one
   instruction is started while the flag is set; the bound does not depend on the program. *)
Theorem interrupt_prompt_total : forall c fuel e p o s',
  run_top c fuel e p idle0 = (o, s') -> late s' <= 1.
Proof. exact Proofs.late_at_most_one. Qed.

(* ... and none when the interrupt is raised by the running goroutine itself (from a Go function) *)
Theorem interrupt_prompt_sync : forall c fuel e p o s',
  fire c = None -> run_top c fuel e p idle0 = (o, s') -> late s' = 0.
Proof. exact Proofs.late_zero_sync. Qed.

(* ---- 2. no handler ------------------------------------------------------------------------ *)

(* handleThrow with an uncatchable payload, for EVERY try stack: it never transfers control to a catch or
   finally block; it pops handler frames only and stops at the first tryPanicMarker frame (or the empty stack),
   then panics again. *)
Theorem interrupt_runs_no_handler : forall ts,
  snd (handle_throw false ts) = HRepanic /\
  (forall f, In f (fst (handle_throw false ts)) -> In f ts) /\
  match fst (handle_throw false ts) with
  | [] => forallb (fun f => negb (is_marker f)) ts = true
  | f :: _ => is_marker f = true
  end.
Proof. exact Proofs.handle_throw_uncatchable. Qed.

Theorem interrupt_skips_exactly_handlers : forall ts,
  exists hs, ts = hs ++ fst (handle_throw false ts) /\ forallb (fun f => negb (is_marker f)) hs = true.
Proof. exact Proofs.handle_throw_uncatchable_split. Qed.

(* ---- 3. idle ------------------------------------------------------------------------------ *)

(* Interrupt(v) while idle: the next call (RunProgram or a Callable), whatever the program, returns the
   InterruptedError carrying v before its first instruction, and leaves the runtime idle with the flag cleared. *)
Theorem idle_interrupt_next_call : forall k cl fuel e p v,
  let c := mkCfg k cl None in
  exists s', run_top c fuel e p (interrupt v idle0) = (OIntr v, s')
             /\ log s' = [] /\ pcnt s' = 0 /\ late s' = 0 /\ is_idle s' = true.
Proof. exact Proofs.idle_interrupt_next. Qed.

(* ... unless ClearInterrupt was called: then the call runs as on a fresh runtime *)
Theorem idle_interrupt_cleared : forall k cl fuel e p v,
  let c := mkCfg k cl None in
  run_top c fuel e p (clear_interrupt (interrupt v idle0)) = run_top c fuel e p (mkSt 0 [] [] [] false v [] 0 0 0).
Proof. exact Proofs.idle_interrupt_cleared_runs. Qed.

(* ---- 4. no race on interruptVal ----------------------------------------------------------- *)

(* EVERY interleaving (any length) of any number of threads, each running any number of Interrupt(v) calls
   (Lock; Wr v; AtomicWr flag; Unlock) or any number of run-loop polls (AtomicRd flag; if set: Lock; Rd v; Unlock),
   each thread possibly not finished yet, in which the mutex is respected: any two conflicting plain accesses
   to interruptVal by different threads are ordered by happens-before — already by program order + lock order. *)
Theorem no_race_flag : forall (tr : trace) (progs : nat -> list event),
  lock_ok None tr = true ->
  (forall t, protocol_thread (progs t)) ->
  (forall t, exists more, progs t = proj t tr ++ more) ->
  forall i j, i < j -> j < length tr ->
  fst (ev_at tr i) <> fst (ev_at tr j) ->
  conflicting (snd (ev_at tr i)) (snd (ev_at tr j)) = true ->
  hb hb1_lock tr i j /\ hb hb1 tr i j.
Proof. exact Proofs.no_race_protocol. Qed.

(* ---- 5. cleanly --------------------------------------------------------------------------- *)

(* For EVERY program (generator resumptions, async functions and their continuations, promise jobs, iterators
   with return(), nested RunString, Callables ... included), every entry point, every interrupt position (k-th
   probe, or another goroutine at any micro-step), with or without ClearInterrupt, from any state whose stacks
   are idle: after the API call returns, callStack, tryStack and iterStack are back at their idle values whatever
   the outcome; if it returned the InterruptedError, the job queue has been dropped and the flag is cleared.
   (No guard: F16 was repaired by 195c9cc, F20 by 22853aa; the former refutation witnesses are now instances.) *)
Theorem interrupt_clean : forall c fuel e p s o s',
  cs s = 0 -> ts s = [] -> its s = [] ->
  run_top c fuel e p s = (o, s') ->
  cs s' = 0 /\ ts s' = [] /\ its s' = [] /\ (forall t, o = OIntr t -> is_idle s' = true).
Proof. exact Clean.interrupt_clean_from. Qed.

Definition w_gen : code := CCons (IGen (SCons (CCons IProbe CNil) (SCons (CCons IProbe CNil) SNil))) CNil.
Definition w_async : code := CCons (IAsyncN (SCons (CCons IProbe CNil) SNil) (SCons (CCons IProbe CNil) SNil)) CNil.
(* outer awaits middle awaits inner; the interrupt arrives in inner after its await *)
Definition w_async3 : code :=
  CCons (IAsyncN (SCons CNil (SCons CNil (SCons CNil SNil)))
                 (SCons (CCons IProbe (CCons (IEv 8%N) CNil)) (SCons (CCons (IEv 16%N) CNil) (SCons (CCons (IEv 24%N) CNil) SNil)))) CNil.
Definition w_iter : code := CCons (IForOf (Some 11%N) (SCons (CCons IProbe CNil) (SCons (CCons IProbe CNil) SNil))) CNil.

Example interrupt_clean_on_former_witnesses :
  (let '(o, s) := run_top (mkCfg 2 false None) 8 ERun w_gen idle0 in o = OIntr 1002%N /\ is_idle s = true) /\
  (let '(o, s) := run_top (mkCfg 2 false None) 8 ERun w_async idle0 in o = OIntr 1002%N /\ is_idle s = true) /\
  (let '(o, s) := run_top (mkCfg 1 false None) 8 ERun w_iter idle0 in
   o = OIntr 1001%N /\ is_idle s = true /\ rev (log s) = [7%N]) /\
  (let '(o, s) := run_top (mkCfg 1 false None) 8 ERun w_async3 idle0 in
   o = OIntr 1001%N /\ is_idle s = true /\ rev (log s) = [7%N]) /\
  (let '(o, s) := run_top (mkCfg 0 false None) 8 ERun w_async3 idle0 in
   o = ONorm /\ is_idle s = true /\ rev (log s) = [7%N; 8%N; 16%N; 24%N]).
Proof. vm_compute. repeat split. Qed.

(* ---- non-vacuity -------------------------------------------------------------------------- *)

(* the bound 1 is attained: another goroutine fires between the poll and the exec of the second instruction *)
Example prompt_bound_tight :
  let '(o, s) := run_top (mkCfg 0 false (Some (3, 55%N))) 8 ERun (CCons (IEv 8%N) (CCons (IEv 16%N) (CCons (IEv 24%N) CNil))) idle0 in
  o = OIntr 55%N /\ late s = 1 /\ rev (log s) = [8%N; 16%N] /\ is_idle s = true.
Proof. vm_compute. repeat split. Qed.

(* an interrupt inside try/catch/finally inside a comparator inside a Callable: nothing logged afterwards, jobs dropped *)
Example no_handler_runs :
  let p := CCons (IJob (CCons (IEv 12%N) CNil))
           (CCons (ITry (CCons (INat NCb (SCons (CCons IProbe (CCons (IEv 8%N) CNil)) SNil)) CNil)
                        true (CCons (IEv 17%N) CNil) true (CCons (IEv 18%N) CNil)) (CCons (IEv 24%N) CNil)) in
  let '(o, s) := run_top (mkCfg 1 false None) 8 ECall p idle0 in
  o = OIntr 1001%N /\ rev (log s) = [7%N] /\ is_idle s = true.
Proof. vm_compute. repeat split. Qed.

Example handle_throw_example :
  handle_throw false [mkFrame 3 0 (FHandler true true); mkFrame 2 0 (FHandler false true); mkFrame 1 0 FMarker; mkFrame 1 0 (FHandler true false)]
  = ([mkFrame 1 0 FMarker; mkFrame 1 0 (FHandler true false)], HRepanic).
Proof. reflexivity. Qed.

(* two interrupters and the runner, interleaved; the hypotheses of no_race_flag hold and there are conflicting pairs *)
Definition ex_trace : trace :=
  [(0, ARd false); (1, Lock); (1, Wr 5%N); (0, ARd false); (1, AWr true); (1, Unlock); (0, ARd true); (2, Lock);
   (2, Wr 6%N); (2, AWr true); (2, Unlock); (0, Lock); (0, Rd 6%N); (0, Unlock)].
Example no_race_nonvacuous :
  lock_ok None ex_trace = true /\
  proj 0 ex_trace = runner_polls [None; None; Some 6%N] /\
  proj 1 ex_trace = interrupter_calls [5%N] /\
  (exists more, interrupter_calls [6%N; 7%N] = proj 2 ex_trace ++ more) /\
  conflicting (snd (ev_at ex_trace 2)) (snd (ev_at ex_trace 12)) = true /\
  conflicting (snd (ev_at ex_trace 2)) (snd (ev_at ex_trace 8)) = true.
Proof. vm_compute. repeat split. exists (interrupter 7%N). reflexivity. Qed.

Print Assumptions interrupt_prompt.
Print Assumptions interrupt_prompt_at_poll.
Print Assumptions interrupt_prompt_every_level.
Print Assumptions interrupt_prompt_total.
Print Assumptions interrupt_prompt_sync.
Print Assumptions interrupt_runs_no_handler.
Print Assumptions interrupt_skips_exactly_handlers.
Print Assumptions idle_interrupt_next_call.
Print Assumptions idle_interrupt_cleared.
Print Assumptions no_race_flag.
Print Assumptions interrupt_clean.
