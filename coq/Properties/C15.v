From Coq Require Import List Arith NArith Bool.
From Verif.C15 Require Import Model.
Theorem placeholder : True. Proof. exact I. Qed.
Print Assumptions placeholder.
