(* C05/GoSem — the meaning of the Go subset that harness/cmd/go2v translates (target library of the
   GENERATED file C05/LeafGen.v).  Executable definitions only (vm_compute works on all of them).

   Go type                          Gallina
   int8..int64, uint8..uint64, int  Z, kept inside the range of the type by an explicit wrap after every
                                    arithmetic operation / narrowing conversion (two's complement)
   float64                          Verif.Base.F64.f64 (stdlib SpecFloat), IEEE operations = SF* of SpecFloat
   bool                             bool
   Value holding a Number           Model.jsnum  (NInt z = valueInt(z) | NFlt f = valueFloat(f))

   Target: GOARCH=amd64 (int and uint are 64 bits wide; int64(f) of a NaN / out-of-range float64 is the
   "integer indefinite" value -2^63, CVTTSD2SQ). *)
From Coq Require Import ZArith Bool List SpecFloat.
From Verif.Base Require Import F64.
From Verif.C05 Require Import Model.      (* only for the type jsnum and its two constructors *)
Local Open Scope Z_scope.

(* ---- fixed-width integers ---- *)
Definition wrapS (bits z : Z) : Z := (z + 2 ^ (bits - 1)) mod 2 ^ bits - 2 ^ (bits - 1).
Definition wrapU (bits z : Z) : Z := z mod 2 ^ bits.

Definition to_int8 := wrapS 8.     Definition to_uint8 := wrapU 8.
Definition to_int16 := wrapS 16.   Definition to_uint16 := wrapU 16.
Definition to_int32 := wrapS 32.   Definition to_uint32 := wrapU 32.
Definition to_int64 := wrapS 64.   Definition to_uint64 := wrapU 64.
Definition wrap_int64 := wrapS 64. (* result of + - * << and unary - on int64 / int / valueInt *)

(* the range of a type, as the precondition on parameters *)
Definition in_int (bits z : Z) : Prop := - 2 ^ (bits - 1) <= z < 2 ^ (bits - 1).
Definition in_uint (bits z : Z) : Prop := 0 <= z < 2 ^ bits.
Definition in_int64 (z : Z) : Prop := -9223372036854775808 <= z < 9223372036854775808.

(* builtin min / max on integers *)
Definition go_min (a b : Z) : Z := Z.min a b.
Definition go_max (a b : Z) : Z := Z.max a b.

(* ---- float64 ---- *)
Definition go_nan : f64 := S754_nan.                         (* math.NaN(); SpecFloat has a single NaN *)
Definition go_inf (sign : Z) : f64 := S754_infinity (sign <? 0).   (* math.Inf(sign) *)
Definition go_float_of_bits (b : Z) : f64 := of_bits b.      (* math.Float64frombits *)
Definition go_float_of_int (z : Z) : f64 := of_Z z.          (* float64(i), and integral constants: nearest-even *)
Definition go_float_const (m e : Z) : f64 := of_Z_scaled m e.  (* a float literal, given exactly as m * 2^e *)

Definition go_feq (x y : f64) : bool := feqb x y.            (* ==  (NaN compares false, +0 == -0) *)
Definition go_flt (x y : f64) : bool := fltb x y.            (* <   *)
Definition go_fle (x y : f64) : bool := fleb x y.            (* <=  *)
Definition go_fadd := fadd.  Definition go_fsub := fsub.  Definition go_fmul := fmul.  Definition go_fdiv := fdiv.
Definition go_fneg := fneg.

Definition go_isnan (x : f64) : bool := is_nan x.            (* math.IsNaN *)
Definition go_isinf (x : f64) (sign : Z) : bool :=           (* math.IsInf(x, sign) *)
  if 0 <? sign then is_inf x && negb (sign_bit x)
  else if sign <? 0 then is_inf x && sign_bit x
  else is_inf x.
Definition go_signbit (x : f64) : bool := sign_bit x.        (* math.Signbit; false for the NaN token *)

(* int64(f) on amd64 *)
Definition go_int64_of_float (f : f64) : Z :=
  match trunc_Z f with
  | Some k => if (-9223372036854775808 <=? k) && (k <? 9223372036854775808) then k else -9223372036854775808
  | None => -9223372036854775808
  end.

(* an integer as a float carrying the sign of the operand when it is zero *)
Definition float_of_Z_sgn (s : bool) (k : Z) : f64 := if k =? 0 then S754_zero s else of_Z k.

(* math.Trunc: x itself when x is integral (incl. +-0, +-Inf, NaN); otherwise |x| < 2^52 and the
   integral part is exactly representable *)
Definition go_trunc (x : f64) : f64 :=
  if is_integral x then x
  else match trunc_Z x with Some k => float_of_Z_sgn (sign_bit x) k | None => x end.

(* math.Floor *)
Definition go_floor (x : f64) : f64 :=
  match floor_Z x with Some k => float_of_Z_sgn (sign_bit x) k | None => x end.

(* math.Mod(x, y): the exact remainder of the truncated division, sign of x *)
Definition go_mod (x y : f64) : f64 :=
  match x, y with
  | S754_nan, _ | _, S754_nan => S754_nan
  | S754_infinity _, _ => S754_nan
  | _, S754_zero _ => S754_nan
  | _, S754_infinity _ => x
  | S754_zero _, _ => x
  | S754_finite sx mx ex, S754_finite _ my ey =>
      let e := Z.min ex ey in
      let a := Z.pos mx * 2 ^ (ex - e) in
      let b := Z.pos my * 2 ^ (ey - e) in
      let r := a mod b in
      if r =? 0 then S754_zero sx
      else binary_normalize prec64 emax64 (if sx then - r else r) e sx
  end.

(* ---- bounded unrolling of mutually recursive functions: the value used at depth 0 ---- *)
Definition go_bottom_jsnum : jsnum := NFlt S754_nan.
