(* C05 — exactness of the integer -> binary64 conversion on the safe range, and what follows from it. *)
From Coq Require Import ZArith Bool List SpecFloat Lia Zpower.
From Verif.Base Require Import F64.
From Verif.C05 Require Import Model Proofs Proofs2.
Local Open Scope Z_scope.

Lemma round_aux_exact : forall s m e,
  canonical_mantissa prec64 emax64 m e = true -> (e <=? emax64 - prec64) = true ->
  binary_round_aux prec64 emax64 s (Z.pos m) e loc_Exact = S754_finite s m e.
Proof.
  intros s m e C B. unfold canonical_mantissa in C. apply Zeq_bool_eq in C.
  unfold binary_round_aux, shr_fexp. unfold Zdigits2.
  rewrite C. rewrite Z.sub_diag. unfold shr, shr_record_of_loc. cbn [shr_m shr_r shr_s loc_of_shr_record round_nearest_even].
  unfold Zdigits2. rewrite C. rewrite Z.sub_diag. cbn [shr_m].
  match goal with |- (if ?c then _ else _) = _ => replace c with true by (symmetry; exact B) end. reflexivity.
Qed.

Lemma shift_pos_val : forall k p, Z.pos (shift_pos k p) = Z.pos p * 2 ^ Z.pos k.
Proof.
  intros k p. rewrite shift_pos_correct. rewrite Zpower_pos_nat, Zpower_nat_Z.
  rewrite positive_nat_Z. ring.
Qed.

Lemma digits_bound : forall p, Z.pos p < 2 ^ Z.pos (digits2_pos p) /\ 2 ^ (Z.pos (digits2_pos p) - 1) <= Z.pos p.
Proof.
  intro p. rewrite digits2_size, size_log2.
  pose proof (Z.log2_spec (Z.pos p) ltac:(lia)) as [L U].
  replace (Z.log2 (Z.pos p) + 1 - 1) with (Z.log2 (Z.pos p)) by lia.
  replace (Z.log2 (Z.pos p) + 1) with (Z.succ (Z.log2 (Z.pos p))) by lia. split; auto.
Qed.

(* the float of a positive integer below 2^53: mantissa shifted up to 53 digits, value unchanged *)
Lemma round_int_exact : forall s p, Z.pos p < two53 ->
  exists m e, binary_round prec64 emax64 s p 0 = S754_finite s m e /\ e <= 0 /\ Z.pos m = Z.pos p * 2 ^ (- e) /\
              valid_binary prec64 emax64 (S754_finite s m e) = true.
Proof.
  intros s p H. unfold binary_round.
  destruct (digits_bound p) as [DU DL].
  set (d := Z.pos (digits2_pos p)) in *.
  assert (Dle : d <= 53).
  { destruct (Z_le_gt_dec d 53) as [|G]; auto. exfalso.
    assert (2 ^ 53 <= 2 ^ (d - 1)) by (apply Z.pow_le_mono_r; lia). unfold two53 in H. lia. }
  assert (Dpos : 0 < d) by (unfold d; lia).
  assert (FE : fexp prec64 emax64 (d + 0) = d - 53).
  { unfold fexp, emin, prec64, emax64. lia. }
  rewrite FE. unfold shl_align.
  destruct (d - 53 - 0) eqn:K; try lia.
  - (* d = 53 *)
    assert (D53 : d = 53) by lia.
    exists p, 0. split.
    + apply round_aux_exact.
      * unfold canonical_mantissa. fold d. rewrite D53. reflexivity.
      * reflexivity.
    + split; [lia|]. split; [simpl; lia|].
      simpl. unfold bounded, canonical_mantissa. fold d. rewrite D53. reflexivity.
  - (* d < 53: shift left by 53 - d *)
    assert (Kv : Z.pos p0 = 53 - d) by lia.
    assert (DS : Z.pos (digits2_pos (shift_pos p0 p)) = 53).
    { rewrite (digits_mul_pow2 p (Z.pos p0) ltac:(lia) (shift_pos p0 p) (shift_pos_val p0 p)). fold d. lia. }
    assert (CM : canonical_mantissa prec64 emax64 (shift_pos p0 p) (d - 53) = true).
    { unfold canonical_mantissa. rewrite DS. unfold fexp, emin, prec64, emax64.
      apply Zeq_is_eq_bool. lia. }
    assert (EB : (d - 53 <=? emax64 - prec64) = true) by (apply Z.leb_le; unfold emax64, prec64; lia).
    exists (shift_pos p0 p), (d - 53). split.
    + apply round_aux_exact; auto.
    + split; [lia|]. split.
      * rewrite shift_pos_val. f_equal. f_equal. lia.
      * unfold valid_binary, bounded. rewrite CM. exact EB.
Qed.

Lemma finite_int_facts : forall s m e p, e <= 0 -> Z.pos m = Z.pos p * 2 ^ (- e) ->
  is_integral (S754_finite s m e) = true /\
  trunc_Z (S754_finite s m e) = Some (if s then - Z.pos p else Z.pos p).
Proof.
  intros s m e p E V. unfold is_integral, trunc_Z.
  destruct (0 <=? e) eqn:B.
  - apply Z.leb_le in B. assert (e = 0) by lia. subst e.
    change (2 ^ (- 0)) with 1 in V. rewrite Z.mul_1_r in V.
    split; auto. rewrite V. change (2 ^ 0) with 1. rewrite Z.mul_1_r. reflexivity.
  - assert (Q : 0 < 2 ^ (- e)) by (apply Z.pow_pos_nonneg; lia).
    rewrite V. rewrite Z.mod_mul by lia. rewrite Z.div_mul by lia. split; auto.
Qed.

(* of_Z on the safe range: exact, integral, well-formed, and exactly what floatToInt recognises *)
Lemma of_Z_exact : forall z, z <> 0 -> Z.abs z <= two53 ->
  exists s m e, of_Z z = S754_finite s m e /\ s = (z <? 0) /\
    is_integral (of_Z z) = true /\ trunc_Z (of_Z z) = Some z /\
    valid_binary prec64 emax64 (of_Z z) = true /\ int_like (of_Z z) = true.
Proof.
  intros z NZ B.
  assert (EDGE : Z.abs z = two53 \/ Z.abs z < two53) by lia.
  destruct EDGE as [E|L].
  - assert (z = two53 \/ z = - two53) by lia.
    destruct H; subst z; vm_compute; do 3 eexists; repeat split; reflexivity.
  - destruct z as [|p|p]; try congruence.
    + destruct (round_int_exact false p L) as [m [e [R [E [V W]]]]].
      assert (OZ : of_Z (Z.pos p) = S754_finite false m e) by exact R.
      destruct (finite_int_facts false m e p E V) as [I T].
      exists false, m, e. rewrite OZ. repeat split; auto.
      unfold int_like, abs_le. rewrite I, T. simpl. apply Z.leb_le. simpl in L. lia.
    + assert (L' : Z.pos p < two53) by (simpl in L; lia).
      destruct (round_int_exact true p L') as [m [e [R [E [V W]]]]].
      assert (OZ : of_Z (Z.neg p) = S754_finite true m e) by exact R.
      destruct (finite_int_facts true m e p E V) as [I T].
      exists true, m, e. rewrite OZ. repeat split; auto.
      unfold int_like, abs_le. rewrite I, T. simpl. apply Z.leb_le. lia.
Qed.

Lemma of_Z_zero : of_Z 0 = fzero.
Proof. reflexivity. Qed.

(* ---- IEEE equality of SpecFloat is syntactic on non-zero, non-NaN values ---- *)

Lemma pcompare_eq : forall m1 m2, Pos.compare_cont Eq m1 m2 = Eq -> m1 = m2.
Proof. intros. apply Pos.compare_eq. exact H. Qed.

Lemma feqb_true : forall f g, feqb f g = true ->
  (is_zero f = true /\ is_zero g = true) \/ (f = g /\ is_nan f = false /\ is_zero f = false).
Proof.
  intros f g H. unfold feqb, SFeqb in H.
  destruct f as [s|s| |s m e]; destruct g as [s'|s'| |s' m' e']; simpl in H; try discriminate; auto;
    try (destruct s; discriminate); try (destruct s'; discriminate).
  - destruct s, s'; try discriminate; right; auto.
  - destruct s, s'; try discriminate.
    + destruct (e ?= e') eqn:C; try discriminate.
      apply Z.compare_eq in C. subst e'.
      destruct (Pos.compare_cont Eq m m') eqn:P; simpl in H; try discriminate.
      apply pcompare_eq in P. subst m'. right; auto.
    + destruct (e ?= e') eqn:C; try discriminate.
      apply Z.compare_eq in C. subst e'.
      destruct (Pos.compare_cont Eq m m') eqn:P; try discriminate.
      apply pcompare_eq in P. subst m'. right; auto.
Qed.

Lemma feqb_refl : forall f, is_nan f = false -> feqb f f = true.
Proof.
  intros f H. unfold feqb, SFeqb. destruct f as [s|s| |s m e]; simpl in *; try discriminate; auto.
  - destruct s; reflexivity.
  - rewrite Z.compare_refl. destruct s; rewrite Pos.compare_cont_refl; reflexivity.
Qed.

Lemma feqb_zero_l : forall s g, feqb (S754_zero s) g = is_zero g.
Proof. intros s g. destruct g as [s'|s'| |s' m e]; try reflexivity; destruct s'; reflexivity. Qed.
Lemma feqb_zero_r : forall s f, feqb f (S754_zero s) = is_zero f.
Proof. intros s f. destruct f as [s'|s'| |s' m e]; try reflexivity; destruct s'; reflexivity. Qed.

(* a canonical float never equals the float of a safe integer *)
Lemma canon_float_ne_int : forall f z, canon (NFlt f) = true -> z <> 0 -> Z.abs z <= two53 ->
  feqb f (of_Z z) = false /\ feqb (of_Z z) f = false.
Proof.
  intros f z C NZ B. simpl in C. apply negb_true_iff in C.
  destruct (of_Z_exact z NZ B) as [s [m [e [OZ [_ [_ [_ [_ IL]]]]]]]].
  split.
  - destruct (feqb f (of_Z z)) eqn:E; auto. exfalso.
    destruct (feqb_true _ _ E) as [[_ Z0]|[EQ _]].
    + rewrite OZ in Z0. discriminate.
    + subst f. congruence.
  - destruct (feqb (of_Z z) f) eqn:E; auto. exfalso.
    destruct (feqb_true _ _ E) as [[Z0 _]|[EQ _]].
    + rewrite OZ in Z0. discriminate.
    + rewrite EQ in IL. congruence.
Qed.

Lemma canon_zero_float : forall f, canon (NFlt f) = true -> is_zero f = true -> f = fnegzero.
Proof.
  intros f C Z. destruct f as [s|s| |s m e]; try discriminate. destruct s; auto.
  vm_compute in C. discriminate.
Qed.

(* ---- SameAs: sound and symmetric on canonical values ---- *)

Lemma sameAs_iff_eq : forall a b, canon a = true -> canon b = true -> (sameAs a b = true <-> a = b).
Proof.
  intros [x|f] [y|g] Ca Cb; unfold sameAs; cbv zeta.
  - rewrite Z.eqb_eq. split; congruence.
  - split; [discriminate | congruence].
  - assert (F : (if feqb f (of_Z y) && is_zero f then negb (sign_bit f) else feqb f (of_Z y)) = false).
    { destruct (Z.eq_dec y 0) as [->|NZ].
      - rewrite of_Z_zero. unfold fzero. rewrite feqb_zero_r.
        destruct (is_zero f) eqn:Zf; auto. simpl.
        rewrite (canon_zero_float f Ca Zf). reflexivity.
      - simpl in Cb. apply Z.leb_le in Cb.
        destruct (canon_float_ne_int f y Ca NZ Cb) as [E _]. rewrite E. reflexivity. }
    rewrite F. split; [discriminate | congruence].
  - destruct (is_nan f && is_nan g) eqn:N.
    + apply andb_prop in N. destruct N as [Nf Ng].
      destruct f; try discriminate. destruct g; try discriminate. split; auto.
    + destruct (feqb f g) eqn:E.
      * destruct (feqb_true _ _ E) as [[Zf Zg]|[EQ [_ NZ]]].
        -- rewrite Zf. simpl. rewrite (canon_zero_float f Ca Zf), (canon_zero_float g Cb Zg). simpl. split; auto.
        -- rewrite NZ. simpl. subst g. split; auto.
      * simpl. split; [discriminate|]. intro EQ. inversion EQ; subst g.
        assert (Nf : is_nan f = false). { destruct (is_nan f); auto; simpl in N; discriminate. }
        rewrite (feqb_refl f Nf) in E. discriminate.
Qed.

Lemma numeric_eqb_eq : forall x y, numeric_eqb x y = true <-> x = y.
Proof.
  intros x y. destruct x, y; simpl; split; intro H; try discriminate; try congruence; auto.
  - apply eqb_prop in H. congruence.
  - inversion H. apply eqb_reflx.
  - apply eqb_prop in H. congruence.
  - inversion H. apply eqb_reflx.
  - apply Z.eqb_eq in H. congruence.
  - inversion H. apply Z.eqb_refl.
  - apply andb_prop in H. destruct H as [H H3]. apply andb_prop in H. destruct H as [H1 H2].
    apply eqb_prop in H1. apply Pos.eqb_eq in H2. apply Z.eqb_eq in H3. congruence.
  - inversion H. rewrite eqb_reflx, Pos.eqb_refl, Z.eqb_refl. reflexivity.
Qed.

Lemma bool_iff_eq : forall p q : bool, (p = true <-> q = true) -> p = q.
Proof. intros [] [] [A B]; auto; try (symmetry; apply A; auto); try (apply B; auto). Qed.

Lemma sameAs_sound : forall a b, canon a = true -> canon b = true -> wf a = true -> wf b = true ->
  sameAs a b = sameAs b a /\ sameAs a b = same_value_spec (num_sem a) (num_sem b).
Proof.
  intros a b Ca Cb Wa Wb. split.
  - apply bool_iff_eq. rewrite (sameAs_iff_eq a b Ca Cb), (sameAs_iff_eq b a Cb Ca). split; congruence.
  - apply bool_iff_eq. rewrite (sameAs_iff_eq a b Ca Cb). unfold same_value_spec. rewrite numeric_eqb_eq.
    split; [congruence | apply canon_unique; auto].
Qed.

Example sameAs_sound_ex : sameAs (NFlt fnegzero) (NInt 0) = false /\ sameAs (NInt 0) (NFlt fnegzero) = false /\
  sameAs (NFlt (of_Z_scaled 5 (-1))) (NFlt (of_Z_scaled 5 (-1))) = true.
Proof. vm_compute. auto. Qed.

(* ---- SameValueZero and hashing ---- *)

Lemma norm_zero_canon : forall a, canon a = true -> canon (norm_zero a) = true.
Proof. intros [z|f] C; simpl; auto. destruct (is_zero f); auto. Qed.

Lemma hash_norm_zero : forall a, hash (norm_zero a) = hash a.
Proof. intros [z|f]; simpl; auto. destruct (is_zero f) eqn:Z; simpl; rewrite ?Z; reflexivity. Qed.

(* self-contained statement used by C18: keys that goja's SameValueZero identifies hash to the same word *)
Lemma hash_respects_svz_num : forall a b, canon a = true -> canon b = true ->
  sameValueZero a b = true -> hash_words a = hash_words b.
Proof.
  intros a b Ca Cb H. unfold sameValueZero in H.
  apply (sameAs_iff_eq _ _ (norm_zero_canon a Ca) (norm_zero_canon b Cb)) in H.
  unfold hash_words. rewrite <- (hash_norm_zero a), <- (hash_norm_zero b). congruence.
Qed.

Definition nz (x : numeric) : numeric := match x with SZero _ => SZero false | _ => x end.

Lemma svz_as_sv : forall x y, same_value_zero_spec x y = same_value_spec (nz x) (nz y).
Proof. intros x y. destruct x, y; reflexivity. Qed.

Lemma sem_f_nonzero : forall f, is_zero f = false -> nz (sem_f f) = sem_f f.
Proof.
  intros f Z. destruct f as [s|s| |s m e]; try reflexivity; try discriminate.
  unfold sem_f. destruct (odd_part m e) as [m' e']. destruct (0 <=? e'); reflexivity.
Qed.

Lemma num_sem_norm_zero : forall a, num_sem (norm_zero a) = nz (num_sem a).
Proof.
  intros [z|f].
  - simpl. destruct z; reflexivity.
  - simpl. destruct (is_zero f) eqn:Z.
    + destruct f; try discriminate. reflexivity.
    + simpl. symmetry. apply sem_f_nonzero. exact Z.
Qed.

Lemma norm_zero_wf : forall a, wf a = true -> wf (norm_zero a) = true.
Proof. intros [z|f] W; simpl; auto. destruct (is_zero f); auto. Qed.

Lemma sameValueZero_sound : forall a b, canon a = true -> canon b = true -> wf a = true -> wf b = true ->
  sameValueZero a b = sameValueZero b a /\
  sameValueZero a b = same_value_zero_spec (num_sem a) (num_sem b).
Proof.
  intros a b Ca Cb Wa Wb. unfold sameValueZero.
  destruct (sameAs_sound _ _ (norm_zero_canon a Ca) (norm_zero_canon b Cb) (norm_zero_wf a Wa) (norm_zero_wf b Wb)) as [S V].
  split; auto. rewrite V. rewrite !num_sem_norm_zero. symmetry. apply svz_as_sv.
Qed.

Example svz_ex : sameValueZero (NFlt fnegzero) (NInt 0) = true /\ sameValueZero (NInt 0) (NFlt fnegzero) = true /\
  hash_words (NFlt fnegzero) = hash_words (NInt 0).
Proof. vm_compute. auto. Qed.
