(* C05/LeafTie — the GENERATED translation of goja's leaf numeric functions (C05/LeafGen.v, produced by
   harness/cmd/go2v from the Go sources on every run) equals the hand-written model (C05/Model.v) that the
   C05 theorems are about: for every translated function f a lemma  f_gen x = Model.f x  for ALL x that
   satisfy the stated precondition (integers in the range of their Go type; float payloads well-formed
   SpecFloat values, [valid]).  Hence canon_closed, toIntN_eq_spec, ... hold of the code as translated.

   Proof style: unfold the generated definition, split on the conditions, close the arithmetic with lia, so
   that renamings / reorderings of the Go code keep the proofs; a change of behaviour breaks them (and the
   driver then searches for a failing input, checks/C05.py). *)
From Coq Require Import ZArith Bool List SpecFloat Lia Zpower.
From Verif.Base Require Import F64.
From Verif.C05 Require Import Model Proofs Proofs2 Proofs3 Proofs4 Proofs5 GoSem LeafGen.
Local Open Scope Z_scope.

(* ------------------------------------------------------------------------------------------ *)
(* GoSem agrees with the helper definitions of the model *)

Lemma wrapS_model : forall b z, GoSem.wrapS b z = Model.wrapS b z.
Proof. reflexivity. Qed.
Lemma wrapU_model : forall b z, GoSem.wrapU b z = Model.wrapU b z.
Proof. reflexivity. Qed.
Lemma go_int64_model : forall f, go_int64_of_float f = go_int64 f.
Proof. reflexivity. Qed.
Lemma go_mod_model : forall x y, go_mod x y = fmod x y.
Proof. reflexivity. Qed.
Lemma go_floor_model : forall x, go_floor x = ffloor x.
Proof. reflexivity. Qed.

Lemma wrap64_in : forall z, in_int64 z -> GoSem.wrapS 64 z = z.
Proof.
  intros z [L U]. unfold GoSem.wrapS.
  change (2 ^ (64 - 1)) with 9223372036854775808. change (2 ^ 64) with 18446744073709551616.
  rewrite Z.mod_small; lia.
Qed.

(* ------------------------------------------------------------------------------------------ *)
(* well-formed finite floats: size of the mantissa *)

Lemma valid_finite_bounds : forall s m e, valid (S754_finite s m e) = true ->
  Z.pos m < 2 ^ 53 /\ -1074 <= e <= 971 /\ (-1074 < e -> 2 ^ 52 <= Z.pos m).
Proof.
  intros s m e V. unfold valid, valid_binary, bounded in V. apply andb_prop in V. destruct V as [C B].
  apply Z.leb_le in B. unfold canonical_mantissa in C. apply Zeq_bool_eq in C.
  unfold fexp, emin, prec64, emax64 in *.
  destruct (digits_bound m) as [DU DL]. set (d := Z.pos (digits2_pos m)) in *.
  assert (Dpos : 0 < d) by (unfold d; lia).
  destruct (Z_le_gt_dec (3 - 1024 - 53) (d + e - 53)) as [G|G].
  - rewrite Z.max_l in C by lia. assert (d = 53) by lia.
    replace d with 53 in * by lia. change (53 - 1) with 52 in DL. repeat split; lia.
  - rewrite Z.max_r in C by lia. assert (D : d < 53) by lia.
    assert (2 ^ d <= 2 ^ 53) by (apply Z.pow_le_mono_r; lia). repeat split; lia.
Qed.

(* the integral part as a total function (0 for NaN / infinities) *)
Definition tz (f : f64) : Z := match trunc_Z f with Some k => k | None => 0 end.

Lemma tz_finite_pos : forall m e, 0 <= tz (S754_finite false m e).
Proof.
  intros m e. unfold tz, trunc_Z. destruct (0 <=? e) eqn:E.
  - apply Z.leb_le in E. apply Z.mul_nonneg_nonneg; [lia | apply Z.pow_nonneg; lia].
  - apply Z.div_pos; [lia | apply Z.pow_pos_nonneg; [lia | apply Z.leb_gt in E; lia]].
Qed.

Lemma tz_finite_neg : forall m e, tz (S754_finite true m e) = - tz (S754_finite false m e).
Proof. intros m e. unfold tz, trunc_Z. destruct (0 <=? e); reflexivity. Qed.

(* comparison of a well-formed finite float with +2^k, k >= 53, decided on the integral parts *)
Lemma cmp_pos_pow2 : forall m e k, valid (S754_finite false m e) = true -> 53 <= k ->
  SFcompare (S754_finite false m e) (S754_finite false 4503599627370496 (k - 52)) =
  Some (tz (S754_finite false m e) ?= 2 ^ k).
Proof.
  intros m e k V K. destruct (valid_finite_bounds _ _ _ V) as [Hm [He Hn]].
  assert (P52 : Z.pos 4503599627370496 = 2 ^ 52) by reflexivity.
  unfold SFcompare. destruct (Z.compare_spec e (k - 52)) as [Eq|Lt|Gt].
  - (* same exponent *)
    subst e. f_equal. unfold tz, trunc_Z.
    replace (0 <=? k - 52) with true by (symmetry; apply Z.leb_le; lia).
    replace (2 ^ k) with (2 ^ 52 * 2 ^ (k - 52)) by (rewrite <- Z.pow_add_r by lia; f_equal; lia).
    rewrite <- Zmult_compare_compat_r by (apply Z.lt_gt; apply Z.pow_pos_nonneg; lia).
    rewrite <- P52. rewrite <- Pos2Z.inj_compare. reflexivity.
  - f_equal. symmetry. apply Z.compare_lt_iff. unfold tz, trunc_Z.
    destruct (0 <=? e) eqn:E.
    + apply Z.leb_le in E.
      assert (2 ^ 53 * 2 ^ e <= 2 ^ k).
      { rewrite <- Z.pow_add_r by lia. apply Z.pow_le_mono_r; lia. }
      assert (0 < 2 ^ e) by (apply Z.pow_pos_nonneg; lia). nia.
    + apply Z.leb_gt in E.
      assert (Z.pos m / 2 ^ (- e) <= Z.pos m) by (apply Z.div_le_upper_bound; [apply Z.pow_pos_nonneg; lia|];
        assert (1 <= 2 ^ (- e)) by (apply (Z.pow_le_mono_r 2 0); lia); nia).
      assert (2 ^ 53 <= 2 ^ k) by (apply Z.pow_le_mono_r; lia). lia.
  - f_equal. symmetry. apply Z.compare_gt_iff. unfold tz, trunc_Z.
    replace (0 <=? e) with true by (symmetry; apply Z.leb_le; lia).
    assert (N : 2 ^ 52 <= Z.pos m) by (apply Hn; lia).
    assert (2 ^ (k + 1) <= 2 ^ 52 * 2 ^ e).
    { rewrite <- Z.pow_add_r by lia. apply Z.pow_le_mono_r; lia. }
    assert (2 ^ k < 2 ^ (k + 1)) by (apply Z.pow_lt_mono_r; lia).
    assert (0 < 2 ^ e) by (apply Z.pow_pos_nonneg; lia). nia.
Qed.
