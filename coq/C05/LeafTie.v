(* C05/LeafTie — the GENERATED translation of goja's leaf numeric functions (C05/LeafGen.v, produced by
   harness/cmd/go2v from the Go sources on every run) equals the hand-written model (C05/Model.v) that the
   C05 theorems are about: for every translated function f a lemma  f_gen x = Model.f x  for ALL x that
   satisfy the stated precondition (integers in the range of their Go type; float payloads well-formed
   SpecFloat values, [valid]).  Hence canon_closed, toIntN_eq_spec, ... hold of the code as translated.

   Proof style: unfold the generated definition, split on the conditions, close the arithmetic with lia, so
   that renamings / reorderings of the Go code keep the proofs; a change of behaviour breaks them (and the
   driver then searches for a failing input, checks/C05.py). *)
From Coq Require Import ZArith Bool List SpecFloat Lia Zpower.
From Verif.Base Require Import F64.
From Verif.C05 Require Import Model Proofs Proofs2 Proofs3 Proofs4 Proofs5 GoSem LeafGen.
Local Open Scope Z_scope.

(* ------------------------------------------------------------------------------------------ *)
(* GoSem agrees with the helper definitions of the model *)

Lemma wrapS_model : forall b z, GoSem.wrapS b z = Model.wrapS b z.
Proof. reflexivity. Qed.
Lemma wrapU_model : forall b z, GoSem.wrapU b z = Model.wrapU b z.
Proof. reflexivity. Qed.
Lemma go_int64_model : forall f, go_int64_of_float f = go_int64 f.
Proof. reflexivity. Qed.
Lemma go_mod_model : forall x y, go_mod x y = fmod x y.
Proof. reflexivity. Qed.
Lemma go_floor_model : forall x, go_floor x = ffloor x.
Proof. reflexivity. Qed.

Lemma wrap64_in : forall z, in_int64 z -> GoSem.wrapS 64 z = z.
Proof.
  intros z [L U]. unfold GoSem.wrapS.
  change (2 ^ (64 - 1)) with 9223372036854775808. change (2 ^ 64) with 18446744073709551616.
  rewrite Z.mod_small; lia.
Qed.

(* ------------------------------------------------------------------------------------------ *)
(* well-formed finite floats: size of the mantissa *)

Lemma valid_finite_bounds : forall s m e, valid (S754_finite s m e) = true ->
  Z.pos m < 2 ^ 53 /\ -1074 <= e <= 971 /\ (-1074 < e -> 2 ^ 52 <= Z.pos m).
Proof.
  intros s m e V. unfold valid, valid_binary, bounded in V. apply andb_prop in V. destruct V as [C B].
  apply Z.leb_le in B. unfold canonical_mantissa in C. apply Zeq_bool_eq in C.
  unfold fexp, emin, prec64, emax64 in *.
  destruct (digits_bound m) as [DU DL]. set (d := Z.pos (digits2_pos m)) in *.
  assert (Dpos : 0 < d) by (unfold d; lia).
  destruct (Z_le_gt_dec (3 - 1024 - 53) (d + e - 53)) as [G|G].
  - rewrite Z.max_l in C by lia. assert (d = 53) by lia.
    replace d with 53 in * by lia. change (53 - 1) with 52 in DL. repeat split; lia.
  - rewrite Z.max_r in C by lia. assert (D : d < 53) by lia.
    assert (2 ^ d <= 2 ^ 53) by (apply Z.pow_le_mono_r; lia). repeat split; lia.
Qed.

(* the integral part as a total function (0 for NaN / infinities) *)
Definition tz (f : f64) : Z := match trunc_Z f with Some k => k | None => 0 end.

Lemma tz_finite_pos : forall m e, 0 <= tz (S754_finite false m e).
Proof.
  intros m e. unfold tz, trunc_Z. destruct (0 <=? e) eqn:E.
  - apply Z.leb_le in E. apply Z.mul_nonneg_nonneg; [lia | apply Z.pow_nonneg; lia].
  - apply Z.div_pos; [lia | apply Z.pow_pos_nonneg; [lia | apply Z.leb_gt in E; lia]].
Qed.

Lemma tz_finite_neg : forall m e, tz (S754_finite true m e) = - tz (S754_finite false m e).
Proof. intros m e. unfold tz, trunc_Z. destruct (0 <=? e); reflexivity. Qed.

Lemma pcmp_Z : forall m p, Pos.compare_cont Eq m p = (Z.pos m ?= Z.pos p).
Proof. reflexivity. Qed.

(* comparison of a well-formed finite float with +2^k, k >= 53, decided on the integral parts *)
Lemma cmp_pos_pow2 : forall m e k, valid (S754_finite false m e) = true -> 53 <= k ->
  SFcompare (S754_finite false m e) (S754_finite false 4503599627370496 (k - 52)) =
  Some (tz (S754_finite false m e) ?= 2 ^ k).
Proof.
  intros m e k V K. destruct (valid_finite_bounds _ _ _ V) as [Hm [He Hn]].
  assert (P52 : Z.pos 4503599627370496 = 2 ^ 52) by reflexivity.
  unfold SFcompare. destruct (Z.compare_spec e (k - 52)) as [Eq|Lt|Gt].
  - (* same exponent *)
    subst e. unfold tz, trunc_Z.
    replace (0 <=? k - 52) with true by (symmetry; apply Z.leb_le; lia).
    rewrite pcmp_Z, P52. f_equal.
    replace (2 ^ k) with (2 ^ 52 * 2 ^ (k - 52)) by (rewrite <- Z.pow_add_r by lia; f_equal; lia).
    apply Zmult_compare_compat_r. apply Z.lt_gt. apply Z.pow_pos_nonneg; lia.
  - f_equal. symmetry. apply Z.compare_lt_iff. unfold tz, trunc_Z.
    destruct (0 <=? e) eqn:E.
    + apply Z.leb_le in E.
      apply Z.lt_le_trans with (2 ^ 53 * 2 ^ e).
      * apply Z.mul_lt_mono_pos_r; [apply Z.pow_pos_nonneg; lia | exact Hm].
      * rewrite <- Z.pow_add_r by lia. apply Z.pow_le_mono_r; lia.
    + apply Z.leb_gt in E.
      apply Z.le_lt_trans with (Z.pos m).
      * apply Z.div_le_upper_bound; [apply Z.pow_pos_nonneg; lia|].
        rewrite <- (Z.mul_1_l (Z.pos m)) at 1. apply Z.mul_le_mono_nonneg_r; [lia|].
        apply (Z.pow_le_mono_r 2 0); lia.
      * apply Z.lt_le_trans with (2 ^ 53); [exact Hm | apply Z.pow_le_mono_r; lia].
  - f_equal. symmetry. apply Z.compare_gt_iff. unfold tz, trunc_Z.
    replace (0 <=? e) with true by (symmetry; apply Z.leb_le; lia).
    assert (N : 2 ^ 52 <= Z.pos m) by (apply Hn; lia).
    apply Z.lt_le_trans with (2 ^ (k + 1)); [apply Z.pow_lt_mono_r; lia|].
    apply Z.le_trans with (2 ^ 52 * 2 ^ e).
    + rewrite <- Z.pow_add_r by lia. apply Z.pow_le_mono_r; lia.
    + apply Z.mul_le_mono_nonneg_r; [apply Z.pow_nonneg; lia | exact N].
Qed.

Lemma valid_flip_sign : forall s m e, valid (S754_finite s m e) = valid (S754_finite (negb s) m e).
Proof. reflexivity. Qed.

Lemma pow2_pos : forall k, 0 <= k -> 0 < 2 ^ k.
Proof. intros. apply Z.pow_pos_nonneg; lia. Qed.

Lemma SFcompare_negneg : forall m1 e1 m2 e2,
  SFcompare (S754_finite true m1 e1) (S754_finite true m2 e2) =
  match SFcompare (S754_finite false m1 e1) (S754_finite false m2 e2) with Some c => Some (CompOpp c) | None => None end.
Proof. intros. cbn [SFcompare]. destruct (e1 ?= e2); reflexivity. Qed.

(* every well-formed finite float against +-2^k, k >= 53 *)
Lemma cmp_pow2 : forall f k, valid f = true -> is_finite f = true -> 53 <= k ->
  SFcompare f (S754_finite false 4503599627370496 (k - 52)) = Some (tz f ?= 2 ^ k) /\
  SFcompare f (S754_finite true 4503599627370496 (k - 52)) = Some (tz f ?= - 2 ^ k).
Proof.
  intros f k V F K. pose proof (pow2_pos k ltac:(lia)) as PK.
  destruct f as [s|s| |s m e]; try discriminate.
  - (* zero *) change (tz (S754_zero s)) with 0. cbn [SFcompare]. split; f_equal; symmetry.
    + apply Z.compare_lt_iff; lia.
    + apply Z.compare_gt_iff; lia.
  - destruct s.
    + (* negative float *)
      assert (V' : valid (S754_finite false m e) = true) by exact V.
      pose proof (cmp_pos_pow2 m e k V' K) as C. pose proof (tz_finite_pos m e) as P.
      rewrite tz_finite_neg. split.
      * simpl. f_equal. symmetry. apply Z.compare_lt_iff. lia.
      * rewrite Z.compare_opp. rewrite SFcompare_negneg, C. rewrite (Z.compare_antisym (tz (S754_finite false m e))). reflexivity.
    + split.
      * apply cmp_pos_pow2; assumption.
      * pose proof (tz_finite_pos m e) as P. simpl. f_equal. symmetry. apply Z.compare_gt_iff. lia.
Qed.

(* SFcompare with the arguments exchanged *)
Lemma SFcompare_swap : forall x y, SFcompare y x = match SFcompare x y with Some c => Some (CompOpp c) | None => None end.
Proof.
  intros x y. destruct x as [s1|s1| |s1 m1 e1]; destruct y as [s2|s2| |s2 m2 e2]; simpl; try reflexivity;
    try (destruct s1; reflexivity); try (destruct s2; reflexivity); try (destruct s1, s2; reflexivity).
  destruct s1, s2; try reflexivity.
  - rewrite (Z.compare_antisym e1 e2). destruct (e1 ?= e2); simpl; try reflexivity.
    rewrite (Pos.compare_cont_antisym m1 m2 Eq). reflexivity.
  - rewrite (Z.compare_antisym e1 e2). destruct (e1 ?= e2); simpl; try reflexivity.
    rewrite (Pos.compare_cont_antisym m1 m2 Eq). reflexivity.
Qed.

(* the constants as they are written by the translator *)
Lemma c_two53 : go_float_of_int 9007199254740992 = S754_finite false 4503599627370496 (53 - 52).
Proof. reflexivity. Qed.
Lemma c_mtwo53 : go_float_of_int (-9007199254740992) = S754_finite true 4503599627370496 (53 - 52).
Proof. reflexivity. Qed.
Lemma c_two63 : go_float_of_int 9223372036854775808 = S754_finite false 4503599627370496 (63 - 52).
Proof. reflexivity. Qed.
Lemma c_mtwo63 : go_float_of_int (-9223372036854775808) = S754_finite true 4503599627370496 (63 - 52).
Proof. reflexivity. Qed.

Lemma ltb_compare : forall a b, (a <? b) = match a ?= b with Lt => true | _ => false end.
Proof. reflexivity. Qed.
Lemma leb_compare : forall a b, (a <=? b) = match a ?= b with Gt => false | _ => true end.
Proof. reflexivity. Qed.

(* f <= 2^k, f < 2^k, -2^k <= f  as integer comparisons of the integral part *)
Lemma fle_pow2 : forall f k, valid f = true -> is_finite f = true -> 53 <= k ->
  go_fle f (S754_finite false 4503599627370496 (k - 52)) = (tz f <=? 2 ^ k).
Proof.
  intros f k V F K. destruct (cmp_pow2 f k V F K) as [C _].
  unfold go_fle, fleb, SFleb. rewrite C, leb_compare. destruct (tz f ?= 2 ^ k); reflexivity.
Qed.
Lemma flt_pow2 : forall f k, valid f = true -> is_finite f = true -> 53 <= k ->
  go_flt f (S754_finite false 4503599627370496 (k - 52)) = (tz f <? 2 ^ k).
Proof.
  intros f k V F K. destruct (cmp_pow2 f k V F K) as [C _].
  unfold go_flt, fltb, SFltb. rewrite C, ltb_compare. destruct (tz f ?= 2 ^ k); reflexivity.
Qed.
Lemma fge_mpow2 : forall f k, valid f = true -> is_finite f = true -> 53 <= k ->
  go_fle (S754_finite true 4503599627370496 (k - 52)) f = (- 2 ^ k <=? tz f).
Proof.
  intros f k V F K. destruct (cmp_pow2 f k V F K) as [_ C].
  unfold go_fle, fleb, SFleb. rewrite SFcompare_swap, C, leb_compare.
  rewrite (Z.compare_antisym (tz f) (- 2 ^ k)). destruct (tz f ?= - 2 ^ k); reflexivity.
Qed.

(* ------------------------------------------------------------------------------------------ *)
(* f == math.Trunc(f)  is  "f is integral" *)

Lemma tz_some : forall f, is_finite f = true -> trunc_Z f = Some (tz f).
Proof. intros [s|s| |s m e] F; try discriminate; reflexivity. Qed.

Lemma tz_abs_bound : forall s m e, e < 0 -> Z.abs (tz (S754_finite s m e)) <= Z.pos m.
Proof.
  intros s m e E. assert (B : 0 <= tz (S754_finite false m e) <= Z.pos m).
  { split; [apply tz_finite_pos|]. unfold tz, trunc_Z.
    replace (0 <=? e) with false by (symmetry; apply Z.leb_gt; lia).
    apply Z.div_le_upper_bound; [apply pow2_pos; lia|].
    rewrite <- (Z.mul_1_l (Z.pos m)) at 1. apply Z.mul_le_mono_nonneg_r; [lia|].
    apply (Z.pow_le_mono_r 2 0); lia. }
  destruct s; [rewrite tz_finite_neg|]; lia.
Qed.

Lemma feq_trunc : forall f, valid f = true -> is_finite f = true -> go_feq f (go_trunc f) = is_integral f.
Proof.
  intros f V F. assert (NN : is_nan f = false) by (destruct f; try discriminate; reflexivity).
  unfold go_trunc, go_feq. destruct (is_integral f) eqn:I.
  - apply feqb_refl. exact NN.
  - destruct f as [s|s| |s m e]; try discriminate.
    assert (E : e < 0).
    { unfold is_integral in I. destruct (0 <=? e) eqn:E0; [discriminate | apply Z.leb_gt in E0; lia]. }
    rewrite (tz_some _ F). unfold float_of_Z_sgn. set (k := tz (S754_finite s m e)).
    destruct (k =? 0) eqn:K0.
    + rewrite feqb_zero_r. reflexivity.
    + apply Z.eqb_neq in K0.
      destruct (valid_finite_bounds _ _ _ V) as [Hm _].
      pose proof (tz_abs_bound s m e E) as B. fold k in B.
      assert (KB : Z.abs k <= two53) by (unfold two53; change (2 ^ 53) with 9007199254740992 in Hm; lia).
      destruct (of_Z_exact k K0 KB) as [s' [m' [e' [OZ [_ [I' _]]]]]].
      destruct (feqb (S754_finite s m e) (of_Z k)) eqn:Q; [exfalso | reflexivity].
      destruct (feqb_true _ _ Q) as [[Z1 _]|[EQ _]]; [discriminate|].
      rewrite <- EQ in I'. rewrite I' in I. discriminate.
Qed.

Lemma abs_leb_split : forall t b, 0 <= b -> (Z.abs t <=? b) = ((- b <=? t) && (t <=? b)).
Proof.
  intros t b B. destruct (Z.leb_spec (Z.abs t) b); destruct (Z.leb_spec (- b) t); destruct (Z.leb_spec t b);
    simpl; try reflexivity; lia.
Qed.

(* ------------------------------------------------------------------------------------------ *)
(* vm.go floatToInt *)

Lemma floatToInt_cond_finite : forall s m e, valid (S754_finite s m e) = true ->
  int_like (S754_finite s m e) = is_integral (S754_finite s m e) &&
    ((- 2 ^ 53 <=? tz (S754_finite s m e)) && (tz (S754_finite s m e) <=? 2 ^ 53)).
Proof.
  intros s m e V. set (f := S754_finite s m e). unfold int_like, abs_le. rewrite (tz_some f eq_refl).
  change (is_zero f) with false. change (is_finite f) with true. cbn [negb andb].
  rewrite abs_leb_split by (unfold two53; lia). reflexivity.
Qed.

Lemma floatToInt_gen_tie : forall f, valid f = true ->
  floatToInt_gen f = match Model.floatToInt f with Some k => (k, true) | None => (0, false) end.
Proof.
  intros f V. unfold floatToInt_gen, Model.floatToInt. rewrite go_int64_model.
  destruct f as [s|s| |s m e].
  - destruct s; reflexivity.
  - destruct s; reflexivity.
  - reflexivity.
  - rewrite (floatToInt_cond_finite s m e V). set (F := S754_finite s m e) in *.
    rewrite (feq_trunc F V eq_refl), c_two53, c_mtwo53.
    rewrite (fle_pow2 F 53 V eq_refl ltac:(lia)), (fge_mpow2 F 53 V eq_refl ltac:(lia)).
    change (go_float_of_int 0) with (S754_zero false). unfold go_feq. rewrite feqb_zero_r.
    change (is_zero F) with false. change (go_isinf F 0) with false. cbn [negb orb andb].
    destruct (is_integral F), (- 2 ^ 53 <=? tz F), (tz F <=? 2 ^ 53); reflexivity.
Qed.

(* ------------------------------------------------------------------------------------------ *)
(* float64(i) is a well-formed float for every int64 i (SpecFloat's rounding, followed through) *)

Lemma shr_1_m : forall mrs, 0 <= shr_m mrs -> shr_m (shr_1 mrs) = shr_m mrs / 2.
Proof.
  intros [m r s] H. simpl in H. destruct m as [|[p|p|]|p]; try (exfalso; lia).
  - reflexivity.
  - simpl. rewrite Pos2Z.inj_xI. apply Z.div_unique with 1; lia.
  - simpl. rewrite Pos2Z.inj_xO. apply Z.div_unique with 0; lia.
  - reflexivity.
Qed.

Lemma iter_shr_m : forall n mrs, 0 <= shr_m mrs ->
  shr_m (iter_pos shr_1 n mrs) = shr_m mrs / 2 ^ Z.pos n.
Proof.
  induction n as [n IH|n IH|]; intros mrs H; cbn [iter_pos].
  - assert (H1 : 0 <= shr_m (shr_1 mrs)) by (rewrite shr_1_m by exact H; apply Z.div_pos; lia).
    assert (H2 : 0 <= shr_m (iter_pos shr_1 n (shr_1 mrs))).
    { rewrite IH by exact H1. apply Z.div_pos; [exact H1 | apply pow2_pos; lia]. }
    rewrite IH by exact H2. rewrite IH by exact H1. rewrite shr_1_m by exact H.
    pose proof (pow2_pos (Z.pos n) ltac:(lia)) as P.
    rewrite !Z.div_div by lia. f_equal.
    replace (Z.pos n~1) with (1 + Z.pos n + Z.pos n) by lia. rewrite !Z.pow_add_r by lia. change (2 ^ 1) with 2. ring.
  - assert (H2 : 0 <= shr_m (iter_pos shr_1 n mrs)).
    { rewrite IH by exact H. apply Z.div_pos; [exact H | apply pow2_pos; lia]. }
    rewrite IH by exact H2. rewrite IH by exact H.
    pose proof (pow2_pos (Z.pos n) ltac:(lia)) as P.
    rewrite !Z.div_div by lia. f_equal.
    replace (Z.pos n~0) with (Z.pos n + Z.pos n) by lia. rewrite !Z.pow_add_r by lia. ring.
  - rewrite shr_1_m by exact H. reflexivity.
Qed.

Lemma rne_range : forall q l, round_nearest_even q l = q \/ round_nearest_even q l = q + 1.
Proof. intros q [|[| |]]; simpl; auto. destruct (Z.even q); auto. Qed.

Lemma digits_of_range : forall x k, 0 < k -> 2 ^ (k - 1) <= Z.pos x < 2 ^ k -> Z.pos (digits2_pos x) = k.
Proof.
  intros x k K [L U]. destruct (digits_bound x) as [DU DL]. set (d := Z.pos (digits2_pos x)) in *.
  assert (0 < d) by (unfold d; lia).
  destruct (Z.lt_trichotomy d k) as [Lt|[Eq|Gt]]; auto; exfalso.
  - assert (2 ^ d <= 2 ^ (k - 1)) by (apply Z.pow_le_mono_r; lia). lia.
  - assert (2 ^ k <= 2 ^ (d - 1)) by (apply Z.pow_le_mono_r; lia). lia.
Qed.

(* float64(i) for 2^53 <= |i| < 2^64: a well-formed float (the rounding keeps 53 digits) *)
Lemma big_int_round : forall s p, 2 ^ 53 <= Z.pos p < 2 ^ 64 ->
  valid (binary_round prec64 emax64 s p 0) = true.
Proof.
  intros s p [L U]. destruct (digits_bound p) as [DU DL]. set (d := Z.pos (digits2_pos p)) in *.
  assert (D1 : 54 <= d).
  { destruct (Z_le_gt_dec 54 d); auto. exfalso. assert (2 ^ d <= 2 ^ 53) by (apply Z.pow_le_mono_r; lia). lia. }
  assert (D2 : d <= 64).
  { destruct (Z_le_gt_dec d 64); auto. exfalso. assert (2 ^ 64 <= 2 ^ (d - 1)) by (apply Z.pow_le_mono_r; lia). lia. }
  unfold binary_round. fold d.
  assert (FE : fexp prec64 emax64 (d + 0) = d - 53) by (unfold fexp, emin, prec64, emax64; lia).
  rewrite FE. unfold shl_align. destruct (d - 53 - 0) as [|n|n] eqn:N; try lia.
  unfold binary_round_aux, shr_fexp. unfold Zdigits2 at 1. fold d. rewrite FE.
  replace (d - 53 - 0) with (Z.pos n) by lia. unfold shr at 1.
  set (mrs := iter_pos shr_1 n (shr_record_of_loc (Z.pos p) loc_Exact)).
  assert (Q : shr_m mrs = Z.pos p / 2 ^ Z.pos n) by (unfold mrs; rewrite iter_shr_m; simpl; [reflexivity | lia]).
  pose proof (pow2_pos (Z.pos n) ltac:(lia)) as PN.
  assert (QL : 2 ^ 52 <= shr_m mrs).
  { rewrite Q. apply Z.div_le_lower_bound; [lia|]. rewrite <- Z.pow_add_r by lia.
    replace (Z.pos n + 52) with (d - 1) by lia. exact DL. }
  assert (QU : shr_m mrs < 2 ^ 53).
  { rewrite Q. apply Z.div_lt_upper_bound; [lia|]. rewrite <- Z.pow_add_r by lia.
    replace (Z.pos n + 53) with d by lia. exact DU. }
  set (m1 := round_nearest_even (shr_m mrs) (loc_of_shr_record mrs)).
  assert (M1 : 2 ^ 52 <= m1 <= 2 ^ 53) by (unfold m1; destruct (rne_range (shr_m mrs) (loc_of_shr_record mrs)) as [->| ->]; lia).
  destruct m1 as [|m1p|m1p] eqn:EM; try lia.
  assert (CASE : Z.pos m1p < 2 ^ 53 \/ Z.pos m1p = 2 ^ 53) by lia. destruct CASE as [LT|EQ].
  - assert (DG : Z.pos (digits2_pos m1p) = 53) by (apply digits_of_range; [lia | change (53 - 1) with 52; lia]).
    unfold Zdigits2. rewrite DG.
    assert (FE2 : fexp prec64 emax64 (53 + (0 + Z.pos n)) - (0 + Z.pos n) = 0) by (unfold fexp, emin, prec64, emax64; lia).
    rewrite FE2. cbn [shr shr_record_of_loc shr_m].
    replace (0 + Z.pos n <=? emax64 - prec64) with true by (symmetry; apply Z.leb_le; unfold emax64, prec64; lia).
    unfold valid, valid_binary, bounded. apply andb_true_intro. split.
    + unfold canonical_mantissa. rewrite DG. apply Zeq_is_eq_bool. unfold fexp, emin, prec64, emax64. lia.
    + apply Z.leb_le. unfold emax64, prec64; lia.
  - assert (m1p = 9007199254740992%positive) by (change (2 ^ 53) with (Z.pos 9007199254740992) in EQ; congruence).
    subst m1p. cbn [Zdigits2 digits2_pos Pos.succ].
    replace (fexp prec64 emax64 (54 + (0 + Z.pos n)) - (0 + Z.pos n)) with 1 by (unfold fexp, emin, prec64, emax64; lia).
    cbn [shr iter_pos shr_record_of_loc shr_1 shr_m orb].
    replace (0 + Z.pos n + 1 <=? emax64 - prec64) with true by (symmetry; apply Z.leb_le; unfold emax64, prec64; lia).
    unfold valid, valid_binary, bounded. apply andb_true_intro. split.
    + unfold canonical_mantissa. cbn [digits2_pos Pos.succ]. apply Zeq_is_eq_bool. unfold fexp, emin, prec64, emax64. lia.
    + apply Z.leb_le. unfold emax64, prec64; lia.
Qed.

Lemma of_Z_int64_valid : forall z, - 2 ^ 63 <= z <= 2 ^ 63 -> valid (of_Z z) = true.
Proof.
  intros z H. destruct (Z_le_gt_dec (Z.abs z) two53) as [S|B].
  - apply of_Z_safe_valid. exact S.
  - unfold two53 in B. change (2 ^ 63) with 9223372036854775808 in H.
    destruct z as [|p|p]; try (simpl in B; lia).
    + apply (big_int_round false p). change (2 ^ 53) with 9007199254740992. change (2 ^ 64) with 18446744073709551616. lia.
    + apply (big_int_round true p). change (2 ^ 53) with 9007199254740992. change (2 ^ 64) with 18446744073709551616. lia.
Qed.

(* ------------------------------------------------------------------------------------------ *)
(* math.Mod(f, 2^32) on large integral floats *)

(* exactness of the rounding of p * 2^e0 when p has at most 53 digits (no underflow / overflow) *)
Lemma round_exact_gen : forall s p e0, Z.pos p < 2 ^ 53 -> -1021 <= e0 <= 900 ->
  exists m e, binary_round prec64 emax64 s p e0 = S754_finite s m e /\ e <= e0 /\
              Z.pos m = Z.pos p * 2 ^ (e0 - e) /\ valid (S754_finite s m e) = true.
Proof.
  intros s p e0 H E0. unfold binary_round.
  destruct (digits_bound p) as [DU DL].
  set (d := Z.pos (digits2_pos p)) in *.
  assert (Dle : d <= 53).
  { destruct (Z_le_gt_dec d 53) as [|G]; auto. exfalso.
    assert (2 ^ 53 <= 2 ^ (d - 1)) by (apply Z.pow_le_mono_r; lia). lia. }
  assert (Dpos : 0 < d) by (unfold d; lia).
  assert (FE : fexp prec64 emax64 (d + e0) = d + e0 - 53).
  { unfold fexp, emin, prec64, emax64. lia. }
  rewrite FE. unfold shl_align.
  destruct (d + e0 - 53 - e0) eqn:K; try lia.
  - assert (D53 : d = 53) by lia.
    exists p, e0. split.
    + apply round_aux_exact.
      * unfold canonical_mantissa. fold d. rewrite D53. apply Zeq_is_eq_bool. unfold fexp, emin, prec64, emax64. lia.
      * apply Z.leb_le. unfold emax64, prec64. lia.
    + split; [lia|]. split; [rewrite Z.sub_diag; simpl; lia|].
      unfold valid, valid_binary, bounded. apply andb_true_intro. split.
      * unfold canonical_mantissa. fold d. rewrite D53. apply Zeq_is_eq_bool. unfold fexp, emin, prec64, emax64. lia.
      * apply Z.leb_le. unfold emax64, prec64. lia.
  - assert (Kv : Z.pos p0 = 53 - d) by lia.
    assert (DS : Z.pos (digits2_pos (shift_pos p0 p)) = 53).
    { rewrite (digits_mul_pow2 p (Z.pos p0) ltac:(lia) (shift_pos p0 p) (shift_pos_val p0 p)). fold d. lia. }
    assert (CM : canonical_mantissa prec64 emax64 (shift_pos p0 p) (d + e0 - 53) = true).
    { unfold canonical_mantissa. rewrite DS. unfold fexp, emin, prec64, emax64.
      apply Zeq_is_eq_bool. lia. }
    assert (EB : (d + e0 - 53 <=? emax64 - prec64) = true) by (apply Z.leb_le; unfold emax64, prec64; lia).
    exists (shift_pos p0 p), (d + e0 - 53). split.
    + apply round_aux_exact; auto.
    + split; [lia|]. split.
      * rewrite shift_pos_val. f_equal. f_equal. lia.
      * unfold valid, valid_binary, bounded. rewrite CM. exact EB.
Qed.

Definition c32 : f64 := S754_finite false 4503599627370496 (-20).   (* 2^32 *)

Lemma go_int64_small_exact : forall s m e q, e < 0 -> Z.pos m / 2 ^ (- e) = q -> 0 <= q < 2 ^ 32 ->
  go_int64_of_float (S754_finite s m e) = if s then - q else q.
Proof.
  intros s m e q E Q B. unfold go_int64_of_float, trunc_Z.
  replace (0 <=? e) with false by (symmetry; apply Z.leb_gt; lia). rewrite Q.
  change (2 ^ 32) with 4294967296 in B.
  destruct s.
  - replace (-9223372036854775808 <=? - q) with true by (symmetry; apply Z.leb_le; lia).
    replace (- q <? 9223372036854775808) with true by (symmetry; apply Z.ltb_lt; lia). reflexivity.
  - replace (-9223372036854775808 <=? q) with true by (symmetry; apply Z.leb_le; lia).
    replace (q <? 9223372036854775808) with true by (symmetry; apply Z.ltb_lt; lia). reflexivity.
Qed.

(* int64(math.Mod(f, 2^32)) for an integral f with exponent >= 11 is the truncated remainder of f modulo 2^32 *)
Lemma mod32_big : forall s m e, 11 <= e ->
  go_int64_of_float (go_mod (S754_finite s m e) c32) = Z.rem (tz (S754_finite s m e)) (2 ^ 32).
Proof.
  intros s m e E. unfold go_mod, c32. rewrite Z.min_r by lia. cbv zeta.
  change (-20 - -20) with 0. change (2 ^ 0) with 1. rewrite Z.mul_1_r.
  set (K := Z.pos m * 2 ^ e).
  assert (KP : 0 < K) by (unfold K; apply Z.mul_pos_pos; [lia | apply pow2_pos; lia]).
  assert (A : Z.pos m * 2 ^ (e - -20) = K * 2 ^ 20).
  { unfold K. replace (e - -20) with (e + 20) by lia. rewrite Z.pow_add_r by lia. ring. }
  rewrite A. change (Z.pos 4503599627370496) with (2 ^ 32 * 2 ^ 20).
  rewrite Z.mul_mod_distr_r by (apply Z.pow_nonzero; lia).
  set (q := K mod 2 ^ 32).
  assert (QB : 0 <= q < 2 ^ 32) by (apply Z.mod_pos_bound; apply pow2_pos; lia).
  assert (TZ : tz (S754_finite s m e) = if s then - K else K).
  { unfold tz, trunc_Z. replace (0 <=? e) with true by (symmetry; apply Z.leb_le; lia). reflexivity. }
  assert (REM : Z.rem (tz (S754_finite s m e)) (2 ^ 32) = if s then - q else q).
  { rewrite TZ. destruct s.
    - rewrite Z.rem_opp_l by (apply Z.pow_nonzero; lia). rewrite Z.rem_mod_nonneg by (try apply pow2_pos; lia). reflexivity.
    - rewrite Z.rem_mod_nonneg by (try apply pow2_pos; lia). reflexivity. }
  rewrite REM.
  destruct (q * 2 ^ 20 =? 0) eqn:R0.
  - apply Z.eqb_eq in R0. assert (q = 0) by (change (2 ^ 20) with 1048576 in R0; lia).
    replace q with 0 by lia. destruct s; reflexivity.
  - apply Z.eqb_neq in R0. assert (QP : 0 < q) by (change (2 ^ 20) with 1048576 in R0; lia).
    assert (RP : 0 < q * 2 ^ 20) by (change (2 ^ 20) with 1048576; lia).
    destruct (q * 2 ^ 20) as [|rp|rp] eqn:RR; try lia.
    assert (RB : Z.pos rp < 2 ^ 53).
    { rewrite <- RR. change (2 ^ 53) with (2 ^ 33 * 2 ^ 20). apply Z.mul_lt_mono_pos_r; [apply pow2_pos; lia|].
      change (2 ^ 33) with 8589934592. change (2 ^ 32) with 4294967296 in QB. lia. }
    assert (BN : binary_normalize prec64 emax64 (if s then - Z.pos rp else Z.pos rp) (-20) s = binary_round prec64 emax64 s rp (-20))
      by (destruct s; reflexivity).
    rewrite BN.
    destruct (round_exact_gen s rp (-20) RB ltac:(lia)) as [m' [e' [BR [EL [MV _]]]]].
    rewrite BR. apply go_int64_small_exact; [lia | | exact QB].
    rewrite MV, <- RR.
    replace (2 ^ (- e')) with (2 ^ 20 * 2 ^ (-20 - e')) by (rewrite <- Z.pow_add_r by lia; f_equal; lia).
    rewrite Z.div_mul_cancel_r by (apply Z.pow_nonzero; lia).
    apply Z.div_mul. apply Z.pow_nonzero; lia.
Qed.

(* ------------------------------------------------------------------------------------------ *)
(* runtime.go floatToInt64Mod32 *)

Lemma big_exp : forall s m e, valid (S754_finite s m e) = true -> 2 ^ 63 <= Z.abs (tz (S754_finite s m e)) -> 11 <= e.
Proof.
  intros s m e V B. destruct (valid_finite_bounds _ _ _ V) as [Hm _].
  destruct (Z_le_gt_dec 11 e) as [|G]; auto. exfalso.
  assert (A : Z.abs (tz (S754_finite s m e)) = tz (S754_finite false m e)).
  { pose proof (tz_finite_pos m e). destruct s; [rewrite tz_finite_neg|]; lia. }
  rewrite A in B. unfold tz, trunc_Z in B. destruct (0 <=? e) eqn:E.
  - apply Z.leb_le in E.
    assert (Z.pos m * 2 ^ e < 2 ^ 53 * 2 ^ e) by (apply Z.mul_lt_mono_pos_r; [apply pow2_pos; lia | exact Hm]).
    assert (2 ^ 53 * 2 ^ e <= 2 ^ 63) by (rewrite <- Z.pow_add_r by lia; apply Z.pow_le_mono_r; lia). lia.
  - apply Z.leb_gt in E. pose proof (tz_abs_bound false m e E) as T. unfold tz, trunc_Z in T.
    replace (0 <=? e) with false in T by (symmetry; apply Z.leb_gt; lia).
    assert (2 ^ 53 < 2 ^ 63) by reflexivity. lia.
Qed.

Lemma floatToInt64Mod32_gen_tie : forall f, valid f = true ->
  floatToInt64Mod32_gen f = Model.floatToInt64Mod32 f.
Proof.
  intros f V. unfold floatToInt64Mod32_gen, Model.floatToInt64Mod32.
  destruct f as [s|s| |s m e].
  - destruct s; reflexivity.
  - destruct s; reflexivity.
  - reflexivity.
  - set (F := S754_finite s m e) in *.
    rewrite c_two63, c_mtwo63.
    rewrite (flt_pow2 F 63 V eq_refl ltac:(lia)), (fge_mpow2 F 63 V eq_refl ltac:(lia)).
    rewrite (tz_some F eq_refl). change (2 ^ 63) with two63.
    destruct ((- two63 <=? tz F) && (tz F <? two63)) eqn:C.
    + unfold go_int64_of_float. rewrite (tz_some F eq_refl).
      change (-9223372036854775808) with (- two63). change 9223372036854775808 with two63. rewrite C. reflexivity.
    + change (go_float_of_int 4294967296) with c32. unfold F. rewrite mod32_big; [reflexivity|].
      apply (big_exp s m e V). fold F.
      apply andb_false_iff in C. unfold two63 in C. change (2 ^ 63) with 9223372036854775808.
      destruct C as [C|C]; [apply Z.leb_gt in C | apply Z.ltb_ge in C]; lia.
Qed.

(* ------------------------------------------------------------------------------------------ *)
(* vm.go intToValue / floatToValue (one recursion group) *)

Lemma wrap64_spec : forall z, in_int64 (GoSem.wrapS 64 z) /\ exists k, GoSem.wrapS 64 z = z + k * 18446744073709551616.
Proof.
  intro z. unfold GoSem.wrapS, in_int64.
  change (2 ^ (64 - 1)) with 9223372036854775808. change (2 ^ 64) with 18446744073709551616.
  pose proof (Z.mod_pos_bound (z + 9223372036854775808) 18446744073709551616 ltac:(lia)) as B.
  split; [lia|].
  exists (- ((z + 9223372036854775808) / 18446744073709551616)).
  pose proof (Z.div_mod (z + 9223372036854775808) 18446744073709551616 ltac:(lia)). lia.
Qed.

Lemma in_range_int64 : forall i, int_in_range i = true -> in_int64 i /\ - two53 <= i <= two53.
Proof.
  intros i R. unfold int_in_range in R. apply andb_prop in R. destruct R as [A B].
  apply Z.leb_le in A. apply Z.leb_le in B. unfold in_int64. unfold two53 in *. lia.
Qed.

Lemma intToValue_body_in_range : forall rf ri i, int_in_range i = true -> intToValue_body rf ri i = NInt i.
Proof.
  intros rf ri i R. destruct (in_range_int64 i R) as [I B]. unfold two53 in B.
  unfold intToValue_body, intCache_elem. cbv zeta.
  rewrite (wrap64_in (256 + i)) by (unfold in_int64 in *; lia).
  destruct ((0 <=? 256 + i) && (256 + i <? 256)) eqn:C.
  - apply andb_prop in C. destruct C as [C1 C2]. apply Z.leb_le in C1. apply Z.ltb_lt in C2.
    rewrite wrap64_in by (unfold in_int64; lia). f_equal. lia.
  - change ((-9007199254740992 <=? i) && (i <=? 9007199254740992)) with (int_in_range i). rewrite R. reflexivity.
Qed.

Lemma intToValue_bounds_ok : forall rf ri i, intToValue_bounds rf ri i = true.
Proof.
  intros rf ri i. unfold intToValue_bounds. cbv zeta.
  destruct ((0 <=? GoSem.wrapS 64 (256 + i)) && (GoSem.wrapS 64 (256 + i) <? 256)); reflexivity.
Qed.

Lemma floatToInt_some_range : forall f k, Model.floatToInt f = Some k -> int_in_range k = true.
Proof.
  intros f k H. unfold Model.floatToInt in H. destruct (int_like f) eqn:IL; [|discriminate].
  destruct (int_like_trunc f IL) as [k' [T B]]. rewrite (go_int64_small f k' T B) in H.
  inversion H; subst k'. unfold int_in_range. apply andb_true_intro. split; apply Z.leb_le; lia.
Qed.

Lemma floatToValue_body_tie : forall rf ri f, valid f = true ->
  (forall i, int_in_range i = true -> ri i = NInt i) ->
  floatToValue_body rf ri f = Model.floatToValue f.
Proof.
  intros rf ri f V H. unfold floatToValue_body. rewrite (floatToInt_gen_tie f V).
  unfold Model.floatToValue. destruct (Model.floatToInt f) as [k|] eqn:FI.
  - pose proof (floatToInt_some_range f k FI) as R. rewrite R. cbn iota beta. apply H. exact R.
  - cbn iota beta. unfold Model.floatToInt in FI.
    destruct f as [s|s| |s m e].
    + destruct s; [reflexivity | discriminate FI].
    + destruct s; reflexivity.
    + reflexivity.
    + change (go_float_of_int 0) with (S754_zero false). unfold go_feq. rewrite feqb_zero_r. reflexivity.
Qed.

Lemma intToValue_body_tie : forall rf ri i, in_int64 i ->
  (forall f, valid f = true -> rf f = Model.floatToValue f) ->
  intToValue_body rf ri i = Model.intToValue i.
Proof.
  intros rf ri i I H. unfold Model.intToValue. destruct (int_in_range i) eqn:R.
  - apply intToValue_body_in_range. exact R.
  - unfold intToValue_body. cbv zeta.
    destruct (wrap64_spec (256 + i)) as [W [k WK]].
    destruct ((0 <=? GoSem.wrapS 64 (256 + i)) && (GoSem.wrapS 64 (256 + i) <? 256)) eqn:C.
    + exfalso. apply andb_prop in C. destruct C as [C1 C2]. apply Z.leb_le in C1. apply Z.ltb_lt in C2.
      unfold int_in_range, two53 in R. apply andb_false_iff in R. unfold in_int64 in I.
      destruct R as [R|R]; [apply Z.leb_gt in R | apply Z.leb_gt in R]; lia.
    + change ((-9007199254740992 <=? i) && (i <=? 9007199254740992)) with (int_in_range i). rewrite R.
      apply H. apply of_Z_int64_valid. unfold in_int64 in I. change (2 ^ 63) with 9223372036854775808. lia.
Qed.

Lemma unroll_tie : forall n b1 b2,
  (forall f, valid f = true -> fst (floatToValue_intToValue_unroll (3 + n) b1 b2) f = Model.floatToValue f) /\
  (forall i, in_int64 i -> snd (floatToValue_intToValue_unroll (3 + n) b1 b2) i = Model.intToValue i).
Proof.
  intros n b1 b2.
  assert (P1 : forall k i, int_in_range i = true -> snd (floatToValue_intToValue_unroll (S k) b1 b2) i = NInt i).
  { intros k i R. cbn [floatToValue_intToValue_unroll snd]. apply intToValue_body_in_range. exact R. }
  assert (P2 : forall k f, valid f = true -> fst (floatToValue_intToValue_unroll (S (S k)) b1 b2) f = Model.floatToValue f).
  { intros k f V. cbn [floatToValue_intToValue_unroll fst]. apply floatToValue_body_tie; [exact V | apply P1]. }
  split.
  - intros f V. apply (P2 (S n)). exact V.
  - intros i I. change (3 + n)%nat with (S (S (S n))). cbn [floatToValue_intToValue_unroll snd].
    apply intToValue_body_tie; [exact I | apply P2].
Qed.

(* the closed definitions do not depend on the depth-0 functions, and equal the model *)
Theorem floatToValue_gen_tie : forall f, valid f = true -> floatToValue_gen f = Model.floatToValue f.
Proof. intros f V. unfold floatToValue_gen. apply (proj1 (unroll_tie 1 _ _)). exact V. Qed.
Theorem intToValue_gen_tie : forall i, in_int64 i -> intToValue_gen i = Model.intToValue i.
Proof. intros i I. unfold intToValue_gen. apply (proj2 (unroll_tie 1 _ _)). exact I. Qed.

(* ------------------------------------------------------------------------------------------ *)
(* runtime.go toInt8 ... toUint32: the model's toIntN *)

Lemma finite_cond : forall f, negb (go_isnan f) && negb (go_isinf f 0) = is_finite f.
Proof. intros [s|s| |s m e]; reflexivity. Qed.

Ltac toIntN_tac :=
  intros a W; destruct a as [i|f]; cbv zeta beta; cbn [Model.toIntN];
  [ reflexivity
  | simpl in W; rewrite finite_cond; rewrite (floatToInt64Mod32_gen_tie f W); reflexivity ].

Theorem toInt8_gen_tie : forall a, wf a = true -> toInt8_gen a = Model.toIntN true 8 a.
Proof. unfold toInt8_gen. toIntN_tac. Qed.
Theorem toUint8_gen_tie : forall a, wf a = true -> toUint8_gen a = Model.toIntN false 8 a.
Proof. unfold toUint8_gen. toIntN_tac. Qed.
Theorem toInt16_gen_tie : forall a, wf a = true -> toInt16_gen a = Model.toIntN true 16 a.
Proof. unfold toInt16_gen. toIntN_tac. Qed.
Theorem toUint16_gen_tie : forall a, wf a = true -> toUint16_gen a = Model.toIntN false 16 a.
Proof. unfold toUint16_gen. toIntN_tac. Qed.
Theorem toInt32_gen_tie : forall a, wf a = true -> toInt32_gen a = Model.toInt32 a.
Proof. unfold toInt32_gen, Model.toInt32. toIntN_tac. Qed.
Theorem toUint32_gen_tie : forall a, wf a = true -> toUint32_gen a = Model.toUint32 a.
Proof. unfold toUint32_gen, Model.toUint32. toIntN_tac. Qed.

(* toInt64 / toUint64 have no counterpart in the model: reference definitions *)
Definition toInt64_ref (a : jsnum) : Z :=
  match a with NInt i => i | NFlt f => if is_finite f then go_int64 f else 0 end.
Definition toUint64_ref (a : jsnum) : Z := Model.wrapU 64 (toInt64_ref a).

Theorem toInt64_gen_tie : forall a, toInt64_gen a = toInt64_ref a.
Proof. intros [i|f]; unfold toInt64_gen; cbv zeta beta; [reflexivity | rewrite finite_cond; reflexivity]. Qed.
Theorem toUint64_gen_tie : forall a, toUint64_gen a = toUint64_ref a.
Proof.
  intros [i|f]; unfold toUint64_gen, toUint64_ref; cbv zeta beta; [reflexivity|].
  rewrite finite_cond. cbn [toInt64_ref]. destruct (is_finite f); reflexivity.
Qed.

(* ------------------------------------------------------------------------------------------ *)
(* runtime.go toUint8Clamp *)

Lemma land_1_odd : forall r, negb (Z.land r 1 =? 0) = Z.odd r.
Proof.
  intro r. change 1 with (Z.ones 1). rewrite Z.land_ones by lia. change (2 ^ 1) with 2.
  rewrite Zmod_odd. destruct (Z.odd r); reflexivity.
Qed.

Theorem toUint8Clamp_gen_tie : forall a, toUint8Clamp_gen a = Model.toUint8Clamp a.
Proof.
  intros [i|num]; unfold toUint8Clamp_gen, Model.toUint8Clamp; cbv zeta beta.
  - destruct (Z.ltb_spec i 0); [reflexivity|]. destruct (Z.leb_spec i 255); [|reflexivity].
    unfold to_uint8, GoSem.wrapU. change (2 ^ 8) with 256. apply Z.mod_small. lia.
  - rewrite land_1_odd. unfold go_isnan. destruct (is_nan num); cbn [negb]; reflexivity.
Qed.

(* ------------------------------------------------------------------------------------------ *)
(* value.go floatToIntClip, ToInteger; runtime.go toLength *)

Theorem floatToIntClip_gen_tie : forall n, floatToIntClip_gen n = Model.floatToIntClip n.
Proof. intro n. reflexivity. Qed.

Theorem Value_ToInteger_gen_tie : forall a, Value_ToInteger_gen a = Model.toInteger a.
Proof. intros [i|f]; reflexivity. Qed.

Theorem toLength_gen_tie : forall a, toLength_gen a = Model.toLength a.
Proof.
  intro a. unfold toLength_gen, Model.toLength. cbv zeta. rewrite Value_ToInteger_gen_tie.
  destruct (Model.toInteger a <? 0); reflexivity.
Qed.

(* ------------------------------------------------------------------------------------------ *)
(* builtin_array.go relToIdx, array.go toIdx, runtime.go toIntStrict / toIntClamp (64-bit int): no counterpart in
   the model; tied to their plain specification *)

(* shape-independent: unwrap the in-range additions, split on every condition, decide with lia *)
Ltac unwrap64 :=
  repeat match goal with
  | |- context [GoSem.wrapS 64 ?z] => rewrite (wrap64_in z) by (unfold in_int64 in *; lia)
  | H : context [GoSem.wrapS 64 ?z] |- _ => rewrite (wrap64_in z) in H by (unfold in_int64 in *; lia)
  end.
Ltac split_conds :=
  repeat match goal with
  | |- context [if ?c then _ else _] => destruct c eqn:?
  end;
  repeat match goal with
  | H : (_ && _) = true |- _ => apply andb_prop in H; destruct H
  | H : (_ && _) = false |- _ => apply andb_false_iff in H; destruct H
  | H : (_ <=? _) = true |- _ => apply Z.leb_le in H
  | H : (_ <=? _) = false |- _ => apply Z.leb_gt in H
  | H : (_ <? _) = true |- _ => apply Z.ltb_lt in H
  | H : (_ <? _) = false |- _ => apply Z.ltb_ge in H
  | H : (_ =? _) = true |- _ => apply Z.eqb_eq in H
  | H : (_ =? _) = false |- _ => apply Z.eqb_neq in H
  end.

Theorem relToIdx_gen_spec : forall rel l, in_int64 rel -> 0 <= l <= two53 ->
  relToIdx_gen rel l = (if 0 <=? rel then Z.min rel l else Z.max (l + rel) 0) /\
  0 <= relToIdx_gen rel l <= l.
Proof.
  intros rel l R L. unfold relToIdx_gen, go_min, go_max, two53 in *. cbv zeta.
  assert (R' := R). unfold in_int64 in R'.
  split; unwrap64; split_conds; unwrap64; lia.
Qed.

Theorem toIdx_gen_spec : forall v, in_int64 v ->
  toIdx_gen v = (if (0 <=? v) && (v <? 4294967295) then v else 4294967295) /\
  0 <= toIdx_gen v <= 4294967295.
Proof.
  intros v V. unfold toIdx_gen, to_uint32, GoSem.wrapU. cbv zeta. change (2 ^ 32) with 4294967296.
  split; split_conds; try rewrite Z.mod_small by lia; lia.
Qed.

Theorem toIntStrict_gen_id : forall i, toIntStrict_gen i = i.
Proof. reflexivity. Qed.
Theorem toIntClamp_gen_id : forall i, toIntClamp_gen i = i.
Proof. reflexivity. Qed.

(* ------------------------------------------------------------------------------------------ *)
(* transfer: the C05 theorems hold of the code as translated *)

Corollary floatToValue_gen_canon : forall f, valid f = true -> canon (floatToValue_gen f) = true.
Proof. intros f V. rewrite floatToValue_gen_tie by exact V. apply Proofs2.floatToValue_canon. Qed.
Corollary floatToValue_gen_eq_canon_of : forall f, valid f = true -> floatToValue_gen f = canon_of f.
Proof. intros f V. rewrite floatToValue_gen_tie by exact V. apply Proofs2.floatToValue_eq_canon_of. Qed.
Corollary intToValue_gen_canon : forall i, in_int64 i -> canon (intToValue_gen i) = true.
Proof. intros i I. rewrite intToValue_gen_tie by exact I. apply Proofs2.intToValue_canon. Qed.
Corollary toInt32_gen_eq_spec : forall a, canon a = true -> wf a = true -> toInt32_gen a = ToInt32_spec (val a).
Proof. intros a C W. rewrite toInt32_gen_tie by exact W. apply Proofs4.toInt32_eq_spec. exact C. Qed.
Corollary toUint32_gen_eq_spec : forall a, canon a = true -> wf a = true -> toUint32_gen a = ToUint32_spec (val a).
Proof. intros a C W. rewrite toUint32_gen_tie by exact W. apply Proofs4.toUint32_eq_spec. exact C. Qed.
Corollary toInt8_gen_eq_spec : forall a, canon a = true -> wf a = true -> toInt8_gen a = spec_modulo 8 true (val a).
Proof. intros a C W. rewrite toInt8_gen_tie by exact W. apply Proofs4.toIntN_eq_spec; [lia | exact C]. Qed.
Corollary toUint8_gen_eq_spec : forall a, canon a = true -> wf a = true -> toUint8_gen a = spec_modulo 8 false (val a).
Proof. intros a C W. rewrite toUint8_gen_tie by exact W. apply Proofs4.toIntN_eq_spec; [lia | exact C]. Qed.
Corollary toInt16_gen_eq_spec : forall a, canon a = true -> wf a = true -> toInt16_gen a = spec_modulo 16 true (val a).
Proof. intros a C W. rewrite toInt16_gen_tie by exact W. apply Proofs4.toIntN_eq_spec; [lia | exact C]. Qed.
Corollary toUint16_gen_eq_spec : forall a, canon a = true -> wf a = true -> toUint16_gen a = spec_modulo 16 false (val a).
Proof. intros a C W. rewrite toUint16_gen_tie by exact W. apply Proofs4.toIntN_eq_spec; [lia | exact C]. Qed.

(* non-vacuity: the generated code computes (vm_compute), on both sides of each boundary *)
Example leaf_gen_examples :
  intToValue_gen 9007199254740992 = NInt 9007199254740992 /\
  intToValue_gen 9007199254740993 = NInt 9007199254740992 /\ intToValue_gen 9007199254740995 = NFlt (of_Z 9007199254740996) /\
  intToValue_gen (-1) = NInt (-1) /\
  floatToValue_gen (of_Z 6) = NInt 6 /\ floatToValue_gen fnegzero = NFlt fnegzero /\
  floatToValue_gen (of_Z_scaled 5 (-1)) = NFlt (of_Z_scaled 5 (-1)) /\
  toInt32_gen (NFlt (of_Z_scaled 1 63)) = 0 /\ toInt32_gen (NFlt (of_Z (2 ^ 64 + 2 ^ 12))) = 4096 /\
  toUint8Clamp_gen (NFlt (of_Z_scaled 5 (-1))) = 2 /\ toUint8Clamp_gen (NFlt (of_Z_scaled 7 (-1))) = 4 /\
  toLength_gen (NFlt (finf false)) = 9007199254740991 /\
  relToIdx_gen (-3) 8 = 5 /\ toIdx_gen 4294967295 = 4294967295 /\ LeafGen.untranslated = nil.
Proof. vm_compute. repeat split; reflexivity. Qed.

(* math.Trunc as GoSem defines it agrees with the model's ftrunc where the latter is cheap to evaluate *)
Example go_trunc_examples :
  map go_trunc (of_Z_scaled 5 (-1) :: of_Z_scaled (-5) (-1) :: of_Z_scaled (-1) (-1) :: of_Z (2 ^ 60) :: fnegzero :: finf true :: fnan :: nil) =
  map ftrunc (of_Z_scaled 5 (-1) :: of_Z_scaled (-5) (-1) :: of_Z_scaled (-1) (-1) :: of_Z (2 ^ 60) :: fnegzero :: finf true :: fnan :: nil).
Proof. vm_compute. reflexivity. Qed.
