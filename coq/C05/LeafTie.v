(* C05/LeafTie — the GENERATED translation of goja's leaf numeric functions (C05/LeafGen.v, produced by
   harness/cmd/go2v from the Go sources on every run) equals the hand-written model (C05/Model.v) that the
   C05 theorems are about: for every translated function f a lemma  f_gen x = Model.f x  for ALL x that
   satisfy the stated precondition (integers in the range of their Go type; float payloads well-formed
   SpecFloat values, [valid]).  Hence canon_closed, toIntN_eq_spec, ... hold of the code as translated.

   Proof style: unfold the generated definition, split on the conditions, close the arithmetic with lia, so
   that renamings / reorderings of the Go code keep the proofs; a change of behaviour breaks them (and the
   driver then searches for a failing input, checks/C05.py). *)
From Coq Require Import ZArith Bool List SpecFloat Lia Zpower.
From Verif.Base Require Import F64.
From Verif.C05 Require Import Model Proofs Proofs2 Proofs3 Proofs4 Proofs5 GoSem LeafGen.
Local Open Scope Z_scope.

(* ------------------------------------------------------------------------------------------ *)
(* GoSem agrees with the helper definitions of the model *)

Lemma wrapS_model : forall b z, GoSem.wrapS b z = Model.wrapS b z.
Proof. reflexivity. Qed.
Lemma wrapU_model : forall b z, GoSem.wrapU b z = Model.wrapU b z.
Proof. reflexivity. Qed.
Lemma go_int64_model : forall f, go_int64_of_float f = go_int64 f.
Proof. reflexivity. Qed.
Lemma go_mod_model : forall x y, go_mod x y = fmod x y.
Proof. reflexivity. Qed.
Lemma go_floor_model : forall x, go_floor x = ffloor x.
Proof. reflexivity. Qed.

Lemma wrap64_in : forall z, in_int64 z -> GoSem.wrapS 64 z = z.
Proof.
  intros z [L U]. unfold GoSem.wrapS.
  change (2 ^ (64 - 1)) with 9223372036854775808. change (2 ^ 64) with 18446744073709551616.
  rewrite Z.mod_small; lia.
Qed.

(* ------------------------------------------------------------------------------------------ *)
(* well-formed finite floats: size of the mantissa *)

Lemma valid_finite_bounds : forall s m e, valid (S754_finite s m e) = true ->
  Z.pos m < 2 ^ 53 /\ -1074 <= e <= 971 /\ (-1074 < e -> 2 ^ 52 <= Z.pos m).
Proof.
  intros s m e V. unfold valid, valid_binary, bounded in V. apply andb_prop in V. destruct V as [C B].
  apply Z.leb_le in B. unfold canonical_mantissa in C. apply Zeq_bool_eq in C.
  unfold fexp, emin, prec64, emax64 in *.
  destruct (digits_bound m) as [DU DL]. set (d := Z.pos (digits2_pos m)) in *.
  assert (Dpos : 0 < d) by (unfold d; lia).
  destruct (Z_le_gt_dec (3 - 1024 - 53) (d + e - 53)) as [G|G].
  - rewrite Z.max_l in C by lia. assert (d = 53) by lia.
    replace d with 53 in * by lia. change (53 - 1) with 52 in DL. repeat split; lia.
  - rewrite Z.max_r in C by lia. assert (D : d < 53) by lia.
    assert (2 ^ d <= 2 ^ 53) by (apply Z.pow_le_mono_r; lia). repeat split; lia.
Qed.

(* the integral part as a total function (0 for NaN / infinities) *)
Definition tz (f : f64) : Z := match trunc_Z f with Some k => k | None => 0 end.

Lemma tz_finite_pos : forall m e, 0 <= tz (S754_finite false m e).
Proof.
  intros m e. unfold tz, trunc_Z. destruct (0 <=? e) eqn:E.
  - apply Z.leb_le in E. apply Z.mul_nonneg_nonneg; [lia | apply Z.pow_nonneg; lia].
  - apply Z.div_pos; [lia | apply Z.pow_pos_nonneg; [lia | apply Z.leb_gt in E; lia]].
Qed.

Lemma tz_finite_neg : forall m e, tz (S754_finite true m e) = - tz (S754_finite false m e).
Proof. intros m e. unfold tz, trunc_Z. destruct (0 <=? e); reflexivity. Qed.

Lemma pcmp_Z : forall m p, Pos.compare_cont Eq m p = (Z.pos m ?= Z.pos p).
Proof. reflexivity. Qed.

(* comparison of a well-formed finite float with +2^k, k >= 53, decided on the integral parts *)
Lemma cmp_pos_pow2 : forall m e k, valid (S754_finite false m e) = true -> 53 <= k ->
  SFcompare (S754_finite false m e) (S754_finite false 4503599627370496 (k - 52)) =
  Some (tz (S754_finite false m e) ?= 2 ^ k).
Proof.
  intros m e k V K. destruct (valid_finite_bounds _ _ _ V) as [Hm [He Hn]].
  assert (P52 : Z.pos 4503599627370496 = 2 ^ 52) by reflexivity.
  unfold SFcompare. destruct (Z.compare_spec e (k - 52)) as [Eq|Lt|Gt].
  - (* same exponent *)
    subst e. unfold tz, trunc_Z.
    replace (0 <=? k - 52) with true by (symmetry; apply Z.leb_le; lia).
    rewrite pcmp_Z, P52. f_equal.
    replace (2 ^ k) with (2 ^ 52 * 2 ^ (k - 52)) by (rewrite <- Z.pow_add_r by lia; f_equal; lia).
    apply Zmult_compare_compat_r. apply Z.lt_gt. apply Z.pow_pos_nonneg; lia.
  - f_equal. symmetry. apply Z.compare_lt_iff. unfold tz, trunc_Z.
    destruct (0 <=? e) eqn:E.
    + apply Z.leb_le in E.
      apply Z.lt_le_trans with (2 ^ 53 * 2 ^ e).
      * apply Z.mul_lt_mono_pos_r; [apply Z.pow_pos_nonneg; lia | exact Hm].
      * rewrite <- Z.pow_add_r by lia. apply Z.pow_le_mono_r; lia.
    + apply Z.leb_gt in E.
      apply Z.le_lt_trans with (Z.pos m).
      * apply Z.div_le_upper_bound; [apply Z.pow_pos_nonneg; lia|].
        rewrite <- (Z.mul_1_l (Z.pos m)) at 1. apply Z.mul_le_mono_nonneg_r; [lia|].
        apply (Z.pow_le_mono_r 2 0); lia.
      * apply Z.lt_le_trans with (2 ^ 53); [exact Hm | apply Z.pow_le_mono_r; lia].
  - f_equal. symmetry. apply Z.compare_gt_iff. unfold tz, trunc_Z.
    replace (0 <=? e) with true by (symmetry; apply Z.leb_le; lia).
    assert (N : 2 ^ 52 <= Z.pos m) by (apply Hn; lia).
    apply Z.lt_le_trans with (2 ^ (k + 1)); [apply Z.pow_lt_mono_r; lia|].
    apply Z.le_trans with (2 ^ 52 * 2 ^ e).
    + rewrite <- Z.pow_add_r by lia. apply Z.pow_le_mono_r; lia.
    + apply Z.mul_le_mono_nonneg_r; [apply Z.pow_nonneg; lia | exact N].
Qed.

Lemma valid_flip_sign : forall s m e, valid (S754_finite s m e) = valid (S754_finite (negb s) m e).
Proof. reflexivity. Qed.

Lemma pow2_pos : forall k, 0 <= k -> 0 < 2 ^ k.
Proof. intros. apply Z.pow_pos_nonneg; lia. Qed.

Lemma SFcompare_negneg : forall m1 e1 m2 e2,
  SFcompare (S754_finite true m1 e1) (S754_finite true m2 e2) =
  match SFcompare (S754_finite false m1 e1) (S754_finite false m2 e2) with Some c => Some (CompOpp c) | None => None end.
Proof. intros. cbn [SFcompare]. destruct (e1 ?= e2); reflexivity. Qed.

(* every well-formed finite float against +-2^k, k >= 53 *)
Lemma cmp_pow2 : forall f k, valid f = true -> is_finite f = true -> 53 <= k ->
  SFcompare f (S754_finite false 4503599627370496 (k - 52)) = Some (tz f ?= 2 ^ k) /\
  SFcompare f (S754_finite true 4503599627370496 (k - 52)) = Some (tz f ?= - 2 ^ k).
Proof.
  intros f k V F K. pose proof (pow2_pos k ltac:(lia)) as PK.
  destruct f as [s|s| |s m e]; try discriminate.
  - (* zero *) change (tz (S754_zero s)) with 0. cbn [SFcompare]. split; f_equal; symmetry.
    + apply Z.compare_lt_iff; lia.
    + apply Z.compare_gt_iff; lia.
  - destruct s.
    + (* negative float *)
      assert (V' : valid (S754_finite false m e) = true) by exact V.
      pose proof (cmp_pos_pow2 m e k V' K) as C. pose proof (tz_finite_pos m e) as P.
      rewrite tz_finite_neg. split.
      * simpl. f_equal. symmetry. apply Z.compare_lt_iff. lia.
      * rewrite Z.compare_opp. rewrite SFcompare_negneg, C. rewrite (Z.compare_antisym (tz (S754_finite false m e))). reflexivity.
    + split.
      * apply cmp_pos_pow2; assumption.
      * pose proof (tz_finite_pos m e) as P. simpl. f_equal. symmetry. apply Z.compare_gt_iff. lia.
Qed.

(* SFcompare with the arguments exchanged *)
Lemma SFcompare_swap : forall x y, SFcompare y x = match SFcompare x y with Some c => Some (CompOpp c) | None => None end.
Proof.
  intros x y. destruct x as [s1|s1| |s1 m1 e1]; destruct y as [s2|s2| |s2 m2 e2]; simpl; try reflexivity;
    try (destruct s1; reflexivity); try (destruct s2; reflexivity); try (destruct s1, s2; reflexivity).
  destruct s1, s2; try reflexivity.
  - rewrite (Z.compare_antisym e1 e2). destruct (e1 ?= e2); simpl; try reflexivity.
    rewrite (Pos.compare_cont_antisym m1 m2 Eq). reflexivity.
  - rewrite (Z.compare_antisym e1 e2). destruct (e1 ?= e2); simpl; try reflexivity.
    rewrite (Pos.compare_cont_antisym m1 m2 Eq). reflexivity.
Qed.

(* the constants as they are written by the translator *)
Lemma c_two53 : go_float_of_int 9007199254740992 = S754_finite false 4503599627370496 (53 - 52).
Proof. reflexivity. Qed.
Lemma c_mtwo53 : go_float_of_int (-9007199254740992) = S754_finite true 4503599627370496 (53 - 52).
Proof. reflexivity. Qed.
Lemma c_two63 : go_float_of_int 9223372036854775808 = S754_finite false 4503599627370496 (63 - 52).
Proof. reflexivity. Qed.
Lemma c_mtwo63 : go_float_of_int (-9223372036854775808) = S754_finite true 4503599627370496 (63 - 52).
Proof. reflexivity. Qed.

Lemma ltb_compare : forall a b, (a <? b) = match a ?= b with Lt => true | _ => false end.
Proof. reflexivity. Qed.
Lemma leb_compare : forall a b, (a <=? b) = match a ?= b with Gt => false | _ => true end.
Proof. reflexivity. Qed.

(* f <= 2^k, f < 2^k, -2^k <= f  as integer comparisons of the integral part *)
Lemma fle_pow2 : forall f k, valid f = true -> is_finite f = true -> 53 <= k ->
  go_fle f (S754_finite false 4503599627370496 (k - 52)) = (tz f <=? 2 ^ k).
Proof.
  intros f k V F K. destruct (cmp_pow2 f k V F K) as [C _].
  unfold go_fle, fleb, SFleb. rewrite C, leb_compare. destruct (tz f ?= 2 ^ k); reflexivity.
Qed.
Lemma flt_pow2 : forall f k, valid f = true -> is_finite f = true -> 53 <= k ->
  go_flt f (S754_finite false 4503599627370496 (k - 52)) = (tz f <? 2 ^ k).
Proof.
  intros f k V F K. destruct (cmp_pow2 f k V F K) as [C _].
  unfold go_flt, fltb, SFltb. rewrite C, ltb_compare. destruct (tz f ?= 2 ^ k); reflexivity.
Qed.
Lemma fge_mpow2 : forall f k, valid f = true -> is_finite f = true -> 53 <= k ->
  go_fle (S754_finite true 4503599627370496 (k - 52)) f = (- 2 ^ k <=? tz f).
Proof.
  intros f k V F K. destruct (cmp_pow2 f k V F K) as [_ C].
  unfold go_fle, fleb, SFleb. rewrite SFcompare_swap, C, leb_compare.
  rewrite (Z.compare_antisym (tz f) (- 2 ^ k)). destruct (tz f ?= - 2 ^ k); reflexivity.
Qed.

(* ------------------------------------------------------------------------------------------ *)
(* f == math.Trunc(f)  is  "f is integral" *)

Lemma tz_some : forall f, is_finite f = true -> trunc_Z f = Some (tz f).
Proof. intros [s|s| |s m e] F; try discriminate; reflexivity. Qed.

Lemma tz_abs_bound : forall s m e, e < 0 -> Z.abs (tz (S754_finite s m e)) <= Z.pos m.
Proof.
  intros s m e E. assert (B : 0 <= tz (S754_finite false m e) <= Z.pos m).
  { split; [apply tz_finite_pos|]. unfold tz, trunc_Z.
    replace (0 <=? e) with false by (symmetry; apply Z.leb_gt; lia).
    apply Z.div_le_upper_bound; [apply pow2_pos; lia|].
    rewrite <- (Z.mul_1_l (Z.pos m)) at 1. apply Z.mul_le_mono_nonneg_r; [lia|].
    apply (Z.pow_le_mono_r 2 0); lia. }
  destruct s; [rewrite tz_finite_neg|]; lia.
Qed.

Lemma feq_trunc : forall f, valid f = true -> is_finite f = true -> go_feq f (go_trunc f) = is_integral f.
Proof.
  intros f V F. assert (NN : is_nan f = false) by (destruct f; try discriminate; reflexivity).
  unfold go_trunc, go_feq. destruct (is_integral f) eqn:I.
  - apply feqb_refl. exact NN.
  - destruct f as [s|s| |s m e]; try discriminate.
    assert (E : e < 0).
    { unfold is_integral in I. destruct (0 <=? e) eqn:E0; [discriminate | apply Z.leb_gt in E0; lia]. }
    rewrite (tz_some _ F). unfold float_of_Z_sgn. set (k := tz (S754_finite s m e)).
    destruct (k =? 0) eqn:K0.
    + rewrite feqb_zero_r. reflexivity.
    + apply Z.eqb_neq in K0.
      destruct (valid_finite_bounds _ _ _ V) as [Hm _].
      pose proof (tz_abs_bound s m e E) as B. fold k in B.
      assert (KB : Z.abs k <= two53) by (unfold two53; change (2 ^ 53) with 9007199254740992 in Hm; lia).
      destruct (of_Z_exact k K0 KB) as [s' [m' [e' [OZ [_ [I' _]]]]]].
      destruct (feqb (S754_finite s m e) (of_Z k)) eqn:Q; [exfalso | reflexivity].
      destruct (feqb_true _ _ Q) as [[Z1 _]|[EQ _]]; [discriminate|].
      rewrite <- EQ in I'. rewrite I' in I. discriminate.
Qed.

Lemma abs_leb_split : forall t b, 0 <= b -> (Z.abs t <=? b) = ((- b <=? t) && (t <=? b)).
Proof.
  intros t b B. destruct (Z.leb_spec (Z.abs t) b); destruct (Z.leb_spec (- b) t); destruct (Z.leb_spec t b);
    simpl; try reflexivity; lia.
Qed.

(* ------------------------------------------------------------------------------------------ *)
(* vm.go floatToInt *)

Lemma floatToInt_cond_finite : forall s m e, valid (S754_finite s m e) = true ->
  int_like (S754_finite s m e) = is_integral (S754_finite s m e) &&
    ((- 2 ^ 53 <=? tz (S754_finite s m e)) && (tz (S754_finite s m e) <=? 2 ^ 53)).
Proof.
  intros s m e V. set (f := S754_finite s m e). unfold int_like, abs_le. rewrite (tz_some f eq_refl).
  change (is_zero f) with false. change (is_finite f) with true. cbn [negb andb].
  rewrite abs_leb_split by (unfold two53; lia). reflexivity.
Qed.

Lemma floatToInt_gen_tie : forall f, valid f = true ->
  floatToInt_gen f = match Model.floatToInt f with Some k => (k, true) | None => (0, false) end.
Proof.
  intros f V. unfold floatToInt_gen, Model.floatToInt. rewrite go_int64_model.
  destruct f as [s|s| |s m e].
  - destruct s; reflexivity.
  - destruct s; reflexivity.
  - reflexivity.
  - rewrite (floatToInt_cond_finite s m e V). set (F := S754_finite s m e) in *.
    rewrite (feq_trunc F V eq_refl), c_two53, c_mtwo53.
    rewrite (fle_pow2 F 53 V eq_refl ltac:(lia)), (fge_mpow2 F 53 V eq_refl ltac:(lia)).
    change (go_float_of_int 0) with (S754_zero false). unfold go_feq. rewrite feqb_zero_r.
    change (is_zero F) with false. change (go_isinf F 0) with false. cbn [negb orb andb].
    destruct (is_integral F), (- 2 ^ 53 <=? tz F), (tz F <=? 2 ^ 53); reflexivity.
Qed.
