(* C05 — Number values: goja's two representations (valueInt / valueFloat), the canonicaliser,
   the numeric operators and integer conversions as goja implements them (I), and the ECMAScript
   abstract operations on the mathematical value (S).  Executable definitions only. *)
From Coq Require Import ZArith Bool List SpecFloat.
From Verif.Base Require Import F64.
Import ListNotations.
Local Open Scope Z_scope.

(* ------------------------------------------------------------------------------------------ *)
(* Values *)

Inductive jsnum := NInt (z : Z) | NFlt (f : f64).

Definition two53 : Z := 9007199254740992.          (* maxInt = 1 << 53 (vm.go:17) *)
Definition two63 : Z := 9223372036854775808.
Definition two64 : Z := 18446744073709551616.
Definition two32 : Z := 4294967296.
Definition two31 : Z := 2147483648.

(* Go int64 wrap-around *)
Definition wrap64 (z : Z) : Z := (z + two63) mod two64 - two63.
Definition wrapS (bits : Z) (z : Z) : Z := (z + 2 ^ (bits - 1)) mod 2 ^ bits - 2 ^ (bits - 1).
Definition wrapU (bits : Z) (z : Z) : Z := z mod 2 ^ bits.

(* value of a float as an integer, when finite *)
Definition abs_le (x : f64) (bound : Z) : bool :=
  match trunc_Z x with Some k => Z.abs k <=? bound | None => false end.

(* the condition under which goja stores a float as valueInt (vm.go floatToInt):
   (f != 0 || !signbit f) && !isInf f && f == trunc f && -2^53 <= f <= 2^53 *)
Definition int_like (f : f64) : bool :=
  negb (is_zero f && sign_bit f) && is_finite f && is_integral f && abs_le f two53.

(* goja's representation invariant *)
Definition canon (a : jsnum) : bool :=
  match a with
  | NInt z => Z.abs z <=? two53
  | NFlt f => negb (int_like f)
  end.

(* well-formedness of the SpecFloat payload (an artefact of the modelling: every float produced by
   of_bits and by the arithmetic is of this form) *)
Definition wf (a : jsnum) : bool :=
  match a with NInt _ => true | NFlt f => valid_binary prec64 emax64 f end.

(* ------------------------------------------------------------------------------------------ *)
(* S: the mathematical value *)

Inductive numeric :=
| SNaN | SInf (neg : bool) | SZero (neg : bool)
| SInt (z : Z)                              (* a non-zero integer *)
| SFrac (neg : bool) (m : positive) (e : Z).  (* m odd, e < 0 : (+/-) m * 2^e *)

(* strip trailing zero bits: m * 2^e with m odd *)
Fixpoint odd_part (m : positive) (e : Z) : positive * Z :=
  match m with xO p => odd_part p (e + 1) | _ => (m, e) end.

Definition sem_f (f : f64) : numeric :=
  match f with
  | S754_nan => SNaN
  | S754_infinity s => SInf s
  | S754_zero s => SZero s
  | S754_finite s m e =>
      let '(m', e') := odd_part m e in
      if 0 <=? e' then SInt ((if s then -1 else 1) * (Z.pos m' * 2 ^ e'))
      else SFrac s m' e'
  end.

Definition num_sem (a : jsnum) : numeric :=
  match a with
  | NInt 0 => SZero false
  | NInt z => SInt z
  | NFlt f => sem_f f
  end.

Definition numeric_eqb (x y : numeric) : bool :=
  match x, y with
  | SNaN, SNaN => true
  | SInf a, SInf b => Bool.eqb a b
  | SZero a, SZero b => Bool.eqb a b
  | SInt a, SInt b => a =? b
  | SFrac s m e, SFrac s' m' e' => Bool.eqb s s' && Pos.eqb m m' && (e =? e')
  | _, _ => false
  end.

(* SameValue / SameValueZero / IsStrictlyEqual of the specification, on mathematical values *)
Definition same_value_spec (x y : numeric) : bool := numeric_eqb x y.
Definition same_value_zero_spec (x y : numeric) : bool :=
  match x, y with SZero _, SZero _ => true | _, _ => numeric_eqb x y end.
Definition strict_eq_spec (x y : numeric) : bool :=
  match x, y with SNaN, _ | _, SNaN => false | SZero _, SZero _ => true | _, _ => numeric_eqb x y end.

(* ------------------------------------------------------------------------------------------ *)
(* I: goja's constructors (vm.go:392-424) *)

Definition to_float (a : jsnum) : f64 :=          (* valueInt.ToFloat = float64(i) *)
  match a with NInt z => of_Z z | NFlt f => f end.

(* Go int64(f) as amd64 executes it: the "integer indefinite" value -2^63 when out of range / NaN *)
Definition go_int64 (f : f64) : Z :=
  match trunc_Z f with
  | Some k => if (- two63 <=? k) && (k <? two63) then k else - two63
  | None => - two63
  end.

Definition floatToInt (f : f64) : option Z :=
  if int_like f then Some (go_int64 f) else None.

(* intToValue and floatToValue call each other in vm.go (after fix 8cd79d6 the fallback of intToValue is
   floatToValue(float64(i))); the recursion is at most two deep: floatToValue only passes |i| <= 2^53,
   which intToValue returns directly.  [int_in_range] is that direct branch. *)
Definition int_in_range (i : Z) : bool := (- two53 <=? i) && (i <=? two53).

Definition floatToValue (f : f64) : jsnum :=
  match floatToInt f with
  | Some i => if int_in_range i then NInt i
              else NFlt f       (* unreachable: floatToInt only succeeds within +/-2^53; kept total *)
  | None => NFlt f              (* -0, NaN, +/-inf are returned as the shared constants *)
  end.

Definition intToValue (i : Z) : jsnum :=
  if int_in_range i then NInt i else floatToValue (of_Z i).

Definition toNumeric (a : jsnum) : jsnum :=
  match a with NInt _ => a | NFlt f => floatToValue f end.

(* the representation the specification's Number value must have in goja *)
Definition canon_of (f : f64) : jsnum :=
  if int_like f then match trunc_Z f with Some k => NInt k | None => NFlt f end else NFlt f.

(* ------------------------------------------------------------------------------------------ *)
(* float helpers standing for Go's math package *)

Definition f_of_Z_sgn (s : bool) (k : Z) : f64 := if k =? 0 then S754_zero s else of_Z k.

Definition ftrunc (x : f64) : f64 :=
  match trunc_Z x with Some k => f_of_Z_sgn (sign_bit x) k | None => x end.
Definition ffloor (x : f64) : f64 :=
  match floor_Z x with Some k => f_of_Z_sgn (sign_bit x) k | None => x end.
Definition ceil_Z (x : f64) : option Z :=
  match floor_Z (fneg x) with Some k => Some (- k) | None => None end.
Definition fceil (x : f64) : f64 :=
  match ceil_Z x with Some k => f_of_Z_sgn (sign_bit x) k | None => x end.

Definition fhalf : f64 := S754_finite false 4503599627370496 (-53).
Definition fone : f64 := S754_finite false 4503599627370496 (-52).

(* math.Mod: exact remainder with the sign of x *)
Definition fmod (x y : f64) : f64 :=
  match x, y with
  | S754_nan, _ | _, S754_nan => fnan
  | S754_infinity _, _ => fnan
  | _, S754_zero _ => fnan
  | _, S754_infinity _ => x
  | S754_zero _, _ => x
  | S754_finite sx mx ex, S754_finite _ my ey =>
      let e := Z.min ex ey in
      let a := Z.pos mx * 2 ^ (ex - e) in
      let b := Z.pos my * 2 ^ (ey - e) in
      let r := a mod b in
      if r =? 0 then S754_zero sx
      else binary_normalize prec64 emax64 (if sx then - r else r) e sx
  end.

(* ------------------------------------------------------------------------------------------ *)
(* I: integer conversions (runtime.go:1009-1216) *)

(* runtime.go floatToInt64Mod32 (fix a7163a1): int64(f) when -2^63 <= f < 2^63, else int64(math.Mod(f, 2^32)).
   The float comparisons against the integer constants are modelled by their mathematical meaning on the
   integral part, and math.Mod by its (documented exact) result: the truncated remainder. *)
Definition floatToInt64Mod32 (f : f64) : Z :=
  match trunc_Z f with
  | Some k => if (- two63 <=? k) && (k <? two63) then k else Z.rem k two32
  | None => - two63
  end.

Definition toIntN (signed : bool) (bits : Z) (a : jsnum) : Z :=
  let w := if signed then wrapS bits else wrapU bits in
  match a with
  | NInt i => w i
  | NFlt f => if is_finite f then w (floatToInt64Mod32 f) else 0
  end.
Definition toInt32 := toIntN true 32.
Definition toUint32 := toIntN false 32.

Definition toUint8Clamp (a : jsnum) : Z :=
  match a with
  | NInt i => if i <? 0 then 0 else if i <=? 255 then i else 255
  | NFlt num =>
      if is_nan num then 0
      else if fltb num fzero then 0
      else if fltb (of_Z 255) num then 255
      else
        let f := ffloor num in
        let f1 := fadd f fhalf in
        let fi := wrapU 8 (go_int64 f) in
        if fltb f1 num then wrapU 8 (go_int64 (fadd f fone))
        else if fltb num f1 then fi
        else if Z.odd fi then wrapU 8 (fi + 1) else fi
  end.

(* value.go floatToIntClip / ToInteger *)
Definition maxInt64 : Z := two63 - 1.
Definition floatToIntClip (n : f64) : Z :=
  if is_nan n then 0
  else if fleb (of_Z maxInt64) n then maxInt64
  else if fleb n (of_Z (- two63)) then - two63
  else go_int64 n.
Definition toInteger (a : jsnum) : Z :=
  match a with NInt i => i | NFlt f => floatToIntClip f end.

Definition toLength (a : jsnum) : Z :=
  let i := toInteger a in
  if i <? 0 then 0 else if two53 <=? i then two53 - 1 else i.

(* Array.prototype.at on an array of length len holding its own indices; -1 stands for undefined *)
Definition at_index (len : Z) (a : jsnum) : Z :=
  let idx := toInteger a in
  let idx := if idx <? 0 then wrap64 (len + idx) else idx in
  if (len <=? idx) || (idx <? 0) then -1 else idx.

(* [0..len-1].slice(0, a).length: ToInteger then builtin_array.go relToIdx (rel >= 0 ? min(rel,l) : max(l+rel,0));
   with a numeric STRING argument this is the ToInteger of strings that fix 091119a made clip *)
Definition slice_end (len : Z) (a : jsnum) : Z :=
  let rel := toInteger a in
  if 0 <=? rel then Z.min rel len else Z.max (wrap64 (len + rel)) 0.

(* ------------------------------------------------------------------------------------------ *)
(* I: operators (vm.go:1258-1830), on Number operands *)

Definition both_int (a b : jsnum) : option (Z * Z) :=
  match a, b with NInt x, NInt y => Some (x, y) | _, _ => None end.

Definition op_add (a b : jsnum) : jsnum :=            (* _add does not call toNumeric *)
  match a with
  | NInt x =>
      match b with
      | NInt y => intToValue (wrap64 (x + y))
      | NFlt g => floatToValue (fadd (of_Z x) g)
      end
  | NFlt f => floatToValue (fadd f (to_float b))
  end.

Definition op_sub (a b : jsnum) : jsnum :=
  let a := toNumeric a in let b := toNumeric b in
  match both_int a b with
  | Some (x, y) => intToValue (wrap64 (x - y))
  | None => floatToValue (fsub (to_float a) (to_float b))
  end.

Definition op_mul (a b : jsnum) : jsnum :=
  let a := toNumeric a in let b := toNumeric b in
  match both_int a b with
  | Some (x, y) =>
      if ((x =? 0) && (y <? 0)) || ((x <? 0) && (y =? 0)) then NFlt fnegzero      (* since fix a06b77f *)
      else
        let res := wrap64 (x * y) in
        if (x =? 0) || (y =? 0) || (wrap64 (Z.quot res x) =? y) then intToValue res
        else floatToValue (fmul (of_Z x) (of_Z y))
  | None => floatToValue (fmul (to_float a) (to_float b))
  end.

Definition op_div (a b : jsnum) : jsnum :=
  let l := to_float (toNumeric a) in let r := to_float (toNumeric b) in
  if is_nan l || is_nan r then NFlt fnan
  else if is_inf l && is_inf r then NFlt fnan
  else if is_zero l && is_zero r then NFlt fnan
  else if is_inf l then NFlt (finf (xorb (sign_bit l) (sign_bit r)))
  else if is_inf r then (if xorb (sign_bit l) (sign_bit r) then NFlt fnegzero else NInt 0)   (* _positiveZero = valueInt(0) *)
  else if is_zero r then NFlt (finf (xorb (sign_bit l) (sign_bit r)))
  else floatToValue (fdiv l r).

Definition op_mod (a b : jsnum) : jsnum :=
  let a := toNumeric a in let b := toNumeric b in
  match both_int a b with
  | Some (x, y) =>
      if y =? 0 then NFlt fnan
      else let r := Z.rem x y in
           if (r =? 0) && (x <? 0) then NFlt fnegzero else intToValue r
  | None => floatToValue (fmod (to_float a) (to_float b))
  end.

Definition op_neg (a : jsnum) : jsnum :=
  match toNumeric a with
  | NInt n => if n =? 0 then NFlt fnegzero else NInt (wrap64 (- n))
  | NFlt f =>                          (* n.ToFloat() of the toNumeric result (fix c4422a6: one conversion);
                                         floatToValue since fix 03125f6 *)
      floatToValue (if is_nan f then f else fneg f)
  end.

Definition op_plus (a : jsnum) : jsnum := a.        (* ToNumber of a Number is the value itself *)

Definition op_inc (a : jsnum) : jsnum :=
  match a with
  | NInt n => intToValue (wrap64 (n + 1))
  | NFlt f => floatToValue (fadd f fone)             (* floatToValue since fix 1c33988 *)
  end.
Definition op_dec (a : jsnum) : jsnum :=
  match a with
  | NInt n => intToValue (wrap64 (n - 1))
  | NFlt f => floatToValue (fsub f fone)
  end.

(* the Go expressions have type int32 / uint32: wrapS 32 / wrapU 32 is that typing (the identity on
   in-range results) *)
Definition op_and (a b : jsnum) := intToValue (wrapS 32 (Z.land (toInt32 (toNumeric a)) (toInt32 (toNumeric b)))).
Definition op_or  (a b : jsnum) := intToValue (wrapS 32 (Z.lor  (toInt32 (toNumeric a)) (toInt32 (toNumeric b)))).
Definition op_xor (a b : jsnum) := intToValue (wrapS 32 (Z.lxor (toInt32 (toNumeric a)) (toInt32 (toNumeric b)))).
Definition op_bnot (a : jsnum) := intToValue (wrapS 32 (Z.lnot (toInt32 (toNumeric a)))).
Definition shcount (b : jsnum) : Z := Z.land (toUint32 (toNumeric b)) 31.
Definition op_shl (a b : jsnum) := intToValue (wrapS 32 (Z.shiftl (toInt32 (toNumeric a)) (shcount b))).
Definition op_sar (a b : jsnum) := intToValue (wrapS 32 (Z.shiftr (toInt32 (toNumeric a)) (shcount b))).
Definition op_shr (a b : jsnum) := intToValue (wrapU 32 (Z.shiftr (toUint32 (toNumeric a)) (shcount b))).

(* builtin_math.go, the exactly specified functions *)
Definition m_abs (a : jsnum) := floatToValue (fabs (to_float a)).
Definition m_floor (a : jsnum) := floatToValue (ffloor (to_float a)).
Definition m_ceil (a : jsnum) := floatToValue (fceil (to_float a)).
Definition m_trunc (a : jsnum) :=
  match a with NInt _ => a | NFlt f => floatToValue (ftrunc f) end.
Definition m_round (a : jsnum) : jsnum :=
  let f := to_float a in
  if is_nan f then NFlt fnan
  else if is_zero f && sign_bit f then NFlt fnegzero
  else
    let t := ftrunc f in
    if fleb fzero f then
      (if fleb fhalf (fsub f t) then floatToValue (fadd t fone) else floatToValue t)
    else
      (if fltb fhalf (fsub t f) then floatToValue (fsub t fone) else floatToValue t).
Definition m_sign (a : jsnum) : jsnum :=
  let f := to_float a in
  if is_nan f || is_zero f then a
  else if fltb fzero f then intToValue 1 else intToValue (-1).
Definition m_fround (a : jsnum) := floatToValue (of_f32 (to_f32 (to_float a))).
Definition m_sqrt (a : jsnum) := floatToValue (fsqrt (to_float a)).
Definition m_imul (a b : jsnum) := intToValue (wrapS 32 (toUint32 a * toUint32 b)).
Definition clz32_Z (u : Z) : Z := match u with Zpos p => 32 - Z.pos (Pos.size p) | _ => 32 end.
Definition m_clz32 (a : jsnum) := intToValue (clz32_Z (toUint32 a)).
Definition fmax2 (x y : f64) : f64 :=              (* math.Max *)
  if is_nan x || is_nan y then fnan
  else if is_inf x && negb (sign_bit x) then x else if is_inf y && negb (sign_bit y) then y
  else if is_zero x && is_zero y then (if sign_bit x then y else x)
  else if fltb y x then x else y.
Definition fmin2 (x y : f64) : f64 :=
  if is_nan x || is_nan y then fnan
  else if is_inf x && sign_bit x then x else if is_inf y && sign_bit y then y
  else if is_zero x && is_zero y then (if sign_bit x then x else y)
  else if fltb x y then x else y.
Definition m_max (a b : jsnum) :=
  let x := to_float a in let y := to_float b in
  if is_nan x || is_nan y then NFlt fnan else floatToValue (fmax2 (fmax2 (finf true) x) y).
Definition m_min (a b : jsnum) :=
  let x := to_float a in let y := to_float b in
  if is_nan x || is_nan y then NFlt fnan else floatToValue (fmin2 (fmin2 (finf false) x) y).

(* ---- x ** y and Math.pow on integer operands (builtin_math.go pow, ipow.go) ---- *)
Definition ipow_overflows : list Z :=
  [9223372036854775807; 9223372036854775807; 3037000499; 2097151; 55108; 6208; 1448; 511;
   234; 127; 78; 52; 38; 28; 22; 18; 15; 13; 11; 9; 8; 7; 7; 6; 6; 5; 5; 5; 4; 4; 4; 4;
   3; 3; 3; 3; 3; 3; 3; 3; 2; 2; 2; 2; 2; 2; 2; 2; 2; 2; 2; 2; 2; 2; 2; 2; 2; 2; 2; 2; 2; 2; 2; 2].

(* the unrolled square-and-multiply of ipow: highestBitSet[exp] = bit length of exp stages, int64 wrap *)
Fixpoint ipow_loop (n : nat) (base exp result : Z) : Z :=
  match n with
  | O => result
  | S n' =>
      let result := if Z.odd exp then wrap64 (result * base) else result in
      ipow_loop n' (wrap64 (base * base)) (exp / 2) result
  end.

Definition ipow (base exp : Z) : Z :=
  if 63 <=? exp then
    (if base =? 1 then 1 else if base =? -1 then 1 - 2 * (exp mod 2) else 0)
  else
    let lim := nth (Z.to_nat exp) ipow_overflows 0 in
    if (lim <? base) || (lim <? - base) then 0
    else ipow_loop (Z.to_nat (Z.log2 exp + 1)) base exp 1.

(* math.Pow on two integral arguments: taken to be the correctly rounded exact power (Go's math.Pow is
   within a few ulps of it; the comparison in Run.v allows for that when the power is not representable) *)
Definition pow_float_int (x y : Z) : f64 := of_Z (x ^ y).

Definition op_pow (a b : jsnum) : option jsnum :=      (* None: operand shapes that are not modelled *)
  match a, b with
  | NInt x, NInt y =>
      if y <? 0 then None
      else if y =? 0 then Some (intToValue 1)
      else if x =? 0 then Some (intToValue 0)
      else let ip := ipow x y in
           if negb (ip =? 0) then Some (intToValue ip)
           else Some (floatToValue (pow_float_int x y))
  | _, _ => None
  end.

(* S: Number::exponentiate on integers with a non-negative integral exponent has an exact answer *)
Definition S_pow (x y : Z) : jsnum := canon_of (of_Z (x ^ y)).

(* ------------------------------------------------------------------------------------------ *)
(* I: comparisons and hashing (value.go:215-262, 618-700) *)

Definition is_neg_zero (f : f64) : bool := is_zero f && sign_bit f.

Definition sameAs (a b : jsnum) : bool :=
  match a, b with
  | NInt x, NInt y => x =? y
  | NInt _, NFlt _ => false                      (* interface comparison i == other *)
  | NFlt f, NFlt g =>
      if is_nan f && is_nan g then true
      else let ret := feqb f g in
           if ret && is_zero f then Bool.eqb (sign_bit f) (sign_bit g) else ret
  | NFlt f, NInt y =>
      let ret := feqb f (of_Z y) in
      if ret && is_zero f then negb (sign_bit f) else ret
  end.

Definition strictEquals (a b : jsnum) : bool :=
  match a, b with
  | NInt x, NInt y => x =? y
  | _, _ => feqb (to_float a) (to_float b)
  end.

Definition hash (a : jsnum) : Z :=
  match a with
  | NInt i => i mod two64
  | NFlt f => if is_zero f then 0 else to_bits f      (* f == _negativeZero holds for +0 too *)
  end.

(* SameValueZero as Map/Set/includes use it (map.go:26 lookup, builtin_array.go includes): the probe
   is compared with Go's interface == against the constant valueFloat(-0), which holds for every
   float zero; it is then replaced by valueInt(0).  Map.set stores the normalised key. *)
Definition norm_zero (a : jsnum) : jsnum :=
  match a with NFlt f => if is_zero f then NInt 0 else a | _ => a end.
(* stored.SameAs(probe) after normalising both *)
Definition sameValueZero (stored probe : jsnum) : bool := sameAs (norm_zero stored) (norm_zero probe).

(* ------------------------------------------------------------------------------------------ *)
(* S: ECMAScript operations on the IEEE value; the result must carry the canonical representation *)

Definition val (a : jsnum) : f64 := to_float a.

Definition spec_modulo (bits : Z) (signed : bool) (x : f64) : Z :=    (* ToInt8 ... ToUint32 *)
  match trunc_Z x with
  | Some k => let r := k mod 2 ^ bits in
              if signed && (2 ^ (bits - 1) <=? r) then r - 2 ^ bits else r
  | None => 0
  end.
Definition ToInt32_spec := spec_modulo 32 true.
Definition ToUint32_spec := spec_modulo 32 false.

Definition ToUint8Clamp_spec (x : f64) : Z :=
  match x with
  | S754_nan => 0
  | S754_infinity s => if s then 0 else 255
  | S754_zero _ => 0
  | S754_finite true _ _ => 0
  | S754_finite false m e =>
      if 0 <=? e then Z.min 255 (Z.pos m * 2 ^ e)
      else
        let d := 2 ^ (- e) in
        let q := Z.pos m / d in let r := Z.pos m mod d in
        if 255 <=? q then 255
        else match 2 * r ?= d with
             | Lt => q | Gt => q + 1 | Eq => if Z.even q then q else q + 1 end
  end.

Definition ToIntegerOrInf_spec (x : f64) : option Z :=     (* None = +/-infinity, sign in x *)
  match x with S754_nan => Some 0 | _ => trunc_Z x end.

Definition ToLength_spec (x : f64) : Z :=
  match ToIntegerOrInf_spec x with
  | Some k => if k <=? 0 then 0 else Z.min k (two53 - 1)
  | None => if sign_bit x then 0 else two53 - 1
  end.

Definition slice_end_spec (len : Z) (x : f64) : Z :=      (* relative end of Array.prototype.slice *)
  match ToIntegerOrInf_spec x with
  | Some k => if k <? 0 then Z.max (len + k) 0 else Z.min k len
  | None => if sign_bit x then 0 else len
  end.

Definition at_spec (len : Z) (x : f64) : Z :=
  match ToIntegerOrInf_spec x with
  | Some k => let k := if 0 <=? k then k else len + k in
              if (k <? 0) || (len <=? k) then -1 else k
  | None => -1
  end.

Definition shcount_spec (y : f64) : Z := ToUint32_spec y mod 32.

Definition spec_round (x : f64) : f64 :=      (* Math.round: floor(x + 1/2) exactly, sign of zero kept *)
  match x with
  | S754_finite s m e =>
      if 0 <=? e then x
      else
        let d := 2 ^ (- e) in
        let n := if s then - Z.pos m else Z.pos m in
        let k := (2 * n + d) / (2 * d) in
        f_of_Z_sgn s k
  | _ => x
  end.

Definition spec_sign (x : f64) : f64 :=
  match x with
  | S754_finite s _ _ | S754_infinity s => if s then of_Z (-1) else of_Z 1
  | _ => x
  end.

Inductive unop := UNeg | UPlus | UInc | UDec | UBnot | UAbs | UFloor | UCeil | UTrunc | URound | USign
  | UFround | USqrt | UClz32 | UInt8 | UUint8 | UClamp | UInt16 | UUint16 | UInt32 | UUint32
  | UOr0 | UShr0 | ULength | UAt8 | UF64 | USlice8.
Inductive binop := BAdd | BSub | BMul | BDiv | BMod | BAnd | BOr | BXor | BShl | BSar | BShr
  | BImul | BMax | BMin.

Definition S_un (o : unop) (a : jsnum) : jsnum :=
  let x := val a in
  let int k := NInt k in
  match o with
  | UNeg => canon_of (if is_nan x then x else fneg x)
  | UPlus | UF64 => canon_of x
  | UInc => canon_of (fadd x fone)
  | UDec => canon_of (fsub x fone)
  | UBnot => int (- ToInt32_spec x - 1)
  | UAbs => canon_of (fabs x)
  | UFloor => canon_of (ffloor x)
  | UCeil => canon_of (fceil x)
  | UTrunc => canon_of (ftrunc x)
  | URound => canon_of (spec_round x)
  | USign => canon_of (spec_sign x)
  | UFround => canon_of (of_f32 (to_f32 x))
  | USqrt => canon_of (fsqrt x)
  | UClz32 => int (clz32_Z (ToUint32_spec x))
  | UInt8 => int (spec_modulo 8 true x)
  | UUint8 => int (spec_modulo 8 false x)
  | UClamp => int (ToUint8Clamp_spec x)
  | UInt16 => int (spec_modulo 16 true x)
  | UUint16 => int (spec_modulo 16 false x)
  | UInt32 | UOr0 => int (ToInt32_spec x)
  | UUint32 | UShr0 => int (ToUint32_spec x)
  | ULength => int (ToLength_spec x)
  | UAt8 => int (at_spec 8 x)
  | USlice8 => int (slice_end_spec 8 x)
  end.

Definition I_un (o : unop) (a : jsnum) : jsnum :=
  match o with
  | UNeg => op_neg a
  | UPlus => op_plus a
  | UF64 => toNumeric a
  | UInc => op_inc a
  | UDec => op_dec a
  | UBnot => op_bnot a
  | UAbs => m_abs a
  | UFloor => m_floor a
  | UCeil => m_ceil a
  | UTrunc => m_trunc a
  | URound => m_round a
  | USign => m_sign a
  | UFround => m_fround a
  | USqrt => m_sqrt a
  | UClz32 => m_clz32 a
  | UInt8 => intToValue (toIntN true 8 a)
  | UUint8 => intToValue (toIntN false 8 a)
  | UClamp => intToValue (toUint8Clamp a)
  | UInt16 => intToValue (toIntN true 16 a)
  | UUint16 => intToValue (toIntN false 16 a)
  | UInt32 => intToValue (toInt32 a)
  | UUint32 => intToValue (toUint32 a)
  | UOr0 => op_or a (NInt 0)
  | UShr0 => op_shr a (NInt 0)
  | ULength => intToValue (toLength a)
  | UAt8 => intToValue (at_index 8 a)
  | USlice8 => intToValue (slice_end 8 a)
  end.

Definition S_bin (o : binop) (a b : jsnum) : jsnum :=
  let x := val a in let y := val b in
  let int k := NInt k in
  match o with
  | BAdd => canon_of (fadd x y)
  | BSub => canon_of (fsub x y)
  | BMul => canon_of (fmul x y)
  | BDiv => canon_of (fdiv x y)
  | BMod => canon_of (fmod x y)
  | BAnd => int (Z.land (ToInt32_spec x) (ToInt32_spec y))
  | BOr => int (Z.lor (ToInt32_spec x) (ToInt32_spec y))
  | BXor => int (Z.lxor (ToInt32_spec x) (ToInt32_spec y))
  | BShl => int (wrapS 32 (ToInt32_spec x * 2 ^ shcount_spec y))
  | BSar => int (ToInt32_spec x / 2 ^ shcount_spec y)      (* floor division = arithmetic shift *)
  | BShr => int (ToUint32_spec x / 2 ^ shcount_spec y)
  | BImul => int (wrapS 32 (ToUint32_spec x * ToUint32_spec y))
  | BMax => canon_of (fmax2 x y)
  | BMin => canon_of (fmin2 x y)
  end.

Definition I_bin (o : binop) (a b : jsnum) : jsnum :=
  match o with
  | BAdd => op_add a b | BSub => op_sub a b | BMul => op_mul a b | BDiv => op_div a b
  | BMod => op_mod a b | BAnd => op_and a b | BOr => op_or a b | BXor => op_xor a b
  | BShl => op_shl a b | BSar => op_sar a b | BShr => op_shr a b
  | BImul => m_imul a b | BMax => m_max a b | BMin => m_min a b
  end.

(* jsnum equality up to the NaN token (representation and bit pattern) *)
Definition jsnum_eqb (a b : jsnum) : bool :=
  match a, b with
  | NInt x, NInt y => x =? y
  | NFlt f, NFlt g => same_bits f g
  | _, _ => false
  end.

(* the word goja feeds to / returns from the hash function of Map and Set keys *)
Definition hash_words (a : jsnum) : Z := hash a.
