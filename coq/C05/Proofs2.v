(* C05 — lemmas over the model, for all inputs (part 2). *)
From Coq Require Import ZArith Bool List SpecFloat Lia.
From Verif.Base Require Import F64.
From Verif.C05 Require Import Model Proofs.
Local Open Scope Z_scope.

(* ---- the canonicaliser ---- *)

Lemma int_like_trunc : forall f, int_like f = true ->
  exists k, trunc_Z f = Some k /\ Z.abs k <= two53.
Proof.
  intros f H. unfold int_like, abs_le in H.
  destruct (trunc_Z f) as [k|] eqn:T.
  - exists k. split; auto. apply andb_prop in H. destruct H as [_ H]. apply Z.leb_le in H. exact H.
  - apply andb_prop in H. destruct H as [_ H]. discriminate.
Qed.

Lemma intToValue_in_range : forall i, Z.abs i <= two53 -> intToValue i = NInt i.
Proof.
  intros i H. unfold intToValue, int_in_range.
  replace (- two53 <=? i) with true by (symmetry; apply Z.leb_le; lia).
  replace (i <=? two53) with true by (symmetry; apply Z.leb_le; lia). reflexivity.
Qed.

Lemma intToValue_canon_partial : forall i, Z.abs i <=? two53 = true -> canon (intToValue i) = true.
Proof.
  intros i H. rewrite intToValue_in_range by (apply Z.leb_le; exact H). exact H.
Qed.

Lemma go_int64_small : forall f k, trunc_Z f = Some k -> Z.abs k <= two53 -> go_int64 f = k.
Proof.
  intros f k T H. unfold go_int64. rewrite T.
  replace (- two63 <=? k) with true by (symmetry; apply Z.leb_le; unfold two63, two53 in *; lia).
  replace (k <? two63) with true by (symmetry; apply Z.ltb_lt; unfold two63, two53 in *; lia). reflexivity.
Qed.

Lemma floatToValue_eq_canon_of : forall f, floatToValue f = canon_of f.
Proof.
  intro f. unfold floatToValue, floatToInt, canon_of.
  destruct (int_like f) eqn:E; auto.
  destruct (int_like_trunc f E) as [k [T B]]. rewrite T.
  rewrite (go_int64_small f k T B). unfold int_in_range.
  replace (- two53 <=? k) with true by (symmetry; apply Z.leb_le; lia).
  replace (k <=? two53) with true by (symmetry; apply Z.leb_le; lia). reflexivity.
Qed.

Lemma floatToValue_canon : forall f, canon (floatToValue f) = true.
Proof. intro f. rewrite floatToValue_eq_canon_of. apply Proofs.canon_of_canon. Qed.

(* since fix 8cd79d6 intToValue is canonical for EVERY int64 (the full statement, formerly refuted: F9) *)
Lemma intToValue_canon : forall i, canon (intToValue i) = true.
Proof.
  intro i. unfold intToValue. destruct (int_in_range i) eqn:E.
  - unfold int_in_range in E. apply andb_prop in E. destruct E as [A B].
    apply Z.leb_le in A. apply Z.leb_le in B. simpl. apply Z.leb_le. lia.
  - apply floatToValue_canon.
Qed.

Lemma toNumeric_canon_id : forall a, canon a = true -> toNumeric a = a.
Proof.
  intros [z|f] H; simpl; auto. simpl in H.
  unfold floatToValue, floatToInt. destruct (int_like f); [discriminate|reflexivity].
Qed.

Lemma toNumeric_canon : forall a, canon (toNumeric a) = true \/ exists z, toNumeric a = NInt z /\ a = NInt z.
Proof.
  intros [z|f]; simpl.
  - right. exists z. auto.
  - left. apply floatToValue_canon.
Qed.

Example floatToValue_canon_ex : floatToValue (of_Z 6) = NInt 6 /\ floatToValue fnegzero = NFlt fnegzero.
Proof. vm_compute. auto. Qed.

(* ---- uniqueness of the canonical representation ---- *)

Lemma odd_part_spec : forall m e m' e', odd_part m e = (m', e') ->
  e <= e' /\ Z.pos m = Z.pos m' * 2 ^ (e' - e) /\ (forall p, m' <> xO p).
Proof.
  induction m as [p IH|p IH|]; intros e m' e' H; simpl in H.
  - inversion H; subst. split; [lia|]. split. { rewrite Z.sub_diag. simpl. lia. } intros q; discriminate.
  - destruct (IH _ _ _ H) as [L [V O]]. split; [lia|]. split; auto.
    replace (e' - e) with (Z.succ (e' - (e + 1))) by lia.
    rewrite Z.pow_succ_r by lia. rewrite Pos2Z.inj_xO. rewrite V. ring.
  - inversion H; subst. split; [lia|]. split. { rewrite Z.sub_diag. simpl. lia. } intros q; discriminate.
Qed.

Lemma digits2_size : forall p, digits2_pos p = Pos.size p.
Proof. induction p; simpl; congruence. Qed.

Lemma size_log2 : forall p, Z.pos (Pos.size p) = Z.log2 (Z.pos p) + 1.
Proof.
  intro p. destruct p; simpl; try reflexivity; rewrite Pos2Z.inj_succ; lia.
Qed.

Lemma digits_mul_pow2 : forall m' k, 0 <= k -> forall m, Z.pos m = Z.pos m' * 2 ^ k ->
  Z.pos (digits2_pos m) = Z.pos (digits2_pos m') + k.
Proof.
  intros m' k Hk m H. rewrite !digits2_size, !size_log2. rewrite H.
  rewrite Z.log2_mul_pow2 by lia. lia.
Qed.

Lemma SInt_inj : forall a b, SInt a = SInt b -> a = b.
Proof. intros a b H. congruence. Qed.

(* two well-formed finite floats with the same odd part / exponent are identical *)
Lemma canonical_unique : forall m1 e1 m2 e2 m' e',
  canonical_mantissa prec64 emax64 m1 e1 = true -> canonical_mantissa prec64 emax64 m2 e2 = true ->
  odd_part m1 e1 = (m', e') -> odd_part m2 e2 = (m', e') -> m1 = m2 /\ e1 = e2.
Proof.
  intros m1 e1 m2 e2 m' e' C1 C2 O1 O2.
  destruct (odd_part_spec _ _ _ _ O1) as [L1 [V1 _]]. destruct (odd_part_spec _ _ _ _ O2) as [L2 [V2 _]].
  pose proof (digits_mul_pow2 m' (e' - e1) ltac:(lia) m1 V1) as D1.
  pose proof (digits_mul_pow2 m' (e' - e2) ltac:(lia) m2 V2) as D2.
  unfold canonical_mantissa in C1, C2. apply Zeq_bool_eq in C1. apply Zeq_bool_eq in C2.
  unfold fexp, emin in C1, C2.
  assert (E : e1 = e2).
  { rewrite D1 in C1. rewrite D2 in C2.
    replace (Z.pos (digits2_pos m') + (e' - e1) + e1) with (Z.pos (digits2_pos m') + e') in C1 by lia.
    replace (Z.pos (digits2_pos m') + (e' - e2) + e2) with (Z.pos (digits2_pos m') + e') in C2 by lia.
    congruence. }
  subst e2. split; auto. assert (Z.pos m1 = Z.pos m2) by congruence. congruence.
Qed.

Lemma sem_f_finite_inj : forall s1 m1 e1 s2 m2 e2,
  valid_binary prec64 emax64 (S754_finite s1 m1 e1) = true ->
  valid_binary prec64 emax64 (S754_finite s2 m2 e2) = true ->
  sem_f (S754_finite s1 m1 e1) = sem_f (S754_finite s2 m2 e2) ->
  S754_finite s1 m1 e1 = S754_finite s2 m2 e2.
Proof.
  intros s1 m1 e1 s2 m2 e2 V1 V2 H. simpl in V1, V2. unfold bounded in V1, V2.
  apply andb_prop in V1. destruct V1 as [C1 _]. apply andb_prop in V2. destruct V2 as [C2 _].
  unfold sem_f in H. destruct (odd_part m1 e1) as [a1 b1] eqn:O1. destruct (odd_part m2 e2) as [a2 b2] eqn:O2.
  assert (K : s1 = s2 /\ a1 = a2 /\ b1 = b2).
  { destruct (0 <=? b1) eqn:B1; destruct (0 <=? b2) eqn:B2; try discriminate.
    - (* both integers: sign * a * 2^b with a odd determines all three *)
      apply SInt_inj in H. rename H into H1.
      apply Z.leb_le in B1. apply Z.leb_le in B2.
      destruct (odd_part_spec _ _ _ _ O1) as [_ [_ Odd1]]. destruct (odd_part_spec _ _ _ _ O2) as [_ [_ Odd2]].
      assert (P1 : 0 < Z.pos a1 * 2 ^ b1) by (apply Z.mul_pos_pos; [lia | apply Z.pow_pos_nonneg; lia]).
      assert (P2 : 0 < Z.pos a2 * 2 ^ b2) by (apply Z.mul_pos_pos; [lia | apply Z.pow_pos_nonneg; lia]).
      assert (SE : s1 = s2 /\ Z.pos a1 * 2 ^ b1 = Z.pos a2 * 2 ^ b2).
      { revert H1 P1 P2. generalize (Z.pos a1 * 2 ^ b1) (Z.pos a2 * 2 ^ b2). intros X Y H1 P1 P2.
        destruct s1, s2; split; auto; try lia; exfalso; lia. }
      destruct SE as [S EQ]. subst s2.
      assert (OddZ : forall a, (forall p, a <> xO p) -> Z.odd (Z.pos a) = true).
      { intros a Ha. destruct a; auto. exfalso. apply (Ha a). reflexivity. }
      assert (Bq : b1 = b2).
      { destruct (Z.lt_trichotomy b1 b2) as [Lt|[Eq|Gt]]; auto; exfalso.
        - replace b2 with (b1 + (b2 - b1)) in EQ by lia. rewrite Z.pow_add_r in EQ by lia.
          assert (Z.pos a1 = Z.pos a2 * 2 ^ (b2 - b1)) by (apply (Z.mul_reg_r _ _ (2 ^ b1)); [lia|]; rewrite EQ; ring).
          pose proof (OddZ a1 Odd1) as Oa. rewrite H in Oa.
          replace (b2 - b1) with (Z.succ (b2 - b1 - 1)) in Oa by lia. rewrite Z.pow_succ_r in Oa by lia.
          rewrite Z.mul_assoc, (Z.mul_comm (Z.pos a2) 2), <- Z.mul_assoc in Oa. rewrite Z.odd_mul in Oa. simpl in Oa. discriminate.
        - replace b1 with (b2 + (b1 - b2)) in EQ by lia. rewrite Z.pow_add_r in EQ by lia.
          assert (Z.pos a2 = Z.pos a1 * 2 ^ (b1 - b2)) by (apply (Z.mul_reg_r _ _ (2 ^ b2)); [lia|]; rewrite <- EQ; ring).
          pose proof (OddZ a2 Odd2) as Oa. rewrite H in Oa.
          replace (b1 - b2) with (Z.succ (b1 - b2 - 1)) in Oa by lia. rewrite Z.pow_succ_r in Oa by lia.
          rewrite Z.mul_assoc, (Z.mul_comm (Z.pos a1) 2), <- Z.mul_assoc in Oa. rewrite Z.odd_mul in Oa. simpl in Oa. discriminate. }
      subst b2. split; auto. split; auto.
      assert (Z.pos a1 = Z.pos a2) by (apply (Z.mul_reg_r _ _ (2 ^ b1)); [lia | exact EQ]). congruence.
    - inversion H; subst; auto. }
  destruct K as [-> [-> ->]].
  destruct (canonical_unique _ _ _ _ _ _ C1 C2 O1 O2) as [-> ->]. reflexivity.
Qed.

Lemma sem_f_int_integral : forall f z, sem_f f = SInt z ->
  is_finite f = true /\ is_integral f = true /\ trunc_Z f = Some z /\ z <> 0.
Proof.
  intros f z H. destruct f as [s|s| |s m e]; unfold sem_f in H; try discriminate.
  destruct (odd_part m e) as [a b] eqn:O. destruct (0 <=? b) eqn:B; try discriminate.
  apply SInt_inj in H. rename H into H1. apply Z.leb_le in B.
  destruct (odd_part_spec _ _ _ _ O) as [L [V _]].
  assert (P : 0 < Z.pos a * 2 ^ b) by (apply Z.mul_pos_pos; [lia | apply Z.pow_pos_nonneg; lia]).
  split; [reflexivity|]. unfold is_integral, trunc_Z. subst z.
  destruct (0 <=? e) eqn:E.
  - apply Z.leb_le in E. split; auto. split.
    + f_equal. rewrite V.
      assert (PW : 2 ^ b = 2 ^ (b - e) * 2 ^ e) by (rewrite <- Z.pow_add_r by lia; f_equal; lia).
      rewrite PW. destruct s; ring.
    + destruct s; lia.
  - apply Z.leb_gt in E.
    assert (M : Z.pos m = (Z.pos a * 2 ^ b) * 2 ^ (- e)).
    { rewrite V. replace (b - e) with (b + - e) by lia. rewrite Z.pow_add_r by lia. ring. }
    assert (Q : 0 < 2 ^ (- e)) by (apply Z.pow_pos_nonneg; lia).
    split. { rewrite M. rewrite Z.mod_mul by lia. reflexivity. }
    split. { f_equal. rewrite M. rewrite Z.div_mul by lia. destruct s; ring. }
    destruct s; lia.
Qed.

Lemma canon_unique : forall a b, canon a = true -> canon b = true -> wf a = true -> wf b = true ->
  num_sem a = num_sem b -> a = b.
Proof.
  assert (MIX : forall z f, Z.abs z <=? two53 = true -> canon (NFlt f) = true -> num_sem (NInt z) = sem_f f -> False).
  { intros z f Cz Cf H. simpl in Cf. apply negb_true_iff in Cf.
    destruct z as [|p|p].
    - simpl in H. destruct f as [s|s| |s m e]; simpl in H; try discriminate.
      + inversion H; subst. discriminate.
      + destruct (odd_part m e) as [a1 b1]. destruct (0 <=? b1); discriminate.
    - symmetry in H. change (num_sem (NInt (Z.pos p))) with (SInt (Z.pos p)) in H.
      destruct (sem_f_int_integral _ _ H) as [F [I [T _]]].
      unfold int_like, abs_le in Cf. rewrite F, I, T, Cz in Cf.
      destruct f; simpl in *; try discriminate.
    - symmetry in H. change (num_sem (NInt (Z.neg p))) with (SInt (Z.neg p)) in H.
      destruct (sem_f_int_integral _ _ H) as [F [I [T _]]].
      unfold int_like, abs_le in Cf. rewrite F, I, T, Cz in Cf.
      destruct f; simpl in *; try discriminate. }
  intros [x|f] [y|g] Ca Cb Wa Wb H.
  - f_equal. destruct x, y; simpl in H; try discriminate; try inversion H; auto.
  - exfalso. exact (MIX x g Ca Cb H).
  - exfalso. symmetry in H. exact (MIX y f Cb Ca H).
  - f_equal. simpl in Wa, Wb. change (sem_f f = sem_f g) in H.
    destruct f as [s|s| |s m e]; destruct g as [s'|s'| |s' m' e']; simpl in H; try discriminate;
      try (inversion H; subst; reflexivity);
      try (destruct (odd_part m e) as [a1 b1]; destruct (0 <=? b1); discriminate);
      try (destruct (odd_part m' e') as [a1 b1]; destruct (0 <=? b1); discriminate).
    apply sem_f_finite_inj; auto.
Qed.

Example canon_unique_ex : canon (NFlt (of_Z_scaled 3 (-1))) = true /\ wf (NFlt (of_Z_scaled 3 (-1))) = true /\
  num_sem (NFlt (of_Z_scaled 3 (-1))) = SFrac false 3 (-1) /\ num_sem (NInt 6) = num_sem (NFlt (of_Z 6)) /\ canon (NFlt (of_Z 6)) = false.
Proof. vm_compute. auto. Qed.

(* ---- closure of the producers that end in floatToValue (no guard needed) ---- *)
Lemma un_canon_float_routed : forall o a, In o (UAbs :: UFloor :: UCeil :: UFround :: USqrt :: nil) ->
  canon (I_un o a) = true.
Proof.
  intros o a H. simpl in H.
  destruct H as [<-|[<-|[<-|[<-|[<-|[]]]]]]; simpl; apply floatToValue_canon.
Qed.

Lemma bin_canon_float_routed : forall a b, canon (m_max a b) = true /\ canon (m_min a b) = true.
Proof.
  intros a b. unfold m_max, m_min. split.
  - destruct (is_nan (to_float a) || is_nan (to_float b)); [reflexivity | apply floatToValue_canon].
  - destruct (is_nan (to_float a) || is_nan (to_float b)); [reflexivity | apply floatToValue_canon].
Qed.

(* x++ on an in-range integer is canonical: the guarded half of the refuted closure *)
Lemma inc_int_canon_partial : forall n, Z.abs n <=? two53 = true -> Z.abs (n + 1) <=? two53 = true ->
  canon (op_inc (NInt n)) = true.
Proof.
  intros n H1 H2. simpl. apply Z.leb_le in H1. apply Z.leb_le in H2.
  assert (W : wrap64 (n + 1) = n + 1).
  { unfold wrap64. rewrite Z.mod_small; unfold two63, two64, two53 in *; lia. }
  rewrite W. apply intToValue_canon_partial. apply Z.leb_le. exact H2.
Qed.

Lemma add_int_canon_partial : forall x y, Z.abs x <=? two53 = true -> Z.abs y <=? two53 = true ->
  Z.abs (x + y) <=? two53 = true -> op_add (NInt x) (NInt y) = NInt (x + y) /\ canon (op_add (NInt x) (NInt y)) = true.
Proof.
  intros x y H1 H2 H3. simpl. apply Z.leb_le in H1. apply Z.leb_le in H2. apply Z.leb_le in H3.
  assert (W : wrap64 (x + y) = x + y).
  { unfold wrap64. rewrite Z.mod_small; unfold two63, two64, two53 in *; lia. }
  rewrite W. rewrite intToValue_in_range by exact H3. split; auto. simpl. apply Z.leb_le. exact H3.
Qed.

Lemma add_float_canon : forall a g, canon (op_add a (NFlt g)) = true.
Proof. intros [x|f] g; simpl; apply floatToValue_canon. Qed.
