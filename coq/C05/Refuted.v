(* C05 — counter-examples that delimit the theorems.  All findings of this property (F7-F10, F10b,
   C05-N1..N7) were repaired in /repo; their witnesses are gone and the full statements are proved in
   Proofs4.v.  What remains shows why the canonical-form hypothesis of the theorems is necessary. *)
From Coq Require Import ZArith Bool List SpecFloat.
From Verif.Base Require Import F64.
From Verif.C05 Require Import Model.
Local Open Scope Z_scope.

(* outside canonical form SameAs is not even symmetric and the hash differs: why every producer must normalise *)
Lemma sameAs_noncanonical_asymmetric : exists a b, wf a = true /\ wf b = true /\ num_sem a = num_sem b /\
  sameAs a b = false /\ sameAs b a = true /\ hash a <> hash b.
Proof. exists (NInt 3), (NFlt (of_Z 3)). vm_compute. repeat split; discriminate. Qed.
