(* C05 — witnesses for the OPEN findings: the transcription I of goja's code does not have the
   full-strength property at these inputs.  (F7-F10 were repaired in /repo; their witnesses are gone and
   the full statements are proved in Proofs4.v.) *)
From Coq Require Import ZArith Bool List SpecFloat.
From Verif.Base Require Import F64.
From Verif.C05 Require Import Model.
Local Open Scope Z_scope.

(* C05-N4: int * int with a zero result ignores the sign rule except for the literal pair (0,-1) *)
Lemma mul_zero_sign_refuted : exists a b, canon a = true /\ canon b = true /\
  num_sem (op_mul a b) <> num_sem (S_bin BMul a b).
Proof. exists (NInt 0), (NInt (-5)). vm_compute. repeat split; discriminate. Qed.

(* outside canonical form SameAs is not even symmetric and the hash differs: why every producer must normalise *)
Lemma sameAs_noncanonical_asymmetric : exists a b, wf a = true /\ wf b = true /\ num_sem a = num_sem b /\
  sameAs a b = false /\ sameAs b a = true /\ hash a <> hash b.
Proof. exists (NInt 3), (NFlt (of_Z 3)). vm_compute. repeat split; discriminate. Qed.
