(* C05 — witnesses for the recorded findings: the transcription I of goja's code does not have the
   full-strength property at these inputs.  Each is closed by computation on an explicit witness. *)
From Coq Require Import ZArith Bool List SpecFloat.
From Verif.Base Require Import F64.
From Verif.C05 Require Import Model.
Local Open Scope Z_scope.

Definition f_negzero : jsnum := NFlt fnegzero.
Definition f_big : jsnum := NFlt (of_Z (two63 + 2048)).          (* 2^63 + 2^11, exactly representable *)
Definition f_tiny : jsnum := NFlt (of_Z_scaled (-1) (-60)).       (* -2^-60 *)

(* F7: x++ / x-- on a float operand skips floatToValue *)
Lemma inc_canon_refuted : exists a, canon a = true /\ wf a = true /\ canon (op_inc a) = false.
Proof. exists f_negzero. vm_compute. auto. Qed.
Lemma inc_canon_refuted_tiny : canon f_tiny = true /\ wf f_tiny = true /\ op_inc f_tiny = NFlt fone /\ canon (op_inc f_tiny) = false.
Proof. vm_compute. auto. Qed.
Lemma dec_canon_refuted : exists a, canon a = true /\ wf a = true /\ canon (op_dec a) = false.
Proof. exists f_negzero. vm_compute. auto. Qed.

(* F8: -(-0) is valueFloat(+0) *)
Lemma neg_canon_refuted : exists a, canon a = true /\ wf a = true /\ canon (op_neg a) = false.
Proof. exists f_negzero. vm_compute. auto. Qed.

(* F9: intToValue's fallback valueFloat(i) is not canonical for i = +/-(2^53+1) *)
Lemma intToValue_canon_refuted : exists i, canon (intToValue i) = false.
Proof. exists (two53 + 1). vm_compute. auto. Qed.
Lemma add_canon_refuted : exists a b, canon a = true /\ canon b = true /\ canon (op_add a b) = false.
Proof. exists (NInt two53), (NInt 1). vm_compute. auto. Qed.
Lemma sub_canon_refuted : exists a b, canon a = true /\ canon b = true /\ canon (op_sub a b) = false.
Proof. exists (NInt (- two53)), (NInt 1). vm_compute. auto. Qed.
Lemma mul_canon_refuted : exists a b, canon a = true /\ canon b = true /\ canon (op_mul a b) = false.
Proof. exists (NInt 3), (NInt 3002399751580331). vm_compute. auto. Qed.

(* F10: integer conversions of |x| >= 2^63 go through Go's int64(f) = -2^63 *)
Lemma toInt32_refuted : exists a, canon a = true /\ wf a = true /\ toInt32 a <> ToInt32_spec (val a).
Proof. exists f_big. vm_compute. repeat split; discriminate. Qed.
Lemma toUint32_refuted : exists a, canon a = true /\ wf a = true /\ toUint32 a <> ToUint32_spec (val a).
Proof. exists f_big. vm_compute. repeat split; discriminate. Qed.
Lemma toInt16_refuted : exists a, canon a = true /\ wf a = true /\ toIntN true 16 a <> spec_modulo 16 true (val a).
Proof. exists f_big. vm_compute. repeat split; discriminate. Qed.

(* new: int * int with a zero result ignores the sign rule except for the literal pair (0,-1) *)
Lemma mul_zero_sign_refuted : exists a b, canon a = true /\ canon b = true /\
  num_sem (op_mul a b) <> num_sem (S_bin BMul a b).
Proof. exists (NInt 0), (NInt (-5)). vm_compute. repeat split; discriminate. Qed.

(* outside canonical form SameAs is not even symmetric: this is why every producer must normalise *)
Lemma sameAs_noncanonical_asymmetric : exists a b, wf a = true /\ wf b = true /\ num_sem a = num_sem b /\
  sameAs a b = false /\ sameAs b a = true /\ hash a <> hash b.
Proof. exists (NInt 3), (NFlt (of_Z 3)). vm_compute. repeat split; discriminate. Qed.
