(* C05 — executable instantiation used by the correspondence check (no proofs; depends on Model only). *)
From Coq Require Import ZArith Bool List SpecFloat.
From Verif.Base Require Import F64.
From Verif.C05 Require Export Model.
Import ListNotations.
Local Open Scope Z_scope.

Definition F (bits : Z) : jsnum := NFlt (of_bits bits).
Definition I (z : Z) : jsnum := NInt z.

(* ---- StringToNumber (ECMA-262 7.1.4.1.1) for the forms the generator produces ---- *)

Definition is_ws (c : Z) : bool :=
  (c =? 9) || (c =? 10) || (c =? 11) || (c =? 12) || (c =? 13) || (c =? 32) || (c =? 160) ||
  (c =? 5760) || ((8192 <=? c) && (c <=? 8202)) || (c =? 8232) || (c =? 8233) || (c =? 8239) ||
  (c =? 8287) || (c =? 12288) || (c =? 65279).

Fixpoint drop_ws (s : list Z) : list Z :=
  match s with c :: r => if is_ws c then drop_ws r else s | [] => [] end.
Definition trim (s : list Z) : list Z := rev (drop_ws (rev (drop_ws s))).

Definition digit_val (base : Z) (c : Z) : option Z :=
  let v := if (48 <=? c) && (c <=? 57) then c - 48
           else if (97 <=? c) && (c <=? 102) then c - 87
           else if (65 <=? c) && (c <=? 70) then c - 55 else 99 in
  if v <? base then Some v else None.

Fixpoint radix_val (base : Z) (acc : Z) (s : list Z) : option Z :=
  match s with
  | [] => Some acc
  | c :: r => match digit_val base c with Some v => radix_val base (acc * base + v) r | None => None end
  end.

(* decimal digits: returns (value, count, rest) *)
Fixpoint take_digits (acc n : Z) (s : list Z) : Z * Z * list Z :=
  match s with
  | c :: r => if (48 <=? c) && (c <=? 57) then take_digits (acc * 10 + (c - 48)) (n + 1) r else (acc, n, s)
  | [] => (acc, n, [])
  end.

Definition list_Z_eqb (a b : list Z) : bool :=
  (length a =? length b)%nat && forallb (fun p => fst p =? snd p) (combine a b).

Definition str_Infinity : list Z := [73; 110; 102; 105; 110; 105; 116; 121].

(* value of N * 10^p, correctly rounded, for the cases where a single rounding suffices *)
(* N * 10^p with the trailing decimal zeros of N moved into the exponent *)
Fixpoint strip10 (fuel : nat) (N p : Z) : Z * Z :=
  match fuel with
  | O => (N, p)
  | S k => if (N mod 10 =? 0) && negb (N =? 0) then strip10 k (N / 10) (p + 1) else (N, p)
  end.

Definition dec_value (neg : bool) (N0 p0 : Z) : option f64 :=
  let '(N, p) := strip10 400 N0 p0 in
  if N =? 0 then Some (S754_zero neg)
  else
    let sN := if neg then - N else N in
    if 0 <=? p then
      (if p <=? 400 then Some (of_Z (sN * 10 ^ p)) else None)
    else if (N <=? two53) && (- 22 <=? p) then Some (fdiv (of_Z sN) (of_Z (10 ^ (- p))))
    else None.

Definition parse_decimal (s : list Z) : option f64 :=     (* None: not a StrDecimalLiteral / not modelled *)
  let '(neg, s1) := match s with 43 :: r => (false, r) | 45 :: r => (true, r) | _ => (false, s) end in
  if list_Z_eqb s1 str_Infinity then Some (finf neg)
  else
    let '(ip, ni, s2) := take_digits 0 0 s1 in
    let '(fp, nf, s3) := match s2 with 46 :: r => take_digits ip 0 r | _ => (ip, 0, s2) end in
    if (ni + nf =? 0) then None
    else
      match s3 with
      | [] => dec_value neg fp (- nf)
      | c :: r =>
          if (c =? 101) || (c =? 69) then
            let '(eneg, r1) := match r with 43 :: t => (false, t) | 45 :: t => (true, t) | _ => (false, r) end in
            let '(ev, ne, r2) := take_digits 0 0 r1 in
            match r2 with
            | [] => if ne =? 0 then None else dec_value neg fp ((if eneg then - ev else ev) - nf)
            | _ => None
            end
          else None
      end.

Definition StringToNumber (s : list Z) : f64 :=
  let t := trim s in
  match t with
  | [] => fzero
  | 48 :: p :: ds =>
      let base := if (p =? 120) || (p =? 88) then 16 else if (p =? 111) || (p =? 79) then 8
                  else if (p =? 98) || (p =? 66) then 2 else 0 in
      if base =? 0 then match parse_decimal t with Some f => f | None => fnan end
      else match ds with
           | [] => fnan
           | _ => match radix_val base 0 ds with Some v => of_Z v | None => fnan end
           end
  | _ => match parse_decimal t with Some f => f | None => fnan end
  end.

(* ---- parseFloat: the longest prefix that is a StrDecimalLiteral (ECMA-262 19.2.4) ---- *)
Definition starts_with (p s : list Z) : bool := list_Z_eqb p (firstn (length p) s).

Definition parse_decimal_prefix (s : list Z) : option f64 :=   (* None: no such prefix (NaN) / not modelled *)
  let '(neg, s1) := match s with 43 :: r => (false, r) | 45 :: r => (true, r) | _ => (false, s) end in
  if starts_with str_Infinity s1 then Some (finf neg)
  else
    let '(ip, ni, s2) := take_digits 0 0 s1 in
    let '(fp, nf, s3) := match s2 with 46 :: r => take_digits ip 0 r | _ => (ip, 0, s2) end in
    if (ni + nf =? 0) then None
    else
      let expo :=
        match s3 with
        | c :: r =>
            if (c =? 101) || (c =? 69) then
              let '(eneg, r1) := match r with 43 :: t => (false, t) | 45 :: t => (true, t) | _ => (false, r) end in
              let '(ev, ne, _) := take_digits 0 0 r1 in
              if ne =? 0 then 0 else if eneg then - ev else ev
            else 0
        | [] => 0
        end in
      dec_value neg fp (expo - nf).

Definition S_parseFloat (s : list Z) : f64 :=
  match parse_decimal_prefix (drop_ws s) with Some f => f | None => fnan end.

(* ---- parseInt (ECMA-262 19.2.5) ---- *)
Definition digit36 (c : Z) : Z :=
  if (48 <=? c) && (c <=? 57) then c - 48
  else if (97 <=? c) && (c <=? 122) then c - 87
  else if (65 <=? c) && (c <=? 90) then c - 55 else 99.

Fixpoint take_radix (base acc n : Z) (s : list Z) : Z * Z :=
  match s with
  | c :: r => let v := digit36 c in if v <? base then take_radix base (acc * base + v) (n + 1) r else (acc, n)
  | [] => (acc, n)
  end.

(* returns the mathematical integer (None = NaN) and the sign *)
Definition parseInt_math (s : list Z) (radix : Z) : option (bool * Z) :=
  let t := drop_ws s in
  let '(neg, t1) := match t with 43 :: r => (false, r) | 45 :: r => (true, r) | _ => (false, t) end in
  let R0 := ToInt32_spec (of_Z radix) in
  if negb (R0 =? 0) && ((R0 <? 2) || (36 <? R0)) then None
  else
    let strip := (R0 =? 0) || (R0 =? 16) in
    let R1 := if R0 =? 0 then 10 else R0 in
    let '(R, t2) :=
      if strip then
        match t1 with
        | 48 :: x :: r => if (x =? 120) || (x =? 88) then (16, r) else (R1, t1)
        | _ => (R1, t1)
        end
      else (R1, t1) in
    let '(v, n) := take_radix R 0 0 t2 in
    if n =? 0 then None else Some (neg, v).

Definition S_parseInt (s : list Z) (radix : Z) : f64 :=
  match parseInt_math s radix with
  | None => fnan
  | Some (neg, v) => if v =? 0 then S754_zero neg else of_Z (if neg then - v else v)
  end.

(* comparison up to a few units in the last place, for results the specification leaves
   implementation-approximated; the representation must still be canonical *)
Definition approx_eqb (tol : Z) (r : jsnum) (f : f64) : bool :=
  canon r &&
  match r with
  | NFlt g => negb (is_nan g) && negb (is_nan f) && (Z.abs (to_bits g - to_bits f) <=? tol)
  | NInt _ => jsnum_eqb r (canon_of f)
  end.

Definition of_Z_is_exact (z : Z) : bool :=
  match trunc_Z (of_Z z) with Some k => k =? z | None => false end.

(* x ** y on integers, y >= 0: exact when the power is representable, else within 128 ulps of the rounded power
   (Go math.Pow loses up to ~20 ulps at exponent 32..70; a wrapped int64 result is off by orders of magnitude) *)
Definition check_pow (x y : Z) (r : jsnum) : bool :=
  let P := x ^ y in
  if of_Z_is_exact P then jsnum_eqb r (S_pow x y) else approx_eqb 128 r (of_Z P).

Definition check_parseInt (s : list Z) (radix : Z) (r : jsnum) : bool :=
  match parseInt_math s radix with
  | Some (_, v) => jsnum_eqb r (canon_of (S_parseInt s radix))    (* exact for every magnitude since fix 47b90f1 *)
  | None => jsnum_eqb r (NFlt fnan)
  end.

(* ---- cases ---- *)

Inductive tcase :=
| CUn (o : unop) (a r : jsnum)
| CBin (o : binop) (a b r : jsnum)
| CVal (bits : Z) (r : jsnum)            (* some producer yielded the double [bits]; r = its representation *)
| CEq (a b : jsnum) (obs : list bool)    (* representations of two produced values + what scripts observe *)
| CStr (us : list Z) (r : jsnum)         (* Number(s) / +s / s*1 on a string of UTF-16 units *)
| CStrAbs (us : list Z) (r : jsnum)      (* Math.abs(s) *)
| CStrOp (o : unop) (us : list Z) (r : jsnum)   (* a unary operator / conversion applied to the string s: ToNumber(s) first *)
| CPow (x y : Z) (r : jsnum)             (* x ** y / Math.pow(x, y) on integer operands, y >= 0 *)
| CPInt (us : list Z) (radix : Z) (r : jsnum)   (* parseInt(s, radix) *)
| CPFloat (us : list Z) (r : jsnum)      (* parseFloat(s) *)
| CFail.
Arguments CStr us%Z_scope r.

(* what scripts observe for a pair: Object.is(a,b), Object.is(b,a), a===b, b===a,
   new Map([[a,1]]).get(b)===1, [a].includes(b), new Set([a]).has(b), ({[a]:1})[b]===1,
   new Set([a,b]).size===1, one Map entry after set(a), set(b) *)
Definition eq_spec (a b : jsnum) : list bool :=
  let x := num_sem (canon_of (val a)) in let y := num_sem (canon_of (val b)) in
  let sv := same_value_spec x y in let st := strict_eq_spec x y in let z := same_value_zero_spec x y in
  [sv; sv; st; st; z; z; z; z; z; z].
Definition eq_impl (a b : jsnum) : list bool :=
  let z := same_value_zero_spec (num_sem (canon_of (val a))) (num_sem (canon_of (val b))) in
  [sameAs a b; sameAs b a; strictEquals a b; strictEquals b a;
   sameValueZero a b && (hash (norm_zero a) =? hash (norm_zero b));
   sameAs (norm_zero b) (norm_zero a);   (* includes: search element and stored element normalised (fix a58f243) *)
   sameValueZero a b && (hash (norm_zero a) =? hash (norm_zero b)); z;
   sameValueZero a b && (hash (norm_zero a) =? hash (norm_zero b));      (* new Set([a,b]).size === 1 *)
   sameValueZero a b && (hash (norm_zero a) =? hash (norm_zero b))].

Definition bools_eqb (a b : list bool) : bool :=
  (length a =? length b)%nat && forallb (fun p => Bool.eqb (fst p) (snd p)) (combine a b).

Definition expected_S (c : tcase) : list jsnum * list bool :=
  match c with
  | CUn o a _ => ([S_un o a], [])
  | CBin o a b _ => ([S_bin o a b], [])
  | CVal bits _ => ([canon_of (of_bits bits)], [])
  | CEq a b _ => ([], eq_spec a b)
  | CStr us _ => ([canon_of (StringToNumber us)], [])
  | CStrAbs us _ => ([canon_of (fabs (StringToNumber us))], [])
  | CStrOp o us _ => ([S_un o (canon_of (StringToNumber us))], [])
  | CPow x y _ => ([S_pow x y], [])
  | CPInt us radix _ => ([canon_of (S_parseInt us radix)], [])
  | CPFloat us _ => ([canon_of (S_parseFloat us)], [])
  | CFail => ([], [])
  end.
Definition expected_I (c : tcase) : list jsnum * list bool :=
  match c with
  | CUn o a _ => ([I_un o a], [])
  | CBin o a b _ => ([I_bin o a b], [])
  | CVal bits _ => ([floatToValue (of_bits bits)], [])
  | CEq a b _ => ([], eq_impl a b)
  | CPow x y _ => (match op_pow (NInt x) (NInt y) with Some v => [v] | None => [] end, [])
  | _ => ([], [])
  end.

Definition check_case (c : tcase) : bool :=
  match c with
  | CUn o a r => jsnum_eqb r (S_un o a)
  | CBin o a b r => jsnum_eqb r (S_bin o a b)
  | CVal bits r => jsnum_eqb r (canon_of (of_bits bits))
  | CEq a b obs => bools_eqb obs (eq_spec a b)
  | CStr us r => jsnum_eqb r (canon_of (StringToNumber us))
  | CStrAbs us r => jsnum_eqb r (canon_of (fabs (StringToNumber us)))
  | CStrOp o us r => jsnum_eqb r (S_un o (canon_of (StringToNumber us)))
  | CPow x y r => check_pow x y r
  | CPInt us radix r => check_parseInt us radix r
  | CPFloat us r => jsnum_eqb r (canon_of (S_parseFloat us))
  | CFail => false
  end.

Fixpoint mismatch_from (i : N) (cs : list tcase) : list N :=
  match cs with
  | [] => []
  | c :: r => if check_case c then mismatch_from (N.succ i) r else i :: mismatch_from (N.succ i) r
  end.
Definition mismatch_ids := mismatch_from 0%N.

(* printed in replays: (S, I); floats are shown as bit patterns *)
Inductive shown := ShInt (z : Z) | ShFloatBits (b : Z).
Definition show (a : jsnum) : shown := match a with NInt z => ShInt z | NFlt f => ShFloatBits (to_bits f) end.
Definition expected (c : tcase) :=
  let s := expected_S c in let i := expected_I c in
  ((map show (fst s), snd s), (map show (fst i), snd i)).
