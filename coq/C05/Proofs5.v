(* C05 — well-formedness (valid_binary) of the float payloads the operators return.
   Unconditional part: integers, constants, sign operations, float64(i) on the safe range, the
   canonicalisers.  Conditional part: closure of every operator GIVEN that the SpecFloat primitives
   (SFadd, SFsub, SFmul, SFdiv, SFsqrt, binary_normalize) return valid_binary values; that fact is
   Flocq's Bplus/Bmult/Bdiv/Bsqrt/binary_normalize correctness (proved there with the real-number
   axioms) and is not re-proved in this axiom-free development: it appears as explicit premises. *)
From Coq Require Import ZArith Bool List SpecFloat Lia.
From Verif.Base Require Import F64.
From Verif.C05 Require Import Model Proofs Proofs2 Proofs3 Proofs4.
Local Open Scope Z_scope.

Definition valid (f : f64) : bool := valid_binary prec64 emax64 f.

Lemma valid_neg : forall f, valid (fneg f) = valid f.
Proof. intros [s|s| |s m e]; reflexivity. Qed.
Lemma valid_abs : forall f, valid (fabs f) = valid f.
Proof. intros [s|s| |s m e]; reflexivity. Qed.

Lemma floatToValue_wf : forall f, valid f = true -> wf (floatToValue f) = true.
Proof.
  intros f V. unfold floatToValue. destruct (floatToInt f); [destruct (int_in_range z)|]; simpl; auto.
Qed.

Lemma of_Z_safe_valid : forall z, Z.abs z <= two53 -> valid (of_Z z) = true.
Proof.
  intros z B. destruct (Z.eq_dec z 0) as [->|NZ]; [reflexivity|].
  destruct (of_Z_exact z NZ B) as [s [m [e [_ [_ [_ [_ [V _]]]]]]]]. exact V.
Qed.

Section Conditional.
  Hypothesis V_add : forall x y, valid x = true -> valid y = true -> valid (fadd x y) = true.
  Hypothesis V_sub : forall x y, valid x = true -> valid y = true -> valid (fsub x y) = true.
  Hypothesis V_mul : forall x y, valid x = true -> valid y = true -> valid (fmul x y) = true.
  Hypothesis V_div : forall x y, valid x = true -> valid y = true -> valid (fdiv x y) = true.
  Hypothesis V_sqrt : forall x, valid x = true -> valid (fsqrt x) = true.
  Hypothesis V_norm : forall m e s, valid (binary_normalize prec64 emax64 m e s) = true.

  Lemma V_of_Z : forall z, valid (of_Z z) = true.
  Proof. intro z. apply V_norm. Qed.

  Lemma V_to_float : forall a, wf a = true -> valid (to_float a) = true.
  Proof. intros [z|f] W; simpl; [apply V_of_Z | exact W]. Qed.

  Lemma V_sgn : forall s k, valid (f_of_Z_sgn s k) = true.
  Proof. intros s k. unfold f_of_Z_sgn. destruct (k =? 0); [reflexivity | apply V_of_Z]. Qed.

  Lemma V_round_ops : forall x, valid x = true ->
    valid (ftrunc x) = true /\ valid (ffloor x) = true /\ valid (fceil x) = true.
  Proof.
    intros x V. unfold ftrunc, ffloor, fceil. repeat split.
    - destruct (trunc_Z x); [apply V_sgn | exact V].
    - destruct (floor_Z x); [apply V_sgn | exact V].
    - destruct (ceil_Z x); [apply V_sgn | exact V].
  Qed.

  Lemma V_fmod : forall x y, valid x = true -> valid (fmod x y) = true.
  Proof.
    intros x y V. unfold fmod.
    destruct x as [sx|sx| |sx mx ex]; destruct y as [sy|sy| |sy my ey]; try reflexivity; try exact V.
    cbv zeta. destruct (_ =? 0); [reflexivity | apply V_norm].
  Qed.

  Lemma V_f32 : forall x, valid x = true -> valid (of_f32 (to_f32 x)) = true.
  Proof.
    intros x V. unfold of_f32. destruct (to_f32 x) as [s|s| |s m e] eqn:T; try reflexivity. apply V_norm.
  Qed.

  Lemma V_maxmin : forall x y, valid x = true -> valid y = true -> valid (fmax2 x y) = true /\ valid (fmin2 x y) = true.
  Proof.
    intros x y Vx Vy. unfold fmax2, fmin2. split;
      repeat match goal with |- valid (if ?c then _ else _) = true => destruct c end; auto.
  Qed.

  Ltac wf_tac :=
    repeat match goal with
    | |- wf (NInt _) = true => reflexivity
    | |- wf (intToValue _) = true => unfold intToValue
    | |- wf (floatToValue _) = true => apply floatToValue_wf
    | |- wf (NFlt fnan) = true => reflexivity
    | |- wf (NFlt fnegzero) = true => reflexivity
    | |- wf (NFlt (finf _)) = true => reflexivity
    | |- wf (if ?c then _ else _) = true => destruct c
    | |- wf (match ?x with _ => _ end) = true => destruct x eqn:?
    | |- valid (if ?c then _ else _) = true => destruct c
    | |- valid (of_Z _) = true => apply V_of_Z
    | |- valid (fadd _ _) = true => apply V_add
    | |- valid (fsub _ _) = true => apply V_sub
    | |- valid (fmul _ _) = true => apply V_mul
    | |- valid (fdiv _ _) = true => apply V_div
    | |- valid (fsqrt _) = true => apply V_sqrt
    | |- valid (fmod _ _) = true => apply V_fmod
    | |- valid (fneg _) = true => rewrite valid_neg
    | |- valid (fabs _) = true => rewrite valid_abs
    | |- valid (of_f32 (to_f32 _)) = true => apply V_f32
    | |- valid (ftrunc _) = true => apply V_round_ops
    | |- valid (ffloor _) = true => apply V_round_ops
    | |- valid (fceil _) = true => apply V_round_ops
    | |- valid (fmax2 _ _) = true => apply V_maxmin
    | |- valid (fmin2 _ _) = true => apply V_maxmin
    | |- valid (to_float _) = true => apply V_to_float
    | |- valid fone = true => reflexivity
    | |- valid fhalf = true => reflexivity
    | |- valid (finf _) = true => reflexivity
    | |- valid fnan = true => reflexivity
    | H : ?g |- ?g => exact H
    end.

  Lemma toNumeric_wf : forall a, wf a = true -> wf (toNumeric a) = true.
  Proof. intros [z|f] W; simpl; auto. apply floatToValue_wf. exact W. Qed.

  Lemma un_wf_closed : forall o a, wf a = true -> wf (I_un o a) = true.
  Proof.
    intros o a W. pose proof (toNumeric_wf a W) as WN.
    destruct o; simpl;
      unfold op_neg, op_plus, op_inc, op_dec, op_bnot, m_abs, m_floor, m_ceil, m_trunc, m_round, m_sign, m_fround, m_sqrt,
             m_clz32, op_or, op_shr; cbv zeta; try exact WN; wf_tac;
      try (destruct a; simpl in *; wf_tac; fail).
  Qed.

  Lemma bin_wf_closed : forall o a b, wf a = true -> wf b = true -> wf (I_bin o a b) = true.
  Proof.
    intros o a b Wa Wb. pose proof (toNumeric_wf a Wa) as WNa. pose proof (toNumeric_wf b Wb) as WNb.
    destruct o; simpl;
      unfold op_add, op_sub, op_mul, op_div, op_mod, op_and, op_or, op_xor, op_shl, op_sar, op_shr, m_imul, m_max, m_min;
      cbv zeta; wf_tac; try (destruct a; simpl in *; wf_tac; fail).
  Qed.
End Conditional.

(* the premises, packaged: "SpecFloat's rounding primitives return valid_binary values" *)
Definition prims_valid : Prop :=
  (forall x y, valid x = true -> valid y = true -> valid (fadd x y) = true) /\
  (forall x y, valid x = true -> valid y = true -> valid (fsub x y) = true) /\
  (forall x y, valid x = true -> valid y = true -> valid (fmul x y) = true) /\
  (forall x y, valid x = true -> valid y = true -> valid (fdiv x y) = true) /\
  (forall x, valid x = true -> valid (fsqrt x) = true) /\
  (forall m e s, valid (binary_normalize prec64 emax64 m e s) = true).

Lemma wf_closed_given_prims : prims_valid ->
  (forall o a, wf a = true -> wf (I_un o a) = true) /\
  (forall o a b, wf a = true -> wf b = true -> wf (I_bin o a b) = true).
Proof.
  intros [A [S [M [D [Q N]]]]]. split.
  - apply un_wf_closed; auto.
  - apply bin_wf_closed; auto.
Qed.
