(* C05 — lemmas over the model, for all inputs. *)
From Coq Require Import ZArith Bool List SpecFloat Lia.
From Verif.Base Require Import F64.
From Verif.C05 Require Import Model.
Local Open Scope Z_scope.

(* the canonicaliser of the specification layer always yields goja's normal form *)
Lemma canon_of_canon : forall f, canon (canon_of f) = true.
Proof.
  intro f. unfold canon_of. destruct (int_like f) eqn:E.
  - unfold int_like in E. unfold abs_le in E. destruct (trunc_Z f) eqn:T.
    + simpl. apply andb_prop in E. destruct E as [_ E]. exact E.
    + apply andb_prop in E. destruct E as [_ E]. discriminate.
  - simpl. rewrite E. reflexivity.
Qed.
