(* C05 — strict equality, closure of every operator under canonical form, integer conversions. *)
From Coq Require Import ZArith Bool List SpecFloat Lia.
From Verif.Base Require Import F64.
From Verif.C05 Require Import Model Proofs Proofs2 Proofs3.
Import ListNotations.
Local Open Scope Z_scope.

Lemma sem_f_inj : forall f g, valid_binary prec64 emax64 f = true -> valid_binary prec64 emax64 g = true ->
  sem_f f = sem_f g -> f = g.
Proof.
  intros f g Wf Wg H.
  assert (E : NFlt f = NFlt g).
  { destruct f as [s|s| |s m e]; destruct g as [s'|s'| |s' m' e']; simpl in H; try discriminate;
      try (inversion H; subst; reflexivity);
      try (destruct (odd_part m e) as [a1 b1]; destruct (0 <=? b1); discriminate);
      try (destruct (odd_part m' e') as [a1 b1]; destruct (0 <=? b1); discriminate).
    f_equal. apply sem_f_finite_inj; auto. }
  congruence.
Qed.

Lemma sem_f_not_nan : forall f, is_nan f = false -> sem_f f <> SNaN.
Proof.
  intros f N. destruct f as [s|s| |s m e]; try discriminate.
  unfold sem_f. destruct (odd_part m e) as [m' e']. destruct (0 <=? e'); discriminate.
Qed.

Lemma sem_f_zero_iff : forall f, is_zero f = true <-> exists s, sem_f f = SZero s.
Proof.
  intros f. split.
  - intro H. destruct f; try discriminate. eexists; reflexivity.
  - intros [s H]. destruct f as [s'|s'| |s' m e]; try discriminate; auto.
    unfold sem_f in H. destruct (odd_part m e) as [m' e']. destruct (0 <=? e'); discriminate.
Qed.

Lemma strict_refl : forall x, x <> SNaN -> strict_eq_spec x x = true.
Proof.
  intros x N. destruct x; try congruence; simpl; auto.
  - apply eqb_reflx. - apply Z.eqb_refl.
  - rewrite eqb_reflx, Pos.eqb_refl, Z.eqb_refl. reflexivity.
Qed.

Lemma strict_true_cases : forall x y, strict_eq_spec x y = true ->
  (exists s t, x = SZero s /\ y = SZero t) \/ (x = y /\ x <> SNaN).
Proof.
  intros x y H. destruct x, y; simpl in H; try discriminate; eauto;
    right; (split; [apply numeric_eqb_eq; exact H | discriminate]).
Qed.

(* canonical float vs safe integer: the mathematical values differ *)
Lemma canon_float_sem_ne_int : forall f z, canon (NFlt f) = true -> Z.abs z <= two53 -> z <> 0 -> sem_f f <> SInt z.
Proof.
  intros f z C B NZ H. destruct (sem_f_int_integral _ _ H) as [F [I [T _]]].
  simpl in C. apply negb_true_iff in C. unfold int_like, abs_le in C. rewrite F, I, T in C.
  replace (Z.abs z <=? two53) with true in C by (symmetry; apply Z.leb_le; exact B).
  destruct f; simpl in *; try discriminate.
Qed.

Lemma strict_int_float : forall x g, canon (NInt x) = true -> canon (NFlt g) = true ->
  feqb (of_Z x) g = strict_eq_spec (num_sem (NInt x)) (sem_f g) /\
  feqb g (of_Z x) = strict_eq_spec (sem_f g) (num_sem (NInt x)).
Proof.
  intros x g Cx Cg. simpl in Cx. apply Z.leb_le in Cx.
  destruct (Z.eq_dec x 0) as [->|NZ].
  - rewrite of_Z_zero. unfold fzero. rewrite feqb_zero_l, feqb_zero_r. simpl.
    destruct g as [s|s| |s m e]; try (split; reflexivity).
    unfold sem_f. destruct (odd_part m e) as [m' e']. destruct (0 <=? e'); split; reflexivity.
  - destruct (canon_float_ne_int g x Cg NZ Cx) as [E1 E2]. rewrite E1, E2.
    assert (NE : sem_f g <> SInt x) by (apply canon_float_sem_ne_int; auto).
    assert (NS : num_sem (NInt x) = SInt x) by (destruct x; [exfalso; apply NZ; reflexivity | reflexivity | reflexivity]).
    rewrite NS. split; symmetry.
    + destruct (strict_eq_spec (SInt x) (sem_f g)) eqn:S; auto. exfalso.
      destruct (strict_true_cases _ _ S) as [[s [t [A _]]]|[A _]]; [discriminate | congruence].
    + destruct (strict_eq_spec (sem_f g) (SInt x)) eqn:S; auto. exfalso.
      destruct (strict_true_cases _ _ S) as [[s [t [_ A]]]|[A _]]; [discriminate | congruence].
Qed.

Lemma strictEquals_sound : forall a b, canon a = true -> canon b = true -> wf a = true -> wf b = true ->
  strictEquals a b = strictEquals b a /\ strictEquals a b = strict_eq_spec (num_sem a) (num_sem b).
Proof.
  assert (FF : forall f g, valid_binary prec64 emax64 f = true -> valid_binary prec64 emax64 g = true ->
               feqb f g = strict_eq_spec (sem_f f) (sem_f g)).
  { intros f g Wf Wg. apply bool_iff_eq. split; intro H.
    - destruct (feqb_true _ _ H) as [[Zf Zg]|[EQ [N _]]].
      + apply sem_f_zero_iff in Zf. apply sem_f_zero_iff in Zg. destruct Zf as [s ->]. destruct Zg as [t ->]. reflexivity.
      + subst g. apply strict_refl. apply sem_f_not_nan. exact N.
    - destruct (strict_true_cases _ _ H) as [[s [t [A B]]]|[A N]].
      + assert (Zf : is_zero f = true) by (apply sem_f_zero_iff; eauto).
        assert (Zg : is_zero g = true) by (apply sem_f_zero_iff; eauto).
        destruct f; try discriminate. destruct g; try discriminate. reflexivity.
      + assert (f = g) by (apply sem_f_inj; auto). subst g. apply feqb_refl.
        destruct f; auto; exfalso; apply N; reflexivity. }
  assert (SYM : forall x y, strict_eq_spec x y = strict_eq_spec y x).
  { intros x y. apply bool_iff_eq. split; intro H; destruct (strict_true_cases _ _ H) as [[s [t [A B]]]|[A N]];
      subst; try reflexivity; apply strict_refl; auto. }
  intros [x|f] [y|g] Ca Cb Wa Wb; unfold strictEquals.
  - split; [apply Z.eqb_sym|].
    simpl num_sem. destruct x, y; simpl; try reflexivity; rewrite ?Z.eqb_refl; auto;
      try (symmetry; apply Pos.eqb_sym); auto.
  - destruct (strict_int_float x g Ca Cb) as [A B]. simpl to_float. split; [|exact A].
    rewrite A, B. apply SYM.
  - destruct (strict_int_float y f Cb Ca) as [A B]. simpl to_float. split; [|exact B].
    rewrite A, B. apply SYM.
  - simpl to_float. simpl num_sem. simpl in Wa, Wb. rewrite (FF f g Wa Wb), (FF g f Wb Wa). split; auto.
Qed.

(* ---- closure: every operator of the model returns a canonical value on canonical operands ---- *)

Lemma wrap64_small : forall k, Z.abs k <= two53 -> wrap64 k = k.
Proof. intros k H. unfold wrap64. rewrite Z.mod_small; unfold two63, two64, two53 in *; lia. Qed.

Ltac canon_tac :=
  repeat match goal with
  | |- canon (intToValue _) = true => apply intToValue_canon
  | |- canon (floatToValue _) = true => apply floatToValue_canon
  | |- canon (NFlt (finf _)) = true => reflexivity
  | |- canon (NFlt (S754_infinity _)) = true => reflexivity
  | |- canon (NFlt fnan) = true => reflexivity
  | |- canon (NFlt fnegzero) = true => reflexivity
  | |- canon (NInt 0) = true => reflexivity
  | |- canon (if ?c then _ else _) = true => destruct c
  | |- canon (match ?x with _ => _ end) = true => destruct x
  | H : ?g |- ?g => exact H
  end.

Lemma un_canon_closed : forall o a, canon a = true -> canon (I_un o a) = true.
Proof.
  intros o a C. destruct o; simpl;
    try (unfold op_plus, op_inc, op_dec, op_bnot, m_abs, m_floor, m_ceil, m_trunc, m_round, m_sign, m_fround, m_sqrt,
           m_clz32, op_or, op_shr, toNumeric; canon_tac; fail).
  (* unary minus: the integer branch negates in place *)
  unfold op_neg. rewrite (toNumeric_canon_id a C). destruct a as [n|f].
  - destruct (n =? 0); [reflexivity|]. simpl in C. apply Z.leb_le in C.
    rewrite wrap64_small by lia. simpl. apply Z.leb_le. lia.
  - apply floatToValue_canon.
Qed.

Lemma bin_canon_closed : forall o a b, canon a = true -> canon b = true -> canon (I_bin o a b) = true.
Proof.
  intros o a b Ca Cb. destruct o; simpl;
    unfold op_add, op_sub, op_mul, op_div, op_mod, op_and, op_or, op_xor, op_shl, op_sar, op_shr, m_imul, m_max, m_min;
    cbv zeta; canon_tac.
Qed.

(* by induction: every Number computed by an expression over these operators is canonical *)
Inductive expr := EVar (n : nat) | EUn (o : unop) (e : expr) | EBin (o : binop) (e1 e2 : expr).
Fixpoint eval (rho : nat -> jsnum) (e : expr) : jsnum :=
  match e with
  | EVar n => rho n
  | EUn o e1 => I_un o (eval rho e1)
  | EBin o e1 e2 => I_bin o (eval rho e1) (eval rho e2)
  end.

Lemma canon_closed : forall e rho, (forall x, canon (rho x) = true) -> canon (eval rho e) = true.
Proof.
  induction e; intros rho H; simpl; auto.
  - apply un_canon_closed. auto.
  - apply bin_canon_closed; auto.
Qed.

Lemma pow_canon_closed : forall a b r, op_pow a b = Some r -> canon r = true.
Proof.
  intros a b r H. unfold op_pow in H. destruct a as [x|]; try discriminate. destruct b as [y|]; try discriminate.
  destruct (y <? 0); try discriminate. destruct (y =? 0). { inversion H. apply intToValue_canon. }
  destruct (x =? 0). { inversion H. apply intToValue_canon. }
  destruct (negb (ipow x y =? 0)); inversion H; [apply intToValue_canon | apply floatToValue_canon].
Qed.

Example canon_closed_ex :
  eval (fun _ => NFlt fnegzero) (EBin BAdd (EUn UInc (EVar 0)) (EUn UNeg (EVar 0))) = NInt 1.
Proof. vm_compute. reflexivity. Qed.

(* ---- integer conversions equal the specification for EVERY input (F10 repaired: no 2^63 guard) ---- *)

Lemma wrapS_spec : forall bits k, 0 < bits ->
  wrapS bits k = (let r := k mod 2 ^ bits in if 2 ^ (bits - 1) <=? r then r - 2 ^ bits else r).
Proof.
  intros bits k B. unfold wrapS. cbv zeta.
  assert (M : 2 ^ bits = 2 * 2 ^ (bits - 1)).
  { replace bits with (Z.succ (bits - 1)) at 1 by lia. rewrite Z.pow_succ_r by lia. reflexivity. }
  assert (HP : 0 < 2 ^ (bits - 1)) by (apply Z.pow_pos_nonneg; lia).
  set (H := 2 ^ (bits - 1)) in *. rewrite M.
  pose proof (Z.mod_pos_bound k (2 * H) ltac:(lia)) as R.
  rewrite <- (Zplus_mod_idemp_l k H (2 * H)).
  set (r := k mod (2 * H)) in *.
  destruct (H <=? r) eqn:E.
  - apply Z.leb_le in E. replace (r + H) with ((r - H) + 1 * (2 * H)) by ring.
    rewrite Z_mod_plus_full. rewrite Z.mod_small by lia. lia.
  - apply Z.leb_gt in E. rewrite Z.mod_small by lia. lia.
Qed.

Lemma wrap_congr : forall (signed : bool) bits x c, 0 < bits ->
  (if signed then wrapS bits else wrapU bits) (x + c * 2 ^ bits) = (if signed then wrapS bits else wrapU bits) x.
Proof.
  intros signed bits x c B. destruct signed; unfold wrapS, wrapU.
  - replace (x + c * 2 ^ bits + 2 ^ (bits - 1)) with (x + 2 ^ (bits - 1) + c * 2 ^ bits) by ring.
    rewrite Z_mod_plus_full. reflexivity.
  - rewrite Z_mod_plus_full. reflexivity.
Qed.

Lemma wrap_is_spec : forall (signed : bool) bits k, 0 < bits ->
  (if signed then wrapS bits else wrapU bits) k =
  (let r := k mod 2 ^ bits in if signed && (2 ^ (bits - 1) <=? r) then r - 2 ^ bits else r).
Proof.
  intros signed bits k B. destruct signed.
  - rewrite wrapS_spec by exact B. reflexivity.
  - reflexivity.
Qed.

Lemma rem_two32_congr : forall bits k, 0 < bits <= 32 -> exists c, Z.rem k two32 = k + c * 2 ^ bits.
Proof.
  intros bits k B. exists (- (Z.quot k two32) * 2 ^ (32 - bits)).
  pose proof (Z.quot_rem' k two32) as Q.
  assert (P : two32 = 2 ^ (32 - bits) * 2 ^ bits).
  { rewrite <- Z.pow_add_r by lia. replace (32 - bits + bits) with 32 by lia. reflexivity. }
  rewrite <- Z.mul_assoc. rewrite <- P. lia.
Qed.

Lemma trunc_of_Z_safe : forall i, Z.abs i <= two53 -> trunc_Z (of_Z i) = Some i.
Proof.
  intros i B. destruct (Z.eq_dec i 0) as [->|NZ]; [reflexivity|].
  destruct (of_Z_exact i NZ B) as [s [m [e [_ [_ [_ [T _]]]]]]]. exact T.
Qed.

Lemma toIntN_eq_spec : forall signed bits a, 0 < bits <= 32 -> canon a = true ->
  toIntN signed bits a = spec_modulo bits signed (val a).
Proof.
  intros signed bits a B C. unfold toIntN, spec_modulo, val. destruct a as [i|f]; simpl to_float.
  - simpl in C. apply Z.leb_le in C. rewrite (trunc_of_Z_safe i C). apply wrap_is_spec. lia.
  - destruct f as [s|s| |s m e]; try reflexivity.
    + (* zero *) simpl. rewrite wrap_is_spec by lia. reflexivity.
    + (* finite *)
      change (is_finite (S754_finite s m e)) with true. cbv iota.
      unfold floatToInt64Mod32.
      destruct (trunc_Z (S754_finite s m e)) as [k|] eqn:T; [|discriminate T].
      destruct ((- two63 <=? k) && (k <? two63)).
      * apply wrap_is_spec. lia.
      * destruct (rem_two32_congr bits k B) as [c ->]. rewrite wrap_congr by lia. apply wrap_is_spec. lia.
Qed.

Lemma toInt32_eq_spec : forall a, canon a = true -> toInt32 a = ToInt32_spec (val a).
Proof. intros a C. apply toIntN_eq_spec; [lia | exact C]. Qed.
Lemma toUint32_eq_spec : forall a, canon a = true -> toUint32 a = ToUint32_spec (val a).
Proof. intros a C. apply toIntN_eq_spec; [lia | exact C]. Qed.

Example toInt32_eq_spec_ex : toInt32 (NFlt (of_Z (two63 + 2048))) = 2048 /\ toIntN true 16 (NFlt (of_Z (two63 + 2048))) = 2048.
Proof. vm_compute. auto. Qed.
