From Coq Require Import List. Import ListNotations.
From Verif.C08 Require Import Model ProofsI.
Definition w := sl [Loop LDoWhile (Some 1) (Block (sl [Try (sl [ExprVal 2]) false SNil true (sl [Labeled 3 (sl [Break None])])]))].
Eval vm_compute in (run_S 100 false w [], run_I 1000 false w []).
Definition w2 := sl [Loop LDoWhile (Some 1) (Block (sl [Try (sl [ExprVal 2]) false SNil true (sl [Break None])]))].
Eval vm_compute in (run_S 100 false w2 [], run_I 1000 false w2 []).
Definition w3 := sl [Loop LDoWhile (Some 1) (Block (sl [Try (sl [ExprVal 2]) false SNil true (sl [If (Break None) (Break None)])]))].
Eval vm_compute in (run_S 100 false w3 [], run_I 1000 false w3 []).
