From Coq Require Import List Arith ZArith Bool. Import ListNotations.
From Verif.C08 Require Import Model.
Fixpoint sl (l: list stmt) : stmts := match l with [] => SNil | s :: r => SCons s (sl r) end.
(* N1: try { ev1 } catch { ev2 } finally { ev3; throw 9 } *)
Definition p1 := sl [Try (sl [Ev 1]) true (sl [Ev 2]) true (sl [Ev 3; Throw 9])].
Eval vm_compute in (run_S 100 true p1 [], run_I 1000 true p1 []).
(* N2 *)
Definition p2 := sl [Try (sl [Return 1]) false SNil true (sl [Labeled 0 (sl [Try (sl [Return 2]) false SNil true (sl [Break (Some 0)])])])].
Eval vm_compute in (run_S 100 true p2 [], run_I 1000 true p2 []).
Definition it1 := mkIter 7 3 None RetOk.
Definition p3 := sl [ExprVal 1; ForOf None it1 (Block (sl [Ev 5; If (Break None) (ExprVal 6)]))].
Eval vm_compute in (run_S 100 false p3 [false;true], run_I 1000 false p3 [false;true]).
Eval vm_compute in compile_prog false p3.
Definition p4 := sl [ForOf None it1 (Block (sl [Ev 5; Unc PStackOverflow]))].
Eval vm_compute in (run_S 100 true p4 [], run_I 1000 true p4 []).
