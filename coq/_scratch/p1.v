(* C08 — lemmas over the spec semantics S (and, in ProofsI.v, the implementation model I). *)
From Coq Require Import List Arith ZArith Bool Lia.
Import ListNotations.
From Verif.C08 Require Import Model.

(* ------------------------------------------------------------------------------------------------ *)
(* syntactic occurrence of an event / iterator id *)

Fixpoint ev_in (e : nat) (s : stmt) : bool :=
  match s with
  | Ev x => Nat.eqb x e
  | Block b | Labeled _ b => evs_in e b
  | If s1 s2 => ev_in e s1 || ev_in e s2
  | Loop k _ body => (match k with LFor u => Nat.eqb u e | _ => false end) || ev_in e body
  | ForOf _ _ body => ev_in e body
  | Try b _ c _ f => evs_in e b || evs_in e c || evs_in e f
  | _ => false
  end
with evs_in (e : nat) (ss : stmts) : bool :=
  match ss with SNil => false | SCons s r => ev_in e s || evs_in e r end.

Fixpoint it_in (i : nat) (s : stmt) : bool :=
  match s with
  | Block b | Labeled _ b => its_in i b
  | If s1 s2 => it_in i s1 || it_in i s2
  | Loop _ _ body => it_in i body
  | ForOf _ it body => Nat.eqb (it_id it) i || it_in i body
  | Try b _ c _ f => its_in i b || its_in i c || its_in i f
  | _ => false
  end
with its_in (i : nat) (ss : stmts) : bool :=
  match ss with SNil => false | SCons s r => it_in i s || its_in i r end.

(* an event of the trace that is not syntactically present *)
Definition foreign (ev : event) (pe : nat -> bool) (pi : nat -> bool) : Prop :=
  match ev with EEv e => pe e = false | ENext i | EReturn i => pi i = false end.

Definition ok_ev (ev : event) (s : stmt) : Prop :=
  match ev with EEv e => ev_in e s = true | ENext i | EReturn i => it_in i s = true end.
Definition ok_evs (ev : event) (ss : stmts) : Prop :=
  match ev with EEv e => evs_in e ss = true | ENext i | EReturn i => its_in i ss = true end.

Ltac inv H := inversion H; subst; clear H.

Ltac bsolve := repeat (rewrite ?orb_true_r; simpl); auto.

Ltac dmatch H :=
  match type of H with
  | context [match ?x with _ => _ end] => let E := fresh "E" in destruct x eqn:E
  | context [if ?x then _ else _] => let E := fresh "E" in destruct x eqn:E
  end.

Lemma iter_close_events : forall it st tr c, iter_close it st = (tr, c) ->
  forall ev, In ev tr -> ev = EReturn (it_id it).
Proof.
  intros it st tr c H ev Hin. unfold iter_close in H.
  destruct st; destruct (it_ret it); inv H; simpl in Hin; intuition.
Qed.

(* every event of a run is syntactically present in the program *)
Lemma trace_in_syntax : forall n,
  (forall s sc t c sc', exec n s sc = Some (t, c, sc') -> forall ev, In ev t -> ok_ev ev s) /\
  (forall ss acc sc t c sc', exec_list n ss acc sc = Some (t, c, sc') -> forall ev, In ev t -> ok_evs ev ss) /\
  (forall k l body V skip sc t c sc', exec_loop n k l body V skip sc = Some (t, c, sc') ->
      forall ev, In ev t -> ok_ev ev (Loop k l body)) /\
  (forall l it body V idx sc t c sc', exec_forof n l it body V idx sc = Some (t, c, sc') ->
      forall ev, In ev t -> ok_ev ev (ForOf l it body)).
Proof.
  induction n as [|n [IHs [IHl [IHloop IHfor]]]].
  { repeat split; intros; discriminate. }
  repeat split.
  - (* stmt *)
    intros s sc t c sc' H ev Hin.
    destruct s as [e|v|p|b|s1 s2|k l body|l it body|l b|b hasc cc hasf f|l|l|v|v]; simpl in H.
    + inv H. destruct Hin as [<-|[]]. simpl. apply Nat.eqb_refl.
    + inv H. destruct Hin.
    + inv H. destruct Hin.
    + eapply IHl in H; [|eassumption]. destruct ev; simpl in *; auto.
    + destruct (cond sc) as [b sc1]. destruct (exec n (if b then s1 else s2) sc1) as [[[t0 c0] sc2]|] eqn:E; inv H.
      eapply IHs in E; [|eassumption]. destruct b; destruct ev; simpl in *; rewrite E; bsolve.
    + eapply IHloop in H; eauto.
    + eapply IHfor in H; eauto.
    + destruct (exec_list n b None sc) as [[[t0 c0] sc1]|] eqn:E; inv H.
      eapply IHl in E; [|eassumption]. destruct ev; simpl in *; auto.
    + destruct (exec_list n b None sc) as [[[tb B] sc1]|] eqn:EB; [|discriminate].
      assert (HB : forall ev, In ev tb -> ok_ev ev (Try b hasc cc hasf f)).
      { intros e He. eapply IHl in EB; [|eassumption]. destruct e; simpl in *; rewrite EB; bsolve. }
      destruct (is_unc B). { inv H. auto. }
      assert (HC : forall t1 C sc2,
          (if hasc && is_throw B then
             match exec_list n cc None sc1 with
             | Some (tc, C, sc2) => Some (tb ++ tc, C, sc2) | None => None end
           else Some (tb, B, sc1)) = Some (t1, C, sc2) ->
          forall ev, In ev t1 -> ok_ev ev (Try b hasc cc hasf f)).
      { intros t1 C sc2 H1 e He. destruct (hasc && is_throw B).
        - destruct (exec_list n cc None sc1) as [[[tc C'] sc2']|] eqn:EC; inv H1.
          apply in_app_or in He. destruct He as [He|He]; auto.
          eapply IHl in EC; [|eassumption]. destruct e; simpl in *; rewrite EC; bsolve.
        - inv H1. auto. }
      destruct (if hasc && is_throw B then _ else _) as [[[t1 C] sc2]|] eqn:ERC; [|discriminate].
      specialize (HC _ _ _ eq_refl).
      destruct (is_unc C). { inv H. auto. }
      destruct hasf.
      * destruct (exec_list n f None sc2) as [[[tf F] sc3]|] eqn:EF; inv H.
        apply in_app_or in Hin. destruct Hin as [He|He]; auto.
        eapply IHl in EF; [|eassumption]. destruct ev; simpl in *; rewrite EF; bsolve.
      * inv H. auto.
    + inv H. destruct Hin.
    + inv H. destruct Hin.
    + inv H. destruct Hin.
    + inv H. destruct Hin.
  - (* list *)
    intros ss acc sc t c sc' H ev Hin. destruct ss; simpl in H.
    + inv H. destruct Hin.
    + destruct (exec n s sc) as [[[t0 c0] sc1]|] eqn:E; [|discriminate].
      assert (H0 : forall e, In e t0 -> ok_evs e (SCons s ss)).
      { intros e He. eapply IHs in E; [|eassumption]. destruct e; simpl in *; rewrite E; bsolve. }
      destruct (update_empty c0 acc) eqn:EU; try (inv H; auto; fail).
      destruct (exec_list n ss v sc1) as [[[t2 c2] sc2]|] eqn:E2; inv H.
      apply in_app_or in Hin. destruct Hin as [He|He]; auto.
      eapply IHl in E2; [|eassumption]. destruct ev; simpl in *; rewrite E2; bsolve.
  - (* loop *)
    intros k l body V skip sc t c sc' H ev Hin. simpl in H.
    destruct (if skip then (true, sc) else cond sc) as [go sc1].
    destruct (negb go). { inv H. destruct Hin. }
    destruct (exec n body sc1) as [[[t0 c0] sc2]|] eqn:E; [|discriminate].
    assert (H0 : forall e, In e t0 -> ok_ev e (Loop k l body)).
    { intros e He. eapply IHs in E; [|eassumption]. destruct e; simpl in *; rewrite E; bsolve. }
    destruct (loop_continues c0 l).
    + destruct (exec_loop n k l body (vor (cval c0) V) false sc2) as [[[t2 c2] sc3]|] eqn:E2; inv H.
      apply in_app_or in Hin. destruct Hin as [He|He]; auto.
      apply in_app_or in He. destruct He as [He|He].
      * destruct k; simpl in He; try contradiction. destruct He as [<-|[]]. simpl. rewrite Nat.eqb_refl. reflexivity.
      * eapply IHloop in E2; eauto.
    + inv H. auto.
  - (* for-of *)
    intros l it body V idx sc t c sc' H ev Hin. simpl in H.
    assert (HN : ok_ev (ENext (it_id it)) (ForOf l it body)) by (simpl; rewrite Nat.eqb_refl; reflexivity).
    assert (HR : ok_ev (EReturn (it_id it)) (ForOf l it body)) by (simpl; rewrite Nat.eqb_refl; reflexivity).
    destruct (match it_throw it with Some (j, v) => if Nat.eqb j idx then Some v else None | None => None end).
    { inv H. destruct Hin as [<-|[]]. exact HN. }
    destruct (Nat.leb (it_len it) idx). { inv H. destruct Hin as [<-|[]]. exact HN. }
    destruct (exec n body sc) as [[[t0 c0] sc2]|] eqn:E; [|discriminate].
    assert (H0 : forall e, In e t0 -> ok_ev e (ForOf l it body)).
    { intros e He. eapply IHs in E; [|eassumption]. destruct e; simpl in *; rewrite E; bsolve. }
    destruct (loop_continues c0 l).
    + destruct (exec_forof n l it body (vor (cval c0) V) (S idx) sc2) as [[[t2 c2] sc3]|] eqn:E2; inv H.
      destruct Hin as [<-|Hin]; [exact HN|].
      apply in_app_or in Hin. destruct Hin as [He|He]; auto. eapply IHfor in E2; eauto.
    + destruct (iter_close it (update_empty c0 (Some V))) as [tr c'] eqn:EC. inv H.
      destruct Hin as [<-|Hin]; [exact HN|].
      apply in_app_or in Hin. destruct Hin as [He|He]; auto.
      eapply iter_close_events in EC; eauto. subst. exact HR.
Qed.

(* ------------------------------------------------------------------------------------------------ *)
(* finally runs exactly once, after the try/catch part, whatever its completion *)

Definition try_part (n : nat) (b : stmts) (hasc : bool) (c : stmts) (sc : list bool) : option res :=
  match exec_list n b None sc with
  | None => None
  | Some (tb, B, sc1) =>
      if is_unc B then Some (tb, B, sc1) else
      if hasc && is_throw B then
        match exec_list n c None sc1 with
        | Some (tc, C, sc2) => Some (tb ++ tc, C, sc2)
        | None => None
        end
      else Some (tb, B, sc1)
  end.

Lemma try_finally_shape : forall n b hasc c f sc t C sc',
  exec (S n) (Try b hasc c true f) sc = Some (t, C, sc') ->
  exists t1 C1 sc1, try_part n b hasc c sc = Some (t1, C1, sc1) /\
    ((is_unc C1 = true /\ t = t1 /\ C = C1 /\ sc' = sc1) \/
     (is_unc C1 = false /\ exists tf F, exec_list n f None sc1 = Some (tf, F, sc') /\ t = t1 ++ tf /\
        C = update_empty (if is_normal F then C1 else F) (Some VUndef))).
Proof.
  intros n b hasc c f sc t C sc' H. simpl in H. unfold try_part.
  destruct (exec_list n b None sc) as [[[tb B] sc1]|] eqn:EB; [|discriminate].
  destruct (is_unc B) eqn:UB.
  { inv H. do 3 eexists. split; [reflexivity|]. left. auto. }
  destruct (hasc && is_throw B).
  - destruct (exec_list n c None sc1) as [[[tc C'] sc2]|] eqn:EC; [|discriminate].
    do 3 eexists. split; [reflexivity|].
    destruct (is_unc C') eqn:UC. { inv H. left. auto. }
    right. split; [reflexivity|].
    destruct (exec_list n f None sc2) as [[[tf F] sc3]|] eqn:EF; inv H. eauto.
  - do 3 eexists. split; [reflexivity|]. rewrite UB in H.
    right. split; [assumption|].
    destruct (exec_list n f None sc1) as [[[tf F] sc3]|] eqn:EF; inv H. eauto.
Qed.

Lemma try_part_syntax : forall n b hasc c sc t1 C1 sc1 e,
  try_part n b hasc c sc = Some (t1, C1, sc1) -> In (EEv e) t1 -> evs_in e b || evs_in e c = true.
Proof.
  intros n b hasc c sc t1 C1 sc1 e H Hin. unfold try_part in H.
  destruct (exec_list n b None sc) as [[[tb B] sc2]|] eqn:EB; [|discriminate].
  assert (HB : In (EEv e) tb -> evs_in e b = true).
  { intro. destruct (trace_in_syntax n) as [_ [Hl _]]. exact (Hl _ _ _ _ _ _ EB (EEv e) H0). }
  destruct (is_unc B). { inv H. rewrite HB; auto. }
  destruct (hasc && is_throw B).
  - destruct (exec_list n c None sc2) as [[[tc C'] sc3]|] eqn:EC; inv H.
    apply in_app_or in Hin. destruct Hin as [Hi|Hi]. { rewrite HB; auto. }
    destruct (trace_in_syntax n) as [_ [Hl _]]. pose proof (Hl _ _ _ _ _ _ EC (EEv e) Hi) as Hc.
    simpl in Hc. rewrite Hc. bsolve.
  - inv H. rewrite HB; auto.
Qed.

Lemma exec_list_marker : forall n id f sc t F sc',
  exec_list n (SCons (Ev id) f) None sc = Some (t, F, sc') ->
  exists m t', t = EEv id :: t' /\ exec_list m f (Some (VNum id)) sc = Some (t', F, sc').
Proof.
  intros n id f sc t F sc' H. destruct n as [|[|m]]; simpl in H; try discriminate.
  Show.
