From Coq Require Import List. Import ListNotations.
From Verif.C08 Require Import Model ProofsI.
Definition w := sl [Labeled 1 (sl [Labeled 2 (sl [Try SNil false SNil true (sl [If (Break (Some 2)) (Block SNil); Break (Some 1)])]); Ev 1]); Ev 2].
Eval vm_compute in (run_S 100 true w [true], run_I 1000 true w [true]).
