(* C04 — lemmas, part 2: goja's lazily ordered propNames (object.go: _delete, ensurePropOrder,
   fixPropOrder, lastSortedPropLen, idxPropCount) yields OrdinaryOwnPropertyKeys for every history
   of add / delete / enumerate. *)
From Coq Require Import List Arith NArith Bool Lia Permutation.
Import ListNotations.
From Verif.C04 Require Import Model Proofs.

Definition nonidx (k : key) : bool := negb (is_idx k).
Definition klt (a b : key) : Prop := (idx_of a < idx_of b)%N.

(* strictly ascending list of index keys *)
Inductive SortedIdx : list key -> Prop :=
| SI_nil : SortedIdx []
| SI_cons : forall x l, is_idx x = true -> SortedIdx l -> (forall y, In y l -> klt x y) -> SortedIdx (x :: l).

Lemma SortedIdx_all_idx : forall l, SortedIdx l -> forall x, In x l -> is_idx x = true.
Proof. induction 1; simpl; intros y Hy; [contradiction|destruct Hy as [->|Hy]; auto]. Qed.

Lemma idx_key_inj : forall a b, is_idx a = true -> is_idx b = true -> idx_of a = idx_of b -> a = b.
Proof. destruct a, b; simpl; intros; try discriminate; congruence. Qed.

(* ---- insert_idx ---- *)

Lemma insert_idx_in : forall x l y, In y (insert_idx x l) <-> y = x \/ In y l.
Proof.
  induction l as [|a r IH]; simpl; intro y.
  - intuition.
  - destruct (N.leb (idx_of x) (idx_of a)); simpl; [intuition|]. rewrite IH. intuition.
Qed.

Lemma insert_idx_perm : forall x l, Permutation (x :: l) (insert_idx x l).
Proof.
  induction l as [|a r IH]; simpl; auto.
  destruct (N.leb (idx_of x) (idx_of a)); auto.
  eapply perm_trans; [apply perm_swap|]. apply perm_skip, IH.
Qed.

Lemma insert_idx_length : forall x l, length (insert_idx x l) = S (length l).
Proof. intros. symmetry. apply (Permutation_length (insert_idx_perm x l)). Qed.

Lemma insert_idx_sorted : forall x l,
  is_idx x = true -> SortedIdx l -> ~ In x l -> SortedIdx (insert_idx x l).
Proof.
  induction l as [|a r IH]; simpl; intros Hx Hs Hn.
  - constructor; auto. intros y [].
  - inversion Hs as [|? ? Ha Hr Hlt]; subst.
    destruct (N.leb (idx_of x) (idx_of a)) eqn:E.
    + apply N.leb_le in E.
      assert (klt x a).
      { unfold klt. destruct (N.eq_dec (idx_of x) (idx_of a)) as [Q|Q]; [|lia].
        exfalso. apply Hn. left. symmetry. apply idx_key_inj; auto. }
      constructor; auto. intros y [<-|Hy]; auto. specialize (Hlt y Hy). unfold klt in *. lia.
    + apply N.leb_gt in E.
      constructor; [assumption | apply IH; tauto | intros y Hy; apply insert_idx_in in Hy as [->|Hy]; auto].
Qed.

(* insert_idx is "insert at the position sort.Search finds" *)
Lemma insert_idx_as_search : forall x l,
  insert_idx x l = firstn (search_ge l (length l) (idx_of x)) l ++ x :: skipn (search_ge l (length l) (idx_of x)) l.
Proof.
  induction l as [|a r IH]; simpl; auto.
  destruct (N.leb (idx_of x) (idx_of a)); simpl; auto. now rewrite <- IH.
Qed.

Lemma search_ge_app : forall l rest n, search_ge (l ++ rest) (length l) n = search_ge l (length l) n.
Proof.
  induction l as [|a r IH]; simpl; intros rest n; [destruct rest; reflexivity|].
  destruct (N.leb n (idx_of a)); auto.
Qed.

Lemma search_ge_le : forall l n m, search_ge l n m <= n.
Proof.
  induction l as [|a r IH]; destruct n; simpl; intros; try lia.
  destruct (N.leb m (idx_of a)); [lia|]. specialize (IH n m). lia.
Qed.

(* ---- the loop of fixPropOrder ---- *)

Definition ins_all (idxs tail : list key) : list key :=
  fold_left (fun acc x => insert_idx x acc) (filter is_idx tail) idxs.

Lemma fix_loop_spec : forall tail idxs others,
  fix_loop (idxs ++ others) (length idxs) tail
  = (ins_all idxs tail ++ others ++ filter nonidx tail, length idxs + length (filter is_idx tail)).
Proof.
  unfold ins_all, nonidx.
  induction tail as [|x t IH]; intros idxs others; simpl.
  - rewrite app_nil_r. f_equal. lia.
  - destruct (is_idx x) eqn:E; simpl.
    + rewrite search_ge_app.
      pose proof (search_ge_le idxs (length idxs) (idx_of x)) as Hk.
      set (k := search_ge idxs (length idxs) (idx_of x)) in *.
      rewrite firstn_app, skipn_app.
      replace (k - length idxs) with 0 by lia. simpl.
      replace (firstn k idxs ++ []) with (firstn k idxs) by (now rewrite app_nil_r).
      replace (firstn k idxs ++ x :: skipn k idxs ++ others)
        with ((firstn k idxs ++ x :: skipn k idxs) ++ others) by (now rewrite <- app_assoc).
      unfold k. rewrite <- insert_idx_as_search.
      replace (S (length idxs)) with (length (insert_idx x idxs)) by apply insert_idx_length.
      rewrite IH. rewrite insert_idx_length. f_equal. lia.
    + replace ((idxs ++ others) ++ [x]) with (idxs ++ (others ++ [x])) by (now rewrite app_assoc).
      rewrite IH. f_equal. now rewrite <- !app_assoc.
Qed.

Lemma ins_all_perm : forall tail idxs, Permutation (idxs ++ filter is_idx tail) (ins_all idxs tail).
Proof.
  unfold ins_all. induction tail as [|x t IH]; intro idxs; simpl.
  - now rewrite app_nil_r.
  - destruct (is_idx x); simpl; auto.
    eapply perm_trans; [|apply IH].
    eapply perm_trans; [apply Permutation_sym, Permutation_middle|].
    change (x :: idxs ++ filter is_idx t) with ((x :: idxs) ++ filter is_idx t).
    apply Permutation_app_tail, insert_idx_perm.
Qed.

Lemma ins_all_sorted : forall tail idxs,
  SortedIdx idxs -> NoDup (idxs ++ tail) -> SortedIdx (ins_all idxs tail).
Proof.
  unfold ins_all. induction tail as [|x t IH]; intros idxs Hs Hn; simpl; auto.
  assert (Hx : ~ In x idxs /\ NoDup (idxs ++ t) /\ ~ In x t).
  { apply NoDup_remove in Hn as [Hn Hx]. split; [|split]; auto; intro; apply Hx, in_or_app; auto. }
  destruct Hx as (Hx & Hn' & Hxt).
  destruct (is_idx x) eqn:E; simpl; auto.
  apply IH; [apply insert_idx_sorted; auto|].
  eapply Permutation_NoDup; [apply Permutation_app_tail, insert_idx_perm|].
  simpl. constructor; auto. intro H. apply in_app_or in H as []; auto.
Qed.

(* ---- strictly sorted permutations are unique ---- *)

Lemma sorted_perm_unique : forall a b, SortedIdx a -> SortedIdx b -> Permutation a b -> a = b.
Proof.
  induction a as [|x a IH]; intros b Ha Hb P.
  - apply Permutation_nil in P. auto.
  - destruct b as [|y b]; [apply Permutation_sym, Permutation_nil in P; discriminate|].
    inversion Ha as [|? ? Hx Ha' Hxl]; inversion Hb as [|? ? Hy Hb' Hyl]; subst.
    assert (x = y).
    { assert (Ix : In x (y :: b)) by (eapply Permutation_in; [exact P|left; auto]).
      assert (Iy : In y (x :: a)) by (eapply Permutation_in; [apply Permutation_sym; exact P|left; auto]).
      destruct Ix as [->|Ix]; auto. destruct Iy as [->|Iy]; auto.
      specialize (Hyl x Ix). specialize (Hxl y Iy). unfold klt in *. lia. }
    subst y. f_equal. apply IH; auto. eapply Permutation_cons_inv; eauto.
Qed.

Lemma sort_idx_in : forall l x, In x (sort_idx l) <-> In x l.
Proof.
  induction l as [|a r IH]; simpl; intro x; [tauto|].
  rewrite insert_idx_in, IH. intuition.
Qed.

Lemma sort_idx_perm : forall l, Permutation l (sort_idx l).
Proof.
  induction l as [|a r IH]; simpl; auto.
  eapply perm_trans; [apply perm_skip, IH | apply insert_idx_perm].
Qed.

Lemma sort_idx_sorted : forall l, NoDup l -> (forall k, In k l -> is_idx k = true) -> SortedIdx (sort_idx l).
Proof.
  induction l as [|a r IH]; simpl; intros Hn Hi; [constructor|].
  inversion Hn; subst. apply insert_idx_sorted; auto.
  now rewrite sort_idx_in.
Qed.

(* ---- list helpers ---- *)

Lemma mem_key_false : forall k l, mem_key k l = false -> ~ In k l.
Proof.
  unfold mem_key. intros k l H Hin.
  assert (existsb (key_eqb k) l = true) by (apply existsb_exists; exists k; split; auto using key_eqb_refl).
  congruence.
Qed.

Lemma filter_perm : forall (f : key -> bool) a b, Permutation a b -> Permutation (filter f a) (filter f b).
Proof.
  induction 1; simpl; auto.
  - destruct (f x); auto.
  - destruct (f x), (f y); auto using perm_swap.
  - eapply perm_trans; eauto.
Qed.

Lemma filter_filter_comm : forall (f g : key -> bool) l, filter f (filter g l) = filter g (filter f l).
Proof.
  induction l as [|a r IH]; simpl; auto.
  destruct (f a) eqn:F, (g a) eqn:G; simpl; rewrite ?F, ?G, IH; auto.
Qed.

Definition neqk (k : key) := fun x => negb (key_eqb k x).

Lemma filter_neq_notin : forall k l, ~ In k l -> filter (neqk k) l = l.
Proof.
  induction l as [|a r IH]; simpl; intro H; auto.
  unfold neqk at 1. destruct (key_eqb k a) eqn:E; simpl.
  - apply key_eqb_eq in E. subst. exfalso; auto.
  - f_equal. apply IH. tauto.
Qed.

Lemma filter_neq_split : forall k a b, ~ In k a -> ~ In k b -> filter (neqk k) (a ++ k :: b) = a ++ b.
Proof.
  intros. rewrite filter_app. simpl. unfold neqk at 2. rewrite key_eqb_refl. simpl.
  now rewrite !filter_neq_notin.
Qed.

Lemma index_of_split : forall k a b, ~ In k a -> index_of k (a ++ k :: b) = Some (length a).
Proof.
  induction a as [|x a IH]; simpl; intros b H.
  - now rewrite key_eqb_refl.
  - destruct (key_eqb k x) eqn:E; [apply key_eqb_eq in E; subst; tauto|].
    rewrite IH by tauto. reflexivity.
Qed.

Lemma index_of_none : forall k l, ~ In k l -> index_of k l = None.
Proof.
  induction l as [|x r IH]; simpl; intro H; auto.
  destruct (key_eqb k x) eqn:E; [apply key_eqb_eq in E; subst; tauto|].
  rewrite IH by tauto. reflexivity.
Qed.

Lemma remove_at_split : forall (a b : list key) k, remove_at (length a) (a ++ k :: b) = a ++ b.
Proof. induction a; simpl; intros; auto. now rewrite IHa. Qed.

Lemma NoDup_app_inv : forall (a b : list key), NoDup (a ++ b) ->
  NoDup a /\ NoDup b /\ forall x, In x a -> ~ In x b.
Proof.
  induction a as [|x a IH]; simpl; intros b H.
  - repeat split; auto. constructor.
  - inversion H; subst. destruct (IH b H3) as (Ha & Hb & Hd).
    repeat split; auto.
    + constructor; auto. intro; apply H2, in_or_app; auto.
    + intros y [<-|Hy]; auto. intro; apply H2, in_or_app; auto.
Qed.

Lemma SortedIdx_remove : forall a x b, SortedIdx (a ++ x :: b) -> SortedIdx (a ++ b).
Proof.
  induction a as [|y a IH]; simpl; intros x b H.
  - now inversion H.
  - inversion H; subst. constructor; eauto.
    intros z Hz. apply H4. apply in_app_or in Hz as []; apply in_or_app; simpl; auto.
Qed.

Lemma in_filter_split : forall (l : list key) x, In x l <-> In x (filter is_idx l) \/ In x (filter nonidx l).
Proof.
  intros. rewrite !filter_In. unfold nonidx. destruct (is_idx x); simpl; intuition discriminate.
Qed.

(* ---- the invariant ---- *)

Record Rep (s : names_st) (l : list key) (idxs others tail : list key) : Prop := mkRep {
  r_names : n_names s = idxs ++ others ++ tail;
  r_idxc : n_idxc s = length idxs;
  r_last : n_last s = length idxs + length others;
  r_sorted : SortedIdx idxs;
  r_others : forall x, In x others -> is_idx x = false;
  r_nonidx : filter nonidx l = others ++ filter nonidx tail;
  r_idx : Permutation (filter is_idx l) (idxs ++ filter is_idx tail);
  r_nodup_l : NoDup l;
  r_nodup_n : NoDup (n_names s) }.

Definition Inv (s : names_st) (l : list key) : Prop := exists idxs others tail, Rep s l idxs others tail.

Lemma filter_nonidx_others : forall others, (forall x, In x others -> is_idx x = false) ->
  filter nonidx others = others /\ filter is_idx others = [].
Proof.
  induction others as [|a r IH]; simpl; intro H; auto.
  unfold nonidx at 1. rewrite (H a) by auto. simpl.
  destruct IH as [I1 I2]; auto. split; [f_equal|]; auto.
Qed.

Lemma filter_idx_sorted : forall idxs, SortedIdx idxs -> filter is_idx idxs = idxs /\ filter nonidx idxs = [].
Proof.
  induction 1; simpl; auto. unfold nonidx at 1. rewrite H. simpl. destruct IHSortedIdx as [-> ->]. auto.
Qed.

Lemma Rep_same_set : forall s l idxs others tail, Rep s l idxs others tail ->
  forall x, In x (n_names s) <-> In x l.
Proof.
  intros s l idxs others tail R x. destruct R.
  rewrite (in_filter_split l x), r_nonidx0.
  rewrite (Permutation_in' (eq_refl x) r_idx0).
  rewrite r_names0, !in_app_iff, (in_filter_split tail x). tauto.
Qed.

Lemma Inv_init : Inv names0 [].
Proof.
  exists [], [], []. constructor; simpl; auto; try constructor. intros x [].
Qed.

Lemma NoDup_snoc : forall (l : list key) k, NoDup l -> ~ In k l -> NoDup (l ++ [k]).
Proof.
  induction l as [|a r IH]; simpl; intros k Hn Hk.
  - constructor; [intros []|constructor].
  - inversion Hn; subst. constructor.
    + intro H. apply in_app_or in H as [H|H]; [tauto|]. destruct H as [<-|[]]. tauto.
    + apply IH; tauto.
Qed.

Lemma Inv_add : forall s l k, Inv s l -> mem_key k (n_names s) = false ->
  Inv (names_add k s) (l ++ [k]).
Proof.
  intros s l k (idxs & others & tail & R) Hm.
  apply mem_key_false in Hm.
  assert (Hl : ~ In k l) by (now rewrite <- (Rep_same_set _ _ _ _ _ R)).
  destruct R. exists idxs, others, (tail ++ [k]). constructor; simpl; auto.
  - now rewrite r_names0, !app_assoc.
  - rewrite !filter_app, r_nonidx0. now rewrite app_assoc.
  - rewrite !filter_app. rewrite app_assoc. apply Permutation_app_tail. auto.
  - apply NoDup_snoc; auto.
  - apply NoDup_snoc; auto.
Qed.

Lemma NoDup_filter : forall (f : key -> bool) l, NoDup l -> NoDup (filter f l).
Proof.
  induction 1; simpl; [constructor|]. destruct (f x); auto. constructor; auto.
  rewrite filter_In. tauto.
Qed.

Lemma Inv_del : forall s l k, Inv s l -> Inv (names_del k s) (filter (neqk k) l).
Proof.
  intros s l k (idxs & others & tail & R).
  pose proof (Rep_same_set _ _ _ _ _ R) as Hset.
  destruct R.
  unfold names_del.
  assert (Hnd := r_nodup_n0). rewrite r_names0 in Hnd.
  destruct (NoDup_app_inv _ _ Hnd) as (Hni & Hnot & Hd1).
  destruct (NoDup_app_inv _ _ Hnot) as (Hno & Hnt & Hd2).
  destruct (in_dec (fun a b => match Bool.bool_dec (key_eqb a b) true with
                                | left e => left (key_eqb_eq _ _ e)
                                | right n => right (fun q => n (eq_ind_r (fun a => key_eqb a b = true) (key_eqb_refl b) q))
                                end) k (n_names s)) as [Hin|Hnin].
  2:{ rewrite index_of_none by auto.
      rewrite filter_neq_notin by (now rewrite <- Hset).
      exists idxs, others, tail. constructor; auto. }
  rewrite r_names0 in Hin.
  apply in_app_or in Hin as [Hin|Hin]; [|apply in_app_or in Hin as [Hin|Hin]].
  - (* in the sorted index prefix *)
    apply in_split in Hin as (a & b & ->).
    destruct (NoDup_app_inv _ _ Hni) as (_ & Hkb & Hda).
    assert (Hka : ~ In k a) by (intro H; apply (Hda k H); left; auto).
    assert (Hkb' : ~ In k b) by (now inversion Hkb).
    assert (Hko : ~ In k others /\ ~ In k tail).
    { split; intro H; apply (Hd1 k); try (apply in_or_app; right; left; reflexivity);
        apply in_or_app; auto. }
    destruct Hko as [Hko Hkt].
    rewrite r_names0.
    replace ((a ++ k :: b) ++ others ++ tail) with (a ++ k :: (b ++ others ++ tail)) by (now rewrite <- app_assoc).
    rewrite index_of_split by auto. rewrite remove_at_split.
    assert (Hkidx : is_idx k = true) by (apply (SortedIdx_all_idx _ r_sorted0); apply in_or_app; right; left; auto).
    exists (a ++ b), others, tail. constructor; simpl.
    + now rewrite <- app_assoc.
    + rewrite r_idxc0, r_last0, !app_length. simpl.
      assert (length a <? length a + S (length b) + length others = true) by (apply Nat.ltb_lt; lia).
      assert (length a <? length a + S (length b) = true) by (apply Nat.ltb_lt; lia).
      rewrite H, H0. simpl. lia.
    + rewrite r_last0, !app_length. simpl.
      assert (length a <? length a + S (length b) + length others = true) by (apply Nat.ltb_lt; lia).
      rewrite H. lia.
    + eapply SortedIdx_remove; eauto.
    + auto.
    + rewrite filter_filter_comm, r_nonidx0. apply filter_neq_notin.
      intro H. apply in_app_or in H as [H|H]; auto. apply filter_In in H as [H _]. auto.
    + rewrite filter_filter_comm.
      eapply perm_trans; [apply filter_perm, r_idx0|].
      replace ((a ++ k :: b) ++ filter is_idx tail) with (a ++ k :: (b ++ filter is_idx tail)) by (now rewrite <- app_assoc).
      rewrite filter_neq_split; auto.
      * now rewrite app_assoc.
      * intro H. apply in_app_or in H as [H|H]; auto. apply filter_In in H as [H _]. auto.
    + now apply NoDup_filter.
    + rewrite <- app_assoc in Hnd. simpl in Hnd. apply NoDup_remove_1 in Hnd. exact Hnd.
  - (* among the non-index keys of the ordered part *)
    apply in_split in Hin as (a & b & ->).
    destruct (NoDup_app_inv _ _ Hno) as (_ & Hkb & Hda).
    assert (Hka : ~ In k a) by (intro H; apply (Hda k H); left; auto).
    assert (Hkb' : ~ In k b) by (now inversion Hkb).
    assert (Hki : ~ In k idxs).
    { intro H. apply (Hd1 k H). apply in_or_app; left. apply in_or_app; right; left; auto. }
    assert (Hkt : ~ In k tail).
    { intro H. apply (Hd2 k); auto. apply in_or_app; right; left; auto. }
    assert (Hkn : is_idx k = false) by (apply r_others0; apply in_or_app; right; left; auto).
    rewrite r_names0.
    replace (idxs ++ (a ++ k :: b) ++ tail) with ((idxs ++ a) ++ k :: (b ++ tail))
      by (now rewrite <- !app_assoc).
    rewrite index_of_split by (intro H; apply in_app_or in H as []; auto).
    rewrite remove_at_split.
    exists idxs, (a ++ b), tail. constructor; simpl.
    + now rewrite <- !app_assoc.
    + rewrite r_idxc0, r_last0, !app_length. simpl.
      assert (length idxs + length a <? length idxs + (length a + S (length b)) = true) by (apply Nat.ltb_lt; lia).
      assert (length idxs + length a <? length idxs = false) by (apply Nat.ltb_ge; lia).
      rewrite H, H0. reflexivity.
    + rewrite r_last0, !app_length. simpl.
      assert (length idxs + length a <? length idxs + (length a + S (length b)) = true) by (apply Nat.ltb_lt; lia).
      rewrite H. lia.
    + auto.
    + intros x Hx. apply r_others0. apply in_app_or in Hx as []; apply in_or_app; simpl; auto.
    + rewrite filter_filter_comm, r_nonidx0.
      replace ((a ++ k :: b) ++ filter nonidx tail) with (a ++ k :: (b ++ filter nonidx tail)) by (now rewrite <- app_assoc).
      rewrite filter_neq_split; auto.
      * now rewrite app_assoc.
      * intro H. apply in_app_or in H as [H|H]; auto. apply filter_In in H as [H _]. auto.
    + rewrite filter_filter_comm.
      eapply perm_trans; [apply filter_perm, r_idx0|].
      rewrite filter_neq_notin; auto.
      intro H. apply in_app_or in H as [H|H]; auto. apply filter_In in H as [H _]. auto.
    + now apply NoDup_filter.
    + replace (idxs ++ (a ++ k :: b) ++ tail) with ((idxs ++ a) ++ k :: (b ++ tail)) in Hnd
        by (now rewrite <- !app_assoc).
      apply NoDup_remove_1 in Hnd. rewrite <- ?app_assoc in Hnd. rewrite <- ?app_assoc. exact Hnd.
  - (* in the not yet ordered tail *)
    apply in_split in Hin as (a & b & ->).
    destruct (NoDup_app_inv _ _ Hnt) as (_ & Hkb & Hda).
    assert (Hka : ~ In k a) by (intro H; apply (Hda k H); left; auto).
    assert (Hkb' : ~ In k b) by (now inversion Hkb).
    assert (Hki : ~ In k idxs).
    { intro H. apply (Hd1 k H). apply in_or_app; right. apply in_or_app; right; left; auto. }
    assert (Hko : ~ In k others).
    { intro H. apply (Hd2 k H). apply in_or_app; right; left; auto. }
    rewrite r_names0.
    replace (idxs ++ others ++ a ++ k :: b) with ((idxs ++ others ++ a) ++ k :: b)
      by (now rewrite <- !app_assoc).
    rewrite index_of_split by (intro H; apply in_app_or in H as [|H]; auto; apply in_app_or in H as []; auto).
    rewrite remove_at_split.
    exists idxs, others, (a ++ b). constructor; simpl.
    + now rewrite <- !app_assoc.
    + rewrite r_idxc0, r_last0, !app_length.
      assert (length idxs + (length others + length a) <? length idxs + length others = false) by (apply Nat.ltb_ge; lia).
      rewrite H. reflexivity.
    + rewrite r_last0, !app_length.
      assert (length idxs + (length others + length a) <? length idxs + length others = false) by (apply Nat.ltb_ge; lia).
      rewrite H. reflexivity.
    + auto.
    + auto.
    + rewrite filter_filter_comm, r_nonidx0, !filter_app. simpl.
      rewrite (filter_neq_notin k others) by auto.
      rewrite (filter_neq_notin k (filter nonidx a)) by (intro H; apply filter_In in H as [H _]; auto).
      f_equal. f_equal.
      destruct (nonidx k); simpl; [unfold neqk at 1; rewrite key_eqb_refl; simpl|];
        apply filter_neq_notin; intro H; apply filter_In in H as [H _]; auto.
    + rewrite filter_filter_comm.
      eapply perm_trans; [apply filter_perm, r_idx0|].
      rewrite !filter_app. simpl.
      rewrite (filter_neq_notin k idxs) by auto.
      rewrite (filter_neq_notin k (filter is_idx a)) by (intro H; apply filter_In in H as [H _]; auto).
      replace (filter (neqk k) (if is_idx k then k :: filter is_idx b else filter is_idx b)) with (filter is_idx b);
        [apply Permutation_refl|].
      destruct (is_idx k); simpl; [unfold neqk at 1; rewrite key_eqb_refl; simpl|];
        symmetry; apply filter_neq_notin; intro H; apply filter_In in H as [H _]; auto.
    + now apply NoDup_filter.
    + replace (idxs ++ others ++ a ++ k :: b) with ((idxs ++ others ++ a) ++ k :: b) in Hnd
        by (now rewrite <- !app_assoc).
      apply NoDup_remove_1 in Hnd. rewrite <- ?app_assoc in Hnd. rewrite <- ?app_assoc. exact Hnd.
Qed.

(* what ensurePropOrder produces, given the invariant *)
Lemma ensure_spec : forall s l idxs others tail, Rep s l idxs others tail ->
  ensure_order s = mkNames (ins_all idxs tail ++ others ++ filter nonidx tail)
                           (length (ins_all idxs tail ++ others ++ filter nonidx tail))
                           (length idxs + length (filter is_idx tail))
  \/ (tail = [] /\ ensure_order s = s).
Proof.
  intros s l idxs others tail R. destruct R. unfold ensure_order.
  rewrite r_names0, r_last0, r_idxc0.
  destruct (Nat.ltb (length idxs + length others) (length (idxs ++ others ++ tail))) eqn:E.
  - left.
    replace (idxs ++ others ++ tail) with ((idxs ++ others) ++ tail) by (now rewrite <- app_assoc).
    replace (length idxs + length others) with (length (idxs ++ others)) by (now rewrite app_length).
    rewrite firstn_app, skipn_app, Nat.sub_diag, firstn_all, skipn_all. simpl. rewrite app_nil_r.
    rewrite fix_loop_spec. reflexivity.
  - right. apply Nat.ltb_ge in E. rewrite !app_length in E.
    destruct tail; [|simpl in E; lia]. split; auto.
Qed.

Lemma Inv_ensure : forall s l, Inv s l -> Inv (ensure_order s) l.
Proof.
  intros s l (idxs & others & tail & R).
  destruct (ensure_spec _ _ _ _ _ R) as [E|[-> E]]; rewrite E; [|exists idxs, others, []; auto].
  destruct R.
  assert (Hnd := r_nodup_n0). rewrite r_names0 in Hnd.
  exists (ins_all idxs tail), (others ++ filter nonidx tail), []. constructor; simpl.
  - now rewrite app_nil_r.
  - rewrite <- (Permutation_length (ins_all_perm tail idxs)), app_length. reflexivity.
  - now rewrite !app_length.
  - apply ins_all_sorted; auto.
    destruct (NoDup_app_inv _ _ Hnd) as (Hni & Hnot & Hd1).
    destruct (NoDup_app_inv _ _ Hnot) as (Hno & Hnt & Hd2).
    clear -Hni Hnt Hd1. induction idxs as [|a r IH]; simpl; auto.
    inversion Hni; subst. constructor.
    + intro H. apply in_app_or in H as [H|H]; auto. apply (Hd1 a); [left; auto|apply in_or_app; auto].
    + apply IH; auto. intros x Hx. apply Hd1. right; auto.
  - intros x Hx. apply in_app_or in Hx as [Hx|Hx]; auto.
    apply filter_In in Hx as [_ Hx]. unfold nonidx in Hx. now apply negb_true_iff in Hx.
  - now rewrite app_nil_r.
  - rewrite app_nil_r. eapply perm_trans; [exact r_idx0 | apply ins_all_perm].
  - auto.
  - eapply Permutation_NoDup; [|exact Hnd].
    rewrite (app_assoc (ins_all idxs tail)).
    eapply perm_trans with (l' := idxs ++ others ++ (filter is_idx tail ++ filter nonidx tail)).
    + apply Permutation_app_head, Permutation_app_head.
      clear. induction tail as [|a r IH]; simpl; auto. unfold nonidx at 1.
      destruct (is_idx a); simpl; auto. eapply perm_trans; [apply perm_skip, IH|apply Permutation_middle].
    + rewrite <- (app_assoc _ others).
      eapply perm_trans with (l' := (idxs ++ filter is_idx tail) ++ others ++ filter nonidx tail).
      * rewrite <- !app_assoc. apply Permutation_app_head.
        rewrite !app_assoc. apply Permutation_app_tail. apply Permutation_app_comm.
      * apply Permutation_app_tail. apply ins_all_perm.
Qed.

Lemma Inv_step : forall s l o, Inv s l -> Inv (kstep_i s o) (kstep_s l o).
Proof.
  intros s l o I. destruct o as [k|k|]; simpl.
  - assert (E : mem_key k l = mem_key k (n_names s)).
    { destruct I as (idxs & others & tail & R). pose proof (Rep_same_set _ _ _ _ _ R) as Hs.
      unfold mem_key. destruct (existsb (key_eqb k) (n_names s)) eqn:A, (existsb (key_eqb k) l) eqn:B; auto.
      - apply existsb_exists in A as (x & Hx & Ex). apply key_eqb_eq in Ex; subst x.
        apply Hs in Hx. assert (existsb (key_eqb k) l = true) by (apply existsb_exists; exists k; auto using key_eqb_refl).
        congruence.
      - apply existsb_exists in B as (x & Hx & Ex). apply key_eqb_eq in Ex; subst x.
        apply Hs in Hx. assert (existsb (key_eqb k) (n_names s) = true) by (apply existsb_exists; exists k; auto using key_eqb_refl).
        congruence. }
    rewrite E. destruct (mem_key k (n_names s)) eqn:M; auto using Inv_add.
  - apply Inv_del; auto.
  - apply Inv_ensure; auto.
Qed.

Lemma Inv_run : forall ops s l, Inv s l -> Inv (fold_left kstep_i ops s) (fold_left kstep_s ops l).
Proof. induction ops as [|o r IH]; simpl; intros; auto using Inv_step. Qed.

Lemma Inv_krun : forall ops, Inv (krun_i ops) (krun_s ops).
Proof. intro. apply Inv_run, Inv_init. Qed.

(* ---- the theorems ---- *)

Definition no_sym_ops (ops : list kop) : Prop := forall k, In (KAdd k) ops -> is_sym k = false.

Lemma krun_s_no_sym : forall ops l, (forall k, In (KAdd k) ops -> is_sym k = false) ->
  (forall k, In k l -> is_sym k = false) ->
  forall k, In k (fold_left kstep_s ops l) -> is_sym k = false.
Proof.
  induction ops as [|o r IH]; simpl; intros l Ho Hl; auto.
  apply IH; [intros; apply Ho; auto|].
  destruct o as [k|k|]; simpl; auto.
  - destruct (mem_key k l); auto. intros x Hx. apply in_app_or in Hx as [Hx|[<-|[]]]; auto.
  - intros x Hx. apply filter_In in Hx as [Hx _]. auto.
Qed.

Lemma nonidx_is_str : forall l, (forall k, In k l -> is_sym k = false) -> filter nonidx l = filter is_str l.
Proof.
  induction l as [|a r IH]; simpl; intro H; auto.
  assert (is_sym a = false) by auto. rewrite IH by auto.
  unfold nonidx. destruct a; simpl in *; auto; discriminate.
Qed.

Lemma ownkeys_order : forall ops, no_sym_ops ops ->
  n_names (ensure_order (krun_i ops)) = sort_idx (filter is_idx (krun_s ops)) ++ filter is_str (krun_s ops).
Proof.
  intros ops Hns.
  destruct (Inv_ensure _ _ (Inv_krun ops)) as (idxs & others & tail & R).
  destruct (ensure_spec _ _ _ _ _ R) as [E|[-> E]].
  - (* ensure_order is idempotent: after it, the tail is empty *)
    destruct R. rewrite r_names0.
    assert (tail = []).
    { assert (L : n_last (ensure_order (krun_i ops)) = length (n_names (ensure_order (krun_i ops)))).
      { unfold ensure_order. destruct (Nat.ltb _ _) eqn:Q.
        - destruct (fix_loop _ _ _); reflexivity.
        - apply Nat.ltb_ge in Q.
          destruct (Inv_krun ops) as (i0 & o0 & t0 & R0). destruct R0.
          rewrite r_names1, !app_length in *. lia. }
      rewrite r_last0, r_names0, !app_length in L. destruct tail; auto. simpl in L. lia. }
    subst tail. simpl in *. rewrite app_nil_r in *.
    rewrite <- nonidx_is_str by (apply krun_s_no_sym; [exact Hns | intros k []]).
    rewrite r_nonidx0. f_equal.
    apply sorted_perm_unique; auto.
    + apply sort_idx_sorted; [apply NoDup_filter; auto | intros k Hk; apply filter_In in Hk; tauto].
    + eapply perm_trans; [apply Permutation_sym, r_idx0 | apply sort_idx_perm].
  - destruct R. rewrite r_names0. simpl in *. rewrite app_nil_r in *.
    rewrite <- nonidx_is_str by (apply krun_s_no_sym; [exact Hns | intros k []]).
    rewrite r_nonidx0. f_equal.
    apply sorted_perm_unique; auto.
    + apply sort_idx_sorted; [apply NoDup_filter; auto | intros k Hk; apply filter_In in Hk; tauto].
    + eapply perm_trans; [apply Permutation_sym, r_idx0 | apply sort_idx_perm].
Qed.

Lemma ownkeys_unique : forall ops, NoDup (n_names (krun_i ops)) /\ NoDup (krun_s ops).
Proof. intro ops. destruct (Inv_krun ops) as (i & o & t & R). destruct R. auto. Qed.

Lemma ownkeys_same_set : forall ops k, In k (n_names (krun_i ops)) <-> In k (krun_s ops).
Proof. intros ops k. destruct (Inv_krun ops) as (i & o & t & R). eapply Rep_same_set; eauto. Qed.

(* idxPropCount (which setForeignIdx trusts to skip the lookup) is exact after ordering *)
Lemma idxcount_exact : forall ops,
  n_idxc (ensure_order (krun_i ops)) = length (filter is_idx (krun_s ops)).
Proof.
  intro ops.
  destruct (Inv_krun ops) as (idxs & others & tail & R).
  destruct (ensure_spec _ _ _ _ _ R) as [E|[-> E]]; rewrite E; destruct R; simpl.
  - rewrite (Permutation_length r_idx0), app_length. reflexivity.
  - rewrite r_idxc0, (Permutation_length r_idx0), app_length. simpl. lia.
Qed.

Lemma sort_idx_is_sorted : forall l, NoDup l -> (forall k, In k l -> is_idx k = true) ->
  SortedIdx (sort_idx l) /\ Permutation l (sort_idx l).
Proof. intros; split; auto using sort_idx_sorted, sort_idx_perm. Qed.
