(* C04 — lemmas *)
From Coq Require Import List Arith NArith Bool Lia.
Import ListNotations.
From Verif.C04 Require Import Model.

(* F1: a {writable:false} descriptor on a non-configurable accessor is accepted by goja *)
Definition f1_existing := IProp (mkVP None false false false true (Some 0) None).
Definition f1_desc := mkDesc None (Some false) None None None None.
Lemma define_refuted :
  exists ext ex d, desc_wf d = true /\ oiprop_wf ex = true /\
    option_map absP (GojaDefine fx_none ext ex d) <> ValidateAndApply ext (option_map absP ex) d.
Proof. exists true, (Some f1_existing), f1_desc. vm_compute. repeat split; discriminate. Qed.
