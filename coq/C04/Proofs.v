(* C04 — lemmas, part 1: the define decision table (goja's _defineOwnProperty vs
   ValidateAndApplyPropertyDescriptor) and the essential invariants of S along every history. *)
From Coq Require Import List Arith NArith Bool Lia.
Import ListNotations.
From Verif.C04 Require Import Model.

(* ------------------------------------------------------------------------------------------ *)
(* equality tests                                                                               *)

Lemma key_eqb_refl : forall k, key_eqb k k = true.
Proof. destruct k; simpl; auto using N.eqb_refl, Nat.eqb_refl. Qed.

Lemma key_eqb_eq : forall a b, key_eqb a b = true -> a = b.
Proof.
  destruct a, b; simpl; intro H; try discriminate;
    first [apply N.eqb_eq in H | apply Nat.eqb_eq in H]; congruence.
Qed.

Lemma key_eqb_sym : forall a b, key_eqb a b = key_eqb b a.
Proof. destruct a, b; simpl; auto using N.eqb_sym, Nat.eqb_sym. Qed.

Lemma val_eqb_eq : forall a b, val_eqb a b = true -> a = b.
Proof. destruct a, b; simpl; intro H; try discriminate; auto; apply Nat.eqb_eq in H; congruence. Qed.

Lemma val_eqb_refl : forall a, val_eqb a a = true.
Proof. destruct a; simpl; auto using Nat.eqb_refl. Qed.

Lemma ofn_eqb_eq : forall a b, ofn_eqb a b = true -> a = b.
Proof. destruct a, b; simpl; intro H; try discriminate; auto; apply Nat.eqb_eq in H; congruence. Qed.

(* ------------------------------------------------------------------------------------------ *)
(* 1. the define decision table                                                                 *)

Ltac split_desc d Hwf :=
  destruct d as [dv dw dg ds de dc];
  destruct dv as [?v|]; destruct dw as [[|]|]; destruct dg as [[?g|]|]; destruct ds as [[?s|]|];
  try discriminate Hwf.

Ltac split_ex ex Hex :=
  destruct ex as [[?v0|[pv pw pc pe pa pg ps]]|];
  [ | destruct pv as [?v0|]; destruct pw; destruct pa; destruct pg as [?g0|]; destruct ps as [?s0|];
      try discriminate Hex; destruct pc; destruct pe | ].

Ltac norm := cbv -[val_eqb Nat.eqb].
Ltac eqb_cases :=
  repeat match goal with
         | |- context [val_eqb ?a ?b] => destruct (val_eqb a b) eqn:?; norm
         | |- context [Nat.eqb ?a ?b] => destruct (Nat.eqb a b) eqn:?; norm
         end.

(* goja's _defineOwnProperty IS ValidateAndApplyPropertyDescriptor: for every existing property (bare value,
   data, accessor) satisfying the representation invariant and every partial descriptor ... *)
Lemma define_eq_spec : forall ext ex d,
  desc_wf d = true -> oiprop_wf ex = true ->
  option_map absP (GojaDefine ext ex d) = ValidateAndApply ext (option_map absP ex) d.
Proof.
  intros ext ex d Hwf Hex.
  split_desc d Hwf; split_ex ex Hex;
    destruct de as [[|]|]; destruct dc as [[|]|]; destruct ext; clear;
    norm; eqb_cases; reflexivity.
Qed.

(* ... and it keeps the representation invariant, unconditionally *)
Lemma define_wf : forall ext ex d,
  desc_wf d = true -> oiprop_wf ex = true -> oiprop_wf (GojaDefine ext ex d) = true.
Proof.
  intros ext ex d Hwf Hex.
  split_desc d Hwf; split_ex ex Hex;
    destruct de as [[|]|]; destruct dc as [[|]|]; destruct ext; clear;
    norm; eqb_cases; reflexivity.
Qed.

(* the inputs of the six repaired defects, as regression points of the table *)
Definition f1_existing := IProp (mkVP None false false false true (Some 0) None).
Definition f1_desc := mkDesc None (Some false) None None None None.
Definition n2_existing := IProp (mkVP (Some (VNum 1)) false false false false None None).
Definition n2_desc := mkDesc None None (Some None) None None None.
Definition n3_existing := IProp (mkVP None false true false true (Some 0) None).

(* ------------------------------------------------------------------------------------------ *)
(* 2. essential invariants of S                                                                 *)

Section AssocLemmas.
Context {A : Type}.
Lemma find_put_same : forall k (a : A) l, find k (put k a l) = Some a.
Proof.
  induction l as [|[k' a'] r IH]; simpl.
  - now rewrite key_eqb_refl.
  - destruct (key_eqb k k') eqn:E; simpl; rewrite ?E; auto.
Qed.
Lemma find_put_other : forall k k' (a : A) l, key_eqb k' k = false -> find k' (put k a l) = find k' l.
Proof.
  induction l as [|[k0 a0] r IH]; simpl; intro H.
  - now rewrite H.
  - destruct (key_eqb k k0) eqn:E; simpl.
    + apply key_eqb_eq in E; subst k0. now rewrite H.
    + destruct (key_eqb k' k0); auto.
Qed.
Lemma find_del_other : forall k k' (l : list (key * A)), key_eqb k' k = false -> find k' (del k l) = find k' l.
Proof.
  induction l as [|[k0 a0] r IH]; simpl; intro H; auto.
  destruct (key_eqb k k0) eqn:E; simpl.
  - apply key_eqb_eq in E; subst k0. now rewrite H.
  - destruct (key_eqb k' k0); auto.
Qed.
End AssocLemmas.

(* what a non-configurable property keeps *)
Definition frozen_part (p p' : prop) : Prop :=
  p_conf p' = false /\ p_is_acc p' = p_is_acc p /\ p_enum p' = p_enum p /\
  match p with
  | PData _ w _ _ => w = false -> p' = p
  | PAcc _ _ _ _ => p' = p
  end.

Lemma frozen_part_refl : forall p, p_conf p = false -> frozen_part p p.
Proof. intros p H; repeat split; auto; destruct p; auto. Qed.

Lemma frozen_part_trans : forall p p' p'', frozen_part p p' -> frozen_part p' p'' -> frozen_part p p''.
Proof.
  intros p p' p'' (C1 & K1 & E1 & V1) (C2 & K2 & E2 & V2).
  repeat split; try congruence.
  destruct p as [v w e c|g s e c].
  - intro Hw. specialize (V1 Hw). subst p'. auto.
  - subst p'. auto.
Qed.

Lemma vaa_frozen : forall ext p d p',
  desc_wf d = true ->
  ValidateAndApply ext (Some p) d = Some p' -> p_conf p = false -> frozen_part p p'.
Proof.
  intros ext p d p' Hwf H Hc.
  destruct p as [v w e c|g s e c]; simpl in Hc; subst c;
    destruct d as [dv dw dg ds de dc];
    destruct dv as [v'|]; destruct dw as [[|]|]; destruct dg as [g'|]; destruct ds as [s'|];
    try discriminate Hwf; clear Hwf;
    destruct de as [[|]|]; destruct dc as [[|]|];
    cbn in H; try discriminate H;
    try (destruct e; cbn in H; try discriminate H);
    try (destruct w; cbn in H; try discriminate H);
    repeat match type of H with
           | context [val_eqb ?a ?b] => destruct (val_eqb a b) eqn:?; cbn in H
           | context [ofn_eqb ?a ?b] => destruct (ofn_eqb a b) eqn:?; cbn in H
           end;
    try discriminate H;
    injection H as <-;
    repeat match goal with
           | E : val_eqb _ _ = true |- _ => apply val_eqb_eq in E; subst
           | E : ofn_eqb _ _ = true |- _ => apply ofn_eqb_eq in E; subst
           end;
    repeat split; auto; intros; try discriminate; auto.
Qed.

Lemma vaa_new_needs_ext : forall d, ValidateAndApply false None d = None.
Proof. reflexivity. Qed.

Definition obj_le (o o' : obj) : Prop :=
  (forall k p, find k (o_props o) = Some p -> p_conf p = false ->
               exists p', find k (o_props o') = Some p' /\ frozen_part p p') /\
  (o_ext o = false ->
   o_ext o' = false /\ o_proto o' = o_proto o /\
   forall k, find k (o_props o') <> None -> find k (o_props o) <> None).

Lemma obj_le_refl : forall o, obj_le o o.
Proof.
  intro o; split.
  - intros k p H Hc. exists p; split; auto using frozen_part_refl.
  - intro; repeat split; auto.
Qed.

Lemma obj_le_trans : forall a b c, obj_le a b -> obj_le b c -> obj_le a c.
Proof.
  intros a b c [P1 E1] [P2 E2]; split.
  - intros k p H Hc. destruct (P1 k p H Hc) as (p' & H' & F1).
    destruct (P2 k p' H' (proj1 F1)) as (p'' & H'' & F2).
    exists p''; split; eauto using frozen_part_trans.
  - intro He. destruct (E1 He) as (He' & Pr & Ks). destruct (E2 He') as (He'' & Pr' & Ks').
    repeat split; try congruence. intros k Hk. auto.
Qed.

Lemma define_obj_le : forall k d o, obj_le o (define_obj k d o).
Proof.
  intros k d o. unfold define_obj, vaa_checked.
  destruct (desc_wf d) eqn:Hwf; [|apply obj_le_refl].
  destruct (ValidateAndApply (o_ext o) (find k (o_props o)) d) as [p'|] eqn:V; [|apply obj_le_refl].
  split; simpl.
  - intros k0 p H Hc. destruct (key_eqb k0 k) eqn:E.
    + apply key_eqb_eq in E; subst k0. rewrite H in V.
      exists p'; split; [apply find_put_same | eapply vaa_frozen; eauto].
    + rewrite find_put_other by auto. exists p; split; auto using frozen_part_refl.
  - intro He. repeat split; auto. intros k0 Hk.
    destruct (key_eqb k0 k) eqn:E.
    + apply key_eqb_eq in E; subst k0. rewrite He in V.
      destruct (find k (o_props o)); [discriminate | discriminate V].
    + rewrite find_put_other in Hk by auto. auto.
Qed.

Lemma delete_obj_le : forall k o, obj_le o (delete_obj k o).
Proof.
  intros k o. unfold delete_obj.
  destruct (find k (o_props o)) as [p|] eqn:F; [|apply obj_le_refl].
  destruct (p_conf p) eqn:C; [|apply obj_le_refl].
  split; simpl.
  - intros k0 p0 H Hc. destruct (key_eqb k0 k) eqn:E.
    + apply key_eqb_eq in E; subst k0. congruence.
    + rewrite find_del_other by auto. exists p0; split; auto using frozen_part_refl.
  - intro He. repeat split; auto. intros k0 Hk. destruct (key_eqb k0 k) eqn:E.
    + apply key_eqb_eq in E; subst k0. congruence.
    + rewrite find_del_other in Hk by auto. auto.
Qed.

Lemma prevent_obj_le : forall o, obj_le o (prevent_obj o).
Proof.
  intro o; split; simpl.
  - intros k p H Hc. exists p; split; auto using frozen_part_refl.
  - intro; repeat split; auto.
Qed.

Lemma setproto_obj_le : forall p o, obj_le o (setproto_obj p o).
Proof.
  intros p o. unfold setproto_obj. destruct (o_ext o) eqn:E; [|apply obj_le_refl].
  split; simpl.
  - intros k q H Hc. exists q; split; auto using frozen_part_refl.
  - congruence.
Qed.

Lemma fold_le : forall (f : obj -> key -> obj) ks o,
  (forall o k, obj_le o (f o k)) -> obj_le o (fold_left f ks o).
Proof.
  induction ks as [|k r IH]; simpl; intros o H; [apply obj_le_refl|].
  eapply obj_le_trans; [apply H | apply IH, H].
Qed.

Lemma seal_obj_le : forall o, obj_le o (seal_obj o).
Proof.
  intro o. unfold seal_obj. eapply obj_le_trans; [apply prevent_obj_le|].
  apply fold_le. intros; apply define_obj_le.
Qed.

Lemma freeze_obj_le : forall o, obj_le o (freeze_obj o).
Proof.
  intro o. unfold freeze_obj. eapply obj_le_trans; [apply prevent_obj_le|].
  apply fold_le. intros o1 k. destruct (find k (o_props o1)) as [[| ]|]; auto using define_obj_le, obj_le_refl.
Qed.

(* heaps *)
Definition heap_le (h h' : heap) : Prop :=
  length h = length h' /\ forall i, obj_le (hget h i) (hget h' i).

Lemma heap_le_refl : forall h, heap_le h h.
Proof. split; auto using obj_le_refl. Qed.

Lemma heap_le_trans : forall a b c, heap_le a b -> heap_le b c -> heap_le a c.
Proof. intros a b c [L1 O1] [L2 O2]; split; [congruence|]. intro i; eapply obj_le_trans; eauto. Qed.

Lemma upd_obj_length : forall h i f, length (upd_obj h i f) = length h.
Proof. induction h; destruct i; simpl; auto. Qed.

Lemma hget_upd : forall h i f j,
  hget (upd_obj h i f) j = if Nat.eqb i j && Nat.ltb j (length h) then f (hget h j) else hget h j.
Proof.
  unfold hget. induction h as [|o r IH]; intros i f j; simpl.
  - destruct j; rewrite andb_false_r; reflexivity.
  - destruct i, j; simpl; auto. rewrite IH. reflexivity.
Qed.

Lemma upd_obj_le : forall h i f, (forall o, obj_le o (f o)) -> heap_le h (upd_obj h i f).
Proof.
  intros h i f H; split; [symmetry; apply upd_obj_length|].
  intro j. rewrite hget_upd. destruct (_ && _); auto using obj_le_refl.
Qed.

Lemma s_set_on_receiver_le : forall h k v r, heap_le h (fst (s_set_on_receiver h k v r)).
Proof.
  intros. unfold s_set_on_receiver.
  destruct (find k (o_props (hget h r))) as [[? w ? ?|]|]; simpl; try apply heap_le_refl.
  - destruct w; simpl; [apply upd_obj_le; intro; apply define_obj_le | apply heap_le_refl].
  - apply upd_obj_le; intro; apply define_obj_le.
Qed.

Lemma s_set_le : forall fuel h o k v r, heap_le h (fst (fst (s_set fuel h o k v r))).
Proof.
  induction fuel as [|f IH]; intros; simpl; [apply heap_le_refl|].
  destruct (find k (o_props (hget h o))) as [[? w ? ?|? [s|] ? ?]|]; simpl; try apply heap_le_refl.
  - destruct w; simpl; [apply s_set_on_receiver_le | apply heap_le_refl].
  - destruct (o_proto (hget h o)); [apply IH | simpl; apply s_set_on_receiver_le].
Qed.

Lemma s_setproto_le : forall h o p, heap_le h (fst (s_setproto h o p)).
Proof.
  intros. unfold s_setproto.
  destruct (opt_nat_eqb _ _); [apply heap_le_refl|].
  destruct (negb _); [apply heap_le_refl|].
  destruct (reaches _ _ _ _); [apply heap_le_refl|].
  simpl. apply upd_obj_le. intro; apply setproto_obj_le.
Qed.

Lemma sstep_le : forall h o, heap_le h (fst (fst (sstep h o))).
Proof.
  intros h o; destruct o; cbn [sstep].
  - apply upd_obj_le; intro; apply define_obj_le.
  - pose proof (s_set_le (S (S (length h))) h o k v r) as H.
    destruct (s_set (S (S (length h))) h o k v r) as [[h' b] ev]. exact H.
  - destruct (s_get (S (S (length h))) h o k r). apply heap_le_refl.
  - apply heap_le_refl.
  - apply heap_le_refl.
  - apply upd_obj_le; intro; apply delete_obj_le.
  - apply heap_le_refl.
  - apply upd_obj_le; intro; apply prevent_obj_le.
  - apply upd_obj_le; intro; apply freeze_obj_le.
  - apply upd_obj_le; intro; apply seal_obj_le.
  - apply heap_le_refl.
  - apply heap_le_refl.
  - apply heap_le_refl.
  - apply heap_le_refl.
  - pose proof (s_setproto_le h o p) as H. destruct (s_setproto h o p). exact H.
Qed.

Lemma srun_le : forall ops h, heap_le h (srun h ops).
Proof.
  unfold srun. induction ops as [|o r IH]; simpl; intro h; [apply heap_le_refl|].
  eapply heap_le_trans; [apply sstep_le | apply IH].
Qed.

Lemma essential_invariants : forall h ops i k p,
  find k (o_props (hget h i)) = Some p -> p_conf p = false ->
  exists p', find k (o_props (hget (srun h ops) i)) = Some p' /\ frozen_part p p'.
Proof. intros h ops i k p H Hc. destruct (srun_le ops h) as [_ L]. exact (proj1 (L i) k p H Hc). Qed.

Lemma nonextensible_invariants : forall h ops i,
  o_ext (hget h i) = false ->
  o_ext (hget (srun h ops) i) = false /\
  o_proto (hget (srun h ops) i) = o_proto (hget h i) /\
  forall k, find k (o_props (hget (srun h ops) i)) <> None -> find k (o_props (hget h i)) <> None.
Proof. intros h ops i H. destruct (srun_le ops h) as [_ L]. exact (proj2 (L i) H). Qed.

(* frozen objects do not change at all any more, as observed through descriptors *)
Lemma frozen_is_final : forall h ops i,
  is_frozen (hget h i) = true ->
  forall k, find k (o_props (hget (srun h ops) i)) = find k (o_props (hget h i)).
Proof.
  intros h ops i Hf k. unfold is_frozen in Hf. apply andb_prop in Hf as [He Ha].
  apply negb_true_iff in He.
  destruct (nonextensible_invariants h ops i He) as (_ & _ & Ks).
  destruct (find k (o_props (hget h i))) as [p|] eqn:F.
  - assert (Hp : match p with PData _ w _ c => negb c && negb w | PAcc _ _ _ c => negb c end = true).
    { clear -F Ha. induction (o_props (hget h i)) as [|[k' p'] r IH]; simpl in *; [discriminate|].
      apply andb_prop in Ha as [H1 H2]. destruct (key_eqb k k'); [inversion F; subst; exact H1 | auto]. }
    destruct (essential_invariants h ops i k p F) as (p' & F' & (_ & _ & _ & V)).
    { destruct p; [apply andb_prop in Hp as [Hp _]|]; now apply negb_true_iff in Hp. }
    rewrite F'. f_equal. destruct p as [v w e c|g s e c]; auto.
    apply V. apply andb_prop in Hp as [_ Hp]. now apply negb_true_iff in Hp.
  - destruct (find k (o_props (hget (srun h ops) i))) eqn:F'; auto.
    exfalso. apply (Ks k); congruence.
Qed.
