(* C04 — Essential object invariants: executable definitions only.
   S  = ECMA-262 section 10.1 ordinary object internal methods, written plainly.
   I  = goja's baseObject (object.go / value.go / builtin_object.go) transcribed:
        valueProperty records with the bare-Value shortcut, _defineOwnProperty's decision tree,
        setOwn/setForeign per key kind, _delete, propNames + lastSortedPropLen + idxPropCount.
   I follows the current tree (all six C04 findings are repaired in /repo). *)
From Coq Require Import List Arith NArith Bool.
Import ListNotations.

(* ------------------------------------------------------------------------------------------ *)
(* keys, values                                                                                 *)

Inductive key := KIdx (n : N) | KStr (s : nat) | KSym (s : nat).
(* KIdx n: the canonical numeric string of an array index n (< 2^32-1); KStr: any other string *)

Definition key_eqb (a b : key) : bool :=
  match a, b with
  | KIdx x, KIdx y => N.eqb x y
  | KStr x, KStr y => Nat.eqb x y
  | KSym x, KSym y => Nat.eqb x y
  | _, _ => false
  end.

Definition is_idx (k : key) : bool := match k with KIdx _ => true | _ => false end.
Definition is_sym (k : key) : bool := match k with KSym _ => true | _ => false end.
Definition is_str (k : key) : bool := match k with KStr _ => true | _ => false end.
Definition idx_of (k : key) : N := match k with KIdx n => n | _ => 0%N end.

Inductive val := VUndef | VNum (n : nat) | VObj (i : nat).

Definition val_eqb (a b : val) : bool :=       (* SameValue on the value universe of the model *)
  match a, b with
  | VUndef, VUndef => true
  | VNum x, VNum y => Nat.eqb x y
  | VObj x, VObj y => Nat.eqb x y
  | _, _ => false
  end.

Definition ofn_eqb (a b : option nat) : bool :=   (* SameValue on getter/setter: function id or undefined *)
  match a, b with
  | None, None => true
  | Some x, Some y => Nat.eqb x y
  | _, _ => false
  end.

Definition isSome {A} (o : option A) : bool := match o with Some _ => true | None => false end.
Definition od {A} (o : option A) (d : A) : A := match o with Some x => x | None => d end.
Definition is_true (o : option bool) : bool := match o with Some true => true | _ => false end.
Definition differs (o : option bool) (b : bool) : bool :=
  match o with Some x => negb (Bool.eqb x b) | None => false end.

(* ------------------------------------------------------------------------------------------ *)
(* property descriptors (partial) and spec properties                                           *)

Inductive prop := PData (v : val) (w e c : bool) | PAcc (g s : option nat) (e c : bool).

Record desc := mkDesc {
  d_value : option val;
  d_writable : option bool;
  d_get : option (option nat);      (* Some None = "get: undefined" *)
  d_set : option (option nat);
  d_enum : option bool;
  d_conf : option bool }.

Definition is_acc_desc (d : desc) : bool := isSome (d_get d) || isSome (d_set d).
Definition is_data_desc (d : desc) : bool := isSome (d_value d) || isSome (d_writable d).
Definition is_generic_desc (d : desc) : bool := negb (is_acc_desc d) && negb (is_data_desc d).
Definition desc_wf (d : desc) : bool := negb (is_acc_desc d && is_data_desc d).
Definition desc_empty (d : desc) : bool :=
  is_generic_desc d && negb (isSome (d_enum d)) && negb (isSome (d_conf d)).

Definition p_conf (p : prop) : bool := match p with PData _ _ _ c => c | PAcc _ _ _ c => c end.
Definition p_enum (p : prop) : bool := match p with PData _ _ e _ => e | PAcc _ _ e _ => e end.
Definition p_is_acc (p : prop) : bool := match p with PData _ _ _ _ => false | PAcc _ _ _ _ => true end.

(* ECMA-262 10.1.6.3 ValidateAndApplyPropertyDescriptor; None = return false, Some p = the
   property after the call (return true). *)
Definition ValidateAndApply (ext : bool) (cur : option prop) (d : desc) : option prop :=
  match cur with
  | None =>
      if negb ext then None
      else Some (if is_acc_desc d
                 then PAcc (od (d_get d) None) (od (d_set d) None) (od (d_enum d) false) (od (d_conf d) false)
                 else PData (od (d_value d) VUndef) (od (d_writable d) false) (od (d_enum d) false) (od (d_conf d) false))
  | Some c =>
      if desc_empty d then Some c
      else if negb (p_conf c) &&
              (is_true (d_conf d)
               || differs (d_enum d) (p_enum c)
               || (negb (is_generic_desc d) && negb (Bool.eqb (is_acc_desc d) (p_is_acc c)))
               || match c with
                  | PAcc g s _ _ =>
                      (match d_get d with Some g' => negb (ofn_eqb g' g) | None => false end)
                      || (match d_set d with Some s' => negb (ofn_eqb s' s) | None => false end)
                  | PData v w _ _ =>
                      negb w && (is_true (d_writable d)
                                 || match d_value d with Some v' => negb (val_eqb v' v) | None => false end)
                  end)
      then None
      else Some (match c with
                 | PData v w e cf =>
                     if is_acc_desc d
                     then PAcc (od (d_get d) None) (od (d_set d) None) (od (d_enum d) e) (od (d_conf d) cf)
                     else PData (od (d_value d) v) (od (d_writable d) w) (od (d_enum d) e) (od (d_conf d) cf)
                 | PAcc g s e cf =>
                     if is_data_desc d
                     then PData (od (d_value d) VUndef) (od (d_writable d) false) (od (d_enum d) e) (od (d_conf d) cf)
                     else PAcc (od (d_get d) g) (od (d_set d) s) (od (d_enum d) e) (od (d_conf d) cf)
                 end)
  end.

(* ------------------------------------------------------------------------------------------ *)
(* association lists keyed by [key]                                                             *)

Section Assoc.
Context {A : Type}.
Fixpoint find (k : key) (l : list (key * A)) : option A :=
  match l with
  | [] => None
  | (k', a) :: r => if key_eqb k k' then Some a else find k r
  end.
(* replace in place (position kept) or append at the end *)
Fixpoint put (k : key) (a : A) (l : list (key * A)) : list (key * A) :=
  match l with
  | [] => [(k, a)]
  | (k', a') :: r => if key_eqb k k' then (k', a) :: r else (k', a') :: put k a r
  end.
Fixpoint del (k : key) (l : list (key * A)) : list (key * A) :=
  match l with
  | [] => []
  | (k', a') :: r => if key_eqb k k' then r else (k', a') :: del k r
  end.
End Assoc.

(* ------------------------------------------------------------------------------------------ *)
(* OrdinaryOwnPropertyKeys: array indices ascending, then strings, then symbols (creation order) *)

Fixpoint insert_idx (k : key) (l : list key) : list key :=
  match l with
  | [] => [k]
  | x :: r => if N.leb (idx_of k) (idx_of x) then k :: l else x :: insert_idx k r
  end.
Definition sort_idx (l : list key) : list key := fold_right insert_idx [] l.

Definition spec_keys (l : list key) : list key :=
  sort_idx (filter is_idx l) ++ filter is_str l ++ filter is_sym l.

(* ------------------------------------------------------------------------------------------ *)
(* events: accessor calls                                                                       *)

Inductive event := Ev (f : nat) (this : nat) (arg : option val).
Definition getter_ret (g : nat) : val := VNum (50 + g).

(* ============================================================================================ *)
(* S: the specification                                                                         *)

Record obj := mkObj { o_proto : option nat; o_ext : bool; o_props : list (key * prop) }.
Definition heap := list obj.

Definition obj0 := mkObj None true [].
Definition hget (h : heap) (i : nat) : obj := nth i h obj0.
Fixpoint upd_obj (h : heap) (i : nat) (f : obj -> obj) : heap :=
  match h, i with
  | [], _ => []
  | o :: r, 0 => f o :: r
  | o :: r, S j => o :: upd_obj r j f
  end.

(* [[DefineOwnProperty]] on one object.  A descriptor with both accessor and data fields never reaches
   an internal method (ToPropertyDescriptor throws a TypeError): it is refused without effect. *)
Definition vaa_checked (ext : bool) (cur : option prop) (d : desc) : option prop :=
  if desc_wf d then ValidateAndApply ext cur d else None.
Definition define_ok (k : key) (d : desc) (o : obj) : bool :=
  isSome (vaa_checked (o_ext o) (find k (o_props o)) d).
Definition define_obj (k : key) (d : desc) (o : obj) : obj :=
  match vaa_checked (o_ext o) (find k (o_props o)) d with
  | None => o
  | Some p => mkObj (o_proto o) (o_ext o) (put k p (o_props o))
  end.

(* [[Delete]] *)
Definition delete_ok (k : key) (o : obj) : bool :=
  match find k (o_props o) with None => true | Some p => p_conf p end.
Definition delete_obj (k : key) (o : obj) : obj :=
  match find k (o_props o) with
  | None => o
  | Some p => if p_conf p then mkObj (o_proto o) (o_ext o) (del k (o_props o)) else o
  end.

Definition prevent_obj (o : obj) : obj := mkObj (o_proto o) false (o_props o).

Definition own_keys (o : obj) : list key := spec_keys (map fst (o_props o)).

(* SetIntegrityLevel *)
Definition d_generic (c : option bool) (w : option bool) : desc := mkDesc None w None None None c.
Definition seal_obj (o : obj) : obj :=
  fold_left (fun o k => define_obj k (d_generic (Some false) None) o) (own_keys o) (prevent_obj o).
Definition freeze_obj (o : obj) : obj :=
  fold_left (fun o k =>
               match find k (o_props o) with
               | Some (PAcc _ _ _ _) => define_obj k (d_generic (Some false) None) o
               | Some (PData _ _ _ _) => define_obj k (d_generic (Some false) (Some false)) o
               | None => o
               end) (own_keys o) (prevent_obj o).
(* TestIntegrityLevel *)
Definition is_sealed (o : obj) : bool :=
  negb (o_ext o) && forallb (fun kp => negb (p_conf (snd kp))) (o_props o).
Definition is_frozen (o : obj) : bool :=
  negb (o_ext o) &&
  forallb (fun kp => match snd kp with
                     | PData _ w _ c => negb c && negb w
                     | PAcc _ _ _ c => negb c
                     end) (o_props o).

(* OrdinarySetPrototypeOf *)
Fixpoint reaches (fuel : nat) (h : heap) (p : option nat) (target : nat) : bool :=
  match fuel with
  | 0 => false
  | S f => match p with
           | None => false
           | Some i => if Nat.eqb i target then true else reaches f h (o_proto (hget h i)) target
           end
  end.
Definition opt_nat_eqb := ofn_eqb.
Definition setproto_obj (p : option nat) (o : obj) : obj :=
  if o_ext o then mkObj p (o_ext o) (o_props o) else o.
Definition s_setproto (h : heap) (o : nat) (p : option nat) : heap * bool :=
  let ob := hget h o in
  if opt_nat_eqb p (o_proto ob) then (h, true)
  else if negb (o_ext ob) then (h, false)
  else if reaches (S (length h)) h p o then (h, false)
  else (upd_obj h o (setproto_obj p), true).

(* OrdinaryGet *)
Fixpoint s_get (fuel : nat) (h : heap) (o : nat) (k : key) (r : nat) : val * list event :=
  match fuel with
  | 0 => (VUndef, [])
  | S f =>
      match find k (o_props (hget h o)) with
      | None => match o_proto (hget h o) with
                | None => (VUndef, [])
                | Some p => s_get f h p k r
                end
      | Some (PData v _ _ _) => (v, [])
      | Some (PAcc None _ _ _) => (VUndef, [])
      | Some (PAcc (Some g) _ _ _) => (getter_ret g, [Ev g r None])
      end
  end.

(* OrdinaryHasProperty *)
Fixpoint s_has (fuel : nat) (h : heap) (o : nat) (k : key) : bool :=
  match fuel with
  | 0 => false
  | S f =>
      match find k (o_props (hget h o)) with
      | Some _ => true
      | None => match o_proto (hget h o) with
                | None => false
                | Some p => s_has f h p k
                end
      end
  end.

(* OrdinarySet / OrdinarySetWithOwnDescriptor *)
Definition d_value_only (v : val) : desc := mkDesc (Some v) None None None None None.
Definition d_create (v : val) : desc := mkDesc (Some v) (Some true) None None (Some true) (Some true).

Definition s_set_on_receiver (h : heap) (k : key) (v : val) (r : nat) : heap * bool :=
  match find k (o_props (hget h r)) with
  | Some (PAcc _ _ _ _) => (h, false)
  | Some (PData _ w _ _) =>
      if negb w then (h, false)
      else (upd_obj h r (define_obj k (d_value_only v)), define_ok k (d_value_only v) (hget h r))
  | None => (upd_obj h r (define_obj k (d_create v)), define_ok k (d_create v) (hget h r))
  end.

Fixpoint s_set (fuel : nat) (h : heap) (o : nat) (k : key) (v : val) (r : nat) : heap * bool * list event :=
  match fuel with
  | 0 => (h, false, [])
  | S f =>
      match find k (o_props (hget h o)) with
      | None => match o_proto (hget h o) with
                | Some p => s_set f h p k v r
                | None => (s_set_on_receiver h k v r, [])
                end
      | Some (PData _ w _ _) => if negb w then (h, false, []) else (s_set_on_receiver h k v r, [])
      | Some (PAcc _ None _ _) => (h, false, [])
      | Some (PAcc _ (Some s) _ _) => (h, true, [Ev s r (Some v)])
      end
  end.

(* the operation alphabet *)
Inductive op :=
| ODefine (o : nat) (k : key) (d : desc)
| OSet (o : nat) (k : key) (num : bool) (v : val) (r : nat)   (* num: index key passed as a number *)
| OGet (o : nat) (k : key) (r : nat)
| OHas (o : nat) (k : key)
| OGetOwn (o : nat) (k : key)
| ODelete (o : nat) (k : key)
| OKeys (o : nat)
| OPrevent (o : nat)
| OFreeze (o : nat)
| OSeal (o : nat)
| OIsFrozen (o : nat)
| OIsSealed (o : nat)
| OIsExt (o : nat)
| OGetProto (o : nat)
| OSetProto (o : nat) (p : option nat).

Inductive res :=
| RBool (b : bool) | RVal (v : val) | RKeys (l : list key) | RProto (p : option nat) | RDesc (p : option prop).

Definition sstep (h : heap) (o : op) : heap * res * list event :=
  let fuel := S (S (length h)) in
  match o with
  | ODefine o k d => (upd_obj h o (define_obj k d), RBool (define_ok k d (hget h o)), [])
  | OSet o k _ v r => let '(h', b, ev) := s_set fuel h o k v r in (h', RBool b, ev)
  | OGet o k r => let '(v, ev) := s_get fuel h o k r in (h, RVal v, ev)
  | OHas o k => (h, RBool (s_has fuel h o k), [])
  | OGetOwn o k => (h, RDesc (find k (o_props (hget h o))), [])
  | ODelete o k => (upd_obj h o (delete_obj k), RBool (delete_ok k (hget h o)), [])
  | OKeys o => (h, RKeys (own_keys (hget h o)), [])
  | OPrevent o => (upd_obj h o prevent_obj, RBool true, [])
  | OFreeze o => (upd_obj h o freeze_obj, RBool true, [])
  | OSeal o => (upd_obj h o seal_obj, RBool true, [])
  | OIsFrozen o => (h, RBool (is_frozen (hget h o)), [])
  | OIsSealed o => (h, RBool (is_sealed (hget h o)), [])
  | OIsExt o => (h, RBool (o_ext (hget h o)), [])
  | OGetProto o => (h, RProto (o_proto (hget h o)), [])
  | OSetProto o p => let '(h', b) := s_setproto h o p in (h', RBool b, [])
  end.

Definition srun (h : heap) (ops : list op) : heap := fold_left (fun h o => fst (fst (sstep h o))) ops h.

(* ============================================================================================ *)
(* I: goja                                                                                      *)

(* value.go: valueProperty *)
Record vprop := mkVP {
  vp_value : option val;
  vp_writable : bool;
  vp_configurable : bool;
  vp_enumerable : bool;
  vp_accessor : bool;
  vp_getter : option nat;
  vp_setter : option nat }.
(* a stored property is either a bare Value (all-true data property) or a *valueProperty *)
Inductive iprop := IBare (v : val) | IProp (p : vprop).

Definition vp0 := mkVP None false false false false None None.
Definition vp_of_bare (v : val) := mkVP (Some v) true true true false None None.

(* what Object.getOwnPropertyDescriptor shows (valuePropToDescriptorObject) *)
Definition absP (ip : iprop) : prop :=
  match ip with
  | IBare v => PData v true true true
  | IProp p => if vp_accessor p then PAcc (vp_getter p) (vp_setter p) (vp_enumerable p) (vp_configurable p)
               else PData (od (vp_value p) VUndef) (vp_writable p) (vp_enumerable p) (vp_configurable p)
  end.

(* representation invariant a repaired goja would keep *)
Definition vprop_wf (p : vprop) : bool :=
  if vp_accessor p then negb (isSome (vp_value p)) && negb (vp_writable p)
  else isSome (vp_value p) && negb (isSome (vp_getter p)) && negb (isSome (vp_setter p)).
Definition iprop_wf (ip : iprop) : bool := match ip with IBare _ => true | IProp p => vprop_wf p end.
Definition oiprop_wf (o : option iprop) : bool := match o with None => true | Some ip => iprop_wf ip end.

Definition fn_of (g : option (option nat)) : option nat := match g with Some (Some f) => Some f | _ => None end.

(* object.go:650 _defineOwnProperty (tree after commits 7dd46dd, 8a03683, 4561dbf); None = Reject / not extensible *)
Definition GojaDefine (ext : bool) (ev : option iprop) (d : desc) : option iprop :=
  let getterObj := fn_of (d_get d) in
  let setterObj := fn_of (d_set d) in
  let checked : option vprop :=
    match ev with
    | None => if negb ext then None else Some vp0
    | Some e0 =>
        let ex := match e0 with IProp p => p | IBare v => vp_of_bare v end in
        if negb (vp_configurable ex) && (is_true (d_conf d) || differs (d_enum d) (vp_enumerable ex)) then None
        else if (vp_accessor ex && (isSome (d_value d) || isSome (d_writable d)))
                || (negb (vp_accessor ex) && (isSome (d_get d) || isSome (d_set d)))
        then (if negb (vp_configurable ex) then None else Some ex)
        else if negb (vp_accessor ex)
        then (if negb (vp_configurable ex) && negb (vp_writable ex) &&
                 (is_true (d_writable d)
                  || match d_value d with
                     | Some v => negb (match vp_value ex with Some v0 => val_eqb v v0 | None => false end)
                     | None => false
                     end)
              then None else Some ex)
        else (if negb (vp_configurable ex) &&
                 ((isSome (d_get d) && negb (ofn_eqb getterObj (vp_getter ex)))
                  || (isSome (d_set d) && negb (ofn_eqb setterObj (vp_setter ex))))
              then None else Some ex)
    end in
  match checked with
  | None => None
  | Some ex =>
      if is_true (d_writable d) && is_true (d_enum d) && is_true (d_conf d) && isSome (d_value d)
      then Some (IBare (od (d_value d) VUndef))
      else
        let w := od (d_writable d) (vp_writable ex) in
        let e := od (d_enum d) (vp_enumerable ex) in
        let c := od (d_conf d) (vp_configurable ex) in
        (* if descr.Value != nil { existing.value = descr.Value } *)
        let p1 := mkVP (match d_value d with Some v => Some v | None => vp_value ex end) w c e
                       (vp_accessor ex) (vp_getter ex) (vp_setter ex) in
        (* if descr.Value != nil || descr.Writable != FLAG_NOT_SET { accessor -> data ...; getter/setter = nil } *)
        let p2 := if isSome (d_value d) || isSome (d_writable d)
                  then mkVP (vp_value p1)
                            (if vp_accessor p1 && negb (isSome (d_writable d)) then false else vp_writable p1)
                            c e false None None
                  else p1 in
        (* if descr.Getter != nil || descr.Setter != nil { value = nil; writable = false; accessor = true } *)
        let p3 := if isSome (d_get d) || isSome (d_set d)
                  then mkVP None false c e true (vp_getter p2) (vp_setter p2)
                  else p2 in
        let p4 := match d_get d with
                  | Some _ => mkVP (vp_value p3) (vp_writable p3) c e (vp_accessor p3) getterObj (vp_setter p3)
                  | None => p3 end in
        let p5 := match d_set d with
                  | Some _ => mkVP (vp_value p4) (vp_writable p4) c e (vp_accessor p4) (vp_getter p4) setterObj
                  | None => p4 end in
        let p6 := if negb (vp_accessor p5) && negb (isSome (vp_value p5))
                  then mkVP (Some VUndef) (vp_writable p5) c e false (vp_getter p5) (vp_setter p5)
                  else p5 in
        Some (IProp p6)
  end.

(* ---- own keys: propNames with lazy ordering (object.go:1310 ensurePropOrder / fixPropOrder) ---- *)

(* sort.Search(idxPropCount, func(j) strToArrayIdx(names[j]) >= idx): on the ascending prefix the
   binary search returns the first such j; written here as the linear search for it *)
Fixpoint search_ge (names : list key) (n : nat) (idx : N) : nat :=
  match n, names with
  | S n', x :: r => if N.leb idx (idx_of x) then 0 else S (search_ge r n' idx)
  | _, _ => 0
  end.

(* the loop of fixPropOrder over names[lastSortedPropLen:], the processed prefix being [pre];
   "copy(names[k+1:i+1], names[k:i]); names[k] = name" is insertion at k (k = i: stays in place) *)
Fixpoint fix_loop (pre : list key) (idxc : nat) (tail : list key) : list key * nat :=
  match tail with
  | [] => (pre, idxc)
  | x :: t =>
      if is_idx x
      then let k := search_ge pre idxc (idx_of x) in
           fix_loop (firstn k pre ++ x :: skipn k pre) (S idxc) t
      else fix_loop (pre ++ [x]) idxc t
  end.

Record names_st := mkNames { n_names : list key; n_last : nat; n_idxc : nat }.
Definition names0 := mkNames [] 0 0.

Definition ensure_order (s : names_st) : names_st :=
  if Nat.ltb (n_last s) (length (n_names s))
  then let '(l, c) := fix_loop (firstn (n_last s) (n_names s)) (n_idxc s) (skipn (n_last s) (n_names s)) in
       mkNames l (length l) c
  else s.

Definition names_add (k : key) (s : names_st) : names_st :=
  mkNames (n_names s ++ [k]) (n_last s) (n_idxc s).

Fixpoint index_of (k : key) (l : list key) : option nat :=
  match l with
  | [] => None
  | x :: r => if key_eqb k x then Some 0 else option_map S (index_of k r)
  end.
Fixpoint remove_at (i : nat) (l : list key) : list key :=
  match l, i with
  | [], _ => []
  | _ :: r, 0 => r
  | x :: r, S j => x :: remove_at j r
  end.
(* object.go:399 _delete *)
Definition names_del (k : key) (s : names_st) : names_st :=
  match index_of k (n_names s) with
  | None => s
  | Some i =>
      mkNames (remove_at i (n_names s))
              (if Nat.ltb i (n_last s) then pred (n_last s) else n_last s)
              (if Nat.ltb i (n_last s) && Nat.ltb i (n_idxc s) then pred (n_idxc s) else n_idxc s)
  end.

(* ---- objects ---- *)

Record iobj := mkIObj {
  i_proto : option nat;
  i_ext : bool;
  i_vals : list (key * iprop);     (* values map[unistring.String]Value (order irrelevant) *)
  i_names : names_st;              (* propNames, lastSortedPropLen, idxPropCount *)
  i_syms : list (key * iprop) }.   (* symValues *orderedMap (insertion ordered: property C18) *)
Definition iheap := list iobj.
Definition iobj0 := mkIObj None true [] names0 [].
Definition ihget (h : iheap) (i : nat) : iobj := nth i h iobj0.
Fixpoint iupd (h : iheap) (i : nat) (f : iobj -> iobj) : iheap :=
  match h, i with
  | [], _ => []
  | o :: r, 0 => f o :: r
  | o :: r, S j => o :: iupd r j f
  end.

Definition i_getown (o : iobj) (k : key) : option iprop :=
  if is_sym k then find k (i_syms o) else find k (i_vals o).

(* values[name] = v / symValues.set(s, v), no change of propNames *)
Definition i_store (k : key) (v : iprop) (o : iobj) : iobj :=
  if is_sym k then mkIObj (i_proto o) (i_ext o) (i_vals o) (i_names o) (put k v (i_syms o))
  else mkIObj (i_proto o) (i_ext o) (put k v (i_vals o)) (i_names o) (i_syms o).
(* ... plus append(propNames, name) for a new string key *)
Definition i_store_new (k : key) (v : iprop) (o : iobj) : iobj :=
  if is_sym k then mkIObj (i_proto o) (i_ext o) (i_vals o) (i_names o) (put k v (i_syms o))
  else mkIObj (i_proto o) (i_ext o) (put k v (i_vals o)) (names_add k (i_names o)) (i_syms o).

(* defineOwnPropertyStr / defineOwnPropertySym *)
Definition goja_checked (ext : bool) (ev : option iprop) (d : desc) : option iprop :=
  if desc_wf d then GojaDefine ext ev d else None.      (* builtin_object.go:196 toPropertyDescriptor *)
Definition i_define_ok (k : key) (d : desc) (o : iobj) : bool :=
  isSome (goja_checked (i_ext o) (i_getown o k) d).
Definition i_define_obj (k : key) (d : desc) (o : iobj) : iobj :=
  match goja_checked (i_ext o) (i_getown o k) d with
  | None => o
  | Some v => match i_getown o k with
              | None => i_store_new k v o
              | Some _ => i_store k v o
              end
  end.

(* deleteStr / deleteSym with checkDelete and _delete *)
Definition i_delete_ok (k : key) (o : iobj) : bool :=
  match i_getown o k with
  | Some (IProp p) => vp_configurable p
  | _ => true
  end.
Definition i_delete_obj (k : key) (o : iobj) : iobj :=
  match i_getown o k with
  | None => o
  | Some ip =>
      if match ip with IProp p => vp_configurable p | IBare _ => true end
      then if is_sym k then mkIObj (i_proto o) (i_ext o) (i_vals o) (i_names o) (del k (i_syms o))
           else mkIObj (i_proto o) (i_ext o) (del k (i_vals o)) (names_del k (i_names o)) (i_syms o)
      else o
  end.

Definition i_ensure (o : iobj) : iobj :=
  mkIObj (i_proto o) (i_ext o) (i_vals o) (ensure_order (i_names o)) (i_syms o).
(* keys(all=true): stringKeys after ensurePropOrder, then symbols *)
Definition i_keys (o : iobj) : list key := n_names (ensure_order (i_names o)) ++ map fst (i_syms o).

Definition i_prevent (o : iobj) : iobj := mkIObj (i_proto o) false (i_vals o) (i_names o) (i_syms o).

(* value.go: isWritable, get, set *)
Definition vp_isWritable (p : vprop) : bool := vp_writable p || isSome (vp_setter p).

(* getStr / getSym / getWithOwnProp *)
Fixpoint i_get (fuel : nat) (h : iheap) (o : nat) (k : key) (r : nat) : val * list event :=
  match fuel with
  | 0 => (VUndef, [])
  | S f =>
      match i_getown (ihget h o) k with
      | None => match i_proto (ihget h o) with
                | None => (VUndef, [])
                | Some p => i_get f h p k r
                end
      | Some (IBare v) => (v, [])
      | Some (IProp p) =>
          match vp_getter p with
          | None => (od (vp_value p) VUndef, [])
          | Some g => (getter_ret g, [Ev g r None])
          end
      end
  end.

Fixpoint i_has (fuel : nat) (h : iheap) (o : nat) (k : key) : bool :=
  match fuel with
  | 0 => false
  | S f =>
      match i_getown (ihget h o) k with
      | Some _ => true
      | None => match i_proto (ihget h o) with
                | None => false
                | Some p => i_has f h p k
                end
      end
  end.

(* prop.set(this, v) on the valueProperty stored under k of object o *)
Definition i_prop_set (h : iheap) (o : nat) (k : key) (p : vprop) (this : nat) (v : val) : iheap * list event :=
  match vp_setter p with
  | None => (iupd h o (i_store k (IProp (mkVP (Some v) (vp_writable p) (vp_configurable p) (vp_enumerable p)
                                               (vp_accessor p) (vp_getter p) (vp_setter p)))), [])
  | Some s => (h, [Ev s this (Some v)])
  end.

(* setOwnStr/setOwnSym (own = true) and setForeignStr/Idx/Sym (own = false, receiver r).
   Result: (heap, result, handled, events). *)
Fixpoint i_setwalk (fuel : nat) (h : iheap) (own : bool) (o : nat) (k : key) (num : bool)
         (v : val) (r : nat) : iheap * bool * bool * list event :=
  match fuel with
  | 0 => (h, false, true, [])
  | S f =>
      let ob := ihget h o in
      if own then
        match i_getown ob k with
        | None =>
            let '(h1, res, handled, ev) :=
              match i_proto ob with
              | Some p => i_setwalk f h false p k false v o
              | None => (h, false, false, [])
              end in
            if handled then (h1, res, true, ev)
            else if negb (i_ext (ihget h1 o)) then (h1, false, true, ev)
            else (iupd h1 o (i_store_new k (IBare v)), true, true, ev)
        | Some (IProp p) =>
            if negb (vp_isWritable p) then (h, false, true, [])
            else let '(h1, ev) := i_prop_set h o k p o v in (h1, true, true, ev)
        | Some (IBare _) => (iupd h o (i_store k (IBare v)), true, true, [])
        end
      else
        (* setForeignIdx: ensurePropOrder, and no lookup at all when idxPropCount = 0 *)
        let h0 := if num && is_idx k then iupd h o i_ensure else h in
        let ob0 := ihget h0 o in
        let skip := num && is_idx k && Nat.eqb (n_idxc (i_names ob0)) 0 in
        match (if skip then None else i_getown ob0 k) with
        | Some (IProp p) =>
            if negb (vp_isWritable p) then (h0, false, true, [])
            else match vp_setter p with
                 | Some s => (h0, true, true, [Ev s r (Some v)])
                 | None => (h0, false, false, [])
                 end
        | Some (IBare _) => (h0, false, false, [])
        | None =>
            match i_proto ob0 with
            | None => (h0, false, false, [])
            | Some p =>
                let cont := negb (Nat.eqb r p) in
                (* _setForeignIdx keeps the numeric key; setForeignStr(name.string()) loses it *)
                if cont then i_setwalk f h0 false p k skip v r
                else let '(h1, res, _, ev) := i_setwalk f h0 true p k false v p in (h1, res, true, ev)
            end
        end
  end.

(* Object.setStr / setIdx / setSym *)
Definition i_set (h : iheap) (o : nat) (k : key) (num : bool) (v : val) (r : nat)
  : iheap * bool * list event :=
  let fuel := S (S (length h)) in
  if Nat.eqb r o then
    let '(h1, res, _, ev) := i_setwalk fuel h true o k num v o in (h1, res, ev)
  else
    let '(h1, res, handled, ev) := i_setwalk fuel h false o k num v r in
    if handled then (h1, res, ev)
    else
      let rob := ihget h1 r in
      match i_getown rob k with
      | Some (IProp p) =>
          if vp_accessor p then (h1, false, ev)
          else if negb (vp_writable p) then (h1, false, ev)
          else (iupd h1 r (i_define_obj k (d_value_only v)), i_define_ok k (d_value_only v) rob, ev)
      | Some (IBare _) =>
          (iupd h1 r (i_define_obj k (d_value_only v)), i_define_ok k (d_value_only v) rob, ev)
      | None =>
          (iupd h1 r (i_define_obj k (d_create v)), i_define_ok k (d_create v) rob, ev)
      end.

(* baseObject.setProto *)
Fixpoint i_reaches (fuel : nat) (h : iheap) (p : option nat) (target : nat) : bool :=
  match fuel with
  | 0 => false
  | S f => match p with
           | None => false
           | Some i => if Nat.eqb i target then true else i_reaches f h (i_proto (ihget h i)) target
           end
  end.
Definition i_setproto (h : iheap) (o : nat) (p : option nat) : iheap * bool :=
  let ob := ihget h o in
  if ofn_eqb (i_proto ob) p then (h, true)
  else if negb (i_ext ob) then (h, false)
  else if i_reaches (S (length h)) h p o then (h, false)
  else (iupd h o (fun ob => mkIObj p (i_ext ob) (i_vals ob) (i_names ob) (i_syms ob)), true).

(* builtin_object.go: object_seal / object_freeze iterate iterateKeys() and patch valueProperties
   in place; bare values go through defineOwnProperty *)
Definition i_seal_key (o : iobj) (k : key) : iobj :=
  match i_getown o k with
  | Some (IProp p) => i_store k (IProp (mkVP (vp_value p) (vp_writable p) false (vp_enumerable p)
                                             (vp_accessor p) (vp_getter p) (vp_setter p))) o
  | Some (IBare _) => i_define_obj k (d_generic (Some false) None) o
  | None => o
  end.
Definition i_freeze_key (o : iobj) (k : key) : iobj :=
  match i_getown o k with
  | Some (IProp p) => i_store k (IProp (mkVP (vp_value p) (if vp_accessor p then vp_writable p else false) false
                                             (vp_enumerable p) (vp_accessor p) (vp_getter p) (vp_setter p))) o
  | Some (IBare _) => i_define_obj k (d_generic (Some false) (Some false)) o
  | None => o
  end.
Definition i_seal (o : iobj) : iobj :=
  let o1 := i_ensure (i_prevent o) in fold_left i_seal_key (i_keys o1) o1.
Definition i_freeze (o : iobj) : iobj :=
  let o1 := i_ensure (i_prevent o) in fold_left i_freeze_key (i_keys o1) o1.
Definition i_all_props (o : iobj) : list iprop :=
  map snd (i_vals o) ++ map snd (i_syms o).
Definition i_is_sealed (o : iobj) : bool :=
  negb (i_ext o) &&
  forallb (fun ip => match ip with IProp p => negb (vp_configurable p) | IBare _ => false end) (i_all_props o).
Definition i_is_frozen (o : iobj) : bool :=
  negb (i_ext o) &&
  forallb (fun ip => match ip with
                     | IProp p => negb (vp_configurable p || (isSome (vp_value p) && vp_writable p))
                     | IBare _ => false
                     end) (i_all_props o).

Definition istep (h : iheap) (o : op) : iheap * res * list event :=
  let fuel := S (S (length h)) in
  match o with
  | ODefine o k d => (iupd h o (i_define_obj k d), RBool (i_define_ok k d (ihget h o)), [])
  | OSet o k num v r => let '(h', b, ev) := i_set h o k num v r in (h', RBool b, ev)
  | OGet o k r => let '(v, ev) := i_get fuel h o k r in (h, RVal v, ev)
  | OHas o k => (h, RBool (i_has fuel h o k), [])
  | OGetOwn o k => (h, RDesc (option_map absP (i_getown (ihget h o) k)), [])
  | ODelete o k => (iupd h o (i_delete_obj k), RBool (i_delete_ok k (ihget h o)), [])
  | OKeys o => (iupd h o i_ensure, RKeys (i_keys (ihget h o)), [])
  | OPrevent o => (iupd h o i_prevent, RBool true, [])
  | OFreeze o => (iupd h o i_freeze, RBool true, [])
  | OSeal o => (iupd h o i_seal, RBool true, [])
  | OIsFrozen o => (iupd h o i_ensure, RBool (i_is_frozen (ihget h o)), [])
  | OIsSealed o => (iupd h o i_ensure, RBool (i_is_sealed (ihget h o)), [])
  | OIsExt o => (h, RBool (i_ext (ihget h o)), [])
  | OGetProto o => (h, RProto (i_proto (ihget h o)), [])
  | OSetProto o p => let '(h', b) := i_setproto h o p in (h', RBool b, [])
  end.

(* what a full dump of an I-object shows: prototype, extensibility, own keys in Reflect.ownKeys
   order with their descriptors *)
Definition i_dump (o : iobj) : option nat * bool * list (key * prop) :=
  (i_proto o, i_ext o,
   map (fun k => (k, match i_getown o k with Some ip => absP ip | None => PData VUndef false false false end))
       (i_keys o)).
Definition s_dump (o : obj) : option nat * bool * list (key * prop) :=
  (o_proto o, o_ext o,
   map (fun k => (k, match find k (o_props o) with Some p => p | None => PData VUndef false false false end))
       (own_keys o)).

(* ---- the key-order sub-model on its own: histories of add / delete / enumerate ---- *)
Inductive kop := KAdd (k : key) | KDel (k : key) | KEnum.
Definition mem_key (k : key) (l : list key) : bool := existsb (key_eqb k) l.
(* I: propNames as goja maintains it *)
Definition kstep_i (s : names_st) (o : kop) : names_st :=
  match o with
  | KAdd k => if mem_key k (n_names s) then s else names_add k s
  | KDel k => names_del k s
  | KEnum => ensure_order s
  end.
(* S: the keys in creation order *)
Definition kstep_s (l : list key) (o : kop) : list key :=
  match o with
  | KAdd k => if mem_key k l then l else l ++ [k]
  | KDel k => filter (fun x => negb (key_eqb k x)) l
  | KEnum => l
  end.
Definition krun_i (ops : list kop) : names_st := fold_left kstep_i ops names0.
Definition krun_s (ops : list kop) : list key := fold_left kstep_s ops [].
