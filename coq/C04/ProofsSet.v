(* C04 — lemmas, part 3: [[Set]] with a receiver. *)
From Coq Require Import List Arith NArith Bool Lia.
Import ListNotations.
From Verif.C04 Require Import Model Proofs.

(* OrdinarySet changes no object other than the receiver, whatever the target and the prototype chain;
   the only accessor it can call is one setter, with this = receiver and the value as argument *)
Lemma hget_upd_other : forall h i f j, i <> j -> hget (upd_obj h i f) j = hget h j.
Proof.
  intros. rewrite hget_upd. destruct (Nat.eqb i j) eqn:E; auto. apply Nat.eqb_eq in E. contradiction.
Qed.

Lemma s_set_on_receiver_only : forall h k v r j, j <> r ->
  hget (fst (s_set_on_receiver h k v r)) j = hget h j.
Proof.
  intros. unfold s_set_on_receiver.
  destruct (find k (o_props (hget h r))) as [[? w ? ?|]|]; simpl; auto.
  - destruct w; simpl; auto. apply hget_upd_other; auto.
  - apply hget_upd_other; auto.
Qed.

Lemma s_set_only_receiver : forall fuel h o k v r,
  (forall j, j <> r -> hget (fst (fst (s_set fuel h o k v r))) j = hget h j) /\
  (snd (s_set fuel h o k v r) = [] \/ exists s, snd (s_set fuel h o k v r) = [Ev s r (Some v)]).
Proof.
  induction fuel as [|f IH]; intros; simpl; [split; auto|].
  destruct (find k (o_props (hget h o))) as [[? w ? ?|? [s|] ? ?]|]; simpl; auto.
  - destruct w; simpl; split; auto. intros; apply s_set_on_receiver_only; auto.
  - split; auto. right; eauto.
  - destruct (o_proto (hget h o)); [apply IH|]. simpl. split; auto.
    intros; apply s_set_on_receiver_only; auto.
Qed.

(* the same for goja's setOwn*/setForeign* walk (I), all key kinds: only the receiver's dump can change
   (ensurePropOrder on the objects of the chain is invisible) *)
Lemma ensure_order_idem : forall s, ensure_order (ensure_order s) = ensure_order s.
Proof.
  intro s. unfold ensure_order.
  destruct (Nat.ltb (n_last s) (length (n_names s))) eqn:E.
  - destruct (fix_loop _ _ _) as [l c]. simpl. rewrite Nat.ltb_irrefl. reflexivity.
  - rewrite E. reflexivity.
Qed.

Lemma i_dump_ensure : forall o, i_dump (i_ensure o) = i_dump o.
Proof.
  intro o. unfold i_dump, i_ensure, i_keys, i_getown. simpl. now rewrite ensure_order_idem.
Qed.

Lemma ihget_iupd : forall h i f j,
  ihget (iupd h i f) j = if Nat.eqb i j && Nat.ltb j (length h) then f (ihget h j) else ihget h j.
Proof.
  unfold ihget. induction h as [|o r IH]; intros i f j; simpl.
  - destruct j; rewrite andb_false_r; reflexivity.
  - destruct i, j; simpl; auto. rewrite IH. reflexivity.
Qed.

Lemma ihget_iupd_other : forall h i f j, i <> j -> ihget (iupd h i f) j = ihget h j.
Proof. intros. rewrite ihget_iupd. destruct (Nat.eqb i j) eqn:E; auto. apply Nat.eqb_eq in E; contradiction. Qed.

Lemma dump_iupd_ensure : forall h i j, i_dump (ihget (iupd h i i_ensure) j) = i_dump (ihget h j).
Proof. intros. rewrite ihget_iupd. destruct (_ && _); auto using i_dump_ensure. Qed.

Definition walk_heap (x : iheap * bool * bool * list event) : iheap := fst (fst (fst x)).

Lemma i_setwalk_only_receiver : forall fuel h own o k num v r,
  (own = true -> r = o) ->
  forall j, j <> r -> i_dump (ihget (walk_heap (i_setwalk fuel h own o k num v r)) j) = i_dump (ihget h j).
Proof.
  induction fuel as [|f IH]; intros h own o k num v r Hown j Hj; [reflexivity|].
  simpl. destruct own.
  - specialize (Hown eq_refl). subst r.
    destruct (i_getown (ihget h o) k) as [[v0|p]|] eqn:G.
    + unfold walk_heap; simpl. now rewrite ihget_iupd_other by auto.
    + destruct (negb (vp_isWritable p)); [reflexivity|].
      unfold i_prop_set. destruct (vp_setter p); unfold walk_heap; simpl; auto.
      now rewrite ihget_iupd_other by auto.
    + destruct (i_proto (ihget h o)) as [p|].
      * specialize (IH h false p k false v o (fun H => ltac:(discriminate H)) j Hj).
        destruct (i_setwalk f h false p k false v o) as [[[h1 res] handled] ev].
        unfold walk_heap in *; simpl in *.
        destruct handled; simpl; auto.
        destruct (negb (i_ext (ihget h1 o))); simpl; auto.
        now rewrite ihget_iupd_other by auto.
      * unfold walk_heap; simpl. destruct (negb (i_ext (ihget h o))); simpl; auto.
        now rewrite ihget_iupd_other by auto.
  - set (h0 := if num && is_idx k then iupd h o i_ensure else h).
    assert (H0 : forall j, i_dump (ihget h0 j) = i_dump (ihget h j)).
    { intro j0. unfold h0. destruct (num && is_idx k); auto using dump_iupd_ensure. }
    destruct (if num && is_idx k && Nat.eqb (n_idxc (i_names (ihget h0 o))) 0 then None else i_getown (ihget h0 o) k)
      as [[v0|p]|].
    + unfold walk_heap; simpl; auto.
    + destruct (negb (vp_isWritable p)); [unfold walk_heap; simpl; auto|].
      destruct (vp_setter p); unfold walk_heap; simpl; auto.
    + destruct (i_proto (ihget h0 o)) as [p|]; [|unfold walk_heap; simpl; auto].
      destruct (Nat.eqb r p) eqn:E; simpl.
      * apply Nat.eqb_eq in E. subst p.
        specialize (IH h0 true r k false v r (fun _ => eq_refl) j Hj).
        destruct (i_setwalk f h0 true r k false v r) as [[[h1 res] hd] ev].
        unfold walk_heap in *; simpl in *. now rewrite IH.
      * rewrite IH; auto. discriminate.
Qed.

Lemma i_set_only_receiver : forall h o k num v r,
  forall j, j <> r -> i_dump (ihget (fst (fst (i_set h o k num v r))) j) = i_dump (ihget h j).
Proof.
  intros h o k num v r j Hj. unfold i_set.
  destruct (Nat.eqb r o) eqn:E.
  - apply Nat.eqb_eq in E. subst o.
    pose proof (i_setwalk_only_receiver (S (S (length h))) h true r k num v r (fun _ => eq_refl) j Hj) as W.
    destruct (i_setwalk (S (S (length h))) h true r k num v r) as [[[h1 res] hd] ev]. exact W.
  - pose proof (i_setwalk_only_receiver (S (S (length h))) h false o k num v r
                  (fun H => ltac:(discriminate H)) j Hj) as W.
    destruct (i_setwalk (S (S (length h))) h false o k num v r) as [[[h1 res] hd] ev].
    unfold walk_heap in W; simpl in W.
    destruct hd; simpl; auto.
    destruct (i_getown (ihget h1 r) k) as [[v0|p]|]; simpl.
    + now rewrite ihget_iupd_other by auto.
    + destruct (vp_accessor p); simpl; auto. destruct (negb (vp_writable p)); simpl; auto.
      now rewrite ihget_iupd_other by auto.
    + now rewrite ihget_iupd_other by auto.
Qed.

(* F2: Reflect.set(mid, sym, 3, base) where base = proto(mid), root = proto(base) *)
Definition f2_sheap : heap := [obj0; mkObj (Some 0) true []; mkObj (Some 1) true []].
Definition f2_iheap : iheap := [iobj0; mkIObj (Some 0) true [] names0 []; mkIObj (Some 1) true [] names0 []].
Definition f2_op := OSet 2 (KSym 0) false (VNum 3) 1.

(* the former F2 input (the write used to land on the receiver's prototype) and its string-keyed twin *)
Lemma set_f2_case_agrees :
  map s_dump (fst (fst (sstep f2_sheap f2_op))) = map i_dump (fst (fst (istep f2_iheap f2_op))).
Proof. vm_compute. reflexivity. Qed.

Lemma set_str_twin_agrees :
  let op := OSet 2 (KStr 0) false (VNum 3) 1 in
  map s_dump (fst (fst (sstep f2_sheap op))) = map i_dump (fst (fst (istep f2_iheap op))).
Proof. vm_compute. reflexivity. Qed.
