(* C04 — executable instantiation used by the correspondence check (definitions only, no proofs).
   A case = initial dumps of the objects + a history; every step carries the implementation's
   observation: result, accessor events, and the dumps of the objects whose dump changed.
   c_variant selects the model the observation is compared with:
     0 = S (the specification: the oracle)          any other = I (goja's algorithms transcribed) *)
From Coq Require Import List Arith NArith Bool.
Import ListNotations.
From Verif.C04 Require Import Model.

(* ---- compact encodings shared with harness/cmd/c04 (all numerals are N: binary literals) ---- *)
Definition idx_pool : list N := [0; 1; 2; 3; 10; 4294967294]%N.
Definition nn := N.to_nat.
Definition key_of (c : N) : key :=
  let c := nn c in
  if Nat.ltb c 6 then KIdx (nth c idx_pool 0%N)
  else if Nat.ltb c 19 then KStr (c - 6) else KSym (c - 19).
Definition val_of (c : N) : val :=
  let c := nn c in
  if Nat.eqb c 0 then VUndef else if Nat.ltb c 100 then VNum c else VObj (c - 100).
Definition tri (c : N) : option bool :=       (* 0 absent, 1 false, 2 true *)
  match nn c with 0 => None | 1 => Some false | _ => Some true end.
Definition fn_of_code (c : N) : option (option nat) :=   (* 0 absent, 1 undefined, n+2 function n *)
  match nn c with 0 => None | 1 => Some None | S (S n) => Some (Some n) end.
Definition fnv (c : N) : option nat := match nn c with 0 => None | S n => Some n end.
Definition oid (c : N) : option nat := fnv c.    (* 0 = null, i+1 = object i *)

(* XDs v w g s e c: v = 0 absent, c+1 = value code c *)
Inductive xdesc := XDs (v w g s e c : N).
Definition desc_of (x : xdesc) : desc :=
  match x with XDs v w g s e c =>
    mkDesc (match nn v with 0 => None | S _ => Some (val_of (N.pred v)) end)
           (tri w) (fn_of_code g) (fn_of_code s) (tri e) (tri c) end.

Inductive xop :=
| XD (o k : N) (d : xdesc) | XS (o k : N) (num : bool) (v r : N) | XG (o k r : N) | XH (o k : N)
| XO (o k : N) | XR (o k : N) | XK (o : N) | XP (o : N) | XF (o : N) | XL (o : N)
| XIF (o : N) | XIS (o : N) | XIE (o : N) | XGP (o : N) | XSP (o p : N).
Definition op_of (x : xop) : op :=
  match x with
  | XD o k d => ODefine (nn o) (key_of k) (desc_of d)
  | XS o k num v r => OSet (nn o) (key_of k) num (val_of v) (nn r)
  | XG o k r => OGet (nn o) (key_of k) (nn r)
  | XH o k => OHas (nn o) (key_of k)
  | XO o k => OGetOwn (nn o) (key_of k)
  | XR o k => ODelete (nn o) (key_of k)
  | XK o => OKeys (nn o)
  | XP o => OPrevent (nn o)
  | XF o => OFreeze (nn o)
  | XL o => OSeal (nn o)
  | XIF o => OIsFrozen (nn o)
  | XIS o => OIsSealed (nn o)
  | XIE o => OIsExt (nn o)
  | XGP o => OGetProto (nn o)
  | XSP o p => OSetProto (nn o) (oid p)
  end.

(* a dumped property: key code, then value/flags; flags: 4 = writable, 2 = enumerable, 1 = configurable *)
Inductive xprop := PD (k v flags : N) | PA (k g s flags : N).
Definition bit (n : nat) (f : N) : bool := Nat.odd (Nat.div (nn f) n).
Definition prop_of (x : xprop) : prop :=
  match x with
  | PD _ v f => PData (val_of v) (bit 4 f) (bit 2 f) (bit 1 f)
  | PA _ g s f => PAcc (fnv g) (fnv s) (bit 2 f) (bit 1 f)
  end.
Definition xkey (x : xprop) : key := match x with PD k _ _ => key_of k | PA k _ _ _ => key_of k end.

Inductive odump := OD (proto : N) (ext : bool) (props : list xprop).
Definition dump_of (d : odump) : option nat * bool * list (key * prop) :=
  match d with OD p e ps => (oid p, e, map (fun x => (xkey x, prop_of x)) ps) end.

Inductive xres := XB (b : bool) | XV (v : N) | XKs (l : list N) | XPr (p : N)
                | XD0 | XD1 (p : xprop) | XAny | XErr (code : N).
Inductive xevent := E (f this arg : N).       (* arg: 0 = no argument, v+1 = value code v *)

(* St: the objects were dumped after this step (Reflect.ownKeys on every object, which makes goja
   order its key lists); upd = the dumps that changed since the last dump.  Sn: no dump. *)
Inductive uentry := U (i : N) (d : odump).
Inductive step := St (o : xop) (r : xres) (upd : list uentry) (ev : list xevent)
                | Sn (o : xop) (r : xres) (ev : list xevent).
Record tcase := mkCase { c_variant : N; c_init : list odump; c_steps : list step }.

(* ---- equality tests ---- *)
Definition prop_eqb (a b : prop) : bool :=
  match a, b with
  | PData v w e c, PData v' w' e' c' => val_eqb v v' && Bool.eqb w w' && Bool.eqb e e' && Bool.eqb c c'
  | PAcc g s e c, PAcc g' s' e' c' => ofn_eqb g g' && ofn_eqb s s' && Bool.eqb e e' && Bool.eqb c c'
  | _, _ => false
  end.
Fixpoint list_eqb {A B} (f : A -> B -> bool) (a : list A) (b : list B) : bool :=
  match a, b with
  | [], [] => true
  | x :: r, y :: r' => f x y && list_eqb f r r'
  | _, _ => false
  end.
Definition dump_eqb (a b : option nat * bool * list (key * prop)) : bool :=
  let '(p, e, ps) := a in let '(p', e', ps') := b in
  ofn_eqb p p' && Bool.eqb e e' &&
  list_eqb (fun x y => key_eqb (fst x) (fst y) && prop_eqb (snd x) (snd y)) ps ps'.
Definition oprop_eqb (a b : option prop) : bool :=
  match a, b with None, None => true | Some x, Some y => prop_eqb x y | _, _ => false end.

Definition res_match (x : xres) (r : res) : bool :=
  match x, r with
  | XAny, _ => true
  | XB a, RBool b => Bool.eqb a b
  | XV a, RVal b => val_eqb (val_of a) b
  | XKs a, RKeys b => list_eqb key_eqb (map key_of a) b
  | XPr a, RProto b => ofn_eqb (oid a) b
  | XD0, RDesc b => oprop_eqb None b
  | XD1 a, RDesc b => oprop_eqb (Some (prop_of a)) b
  | _, _ => false
  end.
Definition event_eqb (x : xevent) (e : event) : bool :=
  match x, e with
  | E f t a, Ev f' t' a' =>
      Nat.eqb (nn f) f' && Nat.eqb (nn t) t' &&
      match nn a, a' with
      | 0, None => true
      | S _, Some v => val_eqb (val_of (N.pred a)) v
      | _, _ => false
      end
  end.

(* ---- initial states ---- *)
Definition sobj_of (d : odump) : obj :=
  let '(p, e, ps) := dump_of d in mkObj p e ps.
Definition iprop_of (p : prop) : iprop :=
  match p with
  | PData v true true true => IBare v
  | PData v w e c => IProp (mkVP (Some v) w c e false None None)
  | PAcc g s e c => IProp (mkVP None false c e true g s)
  end.
Definition iobj_of (d : odump) : iobj :=
  let '(p, e, ps) := dump_of d in
  let strs := filter (fun kp => negb (is_sym (fst kp))) ps in
  let syms := filter (fun kp => is_sym (fst kp)) ps in
  mkIObj p e (map (fun kp => (fst kp, iprop_of (snd kp))) strs)
         (mkNames (map fst strs) 0 0)
         (map (fun kp => (fst kp, iprop_of (snd kp))) syms).

(* ---- running a case against a model ---- *)
Section Runner.
Context {H : Type} (mstep : H -> op -> H * res * list event)
        (mdump : H -> H * list (option nat * bool * list (key * prop))).

Fixpoint apply_upd (cur : list odump) (upd : list uentry) : list odump :=
  match upd with
  | [] => cur
  | U i d :: r =>
      apply_upd ((fix rep (l : list odump) (n : nat) := match l, n with
                                                        | [], _ => []
                                                        | _ :: t, 0 => d :: t
                                                        | x :: t, S m => x :: rep t m
                                                        end) cur (nn i)) r
  end.

(* index of the first step whose observation differs from the model, if any *)
Fixpoint first_bad (h : H) (cur : list odump) (steps : list step) (i : nat) : option nat :=
  match steps with
  | [] => None
  | Sn xo xr xev :: rest =>
      let '(h', r, ev) := mstep h (op_of xo) in
      if res_match xr r && list_eqb event_eqb xev ev then first_bad h' cur rest (S i) else Some i
  | St xo xr u xev :: rest =>
      let '(h', r, ev) := mstep h (op_of xo) in
      if res_match xr r && list_eqb event_eqb xev ev
      then let cur' := apply_upd cur u in
           let '(h'', ds) := mdump h' in
           if list_eqb dump_eqb (map dump_of cur') ds then first_bad h'' cur' rest (S i) else Some i
      else Some i
  end.

(* the model's own account of step number n (for replays) *)
Fixpoint model_at (h : H) (steps : list step) (n : nat)
  : option (res * list event * list (option nat * bool * list (key * prop))) :=
  match steps with
  | [] => None
  | s :: rest =>
      let xo := match s with St xo _ _ _ => xo | Sn xo _ _ => xo end in
      let dumped := match s with St _ _ _ _ => true | Sn _ _ _ => false end in
      let '(h', r, ev) := mstep h (op_of xo) in
      match n with
      | 0 => Some (r, ev, snd (mdump h'))
      | S m => model_at (if dumped then fst (mdump h') else h') rest m
      end
  end.
End Runner.

Definition s_first_bad (c : tcase) :=
  first_bad sstep (fun h => (h, map s_dump h)) (map sobj_of (c_init c)) (c_init c) (c_steps c) 0.
Definition i_first_bad (c : tcase) :=
  first_bad istep (fun h => (map i_ensure h, map i_dump h)) (map iobj_of (c_init c)) (c_init c) (c_steps c) 0.

Definition case_first_bad (c : tcase) : option nat :=
  match nn (c_variant c) with
  | 0 => s_first_bad c
  | _ => i_first_bad c
  end.
Definition check_case (c : tcase) : bool :=
  match case_first_bad c with None => true | Some _ => false end.

Fixpoint mismatch_from (i : N) (cs : list tcase) : list N :=
  match cs with
  | [] => []
  | c :: r => if check_case c then mismatch_from (N.succ i) r else i :: mismatch_from (N.succ i) r
  end.
Definition mismatch_ids := mismatch_from 0%N.

(* printed in replays: first diverging step against S and against I, and what S says there *)
Definition expected (c : tcase) :=
  (s_first_bad c, i_first_bad c,
   match s_first_bad c with
   | Some n => model_at sstep (fun h => (h, map s_dump h)) (map sobj_of (c_init c)) (c_steps c) n
   | None => None
   end).
