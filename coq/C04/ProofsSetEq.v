(* C04 — lemmas, part 4: goja's [[Set]] (Object.setStr/setIdx/setSym over the setOwn and setForeign families)
   equals OrdinarySet, for every key kind, every receiver and every prototype chain. *)
From Coq Require Import List Arith NArith Bool Lia.
Import ListNotations.
From Verif.C04 Require Import Model Proofs ProofsSet.

(* an I-heap and an S-heap describe the same objects: same prototype, extensibility, and the same
   property (as Object.getOwnPropertyDescriptor shows it) under every key.  Key ORDER is the subject of
   ownkeys_order and is not part of this relation. *)
Definition obj_rel (io : iobj) (so : obj) : Prop :=
  i_proto io = o_proto so /\ i_ext io = o_ext so /\
  forall k, option_map absP (i_getown io k) = find k (o_props so).
Definition heap_rel (h : iheap) (hs : heap) : Prop :=
  length h = length hs /\ forall i, obj_rel (ihget h i) (hget hs i).

(* every stored valueProperty satisfies the representation invariant (kept by define: define_wf) *)
Definition heap_wf (h : iheap) : Prop :=
  forall i k ip, i_getown (ihget h i) k = Some ip -> iprop_wf ip = true.

(* idxPropCount is sound: once ordered, a count of 0 means that no index key is present (this is what
   idxcount_exact establishes for the key bookkeeping; setForeignIdx relies on it to skip the lookup) *)
Definition idx_sound (h : iheap) : Prop :=
  forall i, n_idxc (ensure_order (i_names (ihget h i))) = 0 -> forall n, i_getown (ihget h i) (KIdx n) = None.

(* same observable content (only the key bookkeeping may differ) *)
Definition same_view (h' h : iheap) : Prop :=
  length h' = length h /\
  forall i, i_proto (ihget h' i) = i_proto (ihget h i) /\ i_ext (ihget h' i) = i_ext (ihget h i) /\
            forall k, i_getown (ihget h' i) k = i_getown (ihget h i) k.

Lemma same_view_refl : forall h, same_view h h.
Proof. split; auto. Qed.

Lemma same_view_trans : forall a b c, same_view a b -> same_view b c -> same_view a c.
Proof.
  intros a b c [L1 V1] [L2 V2]; split; [congruence|]. intro i.
  destruct (V1 i) as (P1 & E1 & G1), (V2 i) as (P2 & E2 & G2).
  split; [congruence|split; [congruence|]]. intro k. rewrite G1. apply G2.
Qed.

Lemma same_view_rel : forall h' h hs, same_view h' h -> heap_rel h hs -> heap_rel h' hs.
Proof.
  intros h' h hs [L V] [L' R]; split; [congruence|]. intro i.
  destruct (V i) as (P & E & G), (R i) as (P' & E' & G').
  split; [congruence|split; [congruence|]]. intro k. rewrite G. apply G'.
Qed.

Lemma same_view_wf : forall h' h, same_view h' h -> heap_wf h -> heap_wf h'.
Proof. intros h' h [_ V] W i k ip H. destruct (V i) as (_ & _ & G). rewrite G in H. eauto. Qed.

Lemma iupd_length : forall h i f, length (iupd h i f) = length h.
Proof. induction h; destruct i; simpl; auto. Qed.

Lemma getown_ensure : forall o k, i_getown (i_ensure o) k = i_getown o k.
Proof. reflexivity. Qed.

Lemma ensure_same_view : forall h o, same_view (iupd h o i_ensure) h.
Proof.
  intros h o; split; [apply iupd_length|]. intro i. rewrite ihget_iupd.
  destruct (_ && _); repeat split; auto.
Qed.

Lemma ensure_idx_sound : forall h o, idx_sound h -> idx_sound (iupd h o i_ensure).
Proof.
  intros h o S i. rewrite ihget_iupd. destruct (_ && _); [|apply S].
  unfold i_ensure at 1; simpl. rewrite ensure_order_idem. intros H n. rewrite getown_ensure. now apply S.
Qed.

(* the object setForeignIdx has just ordered: its key list is ordered *)
Lemma ensured_names : forall h o,
  ensure_order (i_names (ihget (iupd h o i_ensure) o)) = i_names (ihget (iupd h o i_ensure) o).
Proof.
  intros h o. rewrite ihget_iupd. destruct (_ && _) eqn:E.
  - simpl. apply ensure_order_idem.
  - rewrite Nat.eqb_refl in E. simpl in E. apply Nat.ltb_ge in E.
    unfold ihget. rewrite nth_overflow by lia. reflexivity.
Qed.

(* ---- stores ---- *)

Lemma getown_store : forall k v o k',
  i_getown (i_store k v o) k' = if key_eqb k' k then Some v else i_getown o k'.
Proof.
  intros k v o k'. unfold i_store, i_getown.
  destruct (is_sym k) eqn:Sk; simpl; destruct (is_sym k') eqn:Sk'; simpl;
    destruct (key_eqb k' k) eqn:E;
    try (apply key_eqb_eq in E; subst k'; rewrite Sk in Sk'; discriminate);
    try (apply key_eqb_eq in E; subst k'; apply find_put_same);
    try (apply find_put_other; assumption); reflexivity.
Qed.

Lemma getown_store_new : forall k v o k',
  i_getown (i_store_new k v o) k' = if key_eqb k' k then Some v else i_getown o k'.
Proof.
  intros k v o k'. unfold i_store_new, i_getown.
  destruct (is_sym k) eqn:Sk; simpl; destruct (is_sym k') eqn:Sk'; simpl;
    destruct (key_eqb k' k) eqn:E;
    try (apply key_eqb_eq in E; subst k'; rewrite Sk in Sk'; discriminate);
    try (apply key_eqb_eq in E; subst k'; apply find_put_same);
    try (apply find_put_other; assumption); reflexivity.
Qed.

(* replacing the property under k by ip on the I side and by p on the S side, where absP ip = p *)
Lemma obj_rel_put : forall io so k ip p (store : key -> iprop -> iobj -> iobj),
  (forall k', i_getown (store k ip io) k' = if key_eqb k' k then Some ip else i_getown io k') ->
  i_proto (store k ip io) = i_proto io -> i_ext (store k ip io) = i_ext io ->
  obj_rel io so -> absP ip = p ->
  obj_rel (store k ip io) (mkObj (o_proto so) (o_ext so) (put k p (o_props so))).
Proof.
  intros io so k ip p store G P E (Rp & Re & Rg) A. repeat split; simpl; try congruence.
  intro k'. rewrite G. destruct (key_eqb k' k) eqn:Q.
  - apply key_eqb_eq in Q. subst k'. simpl. rewrite find_put_same. congruence.
  - rewrite find_put_other by auto. apply Rg.
Qed.

Lemma store_proto : forall k v o, i_proto (i_store k v o) = i_proto o /\ i_ext (i_store k v o) = i_ext o.
Proof. intros. unfold i_store. destruct (is_sym k); auto. Qed.
Lemma store_new_proto : forall k v o, i_proto (i_store_new k v o) = i_proto o /\ i_ext (i_store_new k v o) = i_ext o.
Proof. intros. unfold i_store_new. destruct (is_sym k); auto. Qed.

(* ---- [[DefineOwnProperty]] on related objects ---- *)

Lemma define_rel : forall io so k d,
  obj_rel io so -> oiprop_wf (i_getown io k) = true ->
  obj_rel (i_define_obj k d io) (define_obj k d so) /\ i_define_ok k d io = define_ok k d so.
Proof.
  intros io so k d R W. pose proof R as (Rp & Re & Rg).
  unfold i_define_obj, i_define_ok, define_obj, define_ok, goja_checked, vaa_checked.
  destruct (desc_wf d) eqn:Hd; [|split; auto].
  pose proof (define_eq_spec (i_ext io) (i_getown io k) d Hd W) as Q.
  rewrite <- Rg, <- Re, <- Q.
  destruct (GojaDefine (i_ext io) (i_getown io k) d) as [ip|] eqn:G; simpl; [|split; auto].
  split; [|reflexivity].
  rewrite Re.
  destruct (i_getown io k).
  - apply obj_rel_put; auto using getown_store; apply store_proto.
  - apply obj_rel_put; auto using getown_store_new; apply store_new_proto.
Qed.

Lemma upd_rel : forall h hs r f g,
  heap_rel h hs -> obj_rel (f (ihget h r)) (g (hget hs r)) -> heap_rel (iupd h r f) (upd_obj hs r g).
Proof.
  intros h hs r f g [L R] Q; split; [now rewrite iupd_length, upd_obj_length|].
  intro i. rewrite ihget_iupd, hget_upd, L.
  destruct (Nat.eqb r i && Nat.ltb i (length hs)) eqn:E; auto.
  apply andb_prop in E as [E _]. apply Nat.eqb_eq in E. now subst i.
Qed.

Lemma vaa_value_on_writable : forall ext v0 e c v,
  ValidateAndApply ext (Some (PData v0 true e c)) (d_value_only v) = Some (PData v true e c).
Proof. intros. destruct e, c; reflexivity. Qed.

Lemma wf_data_absP : forall p, vprop_wf p = true -> vp_accessor p = false ->
  vp_setter p = None /\ vp_getter p = None /\ exists v0, vp_value p = Some v0.
Proof.
  intros [pv pw pc pe pa pg ps] W A. simpl in *. subst pa. simpl in W.
  destruct pv, pg, ps; try discriminate W; eauto.
Qed.

Lemma wf_acc : forall p, vprop_wf p = true -> vp_accessor p = true -> vp_writable p = false /\ vp_value p = None.
Proof.
  intros [pv pw pc pe pa pg ps] W A. simpl in *. subst pa. simpl in W.
  destruct pv, pw; try discriminate W; auto.
Qed.

(* the receiver step of OrdinarySetWithOwnDescriptor, as Object.setStr performs it when the walk was not handled *)
Definition i_set_on_receiver (h : iheap) (k : key) (v : val) (r : nat) : iheap * bool :=
  match i_getown (ihget h r) k with
  | Some (IProp p) =>
      if vp_accessor p then (h, false)
      else if negb (vp_writable p) then (h, false)
      else (iupd h r (i_define_obj k (d_value_only v)), i_define_ok k (d_value_only v) (ihget h r))
  | Some (IBare _) => (iupd h r (i_define_obj k (d_value_only v)), i_define_ok k (d_value_only v) (ihget h r))
  | None => (iupd h r (i_define_obj k (d_create v)), i_define_ok k (d_create v) (ihget h r))
  end.

Lemma set_on_receiver_rel : forall h hs k v r,
  heap_rel h hs -> heap_wf h ->
  heap_rel (fst (i_set_on_receiver h k v r)) (fst (s_set_on_receiver hs k v r)) /\
  snd (i_set_on_receiver h k v r) = snd (s_set_on_receiver hs k v r).
Proof.
  intros h hs k v r R W. pose proof R as [L Ro]. destruct (Ro r) as (_ & _ & G). specialize (G k).
  unfold i_set_on_receiver, s_set_on_receiver.
  assert (Wk : oiprop_wf (i_getown (ihget h r) k) = true).
  { destruct (i_getown (ihget h r) k) eqn:Q; simpl; auto. eapply W; eauto. }
  destruct (i_getown (ihget h r) k) as [[v0|p]|] eqn:Q; simpl in G; rewrite <- G; simpl.
  - destruct (define_rel _ _ k (d_value_only v) (Ro r)) as [D1 D2]; [now rewrite Q|].
    split; [apply upd_rel; auto | exact D2].
  - destruct (vp_accessor p) eqn:A; simpl; [split; auto|].
    destruct (vp_writable p) eqn:Wr; simpl; [|split; auto].
    destruct (define_rel _ _ k (d_value_only v) (Ro r)) as [D1 D2]; [now rewrite Q|].
    split; [apply upd_rel; auto | exact D2].
  - destruct (define_rel _ _ k (d_create v) (Ro r)) as [D1 D2]; [now rewrite Q|].
    split; [apply upd_rel; auto | exact D2].
Qed.

(* the receiver step of S, computed for the two cases in which goja writes directly *)
Lemma s_recv_writable : forall hs k v r v0 e c,
  find k (o_props (hget hs r)) = Some (PData v0 true e c) ->
  s_set_on_receiver hs k v r = (upd_obj hs r (define_obj k (d_value_only v)), true) /\
  define_obj k (d_value_only v) (hget hs r)
  = mkObj (o_proto (hget hs r)) (o_ext (hget hs r)) (put k (PData v true e c) (o_props (hget hs r))).
Proof.
  intros hs k v r v0 e c F. unfold s_set_on_receiver, define_obj, define_ok, vaa_checked. rewrite F.
  simpl desc_wf. cbv iota. rewrite vaa_value_on_writable. auto.
Qed.

Lemma s_recv_none : forall hs k v r,
  find k (o_props (hget hs r)) = None ->
  s_set_on_receiver hs k v r = (upd_obj hs r (define_obj k (d_create v)), o_ext (hget hs r)) /\
  define_obj k (d_create v) (hget hs r)
  = if o_ext (hget hs r)
    then mkObj (o_proto (hget hs r)) (o_ext (hget hs r)) (put k (PData v true true true) (o_props (hget hs r)))
    else hget hs r.
Proof.
  intros hs k v r F. unfold s_set_on_receiver, define_obj, define_ok, vaa_checked. rewrite F.
  simpl desc_wf. cbv iota. unfold ValidateAndApply. destruct (o_ext (hget hs r)); auto.
Qed.

(* ---- the walk ---- *)

Definition walk_ok (fuel : nat) (h : iheap) (hs : heap) (own : bool) (o : nat) (k : key) (num : bool) (v : val) (r : nat) : Prop :=
  let '(h', res, handled, ev) := i_setwalk fuel h own o k num v r in
  if handled then
    heap_rel h' (fst (fst (s_set fuel hs o k v r))) /\
    res = snd (fst (s_set fuel hs o k v r)) /\ ev = snd (s_set fuel hs o k v r)
  else
    own = false /\ same_view h' h /\ ev = [] /\
    s_set fuel hs o k v r = (s_set_on_receiver hs k v r, []).

Lemma getown_rel : forall h hs o k, heap_rel h hs ->
  option_map absP (i_getown (ihget h o) k) = find k (o_props (hget hs o)).
Proof. intros h hs o k [_ R]. apply R. Qed.

Lemma walk_rel : forall fuel h hs own o k num v r,
  heap_rel h hs -> heap_wf h -> idx_sound h -> (own = true -> r = o) ->
  walk_ok fuel h hs own o k num v r.
Proof.
  induction fuel as [|f IH]; intros h hs own o k num v r R W Sd Hown.
  { unfold walk_ok. simpl. split; [exact R | split; reflexivity]. }
  unfold walk_ok. destruct own.
  - (* setOwnStr / setOwnSym: receiver = o *)
    specialize (Hown eq_refl). subst r.
    simpl i_setwalk. simpl s_set.
    pose proof (getown_rel h hs o k R) as G.
    pose proof R as [L Ro]. destruct (Ro o) as (Rp & Re & _).
    destruct (i_getown (ihget h o) k) as [[v0|p]|] eqn:Q; simpl in G; rewrite <- G.
    + (* bare value *)
      simpl.
      destruct (s_recv_writable hs k v o v0 true true) as [S1 S2]; [now rewrite <- G|].
      rewrite S1. simpl. split; [|split; reflexivity].
      apply upd_rel; auto. rewrite S2.
      apply obj_rel_put; auto using getown_store; apply store_proto.
    + (* valueProperty *)
      assert (Wp : vprop_wf p = true) by (apply (W o k (IProp p) Q)).
      unfold vp_isWritable. simpl absP.
      destruct (vp_accessor p) eqn:A.
      * destruct (wf_acc p Wp A) as [Wr _]. rewrite Wr. simpl.
        destruct (vp_setter p) as [s|] eqn:St; simpl.
        -- unfold i_prop_set. rewrite St. simpl. split; [exact R|split; reflexivity].
        -- split; [exact R|split; reflexivity].
      * destruct (wf_data_absP p Wp A) as (St & Gt & v0 & Vl). rewrite St. simpl.
        rewrite orb_false_r. destruct (vp_writable p) eqn:Wr; simpl; [|split; [exact R|split; reflexivity]].
        unfold i_prop_set. rewrite St. simpl.
        destruct (s_recv_writable hs k v o v0 (vp_enumerable p) (vp_configurable p)) as [S1 S2].
        { rewrite <- G. simpl. rewrite ?A, ?Wr, ?Vl. simpl. rewrite ?Vl. reflexivity. }
        rewrite S1. simpl. split; [|split; reflexivity].
        apply upd_rel; auto. rewrite S2.
        apply obj_rel_put; auto using getown_store; try apply store_proto.
        simpl. rewrite A, Wr. reflexivity.
    + (* no own property *)
      rewrite <- Rp.
      destruct (s_recv_none hs k v o (eq_sym G)) as [S1 S2].
      assert (Fin : forall h1, same_view h1 h ->
                heap_rel (if negb (i_ext (ihget h1 o)) then h1 else iupd h1 o (i_store_new k (IBare v)))
                         (fst (s_set_on_receiver hs k v o)) /\
                (if negb (i_ext (ihget h1 o)) then false else true) = snd (s_set_on_receiver hs k v o)).
      { intros h1 V. pose proof (same_view_rel _ _ _ V R) as R1.
        destruct V as [_ V]. destruct (V o) as (_ & E1 & G1).
        rewrite S1. simpl. rewrite E1, Re.
        destruct (o_ext (hget hs o)) eqn:X; simpl.
        - split; auto. apply upd_rel; auto. rewrite S2, ?X.
          replace (mkObj (o_proto (hget hs o)) true (put k (PData v true true true) (o_props (hget hs o))))
            with (mkObj (o_proto (hget hs o)) (o_ext (hget hs o)) (put k (PData v true true true) (o_props (hget hs o))))
            by (now rewrite X).
          destruct R1 as [_ R1].
          apply (obj_rel_put _ _ k (IBare v) (PData v true true true) i_store_new); auto using getown_store_new;
            apply store_new_proto.
        - split; auto. destruct R1 as [L1 R1]. split; [now rewrite upd_obj_length|].
          intro i. rewrite hget_upd. destruct (_ && _) eqn:B; auto.
          apply andb_prop in B as [B _]. apply Nat.eqb_eq in B. subst i. rewrite S2, ?X. apply R1. }
      destruct (i_proto (ihget h o)) as [p|] eqn:Pr.
      * assert (IHp := IH h hs false p k false v o R W Sd (fun H => ltac:(discriminate H))).
        unfold walk_ok in IHp.
        destruct (i_setwalk f h false p k false v o) as [[[h1 res1] hd1] ev1].
        destruct hd1.
        -- exact IHp.
        -- destruct IHp as (_ & V & Ev & Sq). subst ev1. rewrite Sq.
           destruct (Fin h1 V) as [F1 F2].
           destruct (negb (i_ext (ihget h1 o))); simpl; (split; [exact F1|split; [exact F2|reflexivity]]).
      * destruct (Fin h (same_view_refl h)) as [F1 F2].
        destruct (negb (i_ext (ihget h o))); simpl; (split; [exact F1|split; [exact F2|reflexivity]]).
  - (* setForeignStr / setForeignIdx / setForeignSym *)
    clear Hown. simpl i_setwalk. simpl s_set.
    set (h0 := if num && is_idx k then iupd h o i_ensure else h).
    assert (V0 : same_view h0 h).
    { unfold h0. destruct (num && is_idx k); auto using ensure_same_view, same_view_refl. }
    assert (R0 : heap_rel h0 hs) by (eapply same_view_rel; eauto).
    assert (W0 : heap_wf h0) by (eapply same_view_wf; eauto).
    assert (S0 : idx_sound h0).
    { unfold h0. destruct (num && is_idx k); auto using ensure_idx_sound. }
    pose proof (getown_rel h0 hs o k R0) as G.
    assert (Sk : (if num && is_idx k && Nat.eqb (n_idxc (i_names (ihget h0 o))) 0 then None else i_getown (ihget h0 o) k)
                 = i_getown (ihget h0 o) k).
    { destruct (num && is_idx k) eqn:NI; simpl; auto.
      destruct (Nat.eqb (n_idxc (i_names (ihget h0 o))) 0) eqn:Z; auto.
      apply Nat.eqb_eq in Z. apply andb_prop in NI as [_ Ik].
      destruct k as [n| |]; try discriminate Ik.
      symmetry. apply S0. unfold h0 in *. rewrite ensured_names. exact Z. }
    rewrite Sk.
    pose proof R0 as [L Ro]. destruct (Ro o) as (Rp & _ & _).
    destruct (i_getown (ihget h0 o) k) as [[v0|p]|] eqn:Q; simpl in G; rewrite <- G.
    + simpl. split; [reflexivity|split; [exact V0|split; reflexivity]].
    + assert (Wp : vprop_wf p = true) by (apply (W0 o k (IProp p) Q)).
      unfold vp_isWritable. simpl absP.
      destruct (vp_accessor p) eqn:A.
      * destruct (wf_acc p Wp A) as [Wr _]. rewrite Wr. simpl.
        destruct (vp_setter p) as [s|] eqn:St; simpl; (split; [exact R0|split; reflexivity]).
      * destruct (wf_data_absP p Wp A) as (St & Gt & v0 & Vl). rewrite St. simpl.
        rewrite orb_false_r. destruct (vp_writable p) eqn:Wr; simpl.
        -- split; [reflexivity|split; [exact V0|split; reflexivity]].
        -- split; [exact R0|split; reflexivity].
    + rewrite <- Rp.
      destruct (i_proto (ihget h0 o)) as [p|] eqn:Pr;
        [|simpl; split; [reflexivity|split; [exact V0|split; reflexivity]]].
      destruct (Nat.eqb r p) eqn:E; simpl.
      * apply Nat.eqb_eq in E. subst p.
        assert (IHp := IH h0 hs true r k false v r R0 W0 S0 (fun _ => eq_refl)).
        unfold walk_ok in IHp.
        destruct (i_setwalk f h0 true r k false v r) as [[[h1 res1] hd1] ev1].
        destruct hd1; [exact IHp|]. destruct IHp as [X _]. discriminate X.
      * assert (IHp := IH h0 hs false p k (num && is_idx k && Nat.eqb (n_idxc (i_names (ihget h0 o))) 0) v r
                          R0 W0 S0 (fun H => ltac:(discriminate H))).
        unfold walk_ok in IHp.
        destruct (i_setwalk f h0 false p k _ v r) as [[[h1 res1] hd1] ev1].
        destruct hd1; [exact IHp|].
        destruct IHp as (_ & V & Ev & Sq).
        split; [reflexivity|split; [eapply same_view_trans; eauto|split; assumption]].
Qed.

(* ---- the theorem: one [[Set]] step of I and of S on related heaps ---- *)

Lemma set_eq_spec : forall h hs o k num v r,
  heap_rel h hs -> heap_wf h -> idx_sound h ->
  heap_rel (fst (fst (istep h (OSet o k num v r)))) (fst (fst (sstep hs (OSet o k num v r)))) /\
  snd (fst (istep h (OSet o k num v r))) = snd (fst (sstep hs (OSet o k num v r))) /\
  snd (istep h (OSet o k num v r)) = snd (sstep hs (OSet o k num v r)).
Proof.
  intros h hs o k num v r R W Sd. pose proof R as [L _].
  cbn [istep sstep]. unfold i_set. rewrite <- L.
  destruct (Nat.eqb r o) eqn:E.
  - apply Nat.eqb_eq in E. subst r.
    pose proof (walk_rel (S (S (length h))) h hs true o k num v o R W Sd (fun _ => eq_refl)) as K.
    unfold walk_ok in K.
    destruct (i_setwalk (S (S (length h))) h true o k num v o) as [[[h1 res1] hd1] ev1].
    destruct (s_set (S (S (length h))) hs o k v o) as [[hs1 b1] es1].
    destruct hd1; [|destruct K as [X _]; discriminate X].
    simpl in *. destruct K as (K1 & K2 & K3). subst. auto.
  - pose proof (walk_rel (S (S (length h))) h hs false o k num v r R W Sd (fun H => ltac:(discriminate H))) as K.
    unfold walk_ok in K.
    destruct (i_setwalk (S (S (length h))) h false o k num v r) as [[[h1 res1] hd1] ev1].
    destruct hd1.
    + destruct (s_set (S (S (length h))) hs o k v r) as [[hs1 b1] es1].
      simpl in *. destruct K as (K1 & K2 & K3). subst. auto.
    + destruct K as (_ & V & Ev & Sq). subst ev1. rewrite Sq.
      pose proof (set_on_receiver_rel h1 hs k v r (same_view_rel _ _ _ V R) (same_view_wf _ _ V W)) as [Q1 Q2].
      unfold i_set_on_receiver in Q1, Q2.
      destruct (s_set_on_receiver hs k v r) as [hs1 b1]. simpl in *.
      destruct (i_getown (ihget h1 r) k) as [[v0|p]|]; simpl in *.
      * subst. auto.
      * destruct (vp_accessor p); simpl in *; [subst; auto|].
        destruct (negb (vp_writable p)); simpl in *; subst; auto.
      * subst. auto.
Qed.

(* the same for [[DefineOwnProperty]] as an operation on heaps *)
Lemma define_step_eq_spec : forall h hs o k d,
  heap_rel h hs -> heap_wf h ->
  heap_rel (fst (fst (istep h (ODefine o k d)))) (fst (fst (sstep hs (ODefine o k d)))) /\
  snd (fst (istep h (ODefine o k d))) = snd (fst (sstep hs (ODefine o k d))).
Proof.
  intros h hs o k d R W. cbn [istep sstep fst snd].
  assert (Wk : oiprop_wf (i_getown (ihget h o) k) = true).
  { destruct (i_getown (ihget h o) k) eqn:Q; simpl; auto. eapply W; eauto. }
  destruct (define_rel _ _ k d (proj2 R o) Wk) as [D1 D2].
  split; [apply upd_rel; auto | now rewrite D2].
Qed.

(* define keeps the representation invariant of the whole heap *)
Lemma define_step_wf : forall h o k d, heap_wf h -> heap_wf (fst (fst (istep h (ODefine o k d)))).
Proof.
  intros h o k d W. cbn [istep fst]. intros i k' ip. rewrite ihget_iupd.
  destruct (_ && _); [|apply W].
  unfold i_define_obj, goja_checked. destruct (desc_wf d) eqn:Hd; [|apply W].
  assert (Wk : oiprop_wf (i_getown (ihget h i) k) = true).
  { destruct (i_getown (ihget h i) k) eqn:Q; simpl; auto. eapply W; eauto. }
  pose proof (define_wf (i_ext (ihget h i)) (i_getown (ihget h i) k) d Hd Wk) as Dw.
  destruct (GojaDefine (i_ext (ihget h i)) (i_getown (ihget h i) k) d) as [np|]; [|apply W].
  simpl in Dw.
  destruct (i_getown (ihget h i) k); [rewrite getown_store | rewrite getown_store_new];
    (destruct (key_eqb k' k); [intro H; injection H as <-; exact Dw | apply W]).
Qed.

(* ---- [[Get]] and [[HasProperty]] ---- *)

Lemma get_eq_spec_fuel : forall fuel h hs o k r,
  heap_rel h hs -> heap_wf h -> i_get fuel h o k r = s_get fuel hs o k r.
Proof.
  induction fuel as [|f IH]; intros h hs o k r R W; [reflexivity|].
  simpl. pose proof (getown_rel h hs o k R) as G.
  destruct R as [L Ro]. destruct (Ro o) as (Rp & _ & _).
  destruct (i_getown (ihget h o) k) as [[v0|p]|] eqn:Q; simpl in G; rewrite <- G.
  - reflexivity.
  - assert (Wp : vprop_wf p = true) by (apply (W o k (IProp p) Q)).
    destruct (vp_accessor p) eqn:A.
    + destruct (wf_acc p Wp A) as [_ Vl]. rewrite Vl. destruct (vp_getter p); reflexivity.
    + destruct (wf_data_absP p Wp A) as (_ & Gt & v0 & Vl). rewrite Gt, Vl. reflexivity.
  - rewrite <- Rp. destruct (i_proto (ihget h o)); [apply IH; [split; auto | exact W] | reflexivity].
Qed.

Lemma has_eq_spec_fuel : forall fuel h hs o k,
  heap_rel h hs -> i_has fuel h o k = s_has fuel hs o k.
Proof.
  induction fuel as [|f IH]; intros h hs o k R; [reflexivity|].
  simpl. pose proof (getown_rel h hs o k R) as G.
  destruct R as [L Ro]. destruct (Ro o) as (Rp & _ & _).
  destruct (i_getown (ihget h o) k) as [ip|]; simpl in G; rewrite <- G; [reflexivity|].
  rewrite <- Rp. destruct (i_proto (ihget h o)); [apply IH; split; auto | reflexivity].
Qed.

Lemma get_eq_spec : forall h hs o k r,
  heap_rel h hs -> heap_wf h ->
  snd (fst (istep h (OGet o k r))) = snd (fst (sstep hs (OGet o k r))) /\
  snd (istep h (OGet o k r)) = snd (sstep hs (OGet o k r)) /\
  fst (fst (istep h (OGet o k r))) = h.
Proof.
  intros h hs o k r R W. cbn [istep sstep]. rewrite (proj1 R).
  rewrite (get_eq_spec_fuel _ h hs o k r R W).
  destruct (s_get (S (S (length hs))) hs o k r). auto.
Qed.

Lemma has_eq_spec : forall h hs o k,
  heap_rel h hs -> snd (fst (istep h (OHas o k))) = snd (fst (sstep hs (OHas o k))).
Proof. intros h hs o k R. cbn [istep sstep fst snd]. rewrite (proj1 R). f_equal. now apply has_eq_spec_fuel. Qed.

Lemma getown_eq_spec : forall h hs o k,
  heap_rel h hs -> snd (fst (istep h (OGetOwn o k))) = snd (fst (sstep hs (OGetOwn o k))).
Proof. intros h hs o k R. cbn [istep sstep fst snd]. f_equal. now apply getown_rel. Qed.
