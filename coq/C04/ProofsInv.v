(* C04 — lemmas, part 5: the bookkeeping invariant of goja's objects (propNames / lastSortedPropLen /
   idxPropCount consistent with the values map) holds along every history of I-operations; it implies
   the soundness of idxPropCount that setForeignIdx relies on. *)
From Coq Require Import List Arith NArith Bool Lia Permutation.
Import ListNotations.
From Verif.C04 Require Import Model Proofs ProofsKeys ProofsSet ProofsSetEq.

Record obj_ok (o : iobj) : Prop := mkOk {
  ok_inv : exists l, Inv (i_names o) l;
  ok_dom : forall k, In k (n_names (i_names o)) <-> find k (i_vals o) <> None;
  ok_nodup : NoDup (map fst (i_vals o));
  ok_nodup_syms : NoDup (map fst (i_syms o)) }.

Definition heap_ok (h : iheap) : Prop := forall i, obj_ok (ihget h i).

(* ---- association-list facts ---- *)
Section AL.
Context {A : Type}.
Lemma find_in : forall k (l : list (key * A)), find k l <> None <-> In k (map fst l).
Proof.
  induction l as [|[k' a] r IH]; simpl; [tauto|].
  destruct (key_eqb k k') eqn:E.
  - apply key_eqb_eq in E. subst. split; [auto | discriminate].
  - rewrite IH. split; [auto|]. intros [H|H]; auto. subst. now rewrite key_eqb_refl in E.
Qed.
Lemma put_keys_existing : forall k a (l : list (key * A)), find k l <> None -> map fst (put k a l) = map fst l.
Proof.
  induction l as [|[k' a'] r IH]; simpl; intro H; [congruence|].
  destruct (key_eqb k k') eqn:E; simpl; auto. f_equal. auto.
Qed.
Lemma put_keys_new : forall k a (l : list (key * A)), find k l = None -> map fst (put k a l) = map fst l ++ [k].
Proof.
  induction l as [|[k' a'] r IH]; simpl; intro H; auto.
  destruct (key_eqb k k') eqn:E; [discriminate|]. simpl. f_equal. auto.
Qed.
Lemma find_put : forall k a (l : list (key * A)) k', find k' (put k a l) = if key_eqb k' k then Some a else find k' l.
Proof.
  intros. destruct (key_eqb k' k) eqn:E.
  - apply key_eqb_eq in E. subst. apply find_put_same.
  - now apply find_put_other.
Qed.
Lemma del_keys_nodup : forall k (l : list (key * A)), NoDup (map fst l) ->
  NoDup (map fst (del k l)) /\ find k (del k l) = None /\ (forall x, In x (map fst (del k l)) -> In x (map fst l)).
Proof.
  induction l as [|[k' a'] r IH]; simpl; intro N; [repeat split; auto|].
  inversion N; subst.
  destruct (key_eqb k k') eqn:E.
  - apply key_eqb_eq in E. subst k'. repeat split; auto.
    destruct (find k r) eqn:F; auto. exfalso. apply H1. apply find_in. congruence.
  - destruct (IH H2) as (I1 & I2 & I3). simpl. rewrite E. repeat split; auto.
    + constructor; auto.
    + intros x [Hx|Hx]; auto.
Qed.
End AL.

(* ---- consequences of the key-list invariant ---- *)

Lemma Inv_ensure_set : forall s l, Inv s l -> forall k, In k (n_names (ensure_order s)) <-> In k (n_names s).
Proof.
  intros s l I k.
  destruct I as (a & b & c & R). pose proof (Rep_same_set _ _ _ _ _ R k) as S1.
  destruct (Inv_ensure s l (ex_intro _ a (ex_intro _ b (ex_intro _ c R)))) as (a' & b' & c' & R').
  pose proof (Rep_same_set _ _ _ _ _ R' k) as S2. tauto.
Qed.

Lemma ensure_last : forall s l, Inv s l -> n_last (ensure_order s) = length (n_names (ensure_order s)).
Proof.
  intros s l (a & b & c & R). unfold ensure_order. destruct (Nat.ltb _ _) eqn:Q.
  - destruct (fix_loop _ _ _); reflexivity.
  - apply Nat.ltb_ge in Q. destruct R as [Rn Ri Rl _ _ _ _ _ _]. rewrite Rl, Rn, !app_length in *. lia.
Qed.

Lemma idxc_zero_no_idx : forall s l, Inv s l -> n_idxc (ensure_order s) = 0 ->
  forall k, In k (n_names s) -> is_idx k = false.
Proof.
  intros s l I Z k Hk.
  apply (Inv_ensure_set s l I) in Hk.
  pose proof (ensure_last s l I) as La.
  destruct (Inv_ensure s l I) as (a & b & c & R). destruct R as [Rn Ri Rl _ Ro _ _ _ _].
  rewrite Ri in Z. destruct a; [|discriminate Z].
  rewrite Rl, Rn, !app_length in La. simpl in La.
  destruct c; [|simpl in La; lia].
  rewrite Rn in Hk. simpl in Hk. rewrite app_nil_r in Hk. auto.
Qed.

Lemma obj_ok_idx_sound : forall o, obj_ok o ->
  n_idxc (ensure_order (i_names o)) = 0 -> forall n, i_getown o (KIdx n) = None.
Proof.
  intros o [[l I] D _ _] Z n. unfold i_getown. simpl.
  destruct (find (KIdx n) (i_vals o)) eqn:F; auto.
  assert (In (KIdx n) (n_names (i_names o))) by (apply D; congruence).
  pose proof (idxc_zero_no_idx _ _ I Z _ H). discriminate.
Qed.

Lemma heap_ok_idx_sound : forall h, heap_ok h -> idx_sound h.
Proof. intros h H i. apply obj_ok_idx_sound, H. Qed.

(* ---- every object transformer keeps the invariant ---- *)

Lemma obj_ok_0 : obj_ok iobj0.
Proof. constructor; simpl; [exists []; apply Inv_init | intro; tauto | constructor | constructor]. Qed.

Lemma ok_ensure : forall o, obj_ok o -> obj_ok (i_ensure o).
Proof.
  intros o [[l I] D N N']. constructor; simpl; auto.
  - exists l. now apply Inv_ensure.
  - intro k. rewrite (Inv_ensure_set _ _ I). apply D.
Qed.

Lemma put_nodup : forall {A} k (a : A) l, NoDup (map fst l) -> NoDup (map fst (put k a l)).
Proof.
  intros A k a l N. destruct (find k l) eqn:F.
  - rewrite put_keys_existing by congruence. exact N.
  - rewrite put_keys_new by auto. apply NoDup_snoc; auto. intro H. apply find_in in H. auto.
Qed.

Lemma ok_store_existing : forall k v o, obj_ok o -> i_getown o k <> None -> obj_ok (i_store k v o).
Proof.
  intros k v o [[l I] D N N'] G. unfold i_store, i_getown in *.
  destruct (is_sym k); constructor; simpl; eauto using put_nodup.
  intro k'. rewrite D, find_put. destruct (key_eqb k' k) eqn:E; [|tauto].
  apply key_eqb_eq in E. subst. split; [discriminate|auto].
Qed.

Lemma ok_store_new : forall k v o, obj_ok o -> i_getown o k = None -> obj_ok (i_store_new k v o).
Proof.
  intros k v o [[l I] D N N'] G. unfold i_store_new, i_getown in *.
  destruct (is_sym k) eqn:Sk; constructor; simpl; eauto using put_nodup.
  - exists (l ++ [k]). apply Inv_add; auto.
    destruct (mem_key k (n_names (i_names o))) eqn:M; auto.
    unfold mem_key in M. apply existsb_exists in M as (x & Hx & Ex). apply key_eqb_eq in Ex. subst x.
    apply D in Hx. congruence.
  - intro k'. rewrite in_app_iff, D, find_put. simpl. destruct (key_eqb k' k) eqn:E.
    + apply key_eqb_eq in E. subst. split; [discriminate|auto].
    + split; [intros [H|[H|[]]]; auto; subst; now rewrite key_eqb_refl in E | auto].
Qed.

Lemma names_del_set : forall s l k, Inv s l -> forall k', In k' (n_names (names_del k s)) <-> (k' <> k /\ In k' (n_names s)).
Proof.
  intros s l k I k'.
  destruct I as (a & b & c & R). pose proof (Rep_same_set _ _ _ _ _ R k') as S1.
  destruct (Inv_del s l k (ex_intro _ a (ex_intro _ b (ex_intro _ c R)))) as (a' & b' & c' & R').
  pose proof (Rep_same_set _ _ _ _ _ R' k') as S2.
  rewrite S2, filter_In, <- S1. unfold neqk. split.
  - intros [H E]. split; auto. intro. subst. now rewrite key_eqb_refl in E.
  - intros [H1 H2]. split; auto. destruct (key_eqb k k') eqn:E; auto. apply key_eqb_eq in E. congruence.
Qed.

Lemma ok_delete : forall k o, obj_ok o -> obj_ok (i_delete_obj k o).
Proof.
  intros k o Ok. pose proof Ok as [[l I] D N N']. unfold i_delete_obj.
  destruct (i_getown o k) as [ip|] eqn:G; auto.
  destruct (match ip with IProp p => vp_configurable p | IBare _ => true end); auto.
  destruct (is_sym k) eqn:Sk; constructor; simpl; eauto;
    try (apply (del_keys_nodup k (i_syms o) N')).
  - exists (filter (neqk k) l). now apply Inv_del.
  - destruct (del_keys_nodup k (i_vals o) N) as (N1 & N2 & N3).
    intro k'. rewrite (names_del_set _ _ k I), D.
    destruct (key_eqb k' k) eqn:E.
    + apply key_eqb_eq in E. subst. split; [tauto|congruence].
    + rewrite find_del_other by auto. split; [tauto|]. intro H. split; auto.
      intro. subst. now rewrite key_eqb_refl in E.
  - apply (del_keys_nodup k (i_vals o) N).
Qed.

Lemma ok_prevent : forall o, obj_ok o -> obj_ok (i_prevent o).
Proof. intros o [I D N N']. constructor; auto. Qed.

Lemma ok_define : forall k d o, obj_ok o -> obj_ok (i_define_obj k d o).
Proof.
  intros k d o Ok. unfold i_define_obj.
  destruct (goja_checked (i_ext o) (i_getown o k) d); auto.
  destruct (i_getown o k) eqn:G; [apply ok_store_existing; auto; congruence | apply ok_store_new; auto].
Qed.

Lemma ok_seal_key : forall o k, obj_ok o -> obj_ok (i_seal_key o k).
Proof.
  intros o k Ok. unfold i_seal_key. destruct (i_getown o k) as [[v|p]|] eqn:G; auto using ok_define.
  apply ok_store_existing; auto; congruence.
Qed.
Lemma ok_freeze_key : forall o k, obj_ok o -> obj_ok (i_freeze_key o k).
Proof.
  intros o k Ok. unfold i_freeze_key. destruct (i_getown o k) as [[v|p]|] eqn:G; auto using ok_define.
  apply ok_store_existing; auto; congruence.
Qed.
Lemma ok_fold : forall (f : iobj -> key -> iobj) ks o, (forall o k, obj_ok o -> obj_ok (f o k)) -> obj_ok o -> obj_ok (fold_left f ks o).
Proof. induction ks; simpl; auto. Qed.
Lemma ok_seal : forall o, obj_ok o -> obj_ok (i_seal o).
Proof. intros. unfold i_seal. apply ok_fold; auto using ok_seal_key, ok_ensure, ok_prevent. Qed.
Lemma ok_freeze : forall o, obj_ok o -> obj_ok (i_freeze o).
Proof. intros. unfold i_freeze. apply ok_fold; auto using ok_freeze_key, ok_ensure, ok_prevent. Qed.

Lemma ok_iupd : forall h i f, heap_ok h -> obj_ok (f (ihget h i)) -> heap_ok (iupd h i f).
Proof.
  intros h i f H F j. rewrite ihget_iupd. destruct (_ && _) eqn:E; auto.
  apply andb_prop in E as [E _]. apply Nat.eqb_eq in E. now subst.
Qed.

(* an unhandled foreign walk changed nothing that lookups can see (only ensurePropOrder ran) *)
Lemma foreign_unhandled_view : forall fuel h o k num v r h' res ev,
  i_setwalk fuel h false o k num v r = (h', res, false, ev) ->
  forall i k', i_getown (ihget h' i) k' = i_getown (ihget h i) k'.
Proof.
  induction fuel as [|f IH]; intros h o k num v r h' res ev E i k'; [discriminate E|].
  simpl in E.
  set (h0 := if num && is_idx k then iupd h o i_ensure else h) in *.
  assert (V0 : forall i k', i_getown (ihget h0 i) k' = i_getown (ihget h i) k').
  { intros i0 k0. unfold h0. destruct (num && is_idx k); auto.
    rewrite ihget_iupd. destruct (Nat.eqb o i0 && Nat.ltb i0 (length h)); reflexivity. }
  destruct (if num && is_idx k && Nat.eqb (n_idxc (i_names (ihget h0 o))) 0 then None else i_getown (ihget h0 o) k)
    as [[v0|p]|].
  - injection E as <- _ _. apply V0.
  - destruct (negb (vp_isWritable p)); [discriminate E|].
    destruct (vp_setter p); [discriminate E|]. injection E as <- _ _. apply V0.
  - destruct (i_proto (ihget h0 o)) as [p|]; [|injection E as <- _ _; apply V0].
    destruct (Nat.eqb r p); simpl in E.
    + destruct (i_setwalk f h0 true p k false v p) as [[[h1 r1] hd] e1]. discriminate E.
    + rewrite (IH _ _ _ _ _ _ _ _ _ E). apply V0.
Qed.

Lemma ok_walk : forall fuel h own o k num v r,
  heap_ok h -> heap_ok (walk_heap (i_setwalk fuel h own o k num v r)).
Proof.
  induction fuel as [|f IH]; intros h own o k num v r H; [exact H|].
  simpl. destruct own.
  - destruct (i_getown (ihget h o) k) as [[v0|p]|] eqn:G.
    + unfold walk_heap; simpl. apply ok_iupd; auto. apply ok_store_existing; auto; congruence.
    + destruct (negb (vp_isWritable p)); [exact H|].
      unfold i_prop_set. destruct (vp_setter p); unfold walk_heap; simpl; auto.
      apply ok_iupd; auto. apply ok_store_existing; auto; congruence.
    + destruct (i_proto (ihget h o)) as [p|].
      * specialize (IH h false p k false v o H).
        destruct (i_setwalk f h false p k false v o) as [[[h1 res] handled] ev] eqn:Wk.
        unfold walk_heap in *; simpl in *.
        destruct handled; simpl; auto.
        destruct (negb (i_ext (ihget h1 o))); simpl; auto.
        apply ok_iupd; auto. apply ok_store_new; auto.
        rewrite (foreign_unhandled_view _ _ _ _ _ _ _ _ _ _ Wk). exact G.
      * unfold walk_heap; simpl. destruct (negb (i_ext (ihget h o))); simpl; auto.
        apply ok_iupd; auto. apply ok_store_new; auto.
  - set (h0 := if num && is_idx k then iupd h o i_ensure else h).
    assert (H0 : heap_ok h0).
    { unfold h0. destruct (num && is_idx k); auto. apply ok_iupd; auto using ok_ensure. }
    destruct (if num && is_idx k && Nat.eqb (n_idxc (i_names (ihget h0 o))) 0 then None else i_getown (ihget h0 o) k)
      as [[v0|p]|].
    + exact H0.
    + destruct (negb (vp_isWritable p)); [exact H0|]. destruct (vp_setter p); exact H0.
    + destruct (i_proto (ihget h0 o)) as [p|]; [|exact H0].
      destruct (Nat.eqb r p); simpl.
      * specialize (IH h0 true p k false v p H0).
        destruct (i_setwalk f h0 true p k false v p) as [[[h1 res] hd] ev]. exact IH.
      * apply IH; auto.
Qed.

Lemma ok_set : forall h o k num v r, heap_ok h -> heap_ok (fst (fst (i_set h o k num v r))).
Proof.
  intros h o k num v r H. unfold i_set.
  destruct (Nat.eqb r o).
  - pose proof (ok_walk (S (S (length h))) h true o k num v o H) as W.
    destruct (i_setwalk (S (S (length h))) h true o k num v o) as [[[h1 res] hd] ev]. exact W.
  - pose proof (ok_walk (S (S (length h))) h false o k num v r H) as W.
    destruct (i_setwalk (S (S (length h))) h false o k num v r) as [[[h1 res] hd] ev].
    unfold walk_heap in W; simpl in W.
    destruct hd; simpl; auto.
    destruct (i_getown (ihget h1 r) k) as [[v0|p]|]; simpl.
    + apply ok_iupd; auto using ok_define.
    + destruct (vp_accessor p); simpl; auto. destruct (negb (vp_writable p)); simpl; auto.
      apply ok_iupd; auto using ok_define.
    + apply ok_iupd; auto using ok_define.
Qed.

(* every operation of the alphabet keeps the bookkeeping invariant of every object *)
Lemma istep_ok : forall h op, heap_ok h -> heap_ok (fst (fst (istep h op))).
Proof.
  intros h op H. destruct op; cbn [istep].
  - apply ok_iupd; auto using ok_define.
  - pose proof (ok_set h o k num v r H) as W. destruct (i_set h o k num v r) as [[h1 b] ev]. exact W.
  - destruct (i_get (S (S (length h))) h o k r). exact H.
  - exact H.
  - exact H.
  - apply ok_iupd; auto using ok_delete.
  - apply ok_iupd; auto using ok_ensure.
  - apply ok_iupd; auto using ok_prevent.
  - apply ok_iupd; auto using ok_freeze.
  - apply ok_iupd; auto using ok_seal.
  - apply ok_iupd; auto using ok_ensure.
  - apply ok_iupd; auto using ok_ensure.
  - exact H.
  - exact H.
  - unfold i_setproto. destruct (ofn_eqb _ _); [exact H|]. destruct (negb _); [exact H|].
    destruct (i_reaches _ _ _ _); [exact H|]. simpl. apply ok_iupd; auto.
    destruct (H o) as [I D N N']. constructor; auto.
Qed.

Definition irun (h : iheap) (ops : list op) : iheap := fold_left (fun h o => fst (fst (istep h o))) ops h.

Lemma irun_ok : forall ops h, heap_ok h -> heap_ok (irun h ops).
Proof. unfold irun. induction ops as [|o r IH]; simpl; intros; auto using istep_ok. Qed.

Lemma heap_ok_empty_objects : forall n, heap_ok (repeat iobj0 n).
Proof.
  intros n i. unfold ihget. destruct (nth_in_or_default i (repeat iobj0 n) iobj0) as [H|H].
  - apply repeat_spec in H. rewrite H. apply obj_ok_0.
  - rewrite H. apply obj_ok_0.
Qed.

(* set_eq_spec with the bookkeeping invariant in place of the soundness hypothesis *)
Lemma set_eq_spec_ok : forall h hs o k num v r,
  heap_rel h hs -> heap_wf h -> heap_ok h ->
  heap_rel (fst (fst (istep h (OSet o k num v r)))) (fst (fst (sstep hs (OSet o k num v r)))) /\
  snd (fst (istep h (OSet o k num v r))) = snd (fst (sstep hs (OSet o k num v r))) /\
  snd (istep h (OSet o k num v r)) = snd (sstep hs (OSet o k num v r)).
Proof. intros. apply set_eq_spec; auto using heap_ok_idx_sound. Qed.

(* ---- the representation invariant of the stored properties along every history ---- *)

Definition obj_wf (o : iobj) : Prop := forall k ip, i_getown o k = Some ip -> iprop_wf ip = true.

Lemma heap_wf_obj : forall h, heap_wf h <-> forall i, obj_wf (ihget h i).
Proof. unfold heap_wf, obj_wf. split; eauto. Qed.

Lemma wf_iupd : forall h i f, heap_wf h -> obj_wf (f (ihget h i)) -> heap_wf (iupd h i f).
Proof.
  intros h i f H F. apply heap_wf_obj. intro j. rewrite ihget_iupd. destruct (_ && _) eqn:E.
  - apply andb_prop in E as [E _]. apply Nat.eqb_eq in E. now subst.
  - now apply heap_wf_obj.
Qed.

Lemma wf_store : forall k v o, obj_wf o -> iprop_wf v = true -> obj_wf (i_store k v o).
Proof. intros k v o W V k' ip. rewrite getown_store. destruct (key_eqb k' k); [intro H; now injection H as <-|apply W]. Qed.
Lemma wf_store_new : forall k v o, obj_wf o -> iprop_wf v = true -> obj_wf (i_store_new k v o).
Proof. intros k v o W V k' ip. rewrite getown_store_new. destruct (key_eqb k' k); [intro H; now injection H as <-|apply W]. Qed.

Lemma wf_ensure : forall o, obj_wf o -> obj_wf (i_ensure o).
Proof. intros o W k ip. rewrite getown_ensure. apply W. Qed.

Lemma wf_define : forall k d o, obj_wf o -> obj_wf (i_define_obj k d o).
Proof.
  intros k d o W. unfold i_define_obj, goja_checked. destruct (desc_wf d) eqn:Hd; auto.
  assert (Wk : oiprop_wf (i_getown o k) = true) by (destruct (i_getown o k) eqn:Q; simpl; eauto).
  pose proof (define_wf (i_ext o) (i_getown o k) d Hd Wk) as Dw.
  destruct (GojaDefine (i_ext o) (i_getown o k) d) as [np|]; auto. simpl in Dw.
  destruct (i_getown o k); auto using wf_store, wf_store_new.
Qed.

Section DelFind.
Context {A : Type}.
Lemma find_del_sub : forall k k' (l : list (key * A)) a, NoDup (map fst l) ->
  find k' (del k l) = Some a -> find k' l = Some a.
Proof.
  intros k k' l a N H. destruct (key_eqb k' k) eqn:E.
  - apply key_eqb_eq in E. subst. rewrite (proj1 (proj2 (del_keys_nodup k l N))) in H. discriminate.
  - now rewrite find_del_other in H.
Qed.
End DelFind.

Lemma wf_delete : forall k o, obj_ok o -> obj_wf o -> obj_wf (i_delete_obj k o).
Proof.
  intros k o [_ _ N N'] W. unfold i_delete_obj.
  destruct (i_getown o k) as [ip0|]; auto.
  destruct (match ip0 with IProp p => vp_configurable p | IBare _ => true end); auto.
  intros k' ip. unfold i_getown. destruct (is_sym k) eqn:Sk; simpl; destruct (is_sym k') eqn:Sk'; intro H.
  - apply (W k' ip). unfold i_getown. rewrite Sk'. eapply find_del_sub; eauto.
  - apply (W k' ip). unfold i_getown. now rewrite Sk'.
  - apply (W k' ip). unfold i_getown. now rewrite Sk'.
  - apply (W k' ip). unfold i_getown. rewrite Sk'. eapply find_del_sub; eauto.
Qed.

Lemma wf_prevent : forall o, obj_wf o -> obj_wf (i_prevent o).
Proof. intros o W k ip H. apply (W k ip H). Qed.

Lemma wf_seal_key : forall o k, obj_wf o -> obj_wf (i_seal_key o k).
Proof.
  intros o k W. unfold i_seal_key. destruct (i_getown o k) as [[v|p]|] eqn:G; auto using wf_define.
  apply wf_store; auto. pose proof (W k _ G) as Wp. destruct p as [pv pw pc pe pa pg ps]. exact Wp.
Qed.
Lemma wf_freeze_key : forall o k, obj_wf o -> obj_wf (i_freeze_key o k).
Proof.
  intros o k W. unfold i_freeze_key. destruct (i_getown o k) as [[v|p]|] eqn:G; auto using wf_define.
  apply wf_store; auto. pose proof (W k _ G) as Wp. destruct p as [pv pw pc pe pa pg ps].
  unfold iprop_wf, vprop_wf in *. simpl in *. destruct pa; simpl in *; [exact Wp|].
  destruct pv, pg, ps; simpl in *; auto.
Qed.
Lemma wf_fold : forall (f : iobj -> key -> iobj) ks o, (forall o k, obj_wf o -> obj_wf (f o k)) -> obj_wf o -> obj_wf (fold_left f ks o).
Proof. induction ks; simpl; auto. Qed.
Lemma wf_seal : forall o, obj_wf o -> obj_wf (i_seal o).
Proof. intros. unfold i_seal. apply wf_fold; auto using wf_seal_key, wf_ensure, wf_prevent. Qed.
Lemma wf_freeze : forall o, obj_wf o -> obj_wf (i_freeze o).
Proof. intros. unfold i_freeze. apply wf_fold; auto using wf_freeze_key, wf_ensure, wf_prevent. Qed.

Lemma wf_walk : forall fuel h own o k num v r,
  heap_wf h -> heap_wf (walk_heap (i_setwalk fuel h own o k num v r)).
Proof.
  induction fuel as [|f IH]; intros h own o k num v r H; [exact H|].
  pose proof (proj1 (heap_wf_obj h) H) as Ho.
  simpl. destruct own.
  - destruct (i_getown (ihget h o) k) as [[v0|p]|] eqn:G.
    + unfold walk_heap; simpl. apply wf_iupd; auto using wf_store.
    + destruct (negb (vp_isWritable p)) eqn:Wr; [exact H|].
      unfold i_prop_set. destruct (vp_setter p) eqn:St; unfold walk_heap; simpl; auto.
      apply wf_iupd; auto. apply wf_store; auto.
      pose proof (Ho o k _ G) as Wp. unfold vp_isWritable in Wr. rewrite St in Wr.
      destruct p as [pv pw pc pe pa pg ps]. simpl in *. subst ps.
      destruct pa; simpl in *.
      * destruct pv, pw; simpl in *; try discriminate.
      * destruct pv, pg; simpl in *; try discriminate; auto.
    + destruct (i_proto (ihget h o)) as [p|].
      * specialize (IH h false p k false v o H).
        destruct (i_setwalk f h false p k false v o) as [[[h1 res] handled] ev].
        unfold walk_heap in *; simpl in *.
        destruct handled; simpl; auto.
        destruct (negb (i_ext (ihget h1 o))); simpl; auto.
        apply wf_iupd; auto. apply wf_store_new; auto. apply heap_wf_obj; auto.
      * unfold walk_heap; simpl. destruct (negb (i_ext (ihget h o))); simpl; auto.
        apply wf_iupd; auto using wf_store_new.
  - set (h0 := if num && is_idx k then iupd h o i_ensure else h).
    assert (H0 : heap_wf h0).
    { unfold h0. destruct (num && is_idx k); auto. apply wf_iupd; auto using wf_ensure. }
    destruct (if num && is_idx k && Nat.eqb (n_idxc (i_names (ihget h0 o))) 0 then None else i_getown (ihget h0 o) k)
      as [[v0|p]|].
    + exact H0.
    + destruct (negb (vp_isWritable p)); [exact H0|]. destruct (vp_setter p); exact H0.
    + destruct (i_proto (ihget h0 o)) as [p|]; [|exact H0].
      destruct (Nat.eqb r p); simpl.
      * specialize (IH h0 true p k false v p H0).
        destruct (i_setwalk f h0 true p k false v p) as [[[h1 res] hd] ev]. exact IH.
      * apply IH; auto.
Qed.

Lemma wf_set : forall h o k num v r, heap_wf h -> heap_wf (fst (fst (i_set h o k num v r))).
Proof.
  intros h o k num v r H. unfold i_set.
  destruct (Nat.eqb r o).
  - pose proof (wf_walk (S (S (length h))) h true o k num v o H) as W.
    destruct (i_setwalk (S (S (length h))) h true o k num v o) as [[[h1 res] hd] ev]. exact W.
  - pose proof (wf_walk (S (S (length h))) h false o k num v r H) as W.
    destruct (i_setwalk (S (S (length h))) h false o k num v r) as [[[h1 res] hd] ev].
    unfold walk_heap in W; simpl in W.
    pose proof (proj1 (heap_wf_obj h1) W) as Wo.
    destruct hd; simpl; auto.
    destruct (i_getown (ihget h1 r) k) as [[v0|p]|]; simpl.
    + apply wf_iupd; auto using wf_define.
    + destruct (vp_accessor p); simpl; auto. destruct (negb (vp_writable p)); simpl; auto.
      apply wf_iupd; auto using wf_define.
    + apply wf_iupd; auto using wf_define.
Qed.

Lemma istep_wf : forall h op, heap_ok h -> heap_wf h -> heap_wf (fst (fst (istep h op))).
Proof.
  intros h op K H. pose proof (proj1 (heap_wf_obj h) H) as Ho. destruct op; cbn [istep].
  - apply wf_iupd; auto using wf_define.
  - pose proof (wf_set h o k num v r H) as W. destruct (i_set h o k num v r) as [[h1 b] ev]. exact W.
  - destruct (i_get (S (S (length h))) h o k r). exact H.
  - exact H.
  - exact H.
  - apply wf_iupd; auto using wf_delete.
  - apply wf_iupd; auto using wf_ensure.
  - apply wf_iupd; auto using wf_prevent.
  - apply wf_iupd; auto using wf_freeze.
  - apply wf_iupd; auto using wf_seal.
  - apply wf_iupd; auto using wf_ensure.
  - apply wf_iupd; auto using wf_ensure.
  - exact H.
  - exact H.
  - unfold i_setproto. destruct (ofn_eqb _ _); [exact H|]. destruct (negb _); [exact H|].
    destruct (i_reaches _ _ _ _); [exact H|]. simpl. apply wf_iupd; auto.
    intros k ip Q. apply (Ho o k ip Q).
Qed.

Lemma irun_ok_wf : forall ops h, heap_ok h -> heap_wf h -> heap_ok (irun h ops) /\ heap_wf (irun h ops).
Proof.
  unfold irun. induction ops as [|o r IH]; simpl; intros h K W; auto.
  apply IH; auto using istep_ok, istep_wf.
Qed.
