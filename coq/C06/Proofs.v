(* C06 — lemmas *)
From Coq Require Import List NArith ZArith Bool Lia.
Import ListNotations.
From Verif.C06 Require Import Model.
Local Open Scope N_scope.

Lemma list_eqb_eq : forall a b, list_eqb a b = true <-> a = b.
Proof.
  induction a as [|x a IH]; destruct b as [|y b]; simpl; split; intros H; try discriminate; auto.
  - apply andb_true_iff in H. destruct H as [H1 H2]. apply N.eqb_eq in H1. apply IH in H2. congruence.
  - inversion H; subst. rewrite N.eqb_refl. simpl. apply IH. reflexivity.
Qed.
