(* C06 — lemmas *)
From Coq Require Import List NArith ZArith Bool Lia.
Import ListNotations.
From Verif.C06 Require Import Model.
Local Open Scope N_scope.

Lemma list_eqb_eq : forall a b, list_eqb a b = true <-> a = b.
Proof.
  induction a as [|x a IH]; destruct b as [|y b]; simpl; split; intros H; try discriminate; auto.
  - apply andb_true_iff in H. destruct H as [H1 H2]. apply N.eqb_eq in H1. apply IH in H2. congruence.
  - inversion H; subst. rewrite N.eqb_refl. simpl. apply IH. reflexivity.
Qed.

(* ------------------------------------------------------------------------------------------ *)
(* ASCII / non-ASCII bookkeeping *)

Lemma has_uni_all_ascii : forall l, has_uni l = negb (all_ascii l).
Proof.
  induction l as [|x l IH]; simpl; auto. rewrite IH. destruct (is_ascii x); reflexivity.
Qed.

Lemma all_ascii_app : forall a b, all_ascii (a ++ b) = all_ascii a && all_ascii b.
Proof. intros. unfold all_ascii. apply forallb_app. Qed.

Lemma has_uni_app : forall a b, has_uni (a ++ b) = has_uni a || has_uni b.
Proof. intros. unfold has_uni. apply existsb_app. Qed.

Lemma enc16_ascii : forall r, is_ascii r = true -> enc16 r = [r].
Proof.
  unfold is_ascii, enc16. intros r H. apply N.ltb_lt in H.
  destruct (r <=? 65535) eqn:E; auto. apply N.leb_gt in E. lia.
Qed.

Lemma decode_ascii : forall s, all_ascii s = true -> decode s = s.
Proof.
  induction s as [|b s IH]; simpl; auto. intros H. apply andb_true_iff in H. destruct H as [H1 H2].
  unfold is_ascii in H1. rewrite H1. f_equal. auto.
Qed.

Lemma enc16_all_ascii : forall s, all_ascii s = true -> flat_map enc16 s = s.
Proof.
  induction s as [|b s IH]; simpl; auto. intros H. apply andb_true_iff in H. destruct H as [H1 H2].
  rewrite enc16_ascii by auto. simpl. f_equal. auto.
Qed.

Lemma units_imp_ascii : forall s sc, all_ascii s = true -> units (SImp s sc) = s.
Proof. intros. simpl. rewrite decode_ascii by auto. apply enc16_all_ascii; auto. Qed.

Lemma has_uni_enc16 : forall r, 128 <= r -> has_uni (enc16 r) = true.
Proof.
  intros r H. unfold enc16. destruct (r <=? 65535) eqn:E; unfold has_uni; cbn [existsb]; unfold is_ascii;
    match goal with |- context [?x <? 128] => assert (x <? 128 = false) as ->
      by (apply N.ltb_ge; first [exact H | apply N.le_trans with 55296; [lia|apply N.le_add_r]]) end;
    reflexivity.
Qed.

Ltac inr_split H :=
  unfold inr, cont in H; repeat (apply andb_true_iff in H; let H' := fresh H in destruct H as [H H']);
  repeat match goal with
         | X : (_ <=? _) = true |- _ => apply N.leb_le in X
         | X : (_ <? _) = true |- _ => apply N.ltb_lt in X
         | X : (_ <? _) = false |- _ => apply N.ltb_ge in X
         end.

(* the first rune produced for a non-ASCII first byte is never ASCII *)
Lemma decode_first_non_ascii : forall b0 t, b0 <? 128 = false ->
  exists r rest, decode (b0 :: t) = r :: rest /\ 128 <= r.
Proof.
  intros b0 t Hb. simpl. rewrite Hb. apply N.ltb_ge in Hb.
  assert (HRE : 128 <= RE) by (unfold RE; lia).
  destruct (inr 194 223 b0) eqn:E2.
  { destruct t as [|b1 t1]; [eexists _, _; split; [reflexivity|exact HRE]|].
    destruct (cont b1) eqn:C1; [|eexists _, _; split; [reflexivity|exact HRE]].
    eexists _, _; split; [reflexivity|]. inr_split E2. inr_split C1. lia. }
  destruct (inr 224 239 b0) eqn:E3.
  { destruct t as [|b1 [|b2 t2]]; try (eexists _, _; split; [reflexivity|exact HRE]).
    match goal with |- context [if ?c then _ else _] => destruct c eqn:C end;
      [|eexists _, _; split; [reflexivity|exact HRE]].
    eexists _, _; split; [reflexivity|].
    apply andb_true_iff in C. destruct C as [C1 C2]. inr_split E3.
    destruct (b0 =? 224) eqn:Eb.
    - apply N.eqb_eq in Eb. subst. unfold inr in C1. apply andb_true_iff in C1. destruct C1 as [C1 _].
      apply N.leb_le in C1. lia.
    - apply N.eqb_neq in Eb. lia. }
  destruct (inr 240 244 b0) eqn:E4.
  { destruct t as [|b1 [|b2 [|b3 t3]]]; try (eexists _, _; split; [reflexivity|exact HRE]).
    match goal with |- context [if ?c then _ else _] => destruct c eqn:C end;
      [|eexists _, _; split; [reflexivity|exact HRE]].
    eexists _, _; split; [reflexivity|].
    apply andb_true_iff in C. destruct C as [C C3]. apply andb_true_iff in C. destruct C as [C1 C2]. inr_split E4.
    destruct (b0 =? 240) eqn:Eb.
    - apply N.eqb_eq in Eb. subst. unfold inr in C1. apply andb_true_iff in C1. destruct C1 as [C1 _].
      apply N.leb_le in C1. lia.
    - apply N.eqb_neq in Eb. lia. }
  eexists _, _; split; [reflexivity|exact HRE].
Qed.

Lemma scan_has_uni : forall s, all_ascii s = false -> has_uni (flat_map enc16 (decode s)) = true.
Proof.
  induction s as [|b s IH]; simpl; [discriminate|]. intros H.
  unfold is_ascii in H. destruct (b <? 128) eqn:Eb.
  - simpl in H. simpl. rewrite has_uni_app. rewrite IH by exact H. apply orb_true_r.
  - destruct (decode_first_non_ascii b s Eb) as (r & rest & Hd & Hr).
    simpl in Hd. rewrite Eb in Hd. rewrite Hd. simpl. rewrite has_uni_app, has_uni_enc16 by exact Hr. reflexivity.
Qed.

Lemma scan_some : forall s u, scan s = Some u -> u = flat_map enc16 (decode s) /\ has_uni u = true /\ all_ascii s = false.
Proof.
  unfold scan. intros s u H. destruct (all_ascii s) eqn:E; [discriminate|]. inversion H; subst.
  split; [reflexivity|]. split; [apply scan_has_uni; exact E|reflexivity].
Qed.

Lemma scan_none : forall s, scan s = None -> all_ascii s = true.
Proof. unfold scan. intros s H. destruct (all_ascii s); [reflexivity|discriminate]. Qed.

(* ------------------------------------------------------------------------------------------ *)
(* devirt *)

Lemma units_devirt : forall a, units (devirt a) = units a.
Proof.
  destruct a as [bs|us|s sc]; simpl; auto.
  destruct (scan s) as [u|] eqn:E.
  - apply scan_some in E. destruct E as [-> _]. reflexivity.
  - apply scan_none in E. simpl. rewrite decode_ascii, enc16_all_ascii; auto.
Qed.

Lemma nf_devirt : forall a, nf a = true -> nf (devirt a) = true.
Proof.
  destruct a as [bs|us|s sc]; simpl; auto. intros _.
  destruct (scan s) as [u|] eqn:E.
  - apply scan_some in E. simpl. tauto.
  - apply scan_none in E. exact E.
Qed.

Inductive dv_shape : jsstr -> Prop :=
| dv_a : forall bs, dv_shape (SAscii bs)
| dv_u : forall us, dv_shape (SUni us).

Lemma devirt_shape : forall a, dv_shape (devirt a).
Proof. destruct a as [bs|us|s sc]; simpl; try constructor. destruct (scan s); constructor. Qed.

Lemma payload_devirt : forall a, payload (devirt a) = units a.
Proof.
  intros a. rewrite <- (units_devirt a). destruct (devirt_shape a); reflexivity.
Qed.
