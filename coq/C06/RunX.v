(* C06 — third instantiation: compares with S but ignores the Export() bytes.  Used only to recognise narrowly the
   one open Export finding (an importedString with invalid UTF-8 exports its raw bytes). *)
From Coq Require Import List NArith ZArith Bool.
Import ListNotations.
From Verif.C06 Require Import Model.
From Verif.C06 Require Export Run.

Definition tcase := Run.tcase.
Definition mismatch_ids := mismatch_from s_agrees_noexp 0%N.
Definition expected (c : tcase) := Run.expected c.
