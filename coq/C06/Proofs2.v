(* C06 — lemmas, part 2: constructors, builders, Concat/Substring/CharAt/Length, order, equality, keys, export *)
From Coq Require Import List NArith ZArith Bool Lia.
Import ListNotations.
From Verif.C06 Require Import Model Proofs Utf8.
Local Open Scope N_scope.

(* ------------------------------------------------------------------------------------------ *)
(* constructors *)

Lemma new_string_value_spec : forall s,
  nf (new_string_value s) = true /\ units (new_string_value s) = flat_map enc16 (decode s).
Proof.
  intros s. unfold new_string_value. destruct (scan s) eqn:E.
  - apply scan_some in E. destruct E as (-> & H & _). simpl. auto.
  - apply scan_none in E. simpl. rewrite decode_ascii, enc16_all_ascii by auto. auto.
Qed.

Lemma from_utf16_spec : forall us, nf (from_utf16 us) = true /\ units (from_utf16 us) = us.
Proof.
  intros. unfold from_utf16. destruct (all_ascii us) eqn:E; simpl; split; auto.
  rewrite has_uni_all_ascii, E. reflexivity.
Qed.

Lemma to_value_spec : forall s,
  nf (to_value s) = true /\ units (to_value s) = flat_map enc16 (decode s).
Proof.
  intros. unfold to_value. destruct (length s <=? 16)%nat; [|simpl; auto].
  destruct (scan s) eqn:E; simpl; auto.
  apply scan_none in E. rewrite decode_ascii, enc16_all_ascii by auto. auto.
Qed.

Lemma from_runes_spec : forall rs, nf (from_runes rs) = true /\ units (from_runes rs) = flat_map enc16 rs.
Proof.
  intros. unfold from_runes. destruct (all_ascii rs) eqn:E; simpl.
  - rewrite enc16_all_ascii by auto. auto.
  - split; auto. clear -E. induction rs as [|r rs IH]; simpl in *; [discriminate|].
    rewrite has_uni_app. unfold is_ascii in E. destruct (r <? 128) eqn:Er; simpl in E.
    + rewrite IH by exact E. apply orb_true_r.
    + rewrite has_uni_enc16; [reflexivity|]. apply N.ltb_ge in Er. exact Er.
Qed.

Lemma mod256_ascii : forall l, all_ascii l = true -> map (fun c => c mod 256) l = l.
Proof.
  induction l as [|c l IH]; simpl; auto. intros H. apply andb_true_iff in H. destruct H as [H1 H2].
  unfold is_ascii in H1. apply N.ltb_lt in H1. rewrite N.mod_small by lia. f_equal. auto.
Qed.

(* ------------------------------------------------------------------------------------------ *)
(* unicodeStringBuilder: the flag says exactly whether a non-ASCII unit was written *)

Definition usb_inv (st : list N * bool) : Prop :=
  if snd st then has_uni (fst st) = true else all_ascii (fst st) = true.

Lemma usb_write_spec : forall st s, usb_inv st -> nf s = true ->
  usb_inv (usb_write st s) /\ fst (usb_write st s) = fst st ++ units s.
Proof.
  intros [buf f] s Hi Hs. unfold usb_write.
  pose proof (nf_devirt s Hs) as Hn. pose proof (units_devirt s) as Hu. pose proof (devirt_shape s) as Hsh.
  destruct (devirt s) as [a|u|? ?]; [| |inversion Hsh]; simpl in *; rewrite <- Hu; split; auto; unfold usb_inv in *; simpl in *.
  - destruct f; [rewrite has_uni_app, Hi; reflexivity | rewrite all_ascii_app, Hi, Hn; reflexivity].
  - rewrite has_uni_app, Hn. apply orb_true_r.
Qed.

Lemma usb_fold_spec : forall l st, usb_inv st -> Forall (fun s => nf s = true) l ->
  usb_inv (fold_left usb_write l st) /\ fst (fold_left usb_write l st) = fst st ++ List.concat (map units l).
Proof.
  induction l as [|s l IH]; intros st Hi Hl; simpl.
  - rewrite app_nil_r. auto.
  - inversion Hl; subst. destruct (usb_write_spec st s Hi H1) as [Hi' Hf].
    destruct (IH _ Hi' H2) as [Hi'' Hf']. split; auto. rewrite Hf', Hf, app_assoc. reflexivity.
Qed.

Lemma usb_string_spec : forall buf f, usb_inv (buf, f) ->
  nf (usb_string buf f) = true /\ units (usb_string buf f) = buf.
Proof.
  intros buf f Hi. unfold usb_inv in Hi. simpl in Hi. unfold usb_string. destruct f; [simpl; auto|].
  destruct buf as [|c buf]; [simpl; auto|]. cbv beta iota.
  rewrite (mod256_ascii (c :: buf) Hi). split; [exact Hi|reflexivity].
Qed.

(* String.fromCodePoint through StringBuilder.WriteRune *)
Definition sb_inv (b : sbuilder) : Prop :=
  match b with SBA bs => all_ascii bs = true | SBU buf f => usb_inv (buf, f) end.
Definition sb_buf (b : sbuilder) : list N := match b with SBA bs => bs | SBU buf _ => buf end.

Lemma sb_write_rune_spec : forall b r, sb_inv b ->
  sb_inv (sb_write_rune b r) /\ sb_buf (sb_write_rune b r) = sb_buf b ++ enc16 r.
Proof.
  intros b r Hi. unfold sb_write_rune. destruct (r <? 128) eqn:Er.
  - rewrite enc16_ascii by exact Er. destruct b as [bs|buf f]; simpl in *; split; auto.
    + rewrite all_ascii_app, Hi. simpl. unfold is_ascii. rewrite Er. reflexivity.
    + unfold usb_inv in *. simpl in *. destruct f.
      * rewrite has_uni_app, Hi. reflexivity.
      * rewrite all_ascii_app, Hi. simpl. unfold is_ascii. rewrite Er. reflexivity.
  - apply N.ltb_ge in Er.
    assert (Hw : (let '(buf, f) := match b with SBA bs => (bs, false) | SBU buf f => (buf, f) end in
                  if r <=? 65535 then SBU (buf ++ [r]) true else SBU (buf ++ enc16 r) true)
                 = SBU (sb_buf b ++ enc16 r) true).
    { destruct b; simpl; unfold enc16; destruct (r <=? 65535); reflexivity. }
    rewrite Hw. simpl. unfold usb_inv. simpl. split; [|reflexivity].
    rewrite has_uni_app, (has_uni_enc16 r Er). apply orb_true_r.
Qed.

Lemma sb_fold_spec : forall cps b, sb_inv b ->
  sb_inv (fold_left sb_write_rune cps b) /\ sb_buf (fold_left sb_write_rune cps b) = sb_buf b ++ flat_map enc16 cps.
Proof.
  induction cps as [|r cps IH]; intros b Hi; simpl.
  - rewrite app_nil_r. auto.
  - destruct (sb_write_rune_spec b r Hi) as [Hi' Hb]. destruct (IH _ Hi') as [Hi'' Hb'].
    split; auto. rewrite Hb', Hb, app_assoc. reflexivity.
Qed.

Lemma from_code_points_spec : forall cps,
  nf (from_code_points cps) = true /\ units (from_code_points cps) = s_from_code_points cps.
Proof.
  intros. unfold from_code_points, s_from_code_points.
  destruct (sb_fold_spec cps (SBA []) eq_refl) as [Hi Hb]. simpl in Hb.
  destruct (fold_left sb_write_rune cps (SBA [])) as [bs|buf f]; simpl in *.
  - subst. auto.
  - destruct (usb_string_spec buf f Hi). subst. auto.
Qed.

(* ------------------------------------------------------------------------------------------ *)
(* Concat *)

Definition both_unscanned (a b : jsstr) : bool :=
  match a, b with SImp _ false, SImp _ false => true | _, _ => false end.

Lemma concat_dv_spec : forall a b, dv_shape a -> nf a = true -> nf b = true ->
  nf (concat_dv a b) = true /\ units (concat_dv a b) = units a ++ units b.
Proof.
  intros a b Hsh Ha Hb. unfold concat_dv.
  pose proof (nf_devirt b Hb) as Hn. pose proof (units_devirt b) as Hu. pose proof (devirt_shape b) as Hs2.
  rewrite <- Hu.
  destruct Hsh as [s|s]; destruct (devirt b) as [t|u|? ?]; try (inversion Hs2; fail); simpl in *; split; auto.
  - rewrite all_ascii_app, Ha, Hn. reflexivity.
  - rewrite has_uni_app, Hn. apply orb_true_r.
  - rewrite has_uni_app, Ha. reflexivity.
  - rewrite has_uni_app, Ha. reflexivity.
Qed.

Lemma concat_slow : forall a b, both_unscanned a b = false -> concat a b = concat_dv (devirt a) b.
Proof.
  intros a b H. destruct a as [| |s [|]]; destruct b as [| |t [|]]; simpl in *; try reflexivity; discriminate.
Qed.

(* importedString.Concat, unscanned + unscanned: either the raw bytes are joined (only when s does not end in a
   truncated sequence) or the general path is taken; in both cases the units are concatenated *)
Lemma concat_spec : forall a b, nf a = true -> nf b = true ->
  nf (concat a b) = true /\ units (concat a b) = units a ++ units b.
Proof.
  intros a b Ha Hb. destruct (both_unscanned a b) eqn:E.
  - destruct a as [| |s [|]]; destruct b as [| |t [|]]; simpl in E; try discriminate.
    unfold concat. destruct (last_rune_ok s) eqn:L.
    + split; [reflexivity|]. simpl. rewrite (last_rune_ok_app s t L), flat_map_app. reflexivity.
    + rewrite <- (units_devirt (SImp s false)).
      apply concat_dv_spec; auto using devirt_shape, nf_devirt.
  - rewrite concat_slow by exact E. rewrite <- (units_devirt a).
    apply concat_dv_spec; auto using devirt_shape, nf_devirt.
Qed.

Lemma concat_nf : forall a b, nf a = true -> nf b = true -> nf (concat a b) = true.
Proof. intros a b Ha Hb. apply (concat_spec a b Ha Hb). Qed.

Lemma concat_units : forall a b, nf a = true -> nf b = true -> units (concat a b) = units a ++ units b.
Proof. intros a b Ha Hb. apply (concat_spec a b Ha Hb). Qed.

(* the guard is necessary: joining the raw bytes unconditionally (the code before fd1eed7) is wrong *)
Lemma raw_join_wrong : exists s t,
  units (SImp (s ++ t) false) <> units (SImp s false) ++ units (SImp t false) /\ last_rune_ok s = false.
Proof. exists [97; 195], [169; 98]. vm_compute. split; [discriminate|reflexivity]. Qed.

(* ------------------------------------------------------------------------------------------ *)
(* Substring, CharAt, Length *)

Lemma has_uni_false_ascii : forall l, has_uni l = false -> all_ascii l = true.
Proof. intros l H. rewrite has_uni_all_ascii in H. destruct (all_ascii l); auto. Qed.

Lemma in_firstn' : forall (n : nat) (l : list N) x, In x (firstn n l) -> In x l.
Proof. induction n; destruct l; simpl; intros x H; auto; try contradiction. destruct H; auto. Qed.

Lemma in_skipn' : forall (n : nat) (l : list N) x, In x (skipn n l) -> In x l.
Proof. induction n; destruct l; simpl; intros x H; auto. Qed.

Lemma substring_spec : forall a s e, nf a = true ->
  nf (substring a s e) = true /\ units (substring a s e) = cut (units a) s e.
Proof.
  intros a s e Ha. unfold substring.
  pose proof (nf_devirt a Ha) as Hn. pose proof (units_devirt a) as Hu. pose proof (devirt_shape a) as Hsh.
  rewrite <- Hu. destruct (devirt a) as [bs|us|? ?]; [| |inversion Hsh]; simpl in *.
  - split; auto. unfold cut, all_ascii in *. rewrite forallb_forall in *. intros x Hx.
    apply Hn. apply in_firstn' in Hx. apply in_skipn' in Hx. exact Hx.
  - destruct (has_uni (cut us s e)) eqn:E; simpl; auto.
    apply has_uni_false_ascii in E. rewrite mod256_ascii by exact E. auto.
Qed.

Lemma char_at_spec : forall a i, char_at a i = nth i (units a) 0.
Proof. intros. unfold char_at. rewrite payload_devirt. reflexivity. Qed.

Lemma length_of_spec : forall a, length_of a = length (units a).
Proof. intros. unfold length_of. rewrite payload_devirt. reflexivity. Qed.

(* ------------------------------------------------------------------------------------------ *)
(* CompareTo is the lexicographic order of the units, for every pair of representations *)

Lemma cmp_to_ascii_lex : forall s1 s2, cmp_to_ascii s1 s2 = lex s1 s2.
Proof.
  induction s1 as [|c1 r1 IH]; destruct s2 as [|c2 r2]; simpl; auto.
  destruct (c1 ?= c2) eqn:C.
  - apply N.compare_eq in C. subst. rewrite N.ltb_irrefl. apply IH.
  - rewrite N.compare_lt_iff in C. apply N.ltb_lt in C. rewrite C. reflexivity.
  - rewrite N.compare_gt_iff in C. assert (c1 <? c2 = false) as -> by (apply N.ltb_ge; lia).
    apply N.ltb_lt in C. rewrite C. reflexivity.
Qed.

Lemma lex_opp : forall a b, CompOpp (lex a b) = lex b a.
Proof.
  induction a as [|x a IH]; destruct b as [|y b]; simpl; auto.
  rewrite (N.compare_antisym x y). destruct (x ?= y); simpl; auto.
Qed.

Lemma lex_eq : forall a b, lex a b = Eq <-> a = b.
Proof.
  induction a as [|x a IH]; destruct b as [|y b]; simpl; split; intros H; try discriminate; auto.
  - destruct (x ?= y) eqn:C; try discriminate. apply N.compare_eq in C. apply IH in H. congruence.
  - inversion H; subst. rewrite N.compare_refl. apply IH. reflexivity.
Qed.

Lemma compare_to_spec : forall a b, compare_to a b = lex (units a) (units b).
Proof.
  intros a b. unfold compare_to. rewrite <- (units_devirt a), <- (units_devirt b).
  destruct (devirt_shape a); destruct (devirt_shape b); simpl; auto using cmp_to_ascii_lex.
  rewrite cmp_to_ascii_lex. apply lex_opp.
Qed.

(* ------------------------------------------------------------------------------------------ *)
(* keys and hash input *)

Lemma le_bytes_inj : forall a b, le_bytes a = le_bytes b -> a = b.
Proof.
  induction a as [|x a IH]; destruct b as [|y b]; simpl; intros H; try discriminate; auto.
  inversion H. f_equal; auto.
  rewrite (N.div_mod x 256), (N.div_mod y 256) by lia. congruence.
Qed.

Lemma hash_bytes_raw_key : forall a, hash_bytes a = raw_key a.
Proof.
  destruct a as [bs|us|s sc]; unfold raw_key; simpl; auto. destruct (scan s); reflexivity.
Qed.

Lemma ascii_ne_uni : forall bs us, all_ascii bs = true -> has_uni us = true -> bs <> us.
Proof. intros bs us H1 H2 E. subst. rewrite has_uni_all_ascii, H1 in H2. discriminate. Qed.

Lemma raw_key_spec : forall a b, nf a = true -> nf b = true ->
  (raw_key a = raw_key b <-> units a = units b).
Proof.
  intros a b Ha Hb. unfold raw_key.
  pose proof (nf_devirt a Ha) as Hna. pose proof (nf_devirt b Hb) as Hnb.
  rewrite <- (units_devirt a), <- (units_devirt b).
  destruct (devirt_shape a) as [s|s]; destruct (devirt_shape b) as [t|t]; simpl in *.
  - tauto.
  - split; intros H.
    + exfalso. destruct s as [|c s]; [discriminate|]. inversion H; subst. discriminate Hna.
    + exfalso. eapply ascii_ne_uni; eauto.
  - split; intros H.
    + exfalso. destruct t as [|c t]; [discriminate|]. inversion H; subst. discriminate Hnb.
    + exfalso. eapply ascii_ne_uni; eauto.
  - split; intros H.
    + inversion H. apply le_bytes_inj; auto.
    + subst. reflexivity.
Qed.

(* ------------------------------------------------------------------------------------------ *)
(* StrictEquals, all nine pairs *)

Definition both_imported (a b : jsstr) : bool :=
  match a, b with SImp _ _, SImp _ _ => true | _, _ => false end.

Lemma imp_u_cases : forall s sc, imp_u s sc = None \/ exists u, imp_u s sc = Some u /\ scan s = Some u.
Proof. intros s [|]; simpl; [destruct (scan s) eqn:E; eauto|auto]. Qed.

Lemma units_imp_scan : forall s sc u, scan s = Some u -> units (SImp s sc) = u.
Proof. intros s sc u H. apply scan_some in H. destruct H as [-> _]. reflexivity. Qed.

(* soundness: whatever the pair of representations (and whatever the scanned flags), === implies equal units *)
Lemma strict_equals_sound : forall a b, nf a = true -> nf b = true ->
  strict_equals a b = true -> units a = units b.
Proof.
  intros a b Ha Hb H.
  destruct a as [s|s|s sc]; destruct b as [t|t|t tc]; simpl in H; try discriminate.
  - apply list_eqb_eq in H. subst. reflexivity.
  - destruct (imp_u t tc) eqn:E; [discriminate|]. apply list_eqb_eq in H. subst.
    simpl in Ha. symmetry. apply units_imp_ascii. exact Ha.
  - apply list_eqb_eq in H. subst. reflexivity.
  - destruct (scan t) eqn:E; [|discriminate]. apply list_eqb_eq in H. subst.
    symmetry. apply (units_imp_scan _ _ _ E).
  - destruct (imp_u s sc) eqn:E; [discriminate|]. apply list_eqb_eq in H. subst.
    simpl in Hb. apply units_imp_ascii. exact Hb.
  - destruct (scan s) eqn:E; [|discriminate]. apply list_eqb_eq in H. subst.
    apply (units_imp_scan _ _ _ E).
  - apply orb_true_iff in H. destruct H as [H|H].
    + apply list_eqb_eq in H. subst. reflexivity.
    + destruct (scan s) as [u|] eqn:Es; [|discriminate]. destruct (scan t) as [v|] eqn:Et; [|discriminate].
      apply list_eqb_eq in H. subst v.
      rewrite (units_imp_scan _ sc _ Es), (units_imp_scan _ tc _ Et). reflexivity.
Qed.

Lemma list_eqb_refl : forall l, list_eqb l l = true.
Proof. intros. apply list_eqb_eq. reflexivity. Qed.

(* completeness, all nine pairs *)
Lemma strict_equals_complete : forall a b, nf a = true -> nf b = true ->
  units a = units b -> strict_equals a b = true.
Proof.
  intros a b Ha Hb H.
  destruct a as [s|s|s sc]; destruct b as [t|t|t tc]; simpl in *.
  - subst. apply list_eqb_refl.
  - exfalso. eapply ascii_ne_uni; eauto.
  - destruct (scan t) as [u|] eqn:E.
    + exfalso. pose proof (scan_some _ _ E) as (Hu & Hh & _). subst u.
      eapply ascii_ne_uni; [exact Ha|exact Hh|exact H].
    + apply scan_none in E. rewrite decode_ascii, enc16_all_ascii in H by exact E. subst.
      destruct (imp_u t tc) eqn:E2.
      * destruct tc; simpl in E2; [|discriminate]. unfold scan in E2. rewrite E in E2. discriminate.
      * apply list_eqb_refl.
  - exfalso. symmetry in H. eapply ascii_ne_uni; eauto.
  - subst. apply list_eqb_refl.
  - destruct (scan t) as [u|] eqn:E.
    + pose proof (scan_some _ _ E) as (Hu & _). subst u. subst s. apply list_eqb_refl.
    + exfalso. apply scan_none in E. rewrite decode_ascii, enc16_all_ascii in H by exact E. subst.
      rewrite has_uni_all_ascii, E in Ha. discriminate.
  - destruct (scan s) as [u|] eqn:E.
    + exfalso. pose proof (scan_some _ _ E) as (Hu & Hh & _). subst u.
      eapply ascii_ne_uni; [exact Hb|exact Hh|]. symmetry. exact H.
    + apply scan_none in E. rewrite decode_ascii, enc16_all_ascii in H by exact E. subst.
      destruct (imp_u t sc) eqn:E2.
      * destruct sc; simpl in E2; [|discriminate]. unfold scan in E2. rewrite E in E2. discriminate.
      * apply list_eqb_refl.
  - destruct (scan s) as [u|] eqn:E.
    + pose proof (scan_some _ _ E) as (Hu & _). subst u. subst t. apply list_eqb_refl.
    + exfalso. apply scan_none in E. rewrite decode_ascii, enc16_all_ascii in H by exact E. subst.
      rewrite has_uni_all_ascii, E in Hb. discriminate.
  - (* imported x imported: same bytes, or the same scanned array *)
    destruct (scan s) as [u|] eqn:Es; destruct (scan t) as [v|] eqn:Et.
    + pose proof (scan_some _ _ Es) as (Hu & _). pose proof (scan_some _ _ Et) as (Hv & _). subst u v.
      rewrite H, list_eqb_refl. apply orb_true_r.
    + exfalso. pose proof (scan_some _ _ Es) as (Hu & Hh & _). apply scan_none in Et.
      rewrite (decode_ascii t), (enc16_all_ascii t) in H by exact Et. subst u.
      eapply ascii_ne_uni; [exact Et|exact Hh|]. symmetry. exact H.
    + exfalso. pose proof (scan_some _ _ Et) as (Hv & Hh & _). apply scan_none in Es.
      rewrite (decode_ascii s), (enc16_all_ascii s) in H by exact Es. subst v.
      eapply ascii_ne_uni; [exact Es|exact Hh|exact H].
    + apply scan_none in Es. apply scan_none in Et.
      rewrite (decode_ascii s), (enc16_all_ascii s), (decode_ascii t), (enc16_all_ascii t) in H by assumption.
      subst. rewrite list_eqb_refl. reflexivity.
Qed.

Lemma strict_equals_iff : forall a b, nf a = true -> nf b = true ->
  (strict_equals a b = true <-> units a = units b).
Proof. intros a b Ha Hb. split; [apply strict_equals_sound; auto|apply strict_equals_complete; auto]. Qed.

(* every equality-like observable is unit equality, for all nine pairs *)
Lemma equals_iff : forall a b, nf a = true -> nf b = true -> (equals a b = true <-> units a = units b).
Proof.
  intros a b Ha Hb. unfold equals. destruct a as [s|s|s sc]; try apply strict_equals_iff; auto.
  rewrite orb_true_iff. rewrite (strict_equals_iff (SImp s sc) b Ha Hb).
  rewrite (strict_equals_iff (devirt (SImp s sc)) b (nf_devirt _ Ha) Hb), units_devirt. tauto.
Qed.

Lemma map_hit_iff : forall a b, nf a = true -> nf b = true -> (map_hit a b = true <-> units a = units b).
Proof.
  intros a b Ha Hb. unfold map_hit, same_as. rewrite andb_true_iff, list_eqb_eq, !hash_bytes_raw_key.
  rewrite (raw_key_spec a b Ha Hb), (strict_equals_iff a b Ha Hb). tauto.
Qed.

Lemma objkey_hit_iff : forall a b, nf a = true -> nf b = true -> (objkey_hit a b = true <-> units a = units b).
Proof. intros a b Ha Hb. unfold objkey_hit. rewrite list_eqb_eq. apply raw_key_spec; auto. Qed.

(* the scanned-bytes comparison matters: comparing raw bytes only (the code before 8242a43) is incomplete *)
Lemma raw_bytes_incomplete : exists s t, units (SImp s false) = units (SImp t false) /\ list_eqb s t = false.
Proof. exists [97; 255], [97; 254]. vm_compute. auto. Qed.

(* ------------------------------------------------------------------------------------------ *)
(* Export *)

Lemma dec16_ascii : forall bs, all_ascii bs = true -> dec16 bs = bs.
Proof.
  induction bs as [|b bs IH]; simpl; auto. intros H. apply andb_true_iff in H. destruct H as [H1 H2].
  unfold is_ascii in H1. apply N.ltb_lt in H1.
  assert (is_hi b = false) as ->.
  { unfold is_hi, inr. destruct (55296 <=? b) eqn:E; auto. apply N.leb_le in E. lia. }
  assert (is_lo b = false) as ->.
  { unfold is_lo, inr. destruct (56320 <=? b) eqn:E; auto. apply N.leb_le in E. lia. }
  f_equal. auto.
Qed.

Lemma enc8_all_ascii : forall bs, all_ascii bs = true -> flat_map enc8 bs = bs.
Proof.
  induction bs as [|b bs IH]; simpl; auto. intros H. apply andb_true_iff in H. destruct H as [H1 H2].
  unfold is_ascii in H1. unfold enc8 at 1. rewrite H1. simpl. f_equal. auto.
Qed.

Lemma export_spec : forall a, nf a = true -> (forall s sc, a = SImp s sc -> valid_utf8 s = true) ->
  export a = s_export (units a).
Proof.
  intros a Ha Hv. destruct a as [bs|us|s sc]; simpl in *.
  - unfold s_export. rewrite dec16_ascii, enc8_all_ascii by exact Ha. reflexivity.
  - reflexivity.
  - unfold s_export. symmetry. apply valid_export. eapply Hv. reflexivity.
Qed.

Lemma export_imported_refuted : exists a, nf a = true /\ export a <> s_export (units a).
Proof. exists (SImp [255] false). vm_compute. split; [reflexivity|discriminate]. Qed.
