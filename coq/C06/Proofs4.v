(* C06 — lemmas, part 4: every expression tree evaluates (in I) to a normal-form string *)
From Coq Require Import List NArith ZArith Bool Lia.
Import ListNotations.
From Verif.C06 Require Import Model Proofs Proofs2.
Local Open Scope N_scope.

Lemma nf_empty : nf empty = true.
Proof. reflexivity. Qed.

Lemma i_sub_nf : forall a s e, nf a = true -> nf (i_sub a s e) = true.
Proof. intros. unfold i_sub. apply substring_spec. assumption. Qed.

Ltac ifs := repeat match goal with |- context [if ?c then _ else _] => destruct c end.

Lemma i_slice_nf : forall a s e, nf a = true -> nf (i_slice a s e) = true.
Proof. intros. unfold i_slice. cbv zeta. ifs; auto using i_sub_nf, nf_empty. Qed.
Lemma i_substring_nf : forall a s e, nf a = true -> nf (i_substring a s e) = true.
Proof. intros. unfold i_substring. cbv zeta. ifs; auto using i_sub_nf, nf_empty. Qed.
Lemma i_substr_nf : forall a s e, nf a = true -> nf (i_substr a s e) = true.
Proof. intros. unfold i_substr. cbv zeta. ifs; auto using i_sub_nf, nf_empty. Qed.
Lemma i_at_nf : forall a i, nf a = true -> nf (i_at a i) = true.
Proof. intros. unfold i_at. cbv zeta. ifs; auto using i_sub_nf, nf_empty. Qed.
Lemma i_char_at_nf : forall a i, nf a = true -> nf (i_char_at a i) = true.
Proof. intros. unfold i_char_at. cbv zeta. ifs; auto using i_sub_nf, nf_empty. Qed.

Lemma all_ascii_concat_repeat : forall bs n, all_ascii bs = true -> all_ascii (List.concat (List.repeat bs n)) = true.
Proof. induction n; simpl; intros; auto. rewrite all_ascii_app, H, IHn; auto. Qed.

Lemma all_ascii_firstn : forall (n : nat) bs, all_ascii bs = true -> all_ascii (firstn n bs) = true.
Proof.
  intros n bs H. unfold all_ascii in *. rewrite forallb_forall in *. intros x Hx. apply H.
  eapply in_firstn'. exact Hx.
Qed.

Lemma i_repeat_nf : forall a n, nf a = true -> nf (i_repeat a n) = true.
Proof.
  intros a n Ha. unfold i_repeat. destruct (n =? 0)%nat eqn:En; simpl; auto.
  destruct (length_of a =? 0)%nat; simpl; auto.
  pose proof (nf_devirt a Ha) as Hn. pose proof (devirt_shape a) as Hs.
  destruct (devirt a) as [bs|us|? ?]; [| |inversion Hs]; simpl in *.
  - apply all_ascii_concat_repeat. exact Hn.
  - destruct n; [discriminate|]. simpl. rewrite has_uni_app, Hn. reflexivity.
Qed.

Lemma usb_inv_init : usb_inv ([], false).
Proof. reflexivity. Qed.

Lemma i_pad_nf : forall a n f st, nf a = true -> nf f = true -> nf (i_pad a n f st) = true.
Proof.
  intros a n f st Ha Hf. unfold i_pad. cbv zeta.
  destruct (Z.max n 0 <=? Z.of_nat (length_of a))%Z; auto.
  destruct (length_of f =? 0)%nat; auto.
  pose proof (nf_devirt a Ha) as Hna. pose proof (nf_devirt f Hf) as Hnf.
  set (rem := Z.to_nat (Z.max n 0 - Z.of_nat (length_of a))). set (fl := length_of f).
  assert (Hbuilder : forall st0, usb_inv st0 ->
     let st1 := if st then st0 else usb_write st0 a in
     let st2 := fold_left usb_write (List.repeat f (rem / fl)) st1 in
     let st3 := if (0 <? rem mod fl)%nat then usb_write st2 (substring f 0 (rem mod fl)) else st2 in
     let st4 := if st then usb_write st3 a else st3 in
     nf (usb_string (fst st4) (snd st4)) = true).
  { intros st0 H0. cbv zeta.
    assert (H1 : usb_inv (if st then st0 else usb_write st0 a)) by (destruct st; auto; apply usb_write_spec; auto).
    assert (H2 : usb_inv (fold_left usb_write (List.repeat f (rem / fl)) (if st then st0 else usb_write st0 a))).
    { apply usb_fold_spec; auto. clear -Hf. induction (rem / fl)%nat; simpl; constructor; auto. }
    set (st2 := fold_left usb_write (List.repeat f (rem / fl)) (if st then st0 else usb_write st0 a)) in *.
    assert (H3 : usb_inv (if (0 <? rem mod fl)%nat then usb_write st2 (substring f 0 (rem mod fl)) else st2)).
    { destruct (0 <? rem mod fl)%nat; auto. apply usb_write_spec; auto. apply substring_spec; auto. }
    set (st3 := if (0 <? rem mod fl)%nat then usb_write st2 (substring f 0 (rem mod fl)) else st2) in *.
    assert (H4 : usb_inv (if st then usb_write st3 a else st3)) by (destruct st; auto; apply usb_write_spec; auto).
    destruct (if st then usb_write st3 a else st3) as [buf fg]. apply usb_string_spec. exact H4. }
  destruct (devirt a) as [sa|ua|? ?] eqn:Da; destruct (devirt f) as [fa|uf|? ?] eqn:Df;
    try (apply (Hbuilder ([], false) usb_inv_init)).
  simpl in Hna, Hnf. simpl.
  assert (Hfill : all_ascii (List.concat (List.repeat fa (rem / fl)) ++ firstn (rem mod fl) fa) = true).
  { rewrite all_ascii_app, all_ascii_concat_repeat, all_ascii_firstn; auto. }
  destruct st; rewrite all_ascii_app, Hfill, Hna; reflexivity.
Qed.

Lemma forall_nf_devirt : forall l, Forall (fun s => nf s = true) l -> Forall (fun s => nf s = true) (map devirt l).
Proof. induction 1; simpl; constructor; auto using nf_devirt. Qed.

Lemma concat_strings_nf : forall l, Forall (fun s => nf s = true) l -> nf (concat_strings l) = true.
Proof.
  intros l Hl. unfold concat_strings. cbv zeta. apply forall_nf_devirt in Hl.
  destruct (forallb _ (map devirt l)) eqn:E.
  - simpl. induction (map devirt l) as [|x dl IH]; simpl; auto.
    inversion Hl; subst. simpl in E. apply andb_true_iff in E. destruct E as [E1 E2].
    destruct x; try discriminate. simpl in *. rewrite all_ascii_app, H1, IH; auto.
  - destruct (usb_fold_spec (map devirt l) ([], false) usb_inv_init Hl) as [Hi _].
    destruct (fold_left usb_write (map devirt l) ([], false)) as [buf f]. apply usb_string_spec. exact Hi.
Qed.

Lemma up_low_ascii : forall (u : bool) bs, all_ascii bs = true -> all_ascii (map (if u then up else low) bs) = true.
Proof.
  intros u bs. induction bs as [|c bs IH]; simpl; auto. intros H. apply andb_true_iff in H. destruct H as [H1 H2].
  rewrite IH by auto. rewrite andb_true_r. unfold is_ascii in *. apply N.ltb_lt in H1. apply N.ltb_lt.
  destruct u; cbv beta iota; unfold up, low, inr;
    match goal with |- context [if ?c then _ else _] => destruct c eqn:E end; try lia.
  apply andb_true_iff in E. destruct E as [_ E]. apply N.leb_le in E. lia.
Qed.

Lemma i_case_nf : forall u a, nf a = true -> nf (i_case u a) = true.
Proof.
  intros u a Ha. unfold i_case. cbv zeta. destruct a as [bs|us|s sc]; simpl in Ha.
  - simpl. apply up_low_ascii. exact Ha.
  - apply from_utf16_spec.
  - destruct (scan s) eqn:E; [apply from_runes_spec|]. apply scan_none in E. simpl. apply up_low_ascii. exact E.
Qed.

Lemma i_trim_nf : forall m a, nf a = true -> nf (i_trim m a) = true.
Proof. intros m a Ha. unfold i_trim. cbv zeta. apply substring_spec. exact Ha. Qed.

Lemma i_json_quote_nf : forall a, nf (i_json_quote a) = true.
Proof.
  intros a. unfold i_json_quote. cbv zeta.
  match goal with |- context [if ?c then _ else _] => destruct c eqn:E end; [exact E|reflexivity].
Qed.

Lemma lit_part_nf : forall l, Forall (fun s => nf s = true) (lit_part l).
Proof. destruct l; simpl; constructor; auto. apply from_utf16_spec. Qed.

(* the tree-level statement: whatever the origin of the leaves and whatever operations are stacked, goja's
   representation of the result is in normal form *)
Lemma ieval_nf : forall e, nf (ieval e) = true.
Proof.
  induction e; simpl.
  - apply from_utf16_spec.
  - apply to_value_spec.
  - reflexivity.
  - apply from_utf16_spec.
  - apply from_utf16_spec.
  - apply from_code_points_spec.
  - apply concat_nf; auto.
  - apply concat_strings_nf.
    apply Forall_app; split; [apply lit_part_nf|]. constructor; [assumption|].
    apply Forall_app; split; [apply lit_part_nf|]. constructor; [assumption|]. apply lit_part_nf.
  - apply i_slice_nf; auto.
  - apply i_substring_nf; auto.
  - apply i_substr_nf; auto.
  - apply i_at_nf; auto.
  - apply i_char_at_nf; auto.
  - apply i_pad_nf; auto.
  - apply i_repeat_nf; auto.
  - apply i_trim_nf; auto.
  - apply i_case_nf; auto.
  - apply new_string_value_spec.
  - apply i_json_quote_nf.
Qed.
