(* C06 — lemmas about Go's UTF-8 decoding ([decode]), its strict variant, and the UTF-8 / UTF-16 round trips *)
From Coq Require Import List NArith ZArith Bool Lia.
Import ListNotations.
From Verif.C06 Require Import Model Proofs.
Local Open Scope N_scope.

(* one-step unfoldings with the tail kept abstract *)
Lemma decode_cons : forall b0 t,
  decode (b0 :: t) = ltac:(let x := eval cbn [decode] in (decode (b0 :: t)) in exact x).
Proof. reflexivity. Qed.

Lemma decode_strict_cons : forall b0 t,
  decode_strict (b0 :: t) = ltac:(let x := eval cbn [decode_strict] in (decode_strict (b0 :: t)) in exact x).
Proof. reflexivity. Qed.

Lemma dec16_cons : forall a t,
  dec16 (a :: t) = ltac:(let x := eval cbn [dec16] in (dec16 (a :: t)) in exact x).
Proof. reflexivity. Qed.

Ltac dstep := rewrite decode_cons; cbv beta iota.
Ltac dsstep H := rewrite decode_strict_cons in H; cbv beta iota in H.

(* ------------------------------------------------------------------------------------------ *)
(* a well-formed prefix decodes independently of what follows *)

Lemma decode_strict_app_n : forall n s r t, (length s <= n)%nat ->
  decode_strict s = Some r -> decode (s ++ t) = r ++ decode t.
Proof.
  induction n as [|n IH]; intros s r t Hl H.
  - destruct s; [|simpl in Hl; lia]. simpl in H. inversion H. reflexivity.
  - destruct s as [|b0 s]; [simpl in H; inversion H; reflexivity|].
    simpl in Hl. dsstep H. cbn [app]. dstep.
    destruct (b0 <? 128) eqn:E1.
    { destruct (decode_strict s) as [r'|] eqn:D; [|discriminate]. simpl in H. inversion H; subst.
      simpl. f_equal. apply IH; [lia|exact D]. }
    destruct (inr 194 223 b0) eqn:E2.
    { destruct s as [|b1 s1]; [discriminate|]. cbn [app]. cbv beta iota in *.
      destruct (cont b1) eqn:C1; [|discriminate].
      destruct (decode_strict s1) as [r'|] eqn:D; [|discriminate]. simpl in H. inversion H; subst.
      simpl. f_equal. apply IH; [simpl in Hl; lia|exact D]. }
    destruct (inr 224 239 b0) eqn:E3.
    { destruct s as [|b1 [|b2 s2]]; try discriminate. cbn [app]. cbv beta iota in *.
      match type of H with (if ?c then _ else _) = _ => destruct c eqn:C end; [|discriminate].
      destruct (decode_strict s2) as [r'|] eqn:D; [|discriminate]. simpl in H. inversion H; subst.
      simpl. f_equal. apply IH; [simpl in Hl; lia|exact D]. }
    destruct (inr 240 244 b0) eqn:E4.
    { destruct s as [|b1 [|b2 [|b3 s3]]]; try discriminate. cbn [app]. cbv beta iota in *.
      match type of H with (if ?c then _ else _) = _ => destruct c eqn:C end; [|discriminate].
      destruct (decode_strict s3) as [r'|] eqn:D; [|discriminate]. simpl in H. inversion H; subst.
      simpl. f_equal. apply IH; [simpl in Hl; lia|exact D]. }
    discriminate.
Qed.

Lemma decode_strict_app : forall s r t, decode_strict s = Some r -> decode (s ++ t) = r ++ decode t.
Proof. intros. eapply decode_strict_app_n; eauto. Qed.

Lemma decode_strict_decode : forall s r, decode_strict s = Some r -> decode s = r.
Proof.
  intros s r H. pose proof (decode_strict_app s r [] H) as E. rewrite !app_nil_r in E. exact E.
Qed.

(* a well-formed sequence never starts with a continuation byte *)
Lemma strict_first_nc : forall b0 t r, decode_strict (b0 :: t) = Some r -> cont b0 = false.
Proof.
  intros b0 t r H. dsstep H. unfold cont, inr in *.
  destruct (b0 <? 128) eqn:E1.
  { apply N.ltb_lt in E1. apply andb_false_iff. left. apply N.leb_gt. lia. }
  destruct ((194 <=? b0) && (b0 <=? 223)) eqn:E2.
  { apply andb_true_iff in E2. destruct E2 as [E2 _]. apply N.leb_le in E2.
    apply andb_false_iff. right. apply N.leb_gt. lia. }
  destruct ((224 <=? b0) && (b0 <=? 239)) eqn:E3.
  { apply andb_true_iff in E3. destruct E3 as [E3 _]. apply N.leb_le in E3.
    apply andb_false_iff. right. apply N.leb_gt. lia. }
  destruct ((240 <=? b0) && (b0 <=? 244)) eqn:E4.
  { apply andb_true_iff in E4. destruct E4 as [E4 _]. apply N.leb_le in E4.
    apply andb_false_iff. right. apply N.leb_gt. lia. }
  discriminate.
Qed.

(* ------------------------------------------------------------------------------------------ *)
(* decoding can be split in front of any byte that is not a continuation byte *)

Definition nc_start (q : list N) : Prop := match q with [] => True | c :: _ => cont c = false end.

Lemma nc_inr3 : forall b0 c, cont c = false ->
  inr (if b0 =? 224 then 160 else 128) (if b0 =? 237 then 159 else 191) c = false.
Proof.
  intros b0 c H. unfold cont, inr in *. rewrite andb_false_iff in *. rewrite !N.leb_gt in *.
  destruct (b0 =? 224); destruct (b0 =? 237); lia.
Qed.

Lemma nc_inr4 : forall b0 c, cont c = false ->
  inr (if b0 =? 240 then 144 else 128) (if b0 =? 244 then 143 else 191) c = false.
Proof.
  intros b0 c H. unfold cont, inr in *. rewrite andb_false_iff in *. rewrite !N.leb_gt in *.
  destruct (b0 =? 240); destruct (b0 =? 244); lia.
Qed.

Lemma decode_app_nc_n : forall n p q, (length p <= n)%nat -> nc_start q ->
  decode (p ++ q) = decode p ++ decode q.
Proof.
  induction n as [|n IH]; intros p q Hl Hq.
  - destruct p; [reflexivity|simpl in Hl; lia].
  - destruct p as [|b0 p]; [reflexivity|]. simpl in Hl. cbn [app].
    assert (IH' : forall p', (length p' <= length p)%nat -> decode (p' ++ q) = decode p' ++ decode q)
      by (intros; apply IH; [lia|exact Hq]).
    rewrite (decode_cons b0 (p ++ q)), (decode_cons b0 p). cbv beta iota.
    destruct (b0 <? 128) eqn:E1.
    { simpl. f_equal. apply IH'. lia. }
    destruct (inr 194 223 b0) eqn:E2.
    { destruct p as [|b1 p1]; cbn [app].
      - destruct q as [|c q']; [reflexivity|]. simpl in Hq. rewrite Hq. reflexivity.
      - destruct (cont b1); simpl; f_equal; [apply IH'; simpl; lia|apply (IH' (b1 :: p1)); simpl; lia]. }
    destruct (inr 224 239 b0) eqn:E3.
    { destruct p as [|b1 [|b2 p2]]; cbn [app].
      - destruct q as [|c [|c2 q']]; try reflexivity. simpl in Hq. rewrite (nc_inr3 b0 c Hq). reflexivity.
      - destruct q as [|c q']; [rewrite app_nil_r; reflexivity|]. simpl in Hq. rewrite Hq, andb_false_r.
        simpl. f_equal. apply (IH' [b1]). simpl. lia.
      - match goal with |- context [if ?c then _ else _] => destruct c end; simpl; f_equal;
          [apply IH'; simpl; lia|apply (IH' (b1 :: b2 :: p2)); simpl; lia]. }
    destruct (inr 240 244 b0) eqn:E4.
    { destruct p as [|b1 [|b2 [|b3 p3]]]; cbn [app].
      - destruct q as [|c [|c2 [|c3 q']]]; try reflexivity. simpl in Hq. rewrite (nc_inr4 b0 c Hq). reflexivity.
      - destruct q as [|c [|c2 q']]; try (rewrite ?app_nil_r; reflexivity).
        + simpl. f_equal. apply (IH' [b1]). simpl. lia.
        + simpl in Hq. rewrite Hq, andb_false_r. simpl. f_equal. apply (IH' [b1]). simpl. lia.
      - destruct q as [|c q']; [rewrite app_nil_r; reflexivity|]. simpl in Hq. rewrite Hq, andb_false_r.
        simpl. f_equal. apply (IH' [b1; b2]). simpl. lia.
      - match goal with |- context [if ?c then _ else _] => destruct c end; simpl; f_equal;
          [apply IH'; simpl; lia|apply (IH' (b1 :: b2 :: b3 :: p3)); simpl; lia]. }
    simpl. f_equal. apply IH'. lia.
Qed.

Lemma decode_app_nc : forall p q, nc_start q -> decode (p ++ q) = decode p ++ decode q.
Proof. intros. eapply decode_app_nc_n; eauto. Qed.

(* the condition under which importedString.Concat joins the raw bytes *)
Lemma last_rune_ok_app : forall s t, last_rune_ok s = true -> decode (s ++ t) = decode s ++ decode t.
Proof.
  intros s t H. unfold last_rune_ok in H. destruct s as [|b s']; [reflexivity|].
  set (s := b :: s') in *. apply existsb_exists in H. destruct H as (k & _ & Hk).
  set (m := (length s - k)%nat) in *. unfold one_rune in Hk.
  destruct (decode_strict (skipn m s)) as [[|x [|? ?]]|] eqn:D; try discriminate.
  rewrite <- (firstn_skipn m s) at 1 2. set (p := firstn m s) in *. set (q := skipn m s) in *.
  assert (Hq : nc_start q).
  { destruct q as [|c q']; [exact I|]. simpl. eapply strict_first_nc. exact D. }
  assert (Hqt : nc_start (q ++ t)).
  { destruct q as [|c q']; [simpl in D; discriminate|]. exact Hq. }
  rewrite <- app_assoc, (decode_app_nc p (q ++ t) Hqt), (decode_app_nc p q Hq).
  rewrite (decode_strict_app q [x] t D), (decode_strict_decode q [x] D), <- app_assoc. reflexivity.
Qed.

(* ------------------------------------------------------------------------------------------ *)
(* UTF-8 round trip: a well-formed byte string is the encoding of its runes, which are scalar values *)

Definition scalar (r : N) : Prop := r < 55296 \/ (57344 <= r /\ r <= 1114111).

Lemma enc8_2 : forall b0 b1, 194 <= b0 -> b0 <= 223 -> 128 <= b1 -> b1 <= 191 ->
  enc8 ((b0 - 192) * 64 + (b1 - 128)) = [b0; b1] /\ scalar ((b0 - 192) * 64 + (b1 - 128)).
Proof.
  intros b0 b1 H1 H2 H3 H4. set (r := (b0 - 192) * 64 + (b1 - 128)).
  assert (Hr : 128 <= r /\ r < 2048) by (unfold r; lia).
  split; [|left; lia]. unfold enc8.
  assert (r <? 128 = false) as -> by (apply N.ltb_ge; lia).
  assert (r <? 2048 = true) as -> by (apply N.ltb_lt; lia).
  assert (r / 64 = b0 - 192) as -> by (symmetry; apply N.div_unique with (b1 - 128); unfold r; lia).
  assert (r mod 64 = b1 - 128) as -> by (symmetry; apply N.mod_unique with (b0 - 192); unfold r; lia).
  f_equal; [lia|f_equal; lia].
Qed.

Lemma enc8_3 : forall b0 b1 b2, 224 <= b0 -> b0 <= 239 ->
  (if b0 =? 224 then 160 else 128) <= b1 -> b1 <= (if b0 =? 237 then 159 else 191) -> 128 <= b2 -> b2 <= 191 ->
  enc8 ((b0 - 224) * 4096 + (b1 - 128) * 64 + (b2 - 128)) = [b0; b1; b2] /\
  scalar ((b0 - 224) * 4096 + (b1 - 128) * 64 + (b2 - 128)).
Proof.
  intros b0 b1 b2 H1 H2 H3 H4 H5 H6. set (r := (b0 - 224) * 4096 + (b1 - 128) * 64 + (b2 - 128)).
  assert (Hb1 : 128 <= b1 /\ b1 <= 191) by (destruct (b0 =? 224); destruct (b0 =? 237); lia).
  assert (Hr : 2048 <= r /\ r < 65536).
  { unfold r. destruct (b0 =? 224) eqn:E; [apply N.eqb_eq in E|apply N.eqb_neq in E]; lia. }
  split.
  - unfold enc8.
    assert (r <? 128 = false) as -> by (apply N.ltb_ge; lia).
    assert (r <? 2048 = false) as -> by (apply N.ltb_ge; lia).
    assert (r <? 65536 = true) as -> by (apply N.ltb_lt; lia).
    assert (r / 4096 = b0 - 224) as ->
      by (symmetry; apply N.div_unique with ((b1 - 128) * 64 + (b2 - 128)); unfold r; lia).
    assert (r / 64 = (b0 - 224) * 64 + (b1 - 128)) as ->
      by (symmetry; apply N.div_unique with (b2 - 128); unfold r; lia).
    assert (((b0 - 224) * 64 + (b1 - 128)) mod 64 = b1 - 128) as ->
      by (symmetry; apply N.mod_unique with (b0 - 224); lia).
    assert (r mod 64 = b2 - 128) as ->
      by (symmetry; apply N.mod_unique with ((b0 - 224) * 64 + (b1 - 128)); unfold r; lia).
    f_equal; [lia|f_equal; [lia|f_equal; lia]].
  - unfold scalar, r. destruct (b0 =? 237) eqn:E; [apply N.eqb_eq in E|apply N.eqb_neq in E]; lia.
Qed.

Lemma enc8_4 : forall b0 b1 b2 b3, 240 <= b0 -> b0 <= 244 ->
  (if b0 =? 240 then 144 else 128) <= b1 -> b1 <= (if b0 =? 244 then 143 else 191) ->
  128 <= b2 -> b2 <= 191 -> 128 <= b3 -> b3 <= 191 ->
  enc8 ((b0 - 240) * 262144 + (b1 - 128) * 4096 + (b2 - 128) * 64 + (b3 - 128)) = [b0; b1; b2; b3] /\
  scalar ((b0 - 240) * 262144 + (b1 - 128) * 4096 + (b2 - 128) * 64 + (b3 - 128)).
Proof.
  intros b0 b1 b2 b3 H1 H2 H3 H4 H5 H6 H7 H8.
  set (r := (b0 - 240) * 262144 + (b1 - 128) * 4096 + (b2 - 128) * 64 + (b3 - 128)).
  assert (Hb1 : 128 <= b1 /\ b1 <= 191) by (destruct (b0 =? 240); destruct (b0 =? 244); lia).
  assert (Hr : 65536 <= r /\ r <= 1114111).
  { unfold r. destruct (b0 =? 240) eqn:E; [apply N.eqb_eq in E|apply N.eqb_neq in E];
    destruct (b0 =? 244) eqn:E'; [apply N.eqb_eq in E'|apply N.eqb_neq in E'| apply N.eqb_eq in E'|apply N.eqb_neq in E']; lia. }
  split; [|right; lia]. unfold enc8.
  assert (r <? 128 = false) as -> by (apply N.ltb_ge; lia).
  assert (r <? 2048 = false) as -> by (apply N.ltb_ge; lia).
  assert (r <? 65536 = false) as -> by (apply N.ltb_ge; lia).
  assert (r / 262144 = b0 - 240) as ->
    by (symmetry; apply N.div_unique with ((b1 - 128) * 4096 + (b2 - 128) * 64 + (b3 - 128)); unfold r; lia).
  assert (r / 4096 = (b0 - 240) * 64 + (b1 - 128)) as ->
    by (symmetry; apply N.div_unique with ((b2 - 128) * 64 + (b3 - 128)); unfold r; lia).
  assert (((b0 - 240) * 64 + (b1 - 128)) mod 64 = b1 - 128) as ->
    by (symmetry; apply N.mod_unique with (b0 - 240); lia).
  assert (r / 64 = (b0 - 240) * 4096 + (b1 - 128) * 64 + (b2 - 128)) as ->
    by (symmetry; apply N.div_unique with (b3 - 128); unfold r; lia).
  assert (((b0 - 240) * 4096 + (b1 - 128) * 64 + (b2 - 128)) mod 64 = b2 - 128) as ->
    by (symmetry; apply N.mod_unique with ((b0 - 240) * 64 + (b1 - 128)); lia).
  assert (r mod 64 = b3 - 128) as ->
    by (symmetry; apply N.mod_unique with ((b0 - 240) * 4096 + (b1 - 128) * 64 + (b2 - 128)); unfold r; lia).
  f_equal; [lia|f_equal; [lia|f_equal; [lia|f_equal; lia]]].
Qed.

Ltac inr_le H :=
  unfold inr, cont in H; repeat (apply andb_true_iff in H; let H' := fresh H in destruct H as [H H']);
  repeat match goal with X : (_ <=? _) = true |- _ => apply N.leb_le in X end.

Lemma utf8_roundtrip_n : forall n s r, (length s <= n)%nat -> decode_strict s = Some r ->
  flat_map enc8 r = s /\ Forall scalar r.
Proof.
  induction n as [|n IH]; intros s r Hl H.
  - destruct s; [|simpl in Hl; lia]. simpl in H. inversion H. simpl. auto.
  - destruct s as [|b0 s]; [simpl in H; inversion H; simpl; auto|].
    simpl in Hl. dsstep H.
    destruct (b0 <? 128) eqn:E1.
    { destruct (decode_strict s) as [r'|] eqn:D; [|discriminate]. simpl in H. inversion H; subst.
      destruct (IH s r' ltac:(lia) D) as [Hs Hf]. apply N.ltb_lt in E1. split.
      - simpl. unfold enc8 at 1. assert (b0 <? 128 = true) as -> by (apply N.ltb_lt; lia). simpl. f_equal. exact Hs.
      - constructor; [left; lia|exact Hf]. }
    destruct (inr 194 223 b0) eqn:E2.
    { destruct s as [|b1 s1]; [discriminate|]. cbv beta iota in H.
      destruct (cont b1) eqn:C1; [|discriminate].
      destruct (decode_strict s1) as [r'|] eqn:D; [|discriminate]. simpl in H. inversion H; subst.
      destruct (IH s1 r' ltac:(simpl in Hl; lia) D) as [Hs Hf]. inr_le E2. inr_le C1.
      destruct (enc8_2 b0 b1) as [He Hsc]; auto. split.
      - simpl. rewrite He. simpl. rewrite Hs. reflexivity.
      - constructor; auto. }
    destruct (inr 224 239 b0) eqn:E3.
    { destruct s as [|b1 [|b2 s2]]; try discriminate. cbv beta iota in H.
      match type of H with (if ?c then _ else _) = _ => destruct c eqn:C end; [|discriminate].
      destruct (decode_strict s2) as [r'|] eqn:D; [|discriminate]. simpl in H. inversion H; subst.
      destruct (IH s2 r' ltac:(simpl in Hl; lia) D) as [Hs Hf]. inr_le E3.
      apply andb_true_iff in C. destruct C as [C C2]. inr_le C. inr_le C2.
      destruct (enc8_3 b0 b1 b2) as [He Hsc]; auto. split.
      - simpl. rewrite He. simpl. rewrite Hs. reflexivity.
      - constructor; auto. }
    destruct (inr 240 244 b0) eqn:E4.
    { destruct s as [|b1 [|b2 [|b3 s3]]]; try discriminate. cbv beta iota in H.
      match type of H with (if ?c then _ else _) = _ => destruct c eqn:C end; [|discriminate].
      destruct (decode_strict s3) as [r'|] eqn:D; [|discriminate]. simpl in H. inversion H; subst.
      destruct (IH s3 r' ltac:(simpl in Hl; lia) D) as [Hs Hf]. inr_le E4.
      apply andb_true_iff in C. destruct C as [C C3]. apply andb_true_iff in C. destruct C as [C C2].
      inr_le C. inr_le C2. inr_le C3.
      destruct (enc8_4 b0 b1 b2 b3) as [He Hsc]; auto. split.
      - simpl. rewrite He. simpl. rewrite Hs. reflexivity.
      - constructor; auto. }
    discriminate.
Qed.

Lemma utf8_roundtrip : forall s r, decode_strict s = Some r -> flat_map enc8 r = s /\ Forall scalar r.
Proof. intros. eapply utf8_roundtrip_n; eauto. Qed.

(* UTF-16 round trip on scalar values *)
Lemma utf16_roundtrip : forall r, Forall scalar r -> dec16 (flat_map enc16 r) = r.
Proof.
  induction 1 as [|x r Hx Hr IH]; [reflexivity|].
  simpl. unfold enc16. destruct (x <=? 65535) eqn:E.
  - apply N.leb_le in E. cbn [app]. rewrite dec16_cons. cbv beta iota.
    assert (is_hi x = false) as ->.
    { unfold is_hi, inr. apply andb_false_iff. rewrite !N.leb_gt. destruct Hx; lia. }
    assert (is_lo x = false) as ->.
    { unfold is_lo, inr. apply andb_false_iff. rewrite !N.leb_gt. destruct Hx; lia. }
    f_equal. exact IH.
  - apply N.leb_gt in E. assert (Hm : x <= 1114111) by (destruct Hx; lia).
    set (d := x - 65536). assert (Hd : d <= 1048575) by (unfold d; lia).
    assert (Hxd : x = d + 65536) by (unfold d; lia). clearbody d.
    assert (Hq : d / 1024 <= 1023).
    { assert (d / 1024 < 1024); [apply N.div_lt_upper_bound; lia|lia]. }
    assert (Hmod : d mod 1024 < 1024) by (apply N.mod_lt; lia).
    pose proof (N.div_mod d 1024 ltac:(lia)) as Hdm.
    remember (d / 1024) as q eqn:Eq. remember (d mod 1024) as m eqn:Em. clear Eq Em.
    cbn [app]. rewrite dec16_cons. cbv beta iota.
    assert (is_hi (55296 + q) = true) as ->.
    { unfold is_hi, inr. apply andb_true_iff. rewrite !N.leb_le. lia. }
    assert (is_lo (56320 + m) = true) as ->.
    { unfold is_lo, inr. apply andb_true_iff. rewrite !N.leb_le. lia. }
    f_equal; [|exact IH]. unfold pair_rune.
    lia.
Qed.

(* consequence: a well-formed Go string is the UTF-8 of its UTF-16 meaning *)
Lemma valid_export : forall s, valid_utf8 s = true ->
  flat_map enc8 (dec16 (flat_map enc16 (decode s))) = s.
Proof.
  intros s H. unfold valid_utf8 in H. destruct (decode_strict s) as [r|] eqn:D; [|discriminate].
  rewrite (decode_strict_decode s r D). destruct (utf8_roundtrip s r D) as [Hs Hf].
  rewrite (utf16_roundtrip r Hf). exact Hs.
Qed.
