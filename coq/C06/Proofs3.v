(* C06 — lemmas, part 3: the statements of Properties/C06.v assembled from Proofs.v and Proofs2.v *)
From Coq Require Import List NArith ZArith Bool.
Import ListNotations.
From Verif.C06 Require Import Model Proofs Proofs2.
Local Open Scope N_scope.

Lemma T_nf_closed_constructors : forall (s us cps rs : list N),
  nf (new_string_value s) = true /\ nf (to_value s) = true /\ nf (from_utf16 us) = true /\
  nf (from_code_points cps) = true /\ nf (from_runes rs) = true.
Proof.
  intros. repeat split; [exact (proj1 (new_string_value_spec s)) | exact (proj1 (to_value_spec s))
  | exact (proj1 (from_utf16_spec us)) | exact (proj1 (from_code_points_spec cps)) | exact (proj1 (from_runes_spec rs))].
Qed.

Lemma T_nf_closed : forall a b s e, nf a = true -> nf b = true ->
  nf (concat a b) = true /\ nf (substring a s e) = true /\ nf (devirt a) = true.
Proof.
  intros a b s e Ha Hb. repeat split;
  [exact (concat_nf a b Ha Hb) | exact (proj1 (substring_spec a s e Ha)) | exact (nf_devirt a Ha)].
Qed.

Lemma T_builder_nf_units : forall l, Forall (fun s => nf s = true) l ->
  let st := fold_left usb_write l ([], false) in
  nf (usb_string (fst st) (snd st)) = true /\ units (usb_string (fst st) (snd st)) = List.concat (map units l).
Proof.
  intros l Hl st. destruct (usb_fold_spec l ([], false) eq_refl Hl) as [Hi Hf]. fold st in Hi, Hf.
  destruct st as [buf f]. simpl in *. subst buf. exact (usb_string_spec _ f Hi).
Qed.

Lemma T_constructors_eq_spec : forall (s us cps : list N),
  units (new_string_value s) = flat_map enc16 (decode s) /\ units (to_value s) = flat_map enc16 (decode s) /\
  units (from_utf16 us) = us /\ units (from_code_points cps) = s_from_code_points cps.
Proof.
  intros. repeat split; [exact (proj2 (new_string_value_spec s)) | exact (proj2 (to_value_spec s))
  | exact (proj2 (from_utf16_spec us)) | exact (proj2 (from_code_points_spec cps))].
Qed.

Lemma T_strop_eq_spec_partial : forall a b s e i, nf a = true -> nf b = true ->
  (both_unscanned a b = false -> units (concat a b) = units a ++ units b) /\
  units (substring a s e) = cut (units a) s e /\
  char_at a i = nth i (units a) 0 /\
  length_of a = length (units a) /\
  units (devirt a) = units a.
Proof.
  intros a b s e i Ha Hb. repeat split;
  [exact (concat_units a b Ha Hb) | exact (proj2 (substring_spec a s e Ha)) | exact (char_at_spec a i)
  | exact (length_of_spec a) | exact (units_devirt a)].
Qed.

Lemma T_strict_equals_partial : forall a b, nf a = true -> nf b = true -> both_imported a b = false ->
  (strict_equals a b = true <-> units a = units b).
Proof.
  intros a b Ha Hb Hi. split;
  [exact (Proofs2.strict_equals_sound a b Ha Hb) | exact (strict_equals_complete a b Ha Hb Hi)].
Qed.

Lemma T_key_hash_agree : forall a b, nf a = true -> nf b = true ->
  (raw_key a = raw_key b <-> units a = units b) /\ (hash_bytes a = hash_bytes b <-> units a = units b).
Proof.
  intros a b Ha Hb. split; [exact (raw_key_spec a b Ha Hb)|].
  rewrite !hash_bytes_raw_key. exact (raw_key_spec a b Ha Hb).
Qed.

Lemma T_lex_order : forall a b, (lex a b = Eq <-> a = b) /\ CompOpp (lex a b) = lex b a.
Proof. intros a b. split; [exact (lex_eq a b) | exact (lex_opp a b)]. Qed.
