(* C06 — lemmas, part 3: the statements of Properties/C06.v assembled from the other proof files *)
From Coq Require Import List NArith ZArith Bool.
Import ListNotations.
From Verif.C06 Require Import Model Proofs Utf8 Proofs2 Proofs4 Proofs5.
Local Open Scope N_scope.

Lemma T_nf_closed_constructors : forall (s us cps rs : list N),
  nf (new_string_value s) = true /\ nf (to_value s) = true /\ nf (from_utf16 us) = true /\
  nf (from_code_points cps) = true /\ nf (from_runes rs) = true.
Proof.
  intros. repeat split; [exact (proj1 (new_string_value_spec s)) | exact (proj1 (to_value_spec s))
  | exact (proj1 (from_utf16_spec us)) | exact (proj1 (from_code_points_spec cps)) | exact (proj1 (from_runes_spec rs))].
Qed.

Lemma T_nf_closed : forall a b s e, nf a = true -> nf b = true ->
  nf (concat a b) = true /\ nf (substring a s e) = true /\ nf (devirt a) = true.
Proof.
  intros a b s e Ha Hb. repeat split;
  [exact (concat_nf a b Ha Hb) | exact (proj1 (substring_spec a s e Ha)) | exact (nf_devirt a Ha)].
Qed.

Lemma T_builder_nf_units : forall l, Forall (fun s => nf s = true) l ->
  let st := fold_left usb_write l ([], false) in
  nf (usb_string (fst st) (snd st)) = true /\ units (usb_string (fst st) (snd st)) = List.concat (map units l).
Proof.
  intros l Hl st. destruct (usb_fold_spec l ([], false) eq_refl Hl) as [Hi Hf]. fold st in Hi, Hf.
  destruct st as [buf f]. simpl in *. subst buf. exact (usb_string_spec _ f Hi).
Qed.

Lemma T_constructors_eq_spec : forall (s us cps : list N),
  units (new_string_value s) = flat_map enc16 (decode s) /\ units (to_value s) = flat_map enc16 (decode s) /\
  units (from_utf16 us) = us /\ units (from_code_points cps) = s_from_code_points cps.
Proof.
  intros. repeat split; [exact (proj2 (new_string_value_spec s)) | exact (proj2 (to_value_spec s))
  | exact (proj2 (from_utf16_spec us)) | exact (proj2 (from_code_points_spec cps))].
Qed.

Lemma T_strop_eq_spec : forall a b s e i, nf a = true -> nf b = true ->
  units (concat a b) = units a ++ units b /\
  units (substring a s e) = cut (units a) s e /\
  char_at a i = nth i (units a) 0 /\
  length_of a = length (units a) /\
  units (devirt a) = units a.
Proof.
  intros a b s e i Ha Hb. repeat split;
  [exact (concat_units a b Ha Hb) | exact (proj2 (substring_spec a s e Ha)) | exact (char_at_spec a i)
  | exact (length_of_spec a) | exact (units_devirt a)].
Qed.

Lemma T_builtins_eq_spec : forall a f (s e : Z) (n : nat) (st up' : bool) (m : N) l1 l2 l3,
  nf a = true -> nf f = true ->
  units (i_slice a s e) = s_slice (units a) s e /\
  units (i_substring a s e) = s_substring (units a) s e /\
  units (i_substr a s e) = s_substr (units a) s e /\
  units (i_at a s) = s_at (units a) s /\
  units (i_char_at a s) = s_char_at (units a) s /\
  units (i_repeat a n) = s_repeat (units a) n /\
  units (i_pad a s f st) = s_pad (units a) s (units f) st /\
  units (concat_strings (lit_part l1 ++ [a] ++ lit_part l2 ++ [f] ++ lit_part l3)) = l1 ++ units a ++ l2 ++ units f ++ l3 /\
  units (i_trim m a) =
    (if m =? 0 then s_trim (units a) else if m =? 1 then s_trim_start (units a) else s_trim_end (units a)) /\
  units (i_case up' a) = map (if up' then up else low) (units a).
Proof.
  intros a f s e n st up' m l1 l2 l3 Ha Hf. repeat split;
  [ exact (i_slice_units a s e Ha) | exact (i_substring_units a s e Ha) | exact (i_substr_units a s e Ha)
  | exact (i_at_units a s Ha) | exact (i_char_at_units a s Ha) | exact (i_repeat_units a n Ha)
  | exact (i_pad_units a s f st Ha Hf) | exact (template_units l1 a l2 f l3 Ha Hf)
  | exact (i_trim_units m a Ha) | exact (i_case_units up' a) ].
Qed.

Lemma T_eq_hash_key_agree : forall a b, nf a = true -> nf b = true ->
  (strict_equals a b = true <-> units a = units b) /\
  (same_as a b = true <-> units a = units b) /\
  (equals a b = true <-> units a = units b) /\
  (raw_key a = raw_key b <-> units a = units b) /\
  (hash_bytes a = hash_bytes b <-> units a = units b) /\
  (map_hit a b = true <-> units a = units b) /\
  (objkey_hit a b = true <-> units a = units b).
Proof.
  intros a b Ha Hb. repeat split;
  try (apply (strict_equals_iff a b Ha Hb)); try (apply (equals_iff a b Ha Hb));
  try (apply (raw_key_spec a b Ha Hb)); try (apply (map_hit_iff a b Ha Hb)); try (apply (objkey_hit_iff a b Ha Hb));
  rewrite !hash_bytes_raw_key; apply (raw_key_spec a b Ha Hb).
Qed.

Lemma T_lex_order : forall a b, (lex a b = Eq <-> a = b) /\ CompOpp (lex a b) = lex b a.
Proof. intros a b. split; [exact (lex_eq a b) | exact (lex_opp a b)]. Qed.

(* end to end: two expression trees (no JSON node) with the same reference value are indistinguishable through every
   observable of the model, whatever representations they end up in *)
Lemma T_equal_trees_indistinguishable : forall e1 e2, plain e1 = true -> plain e2 = true -> seval e1 = seval e2 ->
  let a := ieval e1 in let b := ieval e2 in
  strict_equals a b = true /\ strict_equals b a = true /\ same_as a b = true /\ equals a b = true /\
  compare_to a b = Eq /\ compare_to b a = Eq /\
  map_hit a b = true /\ map_hit b a = true /\ objkey_hit a b = true /\ hash_bytes a = hash_bytes b /\
  length_of a = length_of b /\ (forall i, char_at a i = char_at b i).
Proof.
  intros e1 e2 H1 H2 H a b.
  assert (Hu : units a = units b) by (unfold a, b; rewrite !ieval_units by assumption; exact H).
  pose proof (ieval_nf e1) as Ha. pose proof (ieval_nf e2) as Hb. fold a in Ha. fold b in Hb.
  destruct (T_eq_hash_key_agree a b Ha Hb) as (Q1 & Q2 & Q3 & Q4 & Q5 & Q6 & Q7).
  destruct (T_eq_hash_key_agree b a Hb Ha) as (R1 & R2 & R3 & R4 & R5 & R6 & R7).
  repeat split; try (apply Q1; exact Hu); try (apply R1; symmetry; exact Hu); try (apply Q2; exact Hu);
    try (apply Q3; exact Hu); try (apply Q6; exact Hu); try (apply R6; symmetry; exact Hu);
    try (apply Q7; exact Hu); try (apply Q5; exact Hu).
  - rewrite compare_to_spec, Hu. apply lex_eq. reflexivity.
  - rewrite compare_to_spec, Hu. apply lex_eq. reflexivity.
  - rewrite !length_of_spec, Hu. reflexivity.
  - intros i. rewrite !char_at_spec, Hu. reflexivity.
Qed.

Lemma T_different_trees_ordered : forall e1 e2, plain e1 = true -> plain e2 = true -> seval e1 <> seval e2 ->
  strict_equals (ieval e1) (ieval e2) = false /\ map_hit (ieval e1) (ieval e2) = false /\
  objkey_hit (ieval e1) (ieval e2) = false /\ compare_to (ieval e1) (ieval e2) = lex (seval e1) (seval e2) /\
  compare_to (ieval e1) (ieval e2) <> Eq.
Proof.
  intros e1 e2 H1 H2 H.
  pose proof (ieval_nf e1) as Ha. pose proof (ieval_nf e2) as Hb.
  destruct (T_eq_hash_key_agree _ _ Ha Hb) as (Q1 & _ & _ & _ & _ & Q6 & Q7).
  rewrite !ieval_units in * by assumption.
  repeat split.
  - destruct (strict_equals (ieval e1) (ieval e2)); [exfalso; apply H; apply Q1; reflexivity|reflexivity].
  - destruct (map_hit (ieval e1) (ieval e2)); [exfalso; apply H; apply Q6; reflexivity|reflexivity].
  - destruct (objkey_hit (ieval e1) (ieval e2)); [exfalso; apply H; apply Q7; reflexivity|reflexivity].
  - rewrite compare_to_spec, !ieval_units by assumption. reflexivity.
  - rewrite compare_to_spec, !ieval_units by assumption. intro E. apply H. apply lex_eq. exact E.
Qed.
