(* C06 — lemmas, part 5: the builtin transcriptions (slice, substring, substr, at, charAt, repeat, padStart/padEnd,
   template literals, trim*, ASCII case mapping) act on the UTF-16 units exactly as the spec functions; tree level *)
From Coq Require Import List NArith ZArith Bool Lia Arith.
Import ListNotations.
From Verif.C06 Require Import Model Proofs Utf8 Proofs2 Proofs4.
Local Open Scope N_scope.

Lemma i_sub_units : forall a s e, nf a = true -> units (i_sub a s e) = zcut (units a) s e.
Proof. intros. unfold i_sub, zcut. apply substring_spec. assumption. Qed.

Lemma zlen_length_of : forall a, Z.of_nat (length_of a) = zlen (units a).
Proof. intros. unfold zlen. rewrite length_of_spec. reflexivity. Qed.

Ltac zb :=
  repeat match goal with
         | |- context [(?a <? ?b)%Z] => destruct (Z.ltb_spec a b)
         | |- context [(?a <=? ?b)%Z] => destruct (Z.leb_spec a b)
         | _ : context [(?a <? ?b)%Z] |- _ => destruct (Z.ltb_spec a b)
         | _ : context [(?a <=? ?b)%Z] |- _ => destruct (Z.leb_spec a b)
         end.

Ltac fin_sub Ha :=
  simpl orb; cbv beta iota;
  first [ reflexivity
        | rewrite (i_sub_units _ _ _ Ha); unfold zcut; f_equal; f_equal; lia
        | exfalso; lia ].

Lemma i_slice_units : forall a s e, nf a = true -> units (i_slice a s e) = s_slice (units a) s e.
Proof.
  intros a s e Ha. unfold i_slice, s_slice. cbv zeta. rewrite zlen_length_of.
  pose proof (Zle_0_nat (length (units a))) as Hl. unfold zlen in *. set (l := Z.of_nat (length (units a))) in *.
  zb; fin_sub Ha.
Qed.

Lemma i_substring_units : forall a s e, nf a = true -> units (i_substring a s e) = s_substring (units a) s e.
Proof.
  intros a s e Ha. unfold i_substring, s_substring. cbv zeta. rewrite zlen_length_of.
  pose proof (Zle_0_nat (length (units a))) as Hl. unfold zlen in *. set (l := Z.of_nat (length (units a))) in *.
  zb; fin_sub Ha.
Qed.

Lemma i_substr_units : forall a s n, nf a = true -> units (i_substr a s n) = s_substr (units a) s n.
Proof.
  intros a s n Ha. unfold i_substr, s_substr. cbv zeta. rewrite zlen_length_of.
  pose proof (Zle_0_nat (length (units a))) as Hl. unfold zlen in *. set (l := Z.of_nat (length (units a))) in *.
  zb; fin_sub Ha.
Qed.

Lemma i_at_units : forall a i, nf a = true -> units (i_at a i) = s_at (units a) i.
Proof.
  intros a i Ha. unfold i_at, s_at. cbv zeta. rewrite zlen_length_of.
  pose proof (Zle_0_nat (length (units a))) as Hl. unfold zlen in *. set (l := Z.of_nat (length (units a))) in *.
  zb; fin_sub Ha.
Qed.

Lemma i_char_at_units : forall a i, nf a = true -> units (i_char_at a i) = s_char_at (units a) i.
Proof.
  intros a i Ha. unfold i_char_at, s_char_at. cbv zeta. rewrite zlen_length_of.
  pose proof (Zle_0_nat (length (units a))) as Hl. unfold zlen in *. set (l := Z.of_nat (length (units a))) in *.
  zb; fin_sub Ha.
Qed.

(* ------------------------------------------------------------------------------------------ *)
(* repeat *)

Lemma concat_repeat_nil : forall n, List.concat (List.repeat (@nil N) n) = [].
Proof. induction n; simpl; auto. Qed.

Lemma i_repeat_units : forall a n, nf a = true -> units (i_repeat a n) = s_repeat (units a) n.
Proof.
  intros a n Ha. unfold i_repeat, s_repeat.
  destruct (n =? 0)%nat eqn:En; simpl orb; cbv iota.
  { apply Nat.eqb_eq in En. subst. reflexivity. }
  destruct (length_of a =? 0)%nat eqn:El; cbv iota.
  { apply Nat.eqb_eq in El. rewrite length_of_spec in El. destruct (units a); [|discriminate].
    rewrite concat_repeat_nil. reflexivity. }
  rewrite <- (units_devirt a). destruct (devirt_shape a); reflexivity.
Qed.

(* ------------------------------------------------------------------------------------------ *)
(* template literals / concatStrings *)

Lemma concat_strings_units : forall l, Forall (fun s => nf s = true) l ->
  units (concat_strings l) = List.concat (map units l).
Proof.
  intros l Hl. unfold concat_strings. cbv zeta.
  assert (Hm : map units (map devirt l) = map units l).
  { rewrite map_map. apply map_ext. apply units_devirt. }
  destruct (forallb _ (map devirt l)) eqn:E.
  - simpl. rewrite <- Hm. f_equal. apply map_ext_in. intros x Hx.
    rewrite forallb_forall in E. specialize (E x Hx). destruct x; try discriminate. reflexivity.
  - pose proof (forall_nf_devirt l Hl) as Hd.
    destruct (usb_fold_spec (map devirt l) ([], false) usb_inv_init Hd) as [Hi Hf].
    destruct (fold_left usb_write (map devirt l) ([], false)) as [buf f]. simpl in *.
    rewrite (proj2 (usb_string_spec buf f Hi)), Hf, Hm. reflexivity.
Qed.

Lemma lit_part_units : forall l, List.concat (map units (lit_part l)) = l.
Proof.
  destruct l as [|c l]; [reflexivity|]. unfold lit_part. simpl.
  rewrite (proj2 (from_utf16_spec (c :: l))). apply app_nil_r.
Qed.

Lemma template_units : forall l a m b r, nf a = true -> nf b = true ->
  units (concat_strings (lit_part l ++ [a] ++ lit_part m ++ [b] ++ lit_part r)) =
  l ++ units a ++ m ++ units b ++ r.
Proof.
  intros l a m b r Ha Hb. rewrite concat_strings_units.
  - rewrite !map_app, !concat_app, !lit_part_units. simpl. rewrite !app_nil_r. reflexivity.
  - apply Forall_app; split; [apply lit_part_nf|]. constructor; [assumption|].
    apply Forall_app; split; [apply lit_part_nf|]. constructor; [assumption|]. apply lit_part_nf.
Qed.

(* ------------------------------------------------------------------------------------------ *)
(* padStart / padEnd: the loop "whole fillers, then a prefix of the filler" is the truncated repetition *)

Lemma length_concat_repeat : forall (f : list N) q, length (List.concat (List.repeat f q)) = (q * length f)%nat.
Proof. induction q; simpl; auto. rewrite app_length, IHq. reflexivity. Qed.

Lemma repeat_app' : forall (f : list N) a b, List.repeat f (a + b) = List.repeat f a ++ List.repeat f b.
Proof. induction a; simpl; intros; auto. rewrite IHa. reflexivity. Qed.

Lemma cyc_fill : forall (f : list N) k, (0 < length f)%nat ->
  firstn k (List.concat (List.repeat f k)) =
  List.concat (List.repeat f (k / length f)) ++ firstn (k mod length f) f.
Proof.
  intros f k Hf. set (fl := length f) in *.
  pose proof (Nat.div_mod k fl ltac:(lia)) as Hdm. pose proof (Nat.mod_upper_bound k fl ltac:(lia)) as Hr.
  set (q := (k / fl)%nat) in *. set (r := (k mod fl)%nat) in *.
  assert (Hqk : (q <= k)%nat) by nia.
  replace k with (q + (k - q))%nat at 2 by lia.
  rewrite repeat_app', concat_app.
  replace k with (length (List.concat (List.repeat f q)) + r)%nat at 1
    by (rewrite length_concat_repeat; fold fl; lia).
  rewrite firstn_app_2. f_equal.
  destruct r as [|r'] eqn:Er; [reflexivity|].
  assert (Hkq : (k - q = S (k - q - 1))%nat) by nia.
  rewrite Hkq. simpl List.repeat. simpl List.concat.
  rewrite firstn_app. replace (S r' - length f)%nat with 0%nat by (fold fl; lia).
  simpl firstn at 2. apply app_nil_r.
Qed.

Lemma map_units_repeat : forall f q, map units (List.repeat f q) = List.repeat (units f) q.
Proof. induction q; simpl; auto. rewrite IHq. reflexivity. Qed.

Lemma forall_nf_repeat : forall f q, nf f = true -> Forall (fun s => nf s = true) (List.repeat f q).
Proof. induction q; simpl; intros; constructor; auto. Qed.

Lemma match_nonempty : forall (A B : Type) (l : list A) (x y : B),
  l <> [] -> match l with [] => x | _ :: _ => y end = y.
Proof. intros A B [|c l] x y H; [congruence|reflexivity]. Qed.

Lemma i_pad_units : forall a n f st, nf a = true -> nf f = true ->
  units (i_pad a n f st) = s_pad (units a) n (units f) st.
Proof.
  intros a n f st Ha Hf. unfold i_pad, s_pad. cbv zeta. rewrite zlen_length_of.
  pose proof (Zle_0_nat (length (units a))) as Hl. unfold zlen in *. set (l := Z.of_nat (length (units a))) in *.
  destruct (Z.leb_spec (Z.max n 0) l) as [H1|H1]; destruct (Z.leb_spec n l) as [H2|H2]; try lia; [reflexivity|].
  rewrite length_of_spec.
  destruct (length (units f) =? 0)%nat eqn:Efl.
  { apply Nat.eqb_eq in Efl. destruct (units f); [reflexivity|discriminate]. }
  apply Nat.eqb_neq in Efl.
  replace (Z.max n 0 - l)%Z with (n - l)%Z by lia.
  set (k := Z.to_nat (n - l)). set (fu := units f) in *. set (fl := length fu) in *.
  assert (Hfl : (0 < fl)%nat) by lia.
  assert (Hfill : firstn k (s_repeat fu k) =
                  List.concat (List.repeat fu (k / fl)) ++ firstn (k mod fl) fu) by (apply cyc_fill; exact Hfl).
  assert (Hne : fu <> []) by (intro Hc; unfold fl in Hfl; rewrite Hc in Hfl; simpl in Hfl; lia).
  rewrite (match_nonempty _ _ fu _ _ Hne), Hfill. clear Hfill.
  (* the builder path, for any pair of representations *)
  assert (Hbuilder :
     let st0 : list N * bool := ([], false) in
     let st1 := if st then st0 else usb_write st0 a in
     let st2 := fold_left usb_write (List.repeat f (k / fl)) st1 in
     let st3 := if (0 <? k mod fl)%nat then usb_write st2 (substring f 0 (k mod fl)) else st2 in
     let st4 := if st then usb_write st3 a else st3 in
     units (usb_string (fst st4) (snd st4)) =
     if st then (List.concat (List.repeat fu (k / fl)) ++ firstn (k mod fl) fu) ++ units a
     else units a ++ List.concat (List.repeat fu (k / fl)) ++ firstn (k mod fl) fu).
  { cbv zeta.
    set (st1 := if st then ([], false) else usb_write ([], false) a).
    assert (H1' : usb_inv st1 /\ fst st1 = if st then [] else units a).
    { unfold st1. destruct st; [split; reflexivity|]. apply (usb_write_spec ([], false) a usb_inv_init Ha). }
    destruct H1' as [Hi1 Hb1].
    destruct (usb_fold_spec (List.repeat f (k / fl)) st1 Hi1 (forall_nf_repeat f _ Hf)) as [Hi2 Hb2].
    set (st2 := fold_left usb_write (List.repeat f (k / fl)) st1) in *.
    rewrite map_units_repeat in Hb2. fold fu in Hb2.
    set (st3 := if (0 <? k mod fl)%nat then usb_write st2 (substring f 0 (k mod fl)) else st2).
    assert (H3' : usb_inv st3 /\ fst st3 = fst st2 ++ firstn (k mod fl) fu).
    { unfold st3. destruct (0 <? k mod fl)%nat eqn:E0.
      - destruct (usb_write_spec st2 (substring f 0 (k mod fl)) Hi2 (proj1 (substring_spec f 0 (k mod fl) Hf)))
          as [Hi Hb]. split; [exact Hi|]. rewrite Hb, (proj2 (substring_spec f 0 (k mod fl) Hf)).
        unfold cut. rewrite Nat.sub_0_r. reflexivity.
      - apply Nat.ltb_ge in E0. assert ((k mod fl = 0)%nat) as -> by lia. simpl. rewrite app_nil_r. auto. }
    destruct H3' as [Hi3 Hb3].
    set (st4 := if st then usb_write st3 a else st3).
    assert (H4' : usb_inv st4 /\ fst st4 = if st then fst st3 ++ units a else fst st3).
    { unfold st4. destruct st; [|auto]. apply (usb_write_spec st3 a Hi3 Ha). }
    destruct H4' as [Hi4 Hb4].
    destruct st4 as [buf fg]. simpl in Hb4. simpl fst. simpl snd.
    rewrite (proj2 (usb_string_spec buf fg Hi4)), Hb4, Hb3, Hb2, Hb1.
    destruct st; simpl; rewrite <- ?app_assoc; reflexivity. }
  pose proof (units_devirt a) as Hua. pose proof (units_devirt f) as Huf.
  destruct (devirt a) as [sa|ua|? ?] eqn:Da; destruct (devirt f) as [fa|uf|? ?] eqn:Df;
    try exact Hbuilder.
  simpl in Hua, Huf. fold fu in Huf. subst sa fa. destruct st; reflexivity.
Qed.

(* ------------------------------------------------------------------------------------------ *)
(* trim *)

Lemma skipn_count_ws : forall u, skipn (count_ws u) u = drop_ws u.
Proof. induction u as [|c u IH]; simpl; auto. destruct (is_ws c); simpl; auto. Qed.

Lemma count_ws_le : forall u, (count_ws u <= length u)%nat.
Proof. induction u as [|c u IH]; simpl; auto. destruct (is_ws c); lia. Qed.

Lemma firstn_trim_end : forall w, firstn (length w - count_ws (rev w)) w = s_trim_end w.
Proof.
  intros w. unfold s_trim_end. rewrite <- (skipn_count_ws (rev w)).
  rewrite skipn_rev, rev_involutive. reflexivity.
Qed.

Lemma i_trim_units : forall m a, nf a = true ->
  units (i_trim m a) =
  if m =? 0 then s_trim (units a) else if m =? 1 then s_trim_start (units a) else s_trim_end (units a).
Proof.
  intros m a Ha. unfold i_trim. cbv zeta. rewrite (proj2 (substring_spec a _ _ Ha)), payload_devirt.
  set (u := units a). unfold cut.
  destruct (m =? 0) eqn:E0; [|destruct (m =? 1) eqn:E1]; simpl orb; simpl negb; cbv iota.
  - (* trim *)
    unfold s_trim, s_trim_start. rewrite skipn_count_ws. rewrite <- firstn_trim_end.
    f_equal. rewrite <- (skipn_count_ws u), skipn_length. pose proof (count_ws_le u). lia.
  - (* trimStart *) unfold s_trim_start. rewrite skipn_count_ws, <- (skipn_count_ws u).
    apply firstn_all2. rewrite skipn_length. lia.
  - (* trimEnd *) simpl skipn. rewrite Nat.sub_0_r. apply firstn_trim_end.
Qed.

(* ------------------------------------------------------------------------------------------ *)
(* ASCII case mapping *)

Lemma enc16_case : forall (u : bool) r, enc16 ((if u then up else low) r) = map (if u then up else low) (enc16 r).
Proof.
  intros u r. unfold enc16. destruct (r <=? 65535) eqn:E.
  - apply N.leb_le in E.
    assert ((if u then up else low) r <=? 65535 = true) as ->; [|reflexivity].
    apply N.leb_le. destruct u; unfold up, low, inr.
    + destruct ((97 <=? r) && (r <=? 122)); lia.
    + destruct ((65 <=? r) && (r <=? 90)) eqn:C; [|lia].
      apply andb_true_iff in C. destruct C as [_ C]. apply N.leb_le in C. lia.
  - apply N.leb_gt in E.
    assert (Hfix : forall x, 128 <= x -> (if u then up else low) x = x).
    { intros x Hx. destruct u; unfold up, low, inr.
      - destruct ((97 <=? x) && (x <=? 122)) eqn:C; [|reflexivity].
        apply andb_true_iff in C. destruct C as [_ C]. apply N.leb_le in C. lia.
      - destruct ((65 <=? x) && (x <=? 90)) eqn:C; [|reflexivity].
        apply andb_true_iff in C. destruct C as [_ C]. apply N.leb_le in C. lia. }
    rewrite (Hfix r) by lia.
    assert ((r <=? 65535) = false) as -> by (apply N.leb_gt; lia).
    cbn [map]. rewrite !Hfix by (eapply N.le_trans; [|apply N.le_add_r]; lia). reflexivity.
Qed.

Lemma flat_enc16_case : forall (u : bool) rs,
  flat_map enc16 (map (if u then up else low) rs) = map (if u then up else low) (flat_map enc16 rs).
Proof.
  induction rs as [|r rs IH]; simpl; auto. rewrite map_app, IH, enc16_case. reflexivity.
Qed.

Lemma i_case_units : forall u a, units (i_case u a) = map (if u then up else low) (units a).
Proof.
  intros u a. unfold i_case. cbv zeta. destruct a as [bs|us|s sc]; simpl.
  - reflexivity.
  - apply from_utf16_spec.
  - destruct (scan s) eqn:E.
    + rewrite (proj2 (from_runes_spec _)). apply flat_enc16_case.
    + apply scan_none in E. simpl. rewrite decode_ascii, enc16_all_ascii by exact E. reflexivity.
Qed.

(* ------------------------------------------------------------------------------------------ *)
(* tree level: every expression tree without a JSON node evaluates in I to the units computed by S *)

Fixpoint plain (e : expr) : bool :=
  match e with
  | ELit _ | EGo _ | EImp _ | EU16 _ | EFcc _ | EFcp _ => true
  | EConcat a b | ETmpl _ a _ b _ | EPad _ a _ b => plain a && plain b
  | ESlice a _ _ | ESubstring a _ _ | ESubstr a _ _ | EAt a _ | ECharAt a _ | ERepeat a _ | ETrim _ a | ECase _ a => plain a
  | EJsonRT _ | EJsonQ _ => false
  end.

Lemma ieval_units : forall e, plain e = true -> units (ieval e) = seval e.
Proof.
  induction e; cbn [ieval seval plain]; intros Hp; try discriminate;
    try (apply andb_true_iff in Hp; destruct Hp as [Hp1 Hp2]).
  - apply from_utf16_spec.
  - apply to_value_spec.
  - reflexivity.
  - apply from_utf16_spec.
  - apply from_utf16_spec.
  - apply from_code_points_spec.
  - rewrite concat_units by apply ieval_nf. rewrite IHe1, IHe2; auto.
  - rewrite template_units by apply ieval_nf. rewrite IHe1, IHe2; auto.
  - rewrite i_slice_units by apply ieval_nf. rewrite IHe; auto.
  - rewrite i_substring_units by apply ieval_nf. rewrite IHe; auto.
  - rewrite i_substr_units by apply ieval_nf. rewrite IHe; auto.
  - rewrite i_at_units by apply ieval_nf. rewrite IHe; auto.
  - rewrite i_char_at_units by apply ieval_nf. rewrite IHe; auto.
  - rewrite i_pad_units by apply ieval_nf. rewrite IHe1, IHe2; auto.
  - rewrite i_repeat_units by apply ieval_nf. rewrite IHe; auto.
  - rewrite i_trim_units by apply ieval_nf. rewrite IHe; auto.
  - rewrite i_case_units. rewrite IHe; auto.
Qed.
