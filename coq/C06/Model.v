(* C06 — Strings with equal UTF-16 content are indistinguishable, whatever their origin.
   Executable definitions only.
   I = goja's three string representations and the algorithms of string.go, string_ascii.go,
       string_unicode.go, string_imported.go, unistring/string.go and the string builtins that are built on them
       (builtin_string.go, vm.go concatStrings, builtin_json.go quote), transcribed.
   S = the same operations on plain lists of UTF-16 code units ([list N]).
   Conventions: bytes and UTF-16 units are [N]; [SUni us] carries the units AFTER the 0xFEFF marker that goja keeps
   in slot 0 of a unicodeString (the marker is re-materialised where the code uses it: [raw_key], [hash_bytes]).
   [SImp utf8 scanned] is importedString{s, u, scanned}: the field u is a function of (s, scanned), see [imp_u]. *)
From Coq Require Import List NArith ZArith Bool.
Import ListNotations.
Local Open Scope N_scope.

Inductive jsstr :=
| SAscii (bs : list N)
| SUni (us : list N)
| SImp (utf8 : list N) (scanned : bool).

(* ------------------------------------------------------------------------------------------ *)
(* basic helpers *)

Definition is_ascii (c : N) : bool := c <? 128.
Definition all_ascii (l : list N) : bool := forallb is_ascii l.
Definition has_uni (l : list N) : bool := existsb (fun c => negb (is_ascii c)) l.
Definition inr (lo hi b : N) : bool := (lo <=? b) && (b <=? hi).

Fixpoint list_eqb (a b : list N) : bool :=
  match a, b with
  | [], [] => true
  | x :: a', y :: b' => (x =? y) && list_eqb a' b'
  | _, _ => false
  end.

Definition cut {A} (l : list A) (s e : nat) : list A := firstn (e - s) (skipn s l).

(* lexicographic order on unit (or byte) lists: strings.Compare, slices.Compare, and the spec's
   IsLessThan on strings *)
Fixpoint lex (a b : list N) : comparison :=
  match a, b with
  | [], [] => Eq
  | [], _ :: _ => Lt
  | _ :: _, [] => Gt
  | x :: a', y :: b' => match x ?= y with Eq => lex a' b' | c => c end
  end.

(* ------------------------------------------------------------------------------------------ *)
(* UTF-8 decoding exactly as Go's [for range s] / utf8.DecodeRuneInString: every byte that does not start a
   well-formed sequence yields U+FFFD and consumes ONE byte *)

Definition RE : N := 65533.
Definition cont (b : N) : bool := inr 128 191 b.

Fixpoint decode (l : list N) : list N :=
  match l with
  | [] => []
  | b0 :: t =>
    if b0 <? 128 then b0 :: decode t
    else if inr 194 223 b0 then
      match t with
      | b1 :: t1 =>
        if cont b1 then ((b0 - 192) * 64 + (b1 - 128)) :: decode t1 else RE :: decode t
      | [] => RE :: decode t
      end
    else if inr 224 239 b0 then
      match t with
      | b1 :: b2 :: t2 =>
        if inr (if b0 =? 224 then 160 else 128) (if b0 =? 237 then 159 else 191) b1 && cont b2
        then ((b0 - 224) * 4096 + (b1 - 128) * 64 + (b2 - 128)) :: decode t2
        else RE :: decode t
      | _ => RE :: decode t
      end
    else if inr 240 244 b0 then
      match t with
      | b1 :: b2 :: b3 :: t3 =>
        if inr (if b0 =? 240 then 144 else 128) (if b0 =? 244 then 143 else 191) b1 && cont b2 && cont b3
        then ((b0 - 240) * 262144 + (b1 - 128) * 4096 + (b2 - 128) * 64 + (b3 - 128)) :: decode t3
        else RE :: decode t
      | _ => RE :: decode t
      end
    else RE :: decode t
  end.

(* the same decoder, but failing instead of substituting: [Some runes] iff the bytes are well-formed UTF-8 *)
Fixpoint decode_strict (l : list N) : option (list N) :=
  match l with
  | [] => Some []
  | b0 :: t =>
    if b0 <? 128 then option_map (cons b0) (decode_strict t)
    else if inr 194 223 b0 then
      match t with
      | b1 :: t1 =>
        if cont b1 then option_map (cons ((b0 - 192) * 64 + (b1 - 128))) (decode_strict t1) else None
      | [] => None
      end
    else if inr 224 239 b0 then
      match t with
      | b1 :: b2 :: t2 =>
        if inr (if b0 =? 224 then 160 else 128) (if b0 =? 237 then 159 else 191) b1 && cont b2
        then option_map (cons ((b0 - 224) * 4096 + (b1 - 128) * 64 + (b2 - 128))) (decode_strict t2)
        else None
      | _ => None
      end
    else if inr 240 244 b0 then
      match t with
      | b1 :: b2 :: b3 :: t3 =>
        if inr (if b0 =? 240 then 144 else 128) (if b0 =? 244 then 143 else 191) b1 && cont b2 && cont b3
        then option_map (cons ((b0 - 240) * 262144 + (b1 - 128) * 4096 + (b2 - 128) * 64 + (b3 - 128)))
                        (decode_strict t3)
        else None
      | _ => None
      end
    else None
  end.

Definition valid_utf8 (l : list N) : bool :=
  match decode_strict l with Some _ => true | None => false end.

(* rune -> UTF-16 units (unistring.Scan, writeRuneFast) *)
Definition enc16 (r : N) : list N :=
  if r <=? 65535 then [r] else [55296 + (r - 65536) / 1024; 56320 + (r - 65536) mod 1024].

(* unistring.Scan: nil for ASCII-only, otherwise the UTF-16 array *)
Definition scan (s : list N) : option (list N) :=
  if all_ascii s then None else Some (flat_map enc16 (decode s)).

(* UTF-16 -> runes as utf16.Decode does (unicodeString.String()): unpaired surrogates become U+FFFD *)
Definition is_hi (c : N) : bool := inr 55296 56319 c.
Definition is_lo (c : N) : bool := inr 56320 57343 c.
Definition pair_rune (a b : N) : N := (a - 55296) * 1024 + (b - 56320) + 65536.

Fixpoint dec16 (us : list N) : list N :=
  match us with
  | [] => []
  | a :: t =>
    if is_hi a then
      match t with
      | b :: t' => if is_lo b then pair_rune a b :: dec16 t' else RE :: dec16 t
      | [] => RE :: dec16 t
      end
    else if is_lo a then RE :: dec16 t
    else a :: dec16 t
  end.

(* lenientUtf16Decoder: as dec16 but an unpaired surrogate is passed through *)
Fixpoint lenient16 (us : list N) : list N :=
  match us with
  | [] => []
  | a :: t =>
    if is_hi a then
      match t with
      | b :: t' => if is_lo b then pair_rune a b :: lenient16 t' else a :: lenient16 t
      | [] => a :: lenient16 t
      end
    else a :: lenient16 t
  end.

(* rune -> UTF-8 (Go string(rune) / WriteRune for scalar values) *)
Definition enc8 (r : N) : list N :=
  if r <? 128 then [r]
  else if r <? 2048 then [192 + r / 64; 128 + r mod 64]
  else if r <? 65536 then [224 + r / 4096; 128 + (r / 64) mod 64; 128 + r mod 64]
  else [240 + r / 262144; 128 + (r / 4096) mod 64; 128 + (r / 64) mod 64; 128 + r mod 64].

(* ------------------------------------------------------------------------------------------ *)
(* meaning and normal form *)

Definition units (a : jsstr) : list N :=
  match a with
  | SAscii bs => bs
  | SUni us => us
  | SImp s _ => flat_map enc16 (decode s)
  end.

Definition nf (a : jsstr) : bool :=
  match a with
  | SAscii bs => all_ascii bs
  | SUni us => has_uni us
  | SImp _ _ => true
  end.

(* the u field of an importedString *)
Definition imp_u (s : list N) (scanned : bool) : option (list N) := if scanned then scan s else None.

(* devirtualizeString (after ensureScanned) *)
Definition devirt (a : jsstr) : jsstr :=
  match a with
  | SImp s _ => match scan s with Some u => SUni u | None => SAscii s end
  | _ => a
  end.

(* ------------------------------------------------------------------------------------------ *)
(* constructors *)

Definition new_string_value (s : list N) : jsstr :=          (* string.go newStringValue *)
  match scan s with Some u => SUni u | None => SAscii s end.

Definition le_bytes (us : list N) : list N := flat_map (fun u => [u mod 256; u / 256]) us.

Fixpoint of_le_bytes (bs : list N) : list N :=
  match bs with
  | lo :: hi :: t => (lo + 256 * hi) :: of_le_bytes t
  | _ => []
  end.

Definition from_raw (k : list N) : jsstr :=                   (* stringValueFromRaw / String.AsUtf16 *)
  if (4 <=? length k)%nat && Nat.even (length k) then
    match k with
    | 255 :: 254 :: t => SUni (of_le_bytes t)
    | _ => SAscii k
    end
  else SAscii k.

Definition from_utf16 (us : list N) : jsstr :=                (* StringFromUTF16; String.fromCharCode *)
  if all_ascii us then SAscii us else SUni us.

Definition to_value (s : list N) : jsstr :=                   (* Runtime.ToValue(string) *)
  if (length s <=? 16)%nat then
    match scan s with Some _ => SImp s true | None => SAscii s end
  else SImp s false.

(* ------------------------------------------------------------------------------------------ *)
(* builders *)

(* unicodeStringBuilder.String(); [buf] is the buffer after the marker *)
Definition usb_string (buf : list N) (unicode : bool) : jsstr :=
  if unicode then SUni buf
  else match buf with [] => SAscii [] | _ => SAscii (map (fun c => c mod 256) buf) end.

(* unicodeStringBuilder.writeString *)
Definition usb_write (st : list N * bool) (s : jsstr) : list N * bool :=
  match devirt s with
  | SUni u => (fst st ++ u, true)
  | SAscii a => (fst st ++ a, snd st)
  | SImp _ _ => st
  end.

(* StringBuilder: ascii builder, or (after switchToUnicode) the unicode builder *)
Inductive sbuilder := SBA (bs : list N) | SBU (buf : list N) (unicode : bool).

Definition sb_write_rune (b : sbuilder) (r : N) : sbuilder :=
  if r <? 128 then
    match b with SBA bs => SBA (bs ++ [r]) | SBU buf f => SBU (buf ++ [r]) f end
  else
    let '(buf, f) := match b with SBA bs => (bs, false) | SBU buf f => (buf, f) end in
    if r <=? 65535 then SBU (buf ++ [r]) true else SBU (buf ++ enc16 r) true.

Definition sb_string (b : sbuilder) : jsstr :=
  match b with SBA bs => SAscii bs | SBU buf f => usb_string buf f end.

Definition from_code_points (cps : list N) : jsstr :=         (* String.fromCodePoint *)
  sb_string (fold_left sb_write_rune cps (SBA [])).

(* ------------------------------------------------------------------------------------------ *)
(* String interface: Concat, Substring, CharAt, Length, CompareTo, equality, hash, key, Export *)

Definition concat_dv (a b : jsstr) : jsstr :=
  match a, devirt b with
  | SAscii s, SUni u => SUni (s ++ u)
  | SAscii s, SAscii t => SAscii (s ++ t)
  | SUni s, SUni u => SUni (s ++ u)
  | SUni s, SAscii t => SUni (s ++ t)
  | _, _ => a
  end.

(* utf8.DecodeLastRuneInString(s) is not (RuneError, 1): s is empty or its last 1..4 bytes are exactly one
   well-formed sequence.  (Go walks back to the nearest non-continuation byte within 4 bytes and decodes forward
   from there; that succeeds up to the end of s exactly when such a sequence exists.) *)
Definition one_rune (l : list N) : bool :=
  match decode_strict l with Some [_] => true | _ => false end.
Definition last_rune_ok (s : list N) : bool :=
  match s with
  | [] => true
  | _ => existsb (fun k => one_rune (skipn (length s - k) s)) [1; 2; 3; 4]%nat
  end.

Definition concat (a b : jsstr) : jsstr :=
  match a, b with
  | SImp s false, SImp t false =>
    (* unscanned + unscanned: the bytes are joined unless s ends in a truncated/invalid sequence *)
    if last_rune_ok s then SImp (s ++ t) false else concat_dv (devirt a) b
  | _, _ => concat_dv (devirt a) b
  end.

Definition substring (a : jsstr) (s e : nat) : jsstr :=
  match devirt a with
  | SAscii bs => SAscii (cut bs s e)
  | SUni us => let ss := cut us s e in if has_uni ss then SUni ss else SAscii (map (fun c => c mod 256) ss)
  | x => x
  end.

Definition payload (a : jsstr) : list N :=
  match a with SAscii bs => bs | SUni us => us | SImp s _ => s end.

Definition char_at (a : jsstr) (i : nat) : N := nth i (payload (devirt a)) 0.
Definition length_of (a : jsstr) : nat := length (payload (devirt a)).

(* unicodeString.compareToAscii *)
Fixpoint cmp_to_ascii (s1 s2 : list N) : comparison :=
  match s1 with
  | [] => match s2 with [] => Eq | _ :: _ => Lt end
  | c1 :: r1 =>
    match s2 with
    | [] => Gt
    | c2 :: r2 => if c1 <? c2 then Lt else if c2 <? c1 then Gt else cmp_to_ascii r1 r2
    end
  end.

Definition compare_to (a b : jsstr) : comparison :=
  match devirt a, devirt b with
  | SAscii s, SAscii t => lex s t
  | SAscii s, SUni u => CompOpp (cmp_to_ascii u s)
  | SUni s, SUni u => lex s u
  | SUni s, SAscii t => cmp_to_ascii s t
  | _, _ => Eq
  end.

(* StrictEquals, all nine pairs, as written in the three files *)
Definition strict_equals (a b : jsstr) : bool :=
  match a, b with
  | SAscii s, SAscii t => list_eqb s t
  | SAscii s, SImp t sc => match imp_u t sc with None => list_eqb s t | Some _ => false end
  | SAscii _, SUni _ => false
  | SUni s, SUni t => list_eqb s t
  | SUni s, SImp t _ => match scan t with Some u => list_eqb s u | None => false end
  | SUni _, SAscii _ => false
  | SImp s sc, SAscii t => match imp_u s sc with Some _ => false | None => list_eqb s t end
  | SImp s _, SUni t => match scan s with Some u => list_eqb u t | None => false end
  | SImp s _, SImp t _ =>
    (* same bytes, or (after scanning both) the same UTF-16 array: bytes that differ only in invalid UTF-8 *)
    list_eqb s t || match scan s, scan t with Some u, Some v => list_eqb u v | _, _ => false end
  end.

Definition same_as := strict_equals.

(* Equals (==) between two strings *)
Definition equals (a b : jsstr) : bool :=
  match a with
  | SImp _ _ => strict_equals a b || strict_equals (devirt a) b
  | _ => strict_equals a b
  end.

(* Value.string(): the unistring.String used as property key *)
Definition raw_key (a : jsstr) : list N :=
  match devirt a with
  | SAscii bs => bs
  | SUni us => 255 :: 254 :: le_bytes us
  | SImp s _ => s
  end.

(* the bytes written to maphash by hash() *)
Definition hash_bytes (a : jsstr) : list N :=
  match a with
  | SAscii bs => bs
  | SUni us => 255 :: 254 :: le_bytes us
  | SImp s _ => match scan s with Some u => 255 :: 254 :: le_bytes u | None => s end
  end.

(* orderedMap.lookup: same bucket, then entry.key.SameAs(key) *)
Definition map_hit (stored key : jsstr) : bool :=
  list_eqb (hash_bytes stored) (hash_bytes key) && same_as stored key.

Definition objkey_hit (a b : jsstr) : bool := list_eqb (raw_key a) (raw_key b).

(* Export(): the Go string *)
Definition export (a : jsstr) : list N :=
  match a with
  | SAscii bs => bs
  | SUni us => flat_map enc8 (dec16 us)
  | SImp s _ => s
  end.

(* the runes of String.String() (used by trim and the case mappers) *)
Definition go_runes (a : jsstr) : list N :=
  match a with
  | SAscii bs => bs
  | SUni us => dec16 us
  | SImp s _ => decode s
  end.

Definition from_runes (rs : list N) : jsstr :=
  if all_ascii rs then SAscii rs else SUni (flat_map enc16 rs).

(* ------------------------------------------------------------------------------------------ *)
(* S: the operations on lists of UTF-16 units *)

Definition up (c : N) : N := if inr 97 122 c then c - 32 else c.
Definition low (c : N) : N := if inr 65 90 c then c + 32 else c.

(* ECMAScript WhiteSpace + LineTerminator *)
Definition is_ws (c : N) : bool :=
  inr 9 13 c || (c =? 32) || (c =? 160) || (c =? 5760) || inr 8192 8202 c || (c =? 8232) || (c =? 8233)
  || (c =? 8239) || (c =? 8287) || (c =? 12288) || (c =? 65279).

Fixpoint drop_ws (u : list N) : list N :=
  match u with c :: t => if is_ws c then drop_ws t else u | [] => [] end.
Definition s_trim_start (u : list N) := drop_ws u.
Definition s_trim_end (u : list N) := rev (drop_ws (rev u)).
Definition s_trim (u : list N) := s_trim_end (s_trim_start u).

Definition zlen {A} (u : list A) : Z := Z.of_nat (length u).
Definition zcut {A} (u : list A) (s e : Z) : list A := cut u (Z.to_nat s) (Z.to_nat e).

Definition s_slice (u : list N) (s e : Z) : list N :=
  let l := zlen u in
  let from := if (s <? 0)%Z then Z.max (l + s) 0 else Z.min s l in
  let to := if (e <? 0)%Z then Z.max (l + e) 0 else Z.min e l in
  if (from <? to)%Z then zcut u from to else [].

Definition s_substring (u : list N) (s e : Z) : list N :=
  let l := zlen u in
  let a := Z.min (Z.max s 0) l in
  let b := Z.min (Z.max e 0) l in
  zcut u (Z.min a b) (Z.max a b).

Definition s_substr (u : list N) (s n : Z) : list N :=
  let l := zlen u in
  let from := if (s <? 0)%Z then Z.max (l + s) 0 else Z.min s l in
  let to := Z.min (from + Z.min (Z.max n 0) l) l in
  if (from <? to)%Z then zcut u from to else [].

Definition s_at (u : list N) (i : Z) : list N :=       (* undefined is rendered as "" by the harness *)
  let l := zlen u in
  let k := if (i <? 0)%Z then (l + i)%Z else i in
  if (k <? 0)%Z || (l <=? k)%Z then [] else zcut u k (k + 1).

Definition s_char_at (u : list N) (i : Z) : list N :=
  if (i <? 0)%Z || (zlen u <=? i)%Z then [] else zcut u i (i + 1).

Definition s_repeat (u : list N) (n : nat) : list N := List.concat (List.repeat u n).

Definition s_pad (u : list N) (n : Z) (f : list N) (start : bool) : list N :=
  let l := zlen u in
  if (n <=? l)%Z then u
  else match f with
       | [] => u
       | _ => let k := Z.to_nat (n - l) in
              let fill := firstn k (s_repeat f k) in
              if start then fill ++ u else u ++ fill
       end.

Definition hexd (n : N) : N := if n <? 10 then 48 + n else 87 + n.

(* QuoteJSONString on code points, producing UTF-16 units *)
Definition esc_units (r : N) : list N :=
  if (r =? 34) || (r =? 92) then [92; r]
  else if r =? 8 then [92; 98] else if r =? 9 then [92; 116] else if r =? 10 then [92; 110]
  else if r =? 12 then [92; 102] else if r =? 13 then [92; 114]
  else if r <? 32 then [92; 117; 48; 48; hexd (r / 16); hexd (r mod 16)]
  else if inr 55296 57343 r then [92; 117; hexd (r / 4096); hexd ((r / 256) mod 16); hexd ((r / 16) mod 16); hexd (r mod 16)]
  else enc16 r.

Definition s_json_quote (u : list N) : list N := 34 :: flat_map esc_units (lenient16 u) ++ [34].

Definition s_export (u : list N) : list N := flat_map enc8 (dec16 u).

Definition s_from_code_points (cps : list N) : list N := flat_map enc16 cps.

(* ------------------------------------------------------------------------------------------ *)
(* I: the builtins, as goja composes them from the String interface *)

Definition empty : jsstr := SAscii [].

Definition i_sub (a : jsstr) (s e : Z) : jsstr := substring a (Z.to_nat s) (Z.to_nat e).

Definition i_slice (a : jsstr) (s e : Z) : jsstr :=
  let l := Z.of_nat (length_of a) in
  let s1 := if (s <? 0)%Z then (if (s + l <? 0)%Z then 0%Z else (s + l)%Z) else (if (l <? s)%Z then l else s) in
  let e1 := if (e <? 0)%Z then (if (e + l <? 0)%Z then 0%Z else (e + l)%Z) else (if (l <? e)%Z then l else e) in
  if (s1 <? e1)%Z then i_sub a s1 e1 else empty.

Definition i_substring (a : jsstr) (s e : Z) : jsstr :=
  let l := Z.of_nat (length_of a) in
  let s1 := if (s <? 0)%Z then 0%Z else if (l <? s)%Z then l else s in
  let e1 := if (e <? 0)%Z then 0%Z else if (l <? e)%Z then l else e in
  if (e1 <? s1)%Z then i_sub a e1 s1 else i_sub a s1 e1.

Definition i_substr (a : jsstr) (s n : Z) : jsstr :=
  let l := Z.of_nat (length_of a) in
  let s1 := if (s <? 0)%Z then Z.max (l + s) 0 else s in
  let n1 := Z.min (Z.max n 0) (l - s1) in
  if (n1 <=? 0)%Z then empty else i_sub a s1 (s1 + n1).

Definition i_at (a : jsstr) (i : Z) : jsstr :=
  let l := Z.of_nat (length_of a) in
  let p := if (i <? 0)%Z then (l + i)%Z else i in
  if (l <=? p)%Z || (p <? 0)%Z then empty else i_sub a p (p + 1).

Definition i_char_at (a : jsstr) (i : Z) : jsstr :=
  let l := Z.of_nat (length_of a) in
  if (i <? 0)%Z || (l <=? i)%Z then empty else i_sub a i (i + 1).

Definition i_repeat (a : jsstr) (n : nat) : jsstr :=
  if (n =? 0)%nat || (length_of a =? 0)%nat then empty
  else match devirt a with
       | SAscii bs => SAscii (List.concat (List.repeat bs n))
       | SUni us => usb_string (List.concat (List.repeat us n)) true
       | x => x
       end.

Definition i_pad (a : jsstr) (n : Z) (f : jsstr) (start : bool) : jsstr :=
  let l := Z.of_nat (length_of a) in
  let n := Z.max n 0 in
  if (n <=? l)%Z then a
  else if (length_of f =? 0)%nat then a
  else
    let remaining := Z.to_nat (n - l) in
    let fl := length_of f in
    match devirt a, devirt f with
    | SAscii sa, SAscii fa =>
      let fill := List.concat (List.repeat fa (remaining / fl)) ++ firstn (remaining mod fl) fa in
      SAscii (if start then fill ++ sa else sa ++ fill)
    | _, _ =>
      let st0 : list N * bool := ([], false) in
      let st1 := if start then st0 else usb_write st0 a in
      let st2 := fold_left usb_write (List.repeat f (remaining / fl)) st1 in
      let st3 := if (0 <? remaining mod fl)%nat then usb_write st2 (substring f 0 (remaining mod fl)) else st2 in
      let st4 := if start then usb_write st3 a else st3 in
      usb_string (fst st4) (snd st4)
    end.

(* vm.go concatStrings (template literals) *)
Definition concat_strings (l : list jsstr) : jsstr :=
  let dl := map devirt l in
  if forallb (fun x => match x with SAscii _ => true | _ => false end) dl
  then SAscii (List.concat (map payload dl))
  else let st := fold_left usb_write dl ([], false) in usb_string (fst st) (snd st).

(* trimString: two CharAt loops, then Substring(start, end) *)
Fixpoint count_ws (u : list N) : nat :=
  match u with c :: t => if is_ws c then S (count_ws t) else 0%nat | [] => 0%nat end.

Definition i_trim (mode : N) (a : jsstr) : jsstr :=
  let u := payload (devirt a) in
  let left := (mode =? 0) || (mode =? 1) in
  let right := (mode =? 0) || negb (mode =? 1) in
  let start := if left then count_ws u else 0%nat in
  let stop := if right then (length u - count_ws (rev (skipn start u)))%nat else length u in
  substring a start stop.

(* toUpperCase / toLowerCase.  asciiString: strings.ToUpper/ToLower.  unicodeString: mapWellFormed feeds the
   well-formed runs to the x/text caser and copies unpaired surrogates through a StringBuilder; importedString with
   non-ASCII content: the caser is applied to the Go string.  The x/text caser is NOT modelled: the case map is the
   ASCII one, sound only when no non-ASCII rune of the string has a case mapping (the harness alphabet is chosen so) *)
Definition i_case (upper : bool) (a : jsstr) : jsstr :=
  let f := if upper then up else low in
  match a with
  | SAscii bs => SAscii (map f bs)
  | SUni us => from_utf16 (map f us)
  | SImp s _ => match scan s with
                | None => SAscii (map f s)
                | Some _ => from_runes (map f (decode s))
                end
  end.

(* JSON.stringify(string): quote() writes UTF-8 into a byte buffer; ASCII-only -> asciiString, else importedString *)
Definition esc_bytes (r : N) : list N :=
  if (r =? 34) || (r =? 92) then [92; r]
  else if r =? 8 then [92; 98] else if r =? 9 then [92; 116] else if r =? 10 then [92; 110]
  else if r =? 12 then [92; 102] else if r =? 13 then [92; 114]
  else if r <? 32 then [92; 117; 48; 48; hexd (r / 16); hexd (r mod 16)]
  else if inr 55296 57343 r then [92; 117; hexd (r / 4096); hexd ((r / 256) mod 16); hexd ((r / 16) mod 16); hexd (r mod 16)]
  else enc8 r.

Definition i_json_quote (a : jsstr) : jsstr :=
  let bytes := 34 :: flat_map esc_bytes (lenient16 (units a)) ++ [34] in
  if all_ascii bytes then SAscii bytes else SImp bytes false.

(* JSON.parse(JSON.stringify(s)): Go's encoding/json turns an escaped unpaired surrogate into U+FFFD, the token
   goes through newStringValue.  (The decoder itself is not transcribed; this is the composition.) *)
Definition i_json_rt (a : jsstr) : jsstr := new_string_value (flat_map enc8 (dec16 (units a))).

(* ------------------------------------------------------------------------------------------ *)
(* expression trees: what the correspondence harness generates *)

Inductive expr :=
| ELit (us : list N)                    (* JS string literal with these units *)
| EGo (bytes : list N)                  (* rt.ToValue(goString) *)
| EImp (bytes : list N)                 (* goja.VerifNewImported(goString) *)
| EU16 (us : list N)                    (* goja.StringFromUTF16 *)
| EFcc (us : list N)                    (* String.fromCharCode(...) *)
| EFcp (cps : list N)                   (* String.fromCodePoint(...) *)
| EConcat (a b : expr)                  (* a + b *)
| ETmpl (l : list N) (a : expr) (m : list N) (b : expr) (r : list N)   (* `l${a}m${b}r` *)
| ESlice (a : expr) (s e : Z)
| ESubstring (a : expr) (s e : Z)
| ESubstr (a : expr) (s n : Z)
| EAt (a : expr) (i : Z)
| ECharAt (a : expr) (i : Z)
| EPad (start : bool) (a : expr) (n : Z) (f : expr)
| ERepeat (a : expr) (n : nat)
| ETrim (mode : N) (a : expr)           (* 0 trim, 1 trimStart, 2 trimEnd *)
| ECase (upper : bool) (a : expr)
| EJsonRT (a : expr)                    (* JSON.parse(JSON.stringify(a)) *)
| EJsonQ (a : expr).                    (* JSON.stringify(a) *)

Definition lit_part (l : list N) : list jsstr := match l with [] => [] | _ => [from_utf16 l] end.

Fixpoint ieval (e : expr) : jsstr :=
  match e with
  | ELit us => from_utf16 us
  | EGo b => to_value b
  | EImp b => SImp b false
  | EU16 us => from_utf16 us
  | EFcc us => from_utf16 us
  | EFcp cps => from_code_points cps
  | EConcat a b => concat (ieval a) (ieval b)
  | ETmpl l a m b r => concat_strings (lit_part l ++ [ieval a] ++ lit_part m ++ [ieval b] ++ lit_part r)
  | ESlice a s e' => i_slice (ieval a) s e'
  | ESubstring a s e' => i_substring (ieval a) s e'
  | ESubstr a s n => i_substr (ieval a) s n
  | EAt a i => i_at (ieval a) i
  | ECharAt a i => i_char_at (ieval a) i
  | EPad st a n f => i_pad (ieval a) n (ieval f) st
  | ERepeat a n => i_repeat (ieval a) n
  | ETrim m a => i_trim m (ieval a)
  | ECase u a => i_case u (ieval a)
  | EJsonRT a => i_json_rt (ieval a)
  | EJsonQ a => i_json_quote (ieval a)
  end.

Fixpoint seval (e : expr) : list N :=
  match e with
  | ELit us => us
  | EGo b => flat_map enc16 (decode b)
  | EImp b => flat_map enc16 (decode b)
  | EU16 us => us
  | EFcc us => us
  | EFcp cps => s_from_code_points cps
  | EConcat a b => seval a ++ seval b
  | ETmpl l a m b r => l ++ seval a ++ m ++ seval b ++ r
  | ESlice a s e' => s_slice (seval a) s e'
  | ESubstring a s e' => s_substring (seval a) s e'
  | ESubstr a s n => s_substr (seval a) s n
  | EAt a i => s_at (seval a) i
  | ECharAt a i => s_char_at (seval a) i
  | EPad st a n f => s_pad (seval a) n (seval f) st
  | ERepeat a n => s_repeat (seval a) n
  | ETrim m a => if m =? 0 then s_trim (seval a) else if m =? 1 then s_trim_start (seval a) else s_trim_end (seval a)
  | ECase u a => map (if u then up else low) (seval a)
  | EJsonRT a => seval a
  | EJsonQ a => s_json_quote (seval a)
  end.
