(* C06 — second instantiation: compares the implementation's observation with I (the transcription of goja's
   algorithms) instead of S.  Used only to classify a disagreement with S: "impl <> S and impl = I" is the faithful
   model reproducing a recorded defect; "impl <> S and impl <> I" is never a known finding. *)
From Coq Require Import List NArith ZArith Bool.
Import ListNotations.
From Verif.C06 Require Import Model.
From Verif.C06 Require Export Run.

Definition tcase := Run.tcase.
Definition mismatch_ids := mismatch_from i_agrees 0%N.
Definition expected (c : tcase) := Run.expected c.
