(* C06 — executable instantiation used by the correspondence check (no proofs; depends on Model.v only).
   A case is a pair of string-producing expression trees together with what the implementation showed for them.
   [mismatch_ids] compares with S (the oracle: plain UTF-16 unit lists); the comparison with I (the transcription
   of goja's representations) is [i_agrees], used by RunI.v to classify disagreements. *)
From Coq Require Import List NArith ZArith Bool.
From Coq Require Export Uint63.
Import ListNotations.
From Verif.C06 Require Export Model.
Local Open Scope N_scope.

(* unit / byte lists are written by the harness packed into primitive 63-bit integers (3 elements of 16 bits, or
   2 of 21 bits for code points, element count in the top bits): elaborating a list of N numerals costs ~0.3 ms per
   numeral, which dominated the run.  Used by the correspondence only, never by a theorem. *)
Definition un (i : int) : N := Z.to_N (Uint63.to_Z i).
Definition unpack16 (i : int) : list N :=
  let c := un (i >> 48)%uint63 in
  let a := un (i land 65535)%uint63 in
  let b := un ((i >> 16) land 65535)%uint63 in
  let d := un ((i >> 32) land 65535)%uint63 in
  if c =? 1 then [a] else if c =? 2 then [a; b] else if c =? 3 then [a; b; d] else [].
Definition P16 (l : list int) : list N := flat_map unpack16 l.
Definition unpack21 (i : int) : list N :=
  let c := un (i >> 42)%uint63 in
  let a := un (i land 2097151)%uint63 in
  let b := un ((i >> 21) land 2097151)%uint63 in
  if c =? 1 then [a] else if c =? 2 then [a; b] else [].
Definition P21 (l : list int) : list N := flat_map unpack21 l.

(* one value: length + every charCodeAt; Export() bytes; and whether the value was interchangeable (===, Map key,
   object key, hash, both directions) with a fresh literal spelled with the same code units — checked on a freshly
   evaluated copy with the dictionary lookups first (before anything scanned it) and again after the scan — and
   whether a Set/Map still finds the value under itself after its length was read *)
Record sobs := mkS { o_units : list N; o_export : list N; o_lit : bool }.

(* a pair *)
Record pobs := mkP {
  p_seq : bool;      (* a === b *)
  p_seq_rev : bool;  (* b === a *)
  p_eq2 : bool;      (* a == b *)
  p_is : bool;       (* Object.is(a, b) *)
  p_lt : bool;       (* a < b *)
  p_gt : bool;       (* a > b *)
  p_map : bool;      (* new Map([[a,1]]).get(b) === 1 *)
  p_map_rev : bool;  (* new Map([[b,1]]).get(a) === 1 *)
  p_obj : bool;      (* ({[a]:1})[b] === 1 *)
  p_hash : bool;     (* VerifHashEq(a, b) *)
  (* the same dictionary observations, each made FIRST on freshly evaluated (e.g. still unscanned imported) values *)
  p_fmap : bool;     (* fresh: new Map([[a,1]]).get(b) === 1 *)
  p_fmap_rev : bool; (* fresh: new Map([[b,1]]).get(a) === 1 *)
  p_fset : bool;     (* fresh: new Set([a,b]).size === 1 *)
  p_fhash : bool;    (* fresh: VerifHashEq(a, b) *)
  p_flt : bool;      (* fresh: a < b, first thing (before anything scanned either operand) *)
  p_fgt : bool       (* fresh: a > b, first thing *)
}.

Record tcase := mkCase { c_a : expr; c_b : expr; c_oa : sobs; c_ob : sobs; c_p : pobs; c_ok : bool }.

Definition is_lt (c : comparison) : bool := match c with Lt => true | _ => false end.
Definition is_gt (c : comparison) : bool := match c with Gt => true | _ => false end.

(* ---- against S ---- *)
Definition s_single (e : expr) (o : sobs) : bool :=
  let u := seval e in
  list_eqb (o_units o) u && list_eqb (o_export o) (s_export u) && o_lit o.

Definition s_pair (c : tcase) : bool :=
  let ua := seval (c_a c) in let ub := seval (c_b c) in
  let eqv := list_eqb ua ub in let cmp := lex ua ub in
  let p := c_p c in
  Bool.eqb (p_seq p) eqv && Bool.eqb (p_seq_rev p) eqv && Bool.eqb (p_eq2 p) eqv && Bool.eqb (p_is p) eqv
  && Bool.eqb (p_lt p) (is_lt cmp) && Bool.eqb (p_gt p) (is_gt cmp)
  && Bool.eqb (p_map p) eqv && Bool.eqb (p_map_rev p) eqv && Bool.eqb (p_obj p) eqv
  && implb eqv (p_hash p)
  && Bool.eqb (p_fmap p) eqv && Bool.eqb (p_fmap_rev p) eqv && Bool.eqb (p_fset p) eqv && implb eqv (p_fhash p)
  && Bool.eqb (p_flt p) (is_lt cmp) && Bool.eqb (p_fgt p) (is_gt cmp).

Definition s_agrees (c : tcase) : bool :=
  c_ok c && s_single (c_a c) (c_oa c) && s_single (c_b c) (c_ob c) && s_pair c.

(* the same, not looking at the Export() bytes (used to recognise the one open Export finding narrowly) *)
Definition s_single_noexp (e : expr) (o : sobs) : bool :=
  list_eqb (o_units o) (seval e) && o_lit o.
Definition s_agrees_noexp (c : tcase) : bool :=
  c_ok c && s_single_noexp (c_a c) (c_oa c) && s_single_noexp (c_b c) (c_ob c) && s_pair c.

(* ---- against I ---- *)
Definition i_lit_ok (x : jsstr) : bool :=
  let l := from_utf16 (payload (devirt x)) in
  strict_equals x l && strict_equals l x && map_hit x l && map_hit l x && objkey_hit x l && objkey_hit l x
  && list_eqb (hash_bytes x) (hash_bytes l) && map_hit x x.

Definition i_single (e : expr) (o : sobs) : bool :=
  let x := ieval e in
  list_eqb (o_units o) (payload (devirt x)) && list_eqb (o_export o) (export x) && Bool.eqb (o_lit o) (i_lit_ok x).

Definition i_pair (c : tcase) : bool :=
  let a := ieval (c_a c) in let b := ieval (c_b c) in
  let p := c_p c in
  Bool.eqb (p_seq p) (strict_equals a b) && Bool.eqb (p_seq_rev p) (strict_equals b a)
  && Bool.eqb (p_eq2 p) (equals a b) && Bool.eqb (p_is p) (same_as a b)
  && Bool.eqb (p_lt p) (is_lt (compare_to a b)) && Bool.eqb (p_gt p) (is_lt (compare_to b a))
  && Bool.eqb (p_map p) (map_hit a b) && Bool.eqb (p_map_rev p) (map_hit b a)
  && Bool.eqb (p_obj p) (objkey_hit a b)
  && Bool.eqb (p_hash p) (list_eqb (hash_bytes a) (hash_bytes b))
  && Bool.eqb (p_fmap p) (map_hit a b) && Bool.eqb (p_fmap_rev p) (map_hit b a) && Bool.eqb (p_fset p) (map_hit a b)
  && Bool.eqb (p_fhash p) (list_eqb (hash_bytes a) (hash_bytes b))
  && Bool.eqb (p_flt p) (is_lt (compare_to a b)) && Bool.eqb (p_fgt p) (is_lt (compare_to b a)).

Definition i_agrees (c : tcase) : bool :=
  c_ok c && i_single (c_a c) (c_oa c) && i_single (c_b c) (c_ob c) && i_pair c.

Fixpoint mismatch_from (f : tcase -> bool) (i : N) (cs : list tcase) : list N :=
  match cs with
  | [] => []
  | c :: r => if f c then mismatch_from f (N.succ i) r else i :: mismatch_from f (N.succ i) r
  end.

Definition mismatch_ids := mismatch_from s_agrees 0.

(* what the model says: (S value of a, S value of b, S export of a, S export of b,
   does S agree apart from the Export() bytes, does I reproduce the observation) *)
Definition expected (c : tcase) :=
  (seval (c_a c), seval (c_b c), s_export (seval (c_a c)), s_export (seval (c_b c)), s_agrees_noexp c, i_agrees c).
