(* C01 -- executable instantiation used by the correspondence check (depends on Model/Table only).
   A case = every code body of one compiled program as dumped by VerifDump (global / eval code and each
   nested function, class constructor, field initialiser), the instruction-to-instruction edges observed
   by VerifTrace with their real sp deltas, and the crash-oracle bits of the search. *)
From Coq Require Import List Arith ZArith Bool.
Import ListNotations.
From Verif.C01 Require Export Model Table.

(* compact, monomorphic case syntax (few tokens / nodes: parsing dominates the cost of a shard) *)
Inductive elist := ENil | E (p q : N) (d : Z) (r : elist).   (* executed pc -> next executed pc of the same activation, sp delta *)
Inductive blist := BNil | B (mode : N) (c : code) (e : elist) (r : blist).
                                       (* mode 0 = global / eval code; 1 = function; 2 = class field initialiser *)
Inductive tcase := mkCase (b : blist) (crash : N).

Record body := mkBody {
  b_mode : nat;
  b_code : list (kind * list Z);
  b_edges : list (nat * nat * Z) }.

Fixpoint edges_of (e : elist) : list (nat * nat * Z) :=
  match e with ENil => [] | E p q d r => (N.to_nat p, N.to_nat q, d) :: edges_of r end.
Fixpoint bodies_of (b : blist) : list body :=
  match b with BNil => [] | B md c e r => mkBody (N.to_nat md) (decode c) (edges_of e) :: bodies_of r end.
Definition t_bodies (c : tcase) : list body := match c with mkCase b _ => bodies_of b end.
Definition t_crash (c : tcase) : nat := match c with mkCase _ n => N.to_nat n end.

Definition is_enterblock (k : kind) : bool := match k with K_enterBlock => true | _ => false end.
Definition is_prologue (k : kind) : bool :=
  match k with K_enterFunc | K_enterFunc1 | K_enterFuncBody | K_enterFuncStashless => true | _ => false end.
Definition is_unknown (k : kind) : bool := match k with K_unknown => true | _ => false end.

(* pcs that are the catch target of some try *)
Definition catch_targets (c : list (kind * list Z)) : list nat :=
  flat_map (fun pi => match shape_of (fst (snd pi)) (snd (snd pi)) with
                      | STry co _ => if 0 <? co then [fst pi + co] else []
                      | _ => []
                      end) (combine (seq 0 (length c)) c).

(* the compiler keeps the caught value as the first stack local of the catch block when the parameter is
   not captured: such a block is entered by an enterBlock whose stackSize excludes that slot
   (compiler_stmt.go compileTryStatement: enter.stackSize--), and left by a leaveBlock that includes it *)
Definition resolve (c : list (kind * list Z)) : list shape :=
  map (fun ki => shape_of (fst ki) (snd ki)) c.

Definition mode_of (b : body) : mode := match b_mode b with 0 => MGlobal | 1 => MFunc | _ => MInit end.

Definition phys (s : astate) : Z :=
  Z.of_nat (fold_right (fun g acc => sn g + acc) 0 (a_segs s) + (length (a_segs s) - 1)).
Definition exact (s : astate) : bool := forallb sx (a_segs s).

Definition succ_pcs (code : list shape) (md : mode) (m : amap) (p : nat) : list nat :=
  flat_map (fun s => match asucc code md m p s with
                     | Some l => map fst (l ++ handlers (a_ts s))
                     | None => []
                     end) (nth p m []).

Definition edge_ok (c : list (kind * list Z)) (code : list shape) (md : mode) (m : amap) (e : nat * nat * Z) : bool :=
  let '(p, q, d) := e in
  let lp := nth p m [] in
  let lq := nth q m [] in
  negb (Nat.eqb (length lp) 0) && negb (Nat.eqb (length lq) 0)
  && existsb (Nat.eqb q) (succ_pcs code md m p)
  && (if is_prologue (fst (nth p c (K_unknown, []))) then true
      else existsb (fun sp => existsb (fun sq =>
             if exact sp && exact sq then Z.eqb (phys sq - phys sp) d else true) lq) lp).

(* diagnosis: 0 ok | 1 skipped (unknown instruction kind: coverage gap) | 2 verifier rejects at pc |
   3 observed edge contradicts the table *)
Definition first_reject (code : list shape) (md : mode) (m : amap) : option nat :=
  find (fun pc => negb (forallb (fun s =>
         if pc =? length code then final_ok md s
         else match asucc code md m pc s with
              | None => false
              | Some succs => forallb (fun ps => amem (snd ps) (nth (fst ps) m [])) (succs ++ handlers (a_ts s))
              end) (nth pc m []))) (seq 0 (S (length code))).

Definition diag_body (b : body) : nat * nat :=
  let c := b_code b in
  if existsb (fun ki => is_unknown (fst ki)) c then (1, 0)
  else
    let code := resolve c in
    let md := mode_of b in
    let m := infer code md in
    if negb (check code md m) then
      (2, match first_reject code md m with Some pc => pc | None => length code end)
    else match find (fun e => negb (edge_ok c code md m e)) (b_edges b) with
         | Some (p, _, _) => (3, p)
         | None => (0, 0)
         end.

Definition expected (c : tcase) : list (nat * nat) * nat := (map diag_body (t_bodies c), 0).

Definition body_bad (b : body) : bool :=
  match fst (diag_body b) with 0 | 1 => false | _ => true end.

Definition check_case (c : tcase) : bool :=
  (t_crash c =? 0) && negb (existsb body_bad (t_bodies c)).

Fixpoint mismatch_from (i : N) (cs : list tcase) : list N :=
  match cs with
  | [] => []
  | c :: r => if check_case c then mismatch_from (N.succ i) r else i :: mismatch_from (N.succ i) r
  end.
Definition mismatch_ids := mismatch_from 0%N.
