(* C01 -- a bytecode verifier for goja's compiler output and a small-step model of the VM's
   operand-stack / try-stack behaviour.  Executable definitions only (no proofs).

   Abstract instruction = [shape]: how an instruction moves the operand stack and where control goes.
   The mapping (Go instruction type, operands) -> shape is the generated table C01/Table.v.

   Heights are tracked per "segment": a variadic region (startVariadic ... callVariadic) opens a new
   segment above a marker; the count of a segment is exact until a spread pushes an unknown number of
   values, after which it is a lower bound ([sx = false]).  Block/function locals living on the stack
   are tracked in [aux].  A try frame remembers the shape at the [try] instruction, which is
   what handleThrow / leaveTry restore. *)
From Coq Require Import List Arith ZArith Bool Lia.
Import ListNotations.

Inductive shape :=
| SNorm (pops pushes : nat)                 (* falls through; may throw *)
| SJump (off : Z)
| SCond (off : Z) (pops pfall pjump : nat)  (* conditional jump: pops, then pushes pfall / pjump *)
| SOptJump (off : Z) (pops pfall pjump : nat) (keeps : bool)
                                            (* jopt* family: jumps iff the top is null/undefined; keeps: undefined is then left on top *)
| STry (coff foff : nat)                    (* catch / finally offsets, 0 = absent *)
| SLeaveTry | SEnterFinally | SLeaveFinally
| SThrow (pops : nat)                       (* always throws *)
| SRet                                      (* function return *)
| SEnter (adopt : bool) (pops ss : nat)     (* pops operands, then allocates ss stack locals; adopt: the block may
                                              also own the operand below it (catch parameter, switch discriminant) *)
| SLeave (ss : nat)                         (* releases ss stack locals *)
| SStartVar | SSpread | SCallVar (minargs : nat) | SEndVar
| SUnknown.

(* MGlobal: runs to the end of the code with an empty operand stack (global and eval code);
   MInit: class field initialiser, entered with the instance as its only operand and left the same way
   (func.go _initFields); MFunc: function body: the `this` slot stack[sb] is the only operand at entry (the
   prologue may peek it: initStash right after enterFunc), left by ret with exactly: `this`, the
   slots of the blocks still open (a return does not emit leaveBlock), at most one adopted operand per adopting
   block, and the result ([ret_ok]) *)
Inductive mode := MGlobal | MFunc | MInit.

Record seg := mkseg { sn : nat; sx : bool }.

(* auxiliary facts: [x_nul] the value on top of the stack is known to be undefined (it was written by a
   short-circuiting jopt/joptc and only moved since); [x_blocks] the stack-local blocks entered and not yet
   left: (number of slots allocated by the enter instruction, may it have adopted one operand) *)
Record aux := mkX { x_nul : bool; x_blocks : list (nat * bool) }.
Definition aux0 : aux := mkX false [].
Definition clr (x : aux) : aux := mkX false (x_blocks x).
Definition setnul (x : aux) : aux := mkX true (x_blocks x).

Record aframe := mkF {
  f_cpc : option nat;      (* catch handler pc, if the try has one *)
  f_fpc : option nat;      (* finally handler pc, if the try has one *)
  f_fin : bool;            (* finally handler still armed *)
  f_aux : aux;             (* shape at the try instruction *)
  f_segs : list seg }.

Record astate := mkA { a_aux : aux; a_segs : list seg; a_ts : list aframe }.

Definition set_fin (b : bool) (f : aframe) : aframe :=
  mkF (f_cpc f) (f_fpc f) b (f_aux f) (f_segs f).

Definition fin_active (f : aframe) : option nat := if f_fin f then f_fpc f else None.

(* ---------- operand stack primitives ---------- *)
Definition pop_top (p : nat) (sg : list seg) : option (list seg) :=
  match sg with
  | s :: r => if p <=? sn s then Some (mkseg (sn s - p) (sx s) :: r) else None
  | [] => None
  end.

Definition push_top (q : nat) (sg : list seg) : list seg :=
  match sg with
  | s :: r => mkseg (sn s + q) (sx s) :: r
  | [] => [mkseg q true]
  end.

Definition jtarget (pc : nat) (off : Z) : option nat :=
  let t := (Z.of_nat pc + off)%Z in
  if (0 <=? t)%Z then Some (Z.to_nat t) else None.

(* instructions that do not touch the try stack: list of alternatives (pc', cx', segs');
   None = the instruction would underflow / is ill-placed *)
Definition alt := (nat * aux * list seg)%type.

Definition core (sh : shape) (pc : nat) (cx : aux) (sg : list seg) : option (list alt) :=
  match sh with
  | SNorm p q =>
      match pop_top p sg with
      | Some sg' => Some [(S pc, clr cx, push_top q sg')]
      | None => None
      end
  | SJump off =>
      match jtarget pc off with
      | Some t => Some [(t, cx, sg)]
      | None => None
      end
  | SCond off p pf pj =>
      match pop_top p sg, jtarget pc off with
      | Some sg', Some t => Some [(S pc, clr cx, push_top pf sg'); (t, clr cx, push_top pj sg')]
      | _, _ => None
      end
  | SOptJump off p pf pj keeps =>
      (* vm.go jopt / joptc (leave undefined on top) and joptdel* (leave true / nothing): the jump is taken
         iff the top is null or undefined *)
      match pop_top p sg, jtarget pc off with
      | Some sg', Some t =>
          let cj := if keeps then setnul cx else clr cx in
          if x_nul cx then Some [(t, cj, push_top pj sg')]
          else Some [(S pc, clr cx, push_top pf sg'); (t, cj, push_top pj sg')]
      | _, _ => None
      end
  | SThrow p =>
      match pop_top p sg with
      | Some _ => Some []
      | None => None
      end
  | SEnter ad p ss =>
      (* stack locals of a block / function are ordinary slots above the current operands *)
      match pop_top p sg with
      | Some sg' => Some [(S pc, mkX false ((ss, ad) :: x_blocks cx), push_top ss sg')]
      | None => None
      end
  | SLeave ss =>
      (* releases the block's slots, including an operand the block adopted (the compiler makes the
         leaveBlock larger than the enterBlock for a catch parameter / switch discriminant kept on the stack) *)
      match pop_top ss sg with
      | Some sg' => Some [(S pc, mkX false (tl (x_blocks cx)), sg')]
      | None => None
      end
  | SStartVar => Some [(S pc, clr cx, mkseg 0 true :: sg)]
  | SSpread =>
      match sg with
      | s :: r => if 1 <=? sn s then Some [(S pc, clr cx, mkseg (sn s - 1) false :: r)] else None
      | [] => None
      end
  | SCallVar k =>
      match sg with
      | s :: ((_ :: _) as r) => if k <=? sn s then Some [(S pc, clr cx, mkseg 1 true :: r)] else None
      | _ => None
      end
  | SEndVar =>
      (* drops the slot below the top (the top value itself is kept): inside a segment (class definitions
         and the optional-chain unwind stubs use it that way), or the variadic marker when the segment holds
         exactly the call result *)
      match sg with
      | s1 :: r =>
          if 2 <=? sn s1 then Some [(S pc, cx, mkseg (sn s1 - 1) (sx s1) :: r)]
          else match r with
               | s2 :: r' => if (sn s1 =? 1) && sx s1 then Some [(S pc, cx, mkseg (sn s2 + 1) (sx s2) :: r')] else None
               | [] => None
               end
      | [] => None
      end
  | _ => None
  end.

Definition is_core (sh : shape) : bool :=
  match sh with
  | SNorm _ _ | SJump _ | SCond _ _ _ _ | SOptJump _ _ _ _ _ | SThrow _ | SEnter _ _ _ | SLeave _
  | SStartVar | SSpread | SCallVar _ | SEndVar => true
  | _ => false
  end.

(* the height a function's ret must see: `this`, the slots of the blocks still open, possibly one adopted
   operand per adopting block, and the result *)
Definition ret_lo (x : aux) : nat := 2 + fold_right (fun b acc => fst b + acc) 0 (x_blocks x).
Definition ret_hi (x : aux) : nat := ret_lo x + length (filter snd (x_blocks x)).
Definition ret_ok (x : aux) (sg : seg) : bool := (ret_lo x <=? sn sg) && (sn sg <=? ret_hi x) && sx sg.

(* ---------- boolean equalities ---------- *)
Definition seg_eqb (a b : seg) : bool := (sn a =? sn b) && Bool.eqb (sx a) (sx b).
Fixpoint list_eqb {A} (e : A -> A -> bool) (x y : list A) : bool :=
  match x, y with
  | [], [] => true
  | a :: x', b :: y' => e a b && list_eqb e x' y'
  | _, _ => false
  end.
Definition optn_eqb (a b : option nat) : bool :=
  match a, b with
  | None, None => true
  | Some x, Some y => x =? y
  | _, _ => false
  end.
Definition blk_eqb (a b : nat * bool) : bool := (fst a =? fst b) && Bool.eqb (snd a) (snd b).
Definition aux_eqb (a b : aux) : bool := Bool.eqb (x_nul a) (x_nul b) && list_eqb blk_eqb (x_blocks a) (x_blocks b).
Definition aframe_eqb (a b : aframe) : bool :=
  optn_eqb (f_cpc a) (f_cpc b) && optn_eqb (f_fpc a) (f_fpc b) && Bool.eqb (f_fin a) (f_fin b)
  && aux_eqb (f_aux a) (f_aux b) && list_eqb seg_eqb (f_segs a) (f_segs b).
Definition astate_eqb (a b : astate) : bool :=
  aux_eqb (a_aux a) (a_aux b) && list_eqb seg_eqb (a_segs a) (a_segs b) && list_eqb aframe_eqb (a_ts a) (a_ts b).
Definition amem (s : astate) (l : list astate) : bool := existsb (astate_eqb s) l.

Definition is_leavetry (sh : shape) : bool := match sh with SLeaveTry => true | _ => false end.

(* ---------- abstract successors ---------- *)
Definition amap := list (list astate).     (* states per pc, index 0 .. length code *)

Definition catch_state (f : aframe) (lower : list aframe) : astate :=
  mkA (f_aux f) (push_top 1 (f_segs f)) (f :: lower).
Definition fin_state (f : aframe) (lower : list aframe) : astate :=
  mkA (f_aux f) (f_segs f) (set_fin false f :: lower).

(* every handler an exception raised with try stack [ts] could reach (over-approximation:
   whether the catch / finally of a frame is still armed is not tracked for exception edges) *)
Fixpoint handlers (ts : list aframe) : list (nat * astate) :=
  match ts with
  | [] => []
  | f :: lower =>
      (match f_cpc f with Some c => [(c, catch_state f lower)] | None => [] end)
      ++ (match f_fpc f with Some fp => [(fp, fin_state f lower)] | None => [] end)
      ++ handlers lower
  end.

(* the leaveTry sites whose recorded state has [ts] as its try stack: where a finally block may return to *)
Definition ret_sites (code : list shape) (m : amap) (ts : list aframe) : list nat :=
  filter (fun p => is_leavetry (nth p code SUnknown)
                   && existsb (fun sp => list_eqb aframe_eqb (a_ts sp) ts) (nth p m []))
         (seq 0 (length code)).

Definition of_alt (ts : list aframe) (a : alt) : nat * astate :=
  let '(pc', l, sg) := a in (pc', mkA l sg ts).

Definition asucc (code : list shape) (md : mode) (m : amap) (pc : nat) (s : astate)
  : option (list (nat * astate)) :=
  let sh := nth pc code SUnknown in
  if is_core sh then option_map (map (of_alt (a_ts s))) (core sh pc (a_aux s) (a_segs s))
  else match sh with
  | STry c fo =>
      let f := mkF (if 0 <? c then Some (pc + c) else None) (if 0 <? fo then Some (pc + fo) else None)
                   (0 <? fo) (clr (a_aux s)) (a_segs s) in
      Some [(S pc, mkA (clr (a_aux s)) (a_segs s) (f :: a_ts s))]
  | SLeaveTry =>
      match a_ts s with
      | f :: lower =>
          match fin_active f with
          | Some fp => Some [(fp, fin_state f lower)]
          | None => Some [(S pc, mkA (a_aux s) (a_segs s) lower)]
          end
      | [] => None
      end
  | SEnterFinally =>
      match a_ts s with
      | f :: lower => Some [(S pc, mkA (a_aux s) (a_segs s) (set_fin false f :: lower))]
      | [] => None
      end
  | SLeaveFinally =>
      match a_ts s with
      | f :: lower =>
          let s' := mkA (a_aux s) (a_segs s) lower in
          Some ((S pc, s') :: map (fun p => (S p, s')) (ret_sites code m (set_fin true f :: lower)))
      | [] => None
      end
  | SRet =>
      match md, a_segs s, a_ts s with
      | MFunc, [sg], [] => if ret_ok (a_aux s) sg then Some [] else None
      | _, _, _ => None
      end
  | _ => None
  end.

Definition init_state (md : mode) : astate :=
  mkA aux0 [mkseg (match md with MGlobal => 0 | _ => 1 end) true] [].

(* at the end of the code no block slot may be left; zero-sized block records (a field initialiser that starts
   with a function prologue) and the known-undefined flag are immaterial *)
Definition norm (x : aux) : aux := if ret_lo x =? 2 then aux0 else x.

Definition final_ok (md : mode) (s : astate) : bool :=
  match md with
  | MFunc => false
  | _ => astate_eqb (mkA (norm (a_aux s)) (a_segs s) (a_ts s)) (init_state md)
  end.

(* [check code md m]: m is an inductive invariant of the abstract machine that contains the entry state *)
Definition check (code : list shape) (md : mode) (m : amap) : bool :=
  let len := length code in
  (length m =? S len)
  && amem (init_state md) (nth 0 m [])
  && forallb (fun pc =>
       forallb (fun s =>
         if pc =? len then final_ok md s
         else match asucc code md m pc s with
              | None => false
              | Some succs =>
                  forallb (fun ps => amem (snd ps) (nth (fst ps) m [])) (succs ++ handlers (a_ts s))
              end) (nth pc m []))
     (seq 0 (S len)).

(* heights agree at joins: NOT required by [verify] -- with try/catch/finally goja's own semantics reaches the
   code after a finally block with different heights (an exception raised in a finally block that was entered
   normally is delivered to the sibling catch); reported as information only *)
Definition consistent (m : amap) : bool :=
  forallb (fun l => match l with
                    | [] => true
                    | s0 :: r => forallb (fun s => list_eqb seg_eqb (a_segs s) (a_segs s0)) r
                    end) m.

(* ---------- inference of the invariant (untrusted: its result is checked) ---------- *)
Definition cap : nat := 24.

Fixpoint add_at (pc : nat) (s : astate) (m : amap) : amap * bool :=
  match m, pc with
  | [], _ => ([], false)
  | l :: r, O => if amem s l then (l :: r, false)
                 else if length l <? cap then ((l ++ [s]) :: r, true) else (l :: r, false)
  | l :: r, S k => let '(r', b) := add_at k s r in (l :: r', b)
  end.

Definition add_all (xs : list (nat * astate)) (mb : amap * bool) : amap * bool :=
  fold_left (fun acc ps => let '(m', b) := add_at (fst ps) (snd ps) (fst acc) in (m', b || snd acc)) xs mb.

Definition round (code : list shape) (md : mode) (m : amap) : amap * bool :=
  fold_left (fun acc pc =>
     fold_left (fun acc2 s =>
        match asucc code md (fst acc2) pc s with
        | None => acc2
        | Some succs => add_all (succs ++ handlers (a_ts s)) acc2
        end) (nth pc (fst acc) []) acc)
   (seq 0 (length code)) (m, false).

Fixpoint iterate (fuel : nat) (code : list shape) (md : mode) (m : amap) : amap :=
  match fuel with
  | O => m
  | S k => let '(m', changed) := round code md m in
           if changed then iterate k code md m' else m'
  end.

Definition infer (code : list shape) (md : mode) : amap :=
  iterate 40 code md ([init_state md] :: repeat [] (length code)).

Definition verify_mode (code : list shape) (md : mode) : bool :=
  check code md (infer code md).

(* global code / eval code *)
Definition verify (code : list shape) : bool := verify_mode code MGlobal.
(* class field initialisers *)
Definition verify_init (code : list shape) : bool := verify_mode code MInit.
(* function bodies *)
Definition verify_func (code : list shape) : bool := verify_mode code MFunc.

(* ---------- small-step model of the VM's stack behaviour ---------- *)
Record cframe := mkCF {
  base : aframe;          (* shape at the try, handler pcs, whether finally is still armed *)
  c_catch : bool;         (* catch handler still armed *)
  c_ret : option nat;     (* finallyRet *)
  c_exc : bool }.         (* finally entered by an exception *)

Record cstate := mkC { pc : nat; cx : aux; segs : list seg; frames : list cframe }.

Inductive outcome := Next (s : cstate) | Done | Escaped | Fault.

(* what the environment decides: data-dependent branch, an exception raised by the instruction *)
Inductive choice := CNext | CJump | CThrow.

(* handleThrow restricted to the frames of this activation *)
Fixpoint unwind (fs : list cframe) : option cstate :=
  match fs with
  | [] => None
  | f :: r =>
      let b := base f in
      match (if c_catch f then f_cpc b else None) with
      | Some c => Some (mkC c (f_aux b) (push_top 1 (f_segs b)) (mkCF b false (c_ret f) (c_exc f) :: r))
      | None =>
          match fin_active b with
          | Some fp => Some (mkC fp (f_aux b) (f_segs b) (mkCF (set_fin false b) false None true :: r))
          | None => unwind r
          end
      end
  end.

Definition do_throw (fs : list cframe) : outcome :=
  match unwind fs with Some s => Next s | None => Escaped end.

Definition pick (ch : choice) (alts : list alt) : option alt :=
  match ch, alts with
  | CThrow, _ => None
  | CJump, _ :: a :: _ => Some a
  | _, a :: _ => Some a
  | _, [] => None
  end.

Definition step (code : list shape) (md : mode) (ch : choice) (st : cstate) : outcome :=
  let len := length code in
  if pc st =? len then
    match md, frames st with
    | MFunc, _ => Fault
    | _, [] => if aux_eqb (norm (cx st)) aux0 && list_eqb seg_eqb (segs st) (a_segs (init_state md)) then Done else Fault
    | _, _ => Fault
    end
  else if len <? pc st then Fault
  else
    let sh := nth (pc st) code SUnknown in
    if is_core sh then
      match core sh (pc st) (cx st) (segs st) with
      | None => Fault
      | Some alts =>
          match pick ch alts with
          | Some (pc', l, sg) => Next (mkC pc' l sg (frames st))
          | None => do_throw (frames st)
          end
      end
    else match sh with
    | STry c fo =>
        match ch with
        | CThrow => do_throw (frames st)
        | _ =>
          let b := mkF (if 0 <? c then Some (pc st + c) else None) (if 0 <? fo then Some (pc st + fo) else None)
                       (0 <? fo) (clr (cx st)) (segs st) in
          Next (mkC (S (pc st)) (clr (cx st)) (segs st) (mkCF b true None false :: frames st))
        end
    | SLeaveTry =>
        match frames st with
        | f :: r =>
            match ch with
            | CThrow => do_throw (frames st)
            | _ =>
              match fin_active (base f) with
              | Some fp => Next (mkC fp (f_aux (base f)) (f_segs (base f))
                                    (mkCF (set_fin false (base f)) false (Some (S (pc st))) (c_exc f) :: r))
              | None => Next (mkC (S (pc st)) (cx st) (segs st) r)
              end
            end
        | [] => Fault
        end
    | SEnterFinally =>
        match frames st with
        | f :: r =>
            match ch with
            | CThrow => do_throw (frames st)
            | _ => Next (mkC (S (pc st)) (cx st) (segs st)
                             (mkCF (set_fin false (base f)) (c_catch f) (c_ret f) (c_exc f) :: r))
            end
        | [] => Fault
        end
    | SLeaveFinally =>
        match frames st with
        | f :: r =>
            if c_exc f then do_throw r
            else match ch with
                 | CThrow => do_throw (frames st)
                 | _ => match c_ret f with
                        | Some t => Next (mkC t (cx st) (segs st) r)
                        | None => Next (mkC (S (pc st)) (cx st) (segs st) r)
                        end
                 end
        | [] => Fault
        end
    | SRet =>
        match md, segs st, frames st with
        | MFunc, [sg], [] => if ret_ok (cx st) sg then Done else Fault
        | _, _, _ => Fault
        end
    | _ => Fault
    end.

Definition entry_state (md : mode) : cstate := mkC 0 aux0 (a_segs (init_state md)) [].
Definition entry_ok (md : mode) (st : cstate) : Prop := st = entry_state md.

(* run for at most [fuel] steps under an arbitrary environment [orc] *)
Fixpoint vm_run (fuel : nat) (code : list shape) (md : mode) (orc : nat -> choice) (st : cstate) : outcome :=
  match fuel with
  | O => Next st
  | S k =>
      match step code md (orc k) st with
      | Next st' => vm_run k code md orc st'
      | o => o
      end
  end.

(* no pop below the current segment / frame base, no use of an unknown instruction, no jump out of
   the code, and a normal exit only with the calling-convention shape *)
Definition stack_safe (o : outcome) : Prop := o <> Fault.
