(* C01 -- soundness of the bytecode verifier: a map accepted by [check] is an inductive invariant of
   the small-step model, hence every run (every branch, every exception edge) is stack safe. *)
From Coq Require Import List Arith ZArith Bool Lia.
Import ListNotations.
From Verif.C01 Require Import Model.

(* ---------- boolean equalities are sound and reflexive ---------- *)
Lemma seg_eqb_eq a b : seg_eqb a b = true -> a = b.
Proof.
  destruct a, b; unfold seg_eqb; simpl; intros H.
  apply andb_true_iff in H as [H1 H2]. apply Nat.eqb_eq in H1. apply eqb_prop in H2. congruence.
Qed.
Lemma seg_eqb_refl a : seg_eqb a a = true.
Proof. destruct a; unfold seg_eqb; simpl. now rewrite Nat.eqb_refl, eqb_reflx. Qed.

Lemma list_eqb_eq {A} (e : A -> A -> bool) :
  (forall a b, e a b = true -> a = b) -> forall x y, list_eqb e x y = true -> x = y.
Proof.
  intros He x; induction x as [|a x IH]; intros [|b y] H; simpl in H; try discriminate; auto.
  apply andb_true_iff in H as [H1 H2]. f_equal; auto.
Qed.
Lemma list_eqb_refl {A} (e : A -> A -> bool) :
  (forall a, e a a = true) -> forall x, list_eqb e x x = true.
Proof. intros He x; induction x; simpl; auto. now rewrite He, IHx. Qed.

Lemma optn_eqb_eq a b : optn_eqb a b = true -> a = b.
Proof. destruct a, b; simpl; intros H; try discriminate; auto. apply Nat.eqb_eq in H; congruence. Qed.
Lemma optn_eqb_refl a : optn_eqb a a = true.
Proof. destruct a; simpl; auto. apply Nat.eqb_refl. Qed.

Lemma blk_eqb_eq a b : blk_eqb a b = true -> a = b.
Proof.
  destruct a, b; unfold blk_eqb; simpl; intros H. apply andb_true_iff in H as [H1 H2].
  apply Nat.eqb_eq in H1. apply eqb_prop in H2. congruence.
Qed.
Lemma blk_eqb_refl a : blk_eqb a a = true.
Proof. destruct a; unfold blk_eqb; simpl. now rewrite Nat.eqb_refl, eqb_reflx. Qed.
Lemma aux_eqb_eq a b : aux_eqb a b = true -> a = b.
Proof.
  destruct a, b; unfold aux_eqb; simpl; intros H. apply andb_true_iff in H as [H1 H2].
  apply eqb_prop in H1. apply (list_eqb_eq _ blk_eqb_eq) in H2. congruence.
Qed.
Lemma aux_eqb_refl a : aux_eqb a a = true.
Proof. destruct a; unfold aux_eqb; simpl. now rewrite eqb_reflx, (list_eqb_refl _ blk_eqb_refl). Qed.

Lemma aframe_eqb_eq a b : aframe_eqb a b = true -> a = b.
Proof.
  destruct a as [c1 p1 n1 x1 g1], b as [c2 p2 n2 x2 g2]; unfold aframe_eqb; intros H.
  apply andb_true_iff in H as [H H5]. apply andb_true_iff in H as [H H4].
  apply andb_true_iff in H as [H H3]. apply andb_true_iff in H as [H1 H2].
  apply optn_eqb_eq in H1. apply optn_eqb_eq in H2. apply eqb_prop in H3. apply aux_eqb_eq in H4.
  apply (list_eqb_eq _ seg_eqb_eq) in H5. simpl in *. congruence.
Qed.
Lemma aframe_eqb_refl a : aframe_eqb a a = true.
Proof.
  destruct a as [c p n [nu bl] g]; unfold aframe_eqb, aux_eqb; simpl.
  now rewrite !optn_eqb_refl, !eqb_reflx, (list_eqb_refl _ blk_eqb_refl), (list_eqb_refl _ seg_eqb_refl).
Qed.

Lemma astate_eqb_eq a b : astate_eqb a b = true -> a = b.
Proof.
  destruct a as [x1 g1 t1], b as [x2 g2 t2]; unfold astate_eqb; intros H.
  apply andb_true_iff in H as [H H3]. apply andb_true_iff in H as [H1 H2].
  apply aux_eqb_eq in H1. apply (list_eqb_eq _ seg_eqb_eq) in H2. apply (list_eqb_eq _ aframe_eqb_eq) in H3.
  simpl in *. congruence.
Qed.

Lemma amem_In s l : amem s l = true -> In s l.
Proof.
  unfold amem. intros H. apply existsb_exists in H as [x [Hx He]].
  apply astate_eqb_eq in He. now subst.
Qed.

(* ---------- the invariant ---------- *)
Section Sound.
Variable code : list shape.
Variable md : mode.
Variable m : amap.
Hypothesis Hcheck : check code md m = true.

Definition abs (st : cstate) : astate := mkA (cx st) (segs st) (map base (frames st)).

Definition ret_ok1 (f : cframe) (r : list cframe) : Prop :=
  match c_ret f with
  | None => True
  | Some t => exists p s, t = S p /\ nth p code SUnknown = SLeaveTry /\ In s (nth p m [])
                          /\ a_ts s = set_fin true (base f) :: map base r
  end.

Fixpoint rets_ok (fs : list cframe) : Prop :=
  match fs with
  | [] => True
  | f :: r => ret_ok1 f r /\ rets_ok r
  end.

Definition Inv (st : cstate) : Prop :=
  In (abs st) (nth (pc st) m []) /\ rets_ok (frames st).

Lemma check_len : length m = S (length code).
Proof.
  unfold check in Hcheck. apply andb_true_iff in Hcheck as [H _]. apply andb_true_iff in H as [H _].
  now apply Nat.eqb_eq in H.
Qed.

Lemma in_pc_le s p : In s (nth p m []) -> p <= length code.
Proof.
  intros H. destruct (le_lt_dec p (length code)); auto.
  rewrite nth_overflow in H by (rewrite check_len; lia). destruct H.
Qed.

Lemma check_at p s : In s (nth p m []) ->
  if p =? length code then final_ok md s = true
  else exists succs, asucc code md m p s = Some succs /\
       forall ps, In ps (succs ++ handlers (a_ts s)) -> In (snd ps) (nth (fst ps) m []).
Proof.
  intros Hin. pose proof (in_pc_le _ _ Hin) as Hle.
  unfold check in Hcheck. apply andb_true_iff in Hcheck as [_ H].
  rewrite forallb_forall in H. specialize (H p).
  assert (Hp : In p (seq 0 (S (length code)))) by (apply in_seq; lia).
  specialize (H Hp). rewrite forallb_forall in H. specialize (H s Hin).
  destruct (p =? length code); auto.
  destruct (asucc code md m p s) as [succs|]; try discriminate.
  exists succs; split; auto. intros ps Hps. rewrite forallb_forall in H.
  apply amem_In. now apply H.
Qed.

Lemma init_in : In (init_state md) (nth 0 m []).
Proof.
  unfold check in Hcheck. apply andb_true_iff in Hcheck as [H _]. apply andb_true_iff in H as [_ H].
  now apply amem_In.
Qed.

(* ---------- exception edges ---------- *)
Lemma set_fin_true_false b : set_fin true (set_fin false b) = set_fin true b.
Proof. reflexivity. Qed.

Lemma handlers_app_in ps f lower : In ps (handlers lower) -> In ps (handlers (f :: lower)).
Proof. intros H. simpl. apply in_or_app; right. apply in_or_app; right. exact H. Qed.

Lemma unwind_ok fs st' :
  unwind fs = Some st' -> rets_ok fs ->
  In (pc st', abs st') (handlers (map base fs)) /\ rets_ok (frames st').
Proof.
  induction fs as [|f r IH]; simpl; intros Hu Hr; try discriminate.
  destruct Hr as [Hr1 Hr].
  destruct (if c_catch f then f_cpc (base f) else None) as [c|] eqn:Hc.
  - inversion Hu; subst; clear Hu. simpl. split.
    + destruct (c_catch f); try discriminate. rewrite Hc. simpl. left. reflexivity.
    + split; auto.
  - destruct (fin_active (base f)) as [fp|] eqn:Hf.
    + inversion Hu; subst; clear Hu. simpl. split.
      * unfold fin_active in Hf. destruct (f_fin (base f)); try discriminate. rewrite Hf.
        apply in_or_app; right. simpl. left. reflexivity.
      * split; auto. unfold ret_ok1; simpl. exact I.
    + destruct (IH Hu Hr) as [H1 H2]. split; auto. apply handlers_app_in. exact H1.
Qed.

Lemma do_throw_ok fs s :
  In s (nth (length code) m []) \/ True ->
  rets_ok fs ->
  (forall ps, In ps (handlers (map base fs)) -> In (snd ps) (nth (fst ps) m [])) ->
  match do_throw fs with
  | Next st' => Inv st'
  | Fault => False
  | _ => True
  end.
Proof.
  intros _ Hr Hh. unfold do_throw. destruct (unwind fs) as [st'|] eqn:Hu; auto.
  destruct (unwind_ok _ _ Hu Hr) as [H1 H2]. split; auto.
  apply (Hh (pc st', abs st')). exact H1.
Qed.

(* ---------- one step ---------- *)
Lemma pick_in ch alts a : pick ch alts = Some a -> In a alts.
Proof.
  destruct ch, alts as [|x [|y l]]; simpl; intros H; inversion H; subst; auto.
Qed.

Lemma final_ok_state s : final_ok md s = true ->
  md <> MFunc /\ mkA (norm (a_aux s)) (a_segs s) (a_ts s) = init_state md.
Proof.
  unfold final_ok. destruct md; try discriminate; intros H; split; try discriminate; now apply astate_eqb_eq.
Qed.

Lemma ret_site_in p s f lower :
  nth p code SUnknown = SLeaveTry -> In s (nth p m []) -> a_ts s = f :: lower ->
  In p (ret_sites code m (f :: lower)).
Proof.
  intros Hc Hin Hts. unfold ret_sites. apply filter_In. split.
  - apply in_seq. split; try lia. simpl.
    destruct (le_lt_dec (length code) p); auto.
    rewrite nth_overflow in Hc by lia. discriminate.
  - rewrite Hc. simpl. apply existsb_exists. exists s. split; auto.
    rewrite Hts. apply (list_eqb_refl _ aframe_eqb_refl).
Qed.

Theorem step_inv ch st :
  Inv st ->
  match step code md ch st with
  | Next st' => Inv st'
  | Fault => False
  | _ => True
  end.
Proof.
  intros [Hin Hr]. pose proof (check_at _ _ Hin) as Hc. pose proof (in_pc_le _ _ Hin) as Hle.
  unfold step.
  destruct (pc st =? length code) eqn:Hend.
  - (* program end *)
    apply final_ok_state in Hc as [Hmd Hs].
    unfold abs in Hs. injection Hs as H1 H2 H3.
    destruct (frames st); try discriminate. rewrite H1, H2. rewrite aux_eqb_refl.
    destruct md; try congruence; simpl; exact I.
  - apply Nat.eqb_neq in Hend.
    assert (Hlt : (length code <? pc st) = false) by (apply Nat.ltb_ge; lia).
    rewrite Hlt.
    destruct Hc as [succs [Hs Hall]].
    assert (Hthrow : forall fs, rets_ok fs ->
              (forall ps, In ps (handlers (map base fs)) -> In ps (handlers (a_ts (abs st)))) ->
              match do_throw fs with Next st' => Inv st' | Fault => False | _ => True end).
    { intros fs Hrf Hsub. apply (do_throw_ok fs (init_state md)); auto.
      intros ps Hps. apply Hall. apply in_or_app; right. auto. }
    assert (Hthrow0 : match do_throw (frames st) with Next st' => Inv st' | Fault => False | _ => True end).
    { apply Hthrow; auto. }
    unfold asucc in Hs. simpl in Hs.
    destruct (is_core (nth (pc st) code SUnknown)) eqn:Hcore.
    + (* stack-only instructions *)
      destruct (core (nth (pc st) code SUnknown) (pc st) (cx st) (segs st)) as [alts|] eqn:Hco;
        simpl in Hs; try discriminate.
      inversion Hs; subst succs; clear Hs.
      destruct (pick ch alts) as [[[pc' l] sg]|] eqn:Hp; auto.
      apply pick_in in Hp. split; simpl; auto.
      apply (Hall (pc', mkA l sg (map base (frames st)))).
      apply in_or_app; left. apply in_map_iff. exists (pc', l, sg). split; auto.
    + destruct (nth (pc st) code SUnknown) eqn:Hsh; simpl in Hcore; try discriminate; try discriminate Hs.
      * (* try *)
        destruct ch; auto; inversion Hs; subst succs; clear Hs.
        -- split; simpl.
           ++ apply (Hall (S (pc st), _)). apply in_or_app; left. left. reflexivity.
           ++ split; auto. unfold ret_ok1; simpl; exact I.
        -- split; simpl.
           ++ apply (Hall (S (pc st), _)). apply in_or_app; left. left. reflexivity.
           ++ split; auto. unfold ret_ok1; simpl; exact I.
      * (* leaveTry *)
        destruct (frames st) as [|f r] eqn:Hfr; simpl in Hs; try discriminate.
        destruct Hr as [Hr1 Hr].
        assert (Hgo : match (match fin_active (base f) with
              | Some fp => Next (mkC fp (f_aux (base f)) (f_segs (base f))
                                    (mkCF (set_fin false (base f)) false (Some (S (pc st))) (c_exc f) :: r))
              | None => Next (mkC (S (pc st)) (cx st) (segs st) r)
              end) with Next st' => Inv st' | Fault => False | _ => True end).
        { destruct (fin_active (base f)) as [fp|] eqn:Hfa; inversion Hs; subst succs; clear Hs.
          - split; simpl.
            + apply (Hall (fp, fin_state (base f) (map base r))). apply in_or_app; left. left. reflexivity.
            + split; auto. unfold ret_ok1; simpl.
              exists (pc st), (abs st). repeat split; auto.
              unfold abs. rewrite Hfr. simpl. f_equal.
              unfold fin_active in Hfa. destruct (base f) as [a b c d e]; simpl in *.
              destruct c; try discriminate. reflexivity.
          - split; simpl; auto.
            apply (Hall (S (pc st), _)). apply in_or_app; left. left. reflexivity. }
        destruct ch; auto; rewrite <- Hfr; apply Hthrow0.
      * (* enterFinally *)
        destruct (frames st) as [|f r] eqn:Hfr; simpl in Hs; try discriminate.
        destruct Hr as [Hr1 Hr]. inversion Hs; subst succs; clear Hs.
        assert (Hgo : Inv (mkC (S (pc st)) (cx st) (segs st)
                             (mkCF (set_fin false (base f)) (c_catch f) (c_ret f) (c_exc f) :: r))).
        { split; simpl.
          - apply (Hall (S (pc st), _)). apply in_or_app; left. left. reflexivity.
          - split; auto. }
        destruct ch; auto; rewrite <- Hfr; apply Hthrow0.
      * (* leaveFinally *)
        destruct (frames st) as [|f r] eqn:Hfr; simpl in Hs; try discriminate.
        destruct Hr as [Hr1 Hr]. inversion Hs; subst succs; clear Hs.
        destruct (c_exc f).
        { apply Hthrow; auto. intros ps Hps. unfold abs. rewrite Hfr. simpl map.
          apply handlers_app_in. exact Hps. }
        assert (Hgo : match (match c_ret f with
                        | Some t => Next (mkC t (cx st) (segs st) r)
                        | None => Next (mkC (S (pc st)) (cx st) (segs st) r)
                        end) with Next st' => Inv st' | Fault => False | _ => True end).
        { unfold ret_ok1 in Hr1. destruct (c_ret f) as [t|].
          - destruct Hr1 as [p [s [Ht [Hcp [Hsin Hts]]]]]. subst t. split; simpl; auto.
            apply (Hall (S p, mkA (cx st) (segs st) (map base r))). apply in_or_app; left. right.
            apply in_map_iff. exists p. split; auto.
            eapply ret_site_in; eauto.
          - split; simpl; auto.
            apply (Hall (S (pc st), _)). apply in_or_app; left. left. reflexivity. }
        destruct ch; auto; rewrite <- Hfr; apply Hthrow0.
      * (* ret *)
        destruct md; try discriminate.
        unfold abs in Hs; simpl in Hs.
        destruct (segs st) as [|sg [|]]; try discriminate.
        destruct (frames st); simpl in Hs; try discriminate.
        destruct (ret_ok (cx st) sg); try discriminate. exact I.
Qed.

Lemma entry_inv : Inv (entry_state md).
Proof. split; simpl; auto. exact init_in. Qed.

Theorem run_inv fuel : forall orc st, Inv st ->
  match vm_run fuel code md orc st with
  | Next st' => Inv st'
  | Fault => False
  | _ => True
  end.
Proof.
  induction fuel as [|k IH]; intros orc st Hi; simpl; auto.
  pose proof (step_inv (orc k) st Hi) as Hs.
  destruct (step code md (orc k) st) as [st'| | |]; auto.
  apply IH. exact Hs.
Qed.

End Sound.

(* ---------- main theorems ---------- *)
Theorem check_sound : forall code md m, check code md m = true ->
  forall fuel orc st, entry_ok md st -> stack_safe (vm_run fuel code md orc st).
Proof.
  intros code md m Hc fuel orc st He. unfold entry_ok in He. subst st.
  pose proof (run_inv code md m Hc fuel orc (entry_state md) (entry_inv code md m Hc)) as H.
  unfold stack_safe. intros Hf. rewrite Hf in H. exact H.
Qed.

Lemma verify_mode_check code md : verify_mode code md = true -> check code md (infer code md) = true.
Proof. unfold verify_mode. intros H. exact H. Qed.

Theorem verify_sound : forall code, verify code = true ->
  forall fuel orc st, entry_ok MGlobal st -> stack_safe (vm_run fuel code MGlobal orc st).
Proof. intros code H. apply (check_sound code MGlobal _ (verify_mode_check _ _ H)). Qed.

Theorem verify_func_sound : forall code, verify_func code = true ->
  forall fuel orc st, entry_ok MFunc st -> stack_safe (vm_run fuel code MFunc orc st).
Proof. intros code H. apply (check_sound code MFunc _ (verify_mode_check _ _ H)). Qed.

Theorem verify_init_sound : forall code, verify_init code = true ->
  forall fuel orc st, entry_ok MInit st -> stack_safe (vm_run fuel code MInit orc st).
Proof. intros code H. apply (check_sound code MInit _ (verify_mode_check _ _ H)). Qed.

(* a run that has finished normally did so with the calling-convention shape: by construction of
   [step], [Done] is only produced (a) at pc = length code in global code with no locals, an empty
   operand stack and an empty try stack, or (b) by [ret] with exactly one operand and an empty try
   stack.  Stated as lemmas about [step]: *)
Lemma done_end_shape code md ch st :
  md <> MFunc ->
  step code md ch st = Done ->
  pc st = length code /\ norm (cx st) = aux0 /\ segs st = a_segs (init_state md) /\ frames st = [].
Proof.
  intros Hmd. unfold step. destruct (pc st =? length code) eqn:E.
  - apply Nat.eqb_eq in E. destruct md; try congruence;
      (destruct (frames st); try discriminate;
       destruct (aux_eqb (norm (cx st)) aux0) eqn:E2; simpl; try discriminate;
       match goal with |- context [list_eqb seg_eqb (segs st) ?x] => destruct (list_eqb seg_eqb (segs st) x) eqn:E3 end;
       try discriminate; intros _; apply aux_eqb_eq in E2; apply (list_eqb_eq _ seg_eqb_eq) in E3; auto).
  - destruct (length code <? pc st); try discriminate.
    destruct (is_core (nth (pc st) code SUnknown)).
    + destruct (core _ _ _ _); try discriminate.
      destruct (pick ch l) as [[[? ?] ?]|]; try discriminate.
      unfold do_throw. destruct (unwind _); discriminate.
    + destruct md; try congruence;
      (destruct (nth (pc st) code SUnknown); try discriminate;
        repeat match goal with
               | |- context [match ?x with _ => _ end] => destruct x; try discriminate
               end; unfold do_throw; try (destruct (unwind _); discriminate)).
Qed.

Lemma done_func_shape code ch st :
  step code MFunc ch st = Done ->
  nth (pc st) code SUnknown = SRet /\
  (exists n, ret_lo (cx st) <= n <= ret_hi (cx st) /\ segs st = [mkseg n true]) /\ frames st = [].
Proof.
  unfold step. destruct (pc st =? length code) eqn:E.
  - destruct (frames st); discriminate.
  - destruct (length code <? pc st); try discriminate.
    destruct (is_core (nth (pc st) code SUnknown)) eqn:Hc.
    + destruct (core _ _ _ _); try discriminate.
      destruct (pick ch l) as [[[? ?] ?]|]; try discriminate.
      unfold do_throw. destruct (unwind _); discriminate.
    + destruct (nth (pc st) code SUnknown) eqn:Hsh; try discriminate;
        try (repeat match goal with
               | |- context [match ?x with _ => _ end] => destruct x; try discriminate
               end; unfold do_throw; try (destruct (unwind _); discriminate); fail).
      destruct (segs st) as [|sg [|]]; try discriminate.
      destruct (frames st); try discriminate.
      destruct (ret_ok (cx st) sg) eqn:E1; try discriminate.
      intros _. unfold ret_ok in E1. apply andb_true_iff in E1 as [E1 E3]. apply andb_true_iff in E1 as [E1 E2].
      apply Nat.leb_le in E1. apply Nat.leb_le in E2. destruct sg; simpl in *; subst. repeat split; auto.
      eexists; split; [split; eassumption | reflexivity].
Qed.

(* ---------- non-vacuity: concrete code the verifier accepts / rejects ---------- *)
(* try { push; pop } catch (e) { pop } finally { push; pop }  followed by a spread call f(...a, b) *)
Definition ex_code : list shape :=
  [STry 4 7; SNorm 0 1; SNorm 1 0; SJump 4; SNorm 1 0; SNorm 0 0; SNorm 0 0; SEnterFinally;
   SNorm 0 1; SNorm 1 0; SLeaveFinally;
   SStartVar; SNorm 0 2; SNorm 0 1; SSpread; SNorm 0 1; SCallVar 2; SEndVar; SNorm 1 0].

Example ex_code_verifies : verify ex_code = true.
Proof. vm_compute. reflexivity. Qed.

(* the run that takes no exception reaches the end of the code normally *)
Example ex_code_runs : vm_run 40 ex_code MGlobal (fun _ => CNext) (entry_state MGlobal) = Done.
Proof. vm_compute. reflexivity. Qed.

(* a run in which the second instruction throws goes through the catch and the finally block *)
Example ex_code_runs_exc :
  vm_run 40 ex_code MGlobal (fun k => if k =? 38 then CThrow else CNext) (entry_state MGlobal) = Done.
Proof. vm_compute. reflexivity. Qed.

(* F18: "(false && x), 1;" compiles to  loadVal false; loadVal 1; pop : one value is left on the stack *)
Definition f18_code : list shape := [SNorm 0 1; SNorm 0 1; SNorm 1 0].
Example f18_rejected : verify f18_code = false.
Proof. vm_compute. reflexivity. Qed.
Example f18_faults : vm_run 10 f18_code MGlobal (fun _ => CNext) (entry_state MGlobal) = Fault.
Proof. vm_compute. reflexivity. Qed.

(* a function body: enter with 2 locals, compute, return exactly one value above `this` *)
Example func_verifies : verify_func [SEnter false 0 2; SNorm 0 1; SNorm 1 1; SRet] = true.
Proof. vm_compute. reflexivity. Qed.
Example func_leak_rejected : verify_func [SEnter false 0 2; SNorm 0 1; SNorm 0 1; SRet] = false.
Proof. vm_compute. reflexivity. Qed.
(* return inside a catch block whose parameter is kept on the stack: one adopted operand is allowed *)
Example func_ret_in_catch : verify_func [SEnter false 0 0; STry 3 0; SNorm 0 0; SJump 8; SEnter true 0 0; SNorm 0 1;
  SNorm 1 0; SLeaveTry; SNorm 0 1; SRet; SLeave 1; SLeaveTry; SNorm 0 1; SRet] = true.
Proof. vm_compute. reflexivity. Qed.
Example underflow_rejected : verify [SNorm 0 1; SNorm 2 1; SNorm 1 0] = false.
Proof. vm_compute. reflexivity. Qed.
Example loop_leak_rejected : verify [SNorm 0 1; SCond 3 1 0 0; SNorm 0 1; SJump (-3)] = false.
Proof. vm_compute. reflexivity. Qed.
