(* C14 — proofs.  Every statement is by induction on the frame list with a one-step lemma per invariant. *)
From Coq Require Import List NArith Bool Arith Lia.
Import ListNotations.
From Verif.C14 Require Import Model.

(* ------------------------------------------------------------------------------------------------ *)
(* generic facts *)

Lemma catch_obs_app : forall a b, catch_obs (a ++ b) = catch_obs a ++ catch_obs b.
Proof. intros; unfold catch_obs; apply flat_map_app. Qed.

Lemma js_events_app : forall a b, js_events (a ++ b) = js_events a ++ js_events b.
Proof. intros; unfold js_events; apply filter_app. Qed.

Lemma unwind_cons : forall d f r s0,
  unwind d (f :: r) s0 =
  (fst (step d f (fst (unwind (S d) r s0))),
   snd (unwind (S d) r s0) ++ snd (step d f (fst (unwind (S d) r s0)))).
Proof.
  intros. simpl. destruct (unwind (S d) r s0) as [s ev]. simpl.
  destruct (step d f s) as [s' ev']. reflexivity.
Qed.

(* an induction principle for unwind: a property of signals preserved by every step, together with a
   property of the events each step emits *)
Section Lift.
  Variable okf : frame -> bool.
  Variable I : signal -> Prop.
  Variable E : event -> Prop.
  Hypothesis step_ok : forall d f s, okf f = true -> I s ->
     I (fst (step d f s)) /\ Forall E (snd (step d f s)).

  Lemma unwind_lift : forall fs d s0, forallb okf fs = true -> I s0 ->
     I (fst (unwind d fs s0)) /\ Forall E (snd (unwind d fs s0)).
  Proof.
    induction fs as [|f r IH]; intros d s0 Hok H0.
    - simpl. split; auto.
    - simpl in Hok. apply andb_true_iff in Hok. destruct Hok as [Hf Hr].
      rewrite unwind_cons. simpl.
      destruct (IH (S d) s0 Hr H0) as [Hs Hev].
      destruct (step_ok d f _ Hf Hs) as [Hs' Hev'].
      split; auto. apply Forall_app; split; auto.
  Qed.
End Lift.

Lemma fin_ev_cases : forall d j, fin_ev d j = [] \/ fin_ev d j = [EvFinally d].
Proof. intros; unfold fin_ev; destruct (j_finally j); auto. Qed.

Lemma Forall_fin_ev : forall (P : event -> Prop) d j, (forall d', P (EvFinally d')) -> Forall P (fin_ev d j).
Proof. intros P d j H. destruct (fin_ev_cases d j) as [-> | ->]; auto. Qed.

(* ------------------------------------------------------------------------------------------------ *)
(* 4. foreign panics *)

Lemma step_foreign : forall d f x, step d f (SPanic (PVForeign x)) = (SPanic (PVForeign x), []).
Proof.
  intros d [j|[en cb h]] x; simpl.
  - reflexivity.
  - unfold step_nat; destruct cb; reflexivity.
Qed.

Lemma foreign_propagates : forall fs d x,
  unwind d fs (SPanic (PVForeign x)) = (SPanic (PVForeign x), []).
Proof.
  induction fs as [|f r IH]; intros; simpl; auto.
  rewrite IH. rewrite step_foreign. reflexivity.
Qed.

Lemma foreign_host : forall cb d x, cb_convert d cb (SPanic (PVForeign x)) = GPanic (PVForeign x).
Proof. intros cb d x; destruct cb; reflexivity. Qed.

Lemma not_exc_pv : forall e, (forall v st, e <> exc_err v st) -> pv_of_err e = PVErr e.
Proof.
  intros [ls b] H. destruct ls; auto. destruct b; auto. exfalso. eapply H. reflexivity.
Qed.

Lemma plain_cb : forall cb d e, uncatchable e = false -> (forall v st, e <> exc_err v st) ->
  cb_convert d cb (SPanic (PVErr e)) = GPanic (PVErr e).
Proof.
  intros cb d e Hu Hn. destruct cb; simpl; unfold run_wrapped; simpl; rewrite ?Hu; reflexivity.
Qed.

Lemma step_plain : forall d f e, uncatchable e = false -> (forall v st, e <> exc_err v st) ->
  step d f (SPanic (PVErr e)) = (SPanic (PVErr e), []).
Proof.
  intros d [j|[en cb h]] e Hu Hn; simpl.
  - reflexivity.
  - unfold step_nat. simpl n_cb. rewrite plain_cb; auto.
Qed.

Lemma plain_error_panic_propagates : forall fs d e cb,
  uncatchable e = false -> (forall v st, e <> exc_err v st) ->
  unwind d fs (SPanic (PVErr e)) = (SPanic (PVErr e), []) /\
  cb_convert d cb (SPanic (PVErr e)) = GPanic (PVErr e).
Proof.
  intros fs d e cb Hu Hn. split; [|apply plain_cb; auto].
  revert d. induction fs as [|f r IH]; intros; simpl; auto.
  rewrite IH. rewrite step_plain; auto.
Qed.

(* ------------------------------------------------------------------------------------------------ *)
(* 5. rethrow *)

Lemma rethrow_identity : forall d fin p v st,
  exc_of d p = Some (v, st) ->
  step_js d (mkJS (Some CRethrow) fin FinQuiet) (SPanic p) =
    (SPanic (PVExc v (stack_of d v)), EvCatch d v :: fin_ev d (mkJS (Some CRethrow) fin FinQuiet)) /\
  step_js d (mkJS None fin FinQuiet) (SPanic p) = (SPanic (PVExc v st), fin_ev d (mkJS None fin FinQuiet)).
Proof. intros. unfold step_js. rewrite H. unfold apply_fin. simpl. destruct fin; split; reflexivity. Qed.

(* ------------------------------------------------------------------------------------------------ *)
(* 1. identity *)

Definition carries (v : value) (s : signal) : Prop := sig_value s = Some v.

Lemma carries_inv : forall v s, carries v s ->
  s = SPanic (PVValue v) \/ exists st, s = SPanic (PVExc v st).
Proof.
  intros v [|[w|w st|e|x]] H; unfold carries in H; simpl in H; try discriminate; inversion H; subst; eauto.
Qed.

Definition ident_ev (v : value) (e : event) : Prop :=
  match e with
  | EvCatch _ x => x = v
  | EvReject _ x => x = v
  | EvNative _ g => exists st, g = exc_err v st
  | EvFinally _ => True
  end.

Lemma exc_of_carries : forall d v s p, s = SPanic p -> carries v s -> exists st, exc_of d p = Some (v, st).
Proof.
  intros d v s p -> H. destruct (carries_inv _ _ H) as [E | [st E]]; inversion E; subst; simpl; eauto.
Qed.

Lemma run_wrapped_carries : forall d v p, carries v (SPanic p) ->
  exists st, run_wrapped d p = GErrRes (exc_err v st).
Proof.
  intros d v p H. destruct (exc_of_carries d v _ p eq_refl H) as [st E].
  unfold run_wrapped. rewrite E. eauto.
Qed.

Lemma handle_transparent : forall d en h v st, transparent_handler h = true ->
  carries v (SPanic (handle d en h (exc_err v st))).
Proof.
  intros d en h v st Hh. destruct h; simpl in Hh; try discriminate; unfold carries; simpl; auto.
  destruct en; simpl; auto.
Qed.

Lemma cb_carries : forall d cb v s, carries v s -> cb_transparent_for v cb = true ->
  (exists st, cb_convert d cb s = GErrRes (exc_err v st)) \/
  (exists p, cb_convert d cb s = GPanic p /\ carries v (SPanic p)).
Proof.
  intros d cb v s Hc Hcb.
  destruct (carries_inv _ _ Hc) as [E | [st E]]; subst s;
    destruct cb; simpl; unfold run_wrapped; simpl;
    try (left; eexists; reflexivity);
    try (right; eexists; split; [reflexivity | unfold carries; reflexivity]);
    destruct v; simpl in Hcb; try discriminate; left; eexists; reflexivity.
Qed.

Lemma step_js_identity : forall v d j s, transparent (FJS j) = true -> carries v s ->
  carries v (fst (step_js d j s)) /\ Forall (ident_ev v) (snd (step_js d j s)).
Proof.
  intros v d j s Ht Hc.
  destruct (carries_inv _ _ Hc) as [E | [st E]]; subst s;
    destruct j as [[[]|] [] []]; simpl in *; try discriminate; unfold carries; simpl;
    (split; [reflexivity|]); repeat constructor; simpl; auto.
Qed.

Lemma step_identity : forall v d f s, transparent_for v f = true -> carries v s ->
  carries v (fst (step d f s)) /\ Forall (ident_ev v) (snd (step d f s)).
Proof.
  intros v d f s Ht Hc.
  destruct f as [j | [en cb h]].
  - simpl. apply step_js_identity; auto.
  - simpl in Ht. apply andb_true_iff in Ht. destruct Ht as [Hh Hcb].
    simpl. unfold step_nat. simpl n_cb; simpl n_entry; simpl n_h.
    destruct (cb_carries d cb v s Hc Hcb) as [[st ->] | [p [-> Hp]]]; simpl.
    + split; [apply handle_transparent; auto | repeat constructor; simpl; eauto].
    + split; [auto | constructor].
Qed.

Lemma Forall_ident_catch : forall v ev, Forall (ident_ev v) ev -> Forall (fun x => x = v) (catch_obs ev).
Proof.
  induction 1 as [|e r He Hr IH]; simpl; auto.
  destruct e; simpl in *; auto.
Qed.

Lemma Forall_ident_native : forall v ev, Forall (ident_ev v) ev ->
  Forall (fun e => match e with EvNative _ g => exists st, g = exc_err v st | _ => True end) ev.
Proof.
  induction 1 as [|e r He Hr IH]; simpl; auto. constructor; auto. destruct e; simpl in *; auto.
Qed.

Lemma identity_core : forall fs d s v, carries v s -> forallb (transparent_for v) fs = true ->
  carries v (fst (unwind d fs s)) /\ Forall (ident_ev v) (snd (unwind d fs s)).
Proof.
  intros fs d s v Hc Hf.
  apply (unwind_lift (transparent_for v) (carries v) (ident_ev v)); auto.
  intros; apply step_identity; auto.
Qed.

Lemma identity_preserved : forall fs d p v,
  sig_value (SPanic p) = Some v ->
  forallb (transparent_for v) fs = true ->
  let '(s, ev) := unwind d fs (SPanic p) in
  sig_value s = Some v /\
  Forall (fun x => x = v) (catch_obs ev) /\
  Forall (fun e => match e with EvNative _ g => exists st, g = exc_err v st | _ => True end) ev.
Proof.
  intros fs d p v Hc Hf.
  destruct (identity_core fs d (SPanic p) v Hc Hf) as [H1 H2].
  destruct (unwind d fs (SPanic p)) as [s ev]; simpl in *.
  split; auto. split; [apply Forall_ident_catch | apply Forall_ident_native]; auto.
Qed.

(* normal completion only runs finally blocks *)
Definition only_fin (e : event) : Prop := match e with EvFinally _ => True | _ => False end.

Definition quiet_frame (f : frame) : bool := match f with FJS j => quiet_fin j | FNat _ => true end.

Lemma transparent_quiet : forall v f, transparent_for v f = true -> quiet_frame f = true.
Proof.
  intros v [j|n] H; simpl in *; auto. apply andb_true_iff in H. tauto.
Qed.

Lemma forallb_quiet : forall v fs, forallb (transparent_for v) fs = true -> forallb quiet_frame fs = true.
Proof.
  induction fs as [|f r IH]; simpl; auto. intros H. apply andb_true_iff in H. destruct H as [H1 H2].
  rewrite (transparent_quiet v f H1). simpl. auto.
Qed.

Lemma step_normal : forall d f, quiet_frame f = true ->
  fst (step d f SNormal) = SNormal /\ Forall only_fin (snd (step d f SNormal)).
Proof.
  intros d [j | [en cb h]] Hq; simpl in *.
  - destruct j as [c [] []]; simpl in *; try discriminate; split; auto; repeat constructor; simpl; auto.
  - unfold step_nat; simpl. split; auto.
Qed.

Lemma unwind_normal : forall fs d, forallb quiet_frame fs = true ->
  fst (unwind d fs SNormal) = SNormal /\ Forall only_fin (snd (unwind d fs SNormal)).
Proof.
  induction fs as [|f r IH]; intros d Hq; simpl; auto.
  simpl in Hq. apply andb_true_iff in Hq. destruct Hq as [Hf Hr].
  destruct (IH (S d) Hr) as [H1 H2]. destruct (unwind (S d) r SNormal) as [s ev]; simpl in *; subst s.
  destruct (step_normal d f Hf) as [H3 H4]. destruct (step d f SNormal) as [s' ev']; simpl in *.
  split; auto. apply Forall_app; auto.
Qed.

Lemma only_fin_catch : forall ev, Forall only_fin ev -> catch_obs ev = [].
Proof. induction 1 as [|e r He Hr IH]; simpl; auto. destruct e; simpl in *; try contradiction; auto. Qed.

Lemma only_fin_js : forall ev, Forall only_fin ev -> js_events ev = ev.
Proof.
  induction 1 as [|e r He Hr IH]; simpl; auto. destruct e; simpl in *; try contradiction. now rewrite IH.
Qed.

Lemma thrower_carries : forall t d v, thrower_value t = Some v -> carries v (init_signal d t).
Proof.
  intros t d v H; destruct t; simpl in H; inversion H; subst; unfold carries; reflexivity.
Qed.

Lemma host_value_carries : forall d cb v s, carries v s -> cb_transparent_for v cb = true ->
  host_value (cb_convert d cb s) = Some v.
Proof.
  intros d cb v s Hc Hcb.
  destruct (carries_inv _ _ Hc) as [E | [st E]]; subst s;
    destruct cb; simpl; unfold run_wrapped; simpl; auto;
    destruct v; simpl in Hcb; try discriminate; reflexivity.
Qed.

Lemma identity_preserved_host : forall c v,
  thrower_value (c_thrower c) = Some v ->
  forallb (transparent_for v) (c_pre c) = true ->
  match c_post c with Some post => forallb (transparent_for v) post = true | None => True end ->
  cb_transparent_for v (c_entry c) = true ->
  let '(ev, g) := propagate c in
  Forall (fun x => x = v) (catch_obs ev) /\
  (c_post c = None -> host_value g = Some v).
Proof.
  intros [entry pre post th] v Hth Hpre Hpost Hcb. simpl in *.
  unfold propagate; simpl.
  destruct post as [post|].
  - destruct (unwind_normal pre 0 (forallb_quiet v pre Hpre)) as [N1 N2].
    destruct (unwind 0 pre SNormal) as [s1 ev1]; simpl in *; subst s1.
    simpl sync_ok. rewrite andb_true_r.
    destruct (runs_jobs entry).
    + pose proof (thrower_carries th (length pre + length post) v Hth) as Hc.
      destruct (identity_core post (length pre) _ v Hc Hpost) as [I1 I2].
      destruct (unwind (length pre) post (init_signal (length pre + length post) th)) as [s2 ev2]; simpl in *.
      destruct (carries_inv _ _ I1) as [E | [st E]]; subst s2; simpl.
      * split; [|discriminate].
        rewrite !catch_obs_app. rewrite (only_fin_catch _ N2). simpl.
        apply Forall_app; split; [apply Forall_ident_catch; auto | repeat constructor].
      * split; [|discriminate].
        rewrite !catch_obs_app. rewrite (only_fin_catch _ N2). simpl.
        apply Forall_app; split; [apply Forall_ident_catch; auto | repeat constructor].
    + split; [|discriminate]. rewrite (only_fin_catch _ N2). constructor.
  - pose proof (thrower_carries th (length pre) v Hth) as Hc.
    destruct (identity_core pre 0 _ v Hc Hpre) as [I1 I2].
    destruct (unwind 0 pre (init_signal (length pre) th)) as [s ev]; simpl in *.
    split; [apply Forall_ident_catch; auto|]. intros _. apply host_value_carries; auto.
Qed.

(* error objects keep their creation stack *)
Definition carries_created (v : value) (s : signal) : Prop :=
  s = SPanic (PVValue v) \/ s = SPanic (PVExc v SCreated).

Lemma handle_created : forall d en h v, transparent_handler h = true ->
  carries_created v (SPanic (handle d en h (exc_err v SCreated))).
Proof.
  intros d en h v Hh. destruct h; simpl in Hh; try discriminate; unfold carries_created; simpl; auto.
  destruct en; simpl; auto.
Qed.

Lemma step_created : forall v d f s, is_errobj v = true -> transparent_for v f = true ->
  carries_created v s -> carries_created v (fst (step d f s)) /\ Forall (fun _ => True) (snd (step d f s)).
Proof.
  intros v d f s He Ht Hc. split; [|apply Forall_forall; auto].
  assert (Hso : forall d', stack_of d' v = SCreated) by (intros; unfold stack_of; rewrite He; auto).
  assert (Hpo : forall d', panic_stack_of d' v = SCreated) by (intros; unfold panic_stack_of; rewrite He; auto).
  destruct Hc as [-> | ->]; destruct f as [j | [en cb h]]; simpl in *.
  - destruct j as [[[]|] [] []]; simpl in *; try discriminate; rewrite ?Hso, ?Hpo; unfold carries_created; auto.
  - apply andb_true_iff in Ht. destruct Ht as [Hh Hcb].
    unfold step_nat. simpl n_cb; simpl n_entry; simpl n_h.
    destruct cb; simpl; unfold run_wrapped; simpl; rewrite ?Hso, ?Hpo;
      try (apply handle_created; auto); try (unfold carries_created; auto; fail).
    destruct v; simpl in Hcb; try discriminate; apply handle_created; auto.
  - destruct j as [[[]|] [] []]; simpl in *; try discriminate; rewrite ?Hso, ?Hpo; unfold carries_created; auto.
  - apply andb_true_iff in Ht. destruct Ht as [Hh Hcb].
    unfold step_nat. simpl n_cb; simpl n_entry; simpl n_h.
    destruct cb; simpl; unfold run_wrapped; simpl; rewrite ?Hso, ?Hpo;
      try (apply handle_created; auto); try (unfold carries_created; auto; fail).
    destruct v; simpl in Hcb; try discriminate; apply handle_created; auto.
Qed.

Lemma errobj_stack_preserved : forall fs d p v,
  sig_value (SPanic p) = Some v -> is_errobj v = true ->
  (forall st, p = PVExc v st -> st = SCreated) ->
  forallb (transparent_for v) fs = true ->
  forall st', fst (unwind d fs (SPanic p)) = SPanic (PVExc v st') -> st' = SCreated.
Proof.
  intros fs d p v Hc He Hst Hf st' Hout.
  assert (H0 : carries_created v (SPanic p)).
  { destruct (carries_inv _ _ Hc) as [E | [st E]]; inversion E; subst; [left; auto|].
    right. rewrite (Hst st eq_refl). reflexivity. }
  destruct (unwind_lift (transparent_for v) (carries_created v) (fun _ => True)
              (fun d f s Hf' Hs => step_created v d f s He Hf' Hs) fs d (SPanic p) Hf H0) as [H1 _].
  rewrite Hout in H1. destruct H1 as [H1 | H1]; inversion H1; auto.
Qed.

(* ------------------------------------------------------------------------------------------------ *)
(* 2. Go errors stay recoverable *)

Lemma gerr_is_wrap : forall t e, gerr_is t (wrap e) = gerr_is t e.
Proof. intros t [ls b]; reflexivity. Qed.

Lemma gerr_is_join : forall t s e, gerr_is t e = true -> gerr_is t (join s e) = true.
Proof.
  intros t s [ls b] H. simpl in *. apply orb_true_iff in H. apply orb_true_iff.
  destruct H as [H | H]; auto. left. apply orb_true_iff; auto.
Qed.

Lemma pv_is_of_err : forall t e, pv_is t (pv_of_err e) = gerr_is t e.
Proof. intros t [ls b]. destruct ls; auto. destruct b; auto. Qed.

Lemma pv_is_reflect : forall t d e, pv_is t (reflect_ret d e) = gerr_is t e.
Proof.
  intros t d [ls b]. unfold reflect_ret.
  destruct ls as [|l ls].
  - destruct b; simpl; auto; match goal with |- context [if ?c then _ else _] => destruct c end; auto.
  - destruct (uncatchable (GErr (l :: ls) b)); reflexivity.
Qed.

Lemma pv_is_handle : forall t d en h e, gerr_is t e = true -> pv_is t (handle d en h e) = true.
Proof.
  intros t d en h e H.
  destruct h; simpl.
  - rewrite pv_is_of_err; auto.
  - destruct e as [ls b]. destruct ls; [destruct b|]; simpl in *; auto.
  - rewrite gerr_is_wrap; auto.
  - destruct en; rewrite ?pv_is_reflect, ?pv_is_of_err; auto.
  - destruct en; simpl; rewrite ?pv_is_reflect, ?gerr_is_wrap; auto.
  - destruct en; simpl; rewrite ?pv_is_reflect; apply gerr_is_join; auto.
Qed.

Definition is_sig (t : N) (s : signal) : Prop := exists p, s = SPanic p /\ pv_is t p = true.

Definition is_ev (t : N) (e : event) : Prop :=
  match e with
  | EvCatch _ x => value_is t x = true
  | EvReject _ x => value_is t x = true
  | EvNative _ g => gerr_is t g = true
  | EvFinally _ => True
  end.

Lemma cb_is : forall t d cb p, pv_is t p = true ->
  match cb_convert d cb (SPanic p) with
  | GNormal => False
  | GErrRes e => gerr_is t e = true
  | GPanic p' => pv_is t p' = true
  end.
Proof.
  intros t d cb p H.
  assert (RW : match run_wrapped d p with
               | GNormal => False | GErrRes e => gerr_is t e = true | GPanic p' => pv_is t p' = true end).
  { unfold run_wrapped. destruct p as [v|v st|e|x]; simpl in *; auto.
    destruct (uncatchable e); simpl; auto. }
  destruct cb; simpl; auto.
  - (* exporterr *)
    destruct (run_wrapped d p) as [|e|p']; auto.
    destruct e as [ls b]. destruct ls; auto. destruct b; auto. destruct v; auto.
  - (* exportnoerr *)
    destruct (run_wrapped d p) as [|e|p']; auto. rewrite pv_is_of_err. auto.
  - (* tryget *)
    destruct p as [v|v st|e|x]; simpl in *; auto; rewrite ?orb_false_r; auto.
  - (* forof *)
    destruct p as [v|v st|e|x]; simpl in *; auto.
Qed.

Lemma step_is : forall t d f s, no_swallow f = true -> is_sig t s ->
  is_sig t (fst (step d f s)) /\ Forall (is_ev t) (snd (step d f s)).
Proof.
  intros t d f s Hn [p [-> Hp]].
  destruct f as [j | [en cb h]]; simpl.
  - unfold step_js.
    destruct p as [v|v st|e|x]; simpl in *.
    + destruct j as [[[]|] [] []]; simpl in *; try discriminate;
        (split; [eexists; split; [reflexivity|simpl; auto] | repeat constructor; simpl; auto]).
    + destruct j as [[[]|] [] []]; simpl in *; try discriminate;
        (split; [eexists; split; [reflexivity|simpl; auto] | repeat constructor; simpl; auto]).
    + split; [eexists; split; [reflexivity|simpl; auto]|constructor].
    + discriminate.
  - unfold step_nat. simpl n_cb; simpl n_entry; simpl n_h.
    pose proof (cb_is t d cb p Hp) as C.
    destruct (cb_convert d cb (SPanic p)) as [|e|p']; simpl.
    + contradiction.
    + split; [eexists; split; [reflexivity|apply pv_is_handle; auto]|repeat constructor; simpl; auto].
    + split; [eexists; split; [reflexivity|auto]|constructor].
Qed.

Lemma Forall_is_catch : forall t ev, Forall (is_ev t) ev -> Forall (fun x => value_is t x = true) (catch_obs ev).
Proof. induction 1 as [|e r He Hr IH]; simpl; auto. destruct e; simpl in *; auto. Qed.

Lemma Forall_is_native : forall t ev, Forall (is_ev t) ev ->
  Forall (fun e => match e with EvNative _ g => gerr_is t g = true | _ => True end) ev.
Proof. induction 1 as [|e r He Hr IH]; simpl; auto. constructor; auto. destruct e; simpl in *; auto. Qed.

Lemma goerror_recoverable : forall fs d p t,
  pv_is t p = true ->
  forallb no_swallow fs = true ->
  let '(s, ev) := unwind d fs (SPanic p) in
  (exists p', s = SPanic p' /\ pv_is t p' = true) /\
  Forall (fun x => value_is t x = true) (catch_obs ev) /\
  Forall (fun e => match e with EvNative _ g => gerr_is t g = true | _ => True end) ev.
Proof.
  intros fs d p t Hp Hf.
  assert (H0 : is_sig t (SPanic p)) by (eexists; eauto).
  destruct (unwind_lift no_swallow (is_sig t) (is_ev t) (fun d f s => step_is t d f s) fs d _ Hf H0) as [H1 H2].
  destruct (unwind d fs (SPanic p)) as [s ev]; simpl in *.
  split; auto. split; [apply Forall_is_catch | apply Forall_is_native]; auto.
Qed.

Lemma goerror_recoverable_host : forall cb d p t,
  pv_is t p = true -> host_is t (cb_convert d cb (SPanic p)) = true.
Proof.
  intros cb d p t H. pose proof (cb_is t d cb p H) as C.
  destruct (cb_convert d cb (SPanic p)) as [|e|p']; simpl; auto; try contradiction;
    try (destruct p'; simpl in *; auto).
Qed.

Lemma goerror_catchable : forall d e act fin fa,
  uncatchable e = false -> (forall v st, e <> exc_err v st) ->
  snd (step_js d (mkJS (Some act) fin fa) (init_signal (S d) (TNatReturnErr e))) =
    EvCatch d (VGoErr (fresh_goerr (S d)) e) :: fin_ev d (mkJS (Some act) fin fa).
Proof.
  intros d e act fin fa Hu Hn. simpl init_signal.
  assert (R : reflect_ret (S d) e = PVValue (VGoErr (fresh_goerr (S d)) e)).
  { unfold reflect_ret. destruct e as [ls b]. destruct ls.
    - destruct b; try (rewrite Hu; reflexivity). exfalso; eapply Hn; reflexivity.
    - rewrite Hu; reflexivity. }
  rewrite R. unfold step_js. simpl. destruct act; reflexivity.
Qed.

(* ------------------------------------------------------------------------------------------------ *)
(* 3. uncatchable errors *)

Lemma hard_unc_uncatchable : forall e, hard_unc e = true -> uncatchable e = true.
Proof.
  intros [ls b] H. unfold uncatchable, hard_unc in *. simpl in *. destruct b; simpl in *; auto; discriminate.
Qed.

Lemma hard_unc_not_exc : forall e, hard_unc e = true -> pv_of_err e = PVErr e.
Proof.
  intros [ls b] H. destruct ls; auto. destruct b; auto. unfold hard_unc in H; simpl in H. discriminate.
Qed.

Lemma hard_unc_reflect : forall d e, hard_unc e = true -> reflect_ret d e = PVErr e.
Proof.
  intros d e H. unfold reflect_ret. rewrite (hard_unc_uncatchable e H).
  destruct e as [ls b]. destruct ls; auto. destruct b; auto. unfold hard_unc in H; simpl in H; discriminate.
Qed.

Lemma hard_unc_wrap : forall e, hard_unc (wrap e) = hard_unc e.
Proof. intros [ls b]; reflexivity. Qed.

Lemma gerr_base_wrap : forall e, gerr_base (wrap e) = gerr_base e.
Proof. intros [ls b]; reflexivity. Qed.

Lemma hard_unc_join : forall s e, hard_unc (join s e) = hard_unc e.
Proof. intros s [ls b]; reflexivity. Qed.

Lemma gerr_base_join : forall s e, gerr_base (join s e) = gerr_base e.
Proof. intros s [ls b]; reflexivity. Qed.

Lemma join_stays_uncatchable : forall d s e,
  hard_unc e = true -> reflect_ret d (join s e) = PVErr (join s e) /\ hard_unc (join s e) = true.
Proof.
  intros d s e H. rewrite hard_unc_join. split; auto. apply hard_unc_reflect. rewrite hard_unc_join; auto.
Qed.

Lemma hard_cb : forall cb d e, hard_unc e = true ->
  cb_convert d cb (SPanic (PVErr e)) = GErrRes e \/ cb_convert d cb (SPanic (PVErr e)) = GPanic (PVErr e).
Proof.
  intros cb d e H. pose proof (hard_unc_uncatchable e H) as U. pose proof (hard_unc_not_exc e H) as P.
  destruct cb; simpl; unfold run_wrapped; simpl; rewrite ?U; auto.
  - destruct e as [ls b]. destruct ls; auto. destruct b; auto. simpl in H. discriminate.
  - rewrite P; auto.
Qed.

Definition unc_sig (b : ebase) (s : signal) : Prop :=
  exists e', s = SPanic (PVErr e') /\ hard_unc e' = true /\ gerr_base e' = b.

Definition nonjs_ev (e : event) : Prop := match e with EvNative _ _ => True | _ => False end.

Lemma step_unc : forall b d f s, (fun _ : frame => true) f = true -> unc_sig b s ->
  unc_sig b (fst (step d f s)) /\ Forall nonjs_ev (snd (step d f s)).
Proof.
  intros b d f s Hn [e [-> [He Hb]]].
  destruct f as [j | [en cb h]]; simpl.
  - split; [exists e; auto | constructor].
  - unfold step_nat. simpl n_cb; simpl n_entry; simpl n_h.
    destruct (hard_cb cb d e He) as [-> | ->]; simpl.
    + split; [|repeat constructor; simpl; auto].
      pose proof (hard_unc_not_exc e He) as P.
      destruct h; simpl in *; try discriminate.
      * exists e. rewrite P. auto.
      * exists e. destruct e as [ls bb]. destruct ls; [destruct bb|]; simpl in *; try discriminate; auto.
      * exists (wrap e). rewrite hard_unc_wrap, gerr_base_wrap. auto.
      * exists e. destruct en; rewrite ?hard_unc_reflect, ?P; auto.
      * exists (wrap e). rewrite hard_unc_wrap, gerr_base_wrap.
        destruct en; simpl; rewrite ?hard_unc_reflect; rewrite ?hard_unc_wrap; auto.
      * exists (join s e). rewrite hard_unc_join, gerr_base_join.
        destruct en; simpl; rewrite ?hard_unc_reflect; rewrite ?hard_unc_join; auto.
    + split; [exists e; auto | constructor].
Qed.

Lemma nonjs_js_events : forall ev, Forall nonjs_ev ev -> js_events ev = [] /\ catch_obs ev = [].
Proof.
  induction 1 as [|e r He Hr [IH1 IH2]]; simpl; auto. destruct e; simpl in *; try contradiction. auto.
Qed.

Lemma forallb_true : forall (fs : list frame), forallb (fun _ => true) fs = true.
Proof. induction fs; simpl; auto. Qed.

Lemma unc_core : forall fs d e, hard_unc e = true ->
  unc_sig (gerr_base e) (fst (unwind d fs (SPanic (PVErr e)))) /\
  Forall nonjs_ev (snd (unwind d fs (SPanic (PVErr e)))).
Proof.
  intros fs d e He.
  apply (unwind_lift (fun _ => true) (unc_sig (gerr_base e)) nonjs_ev); auto using forallb_true.
  - intros; apply step_unc; auto.
  - exists e; auto.
Qed.

Lemma uncatchable_invisible : forall fs d e,
  hard_unc e = true ->
  let '(s, ev) := unwind d fs (SPanic (PVErr e)) in
  js_events ev = [] /\
  exists e', s = SPanic (PVErr e') /\ hard_unc e' = true /\ gerr_base e' = gerr_base e.
Proof.
  intros fs d e He. destruct (unc_core fs d e He) as [H1 H2].
  destruct (unwind d fs (SPanic (PVErr e))) as [s ev]; simpl in *.
  split; [apply nonjs_js_events; auto | exact H1].
Qed.

Lemma uncatchable_host : forall cb d e,
  hard_unc e = true ->
  match cb_convert d cb (SPanic (PVErr e)) with
  | GErrRes e' => e' = e
  | GPanic (PVErr e') => e' = e /\ (cb = CbExportNoErr \/ runs_jobs cb = false)
  | _ => False
  end.
Proof.
  intros cb d e H. pose proof (hard_unc_uncatchable e H) as U. pose proof (hard_unc_not_exc e H) as P.
  destruct cb; simpl; unfold run_wrapped; simpl; rewrite ?U; auto.
  - destruct e as [ls b]. destruct ls; auto. destruct b; auto. simpl in H. discriminate.
  - rewrite P; auto.
Qed.

Lemma uncatchable_invisible_case : forall c e,
  init_signal (length (c_pre c) + match c_post c with Some post => length post | None => 0 end) (c_thrower c)
    = SPanic (PVErr e) ->
  hard_unc e = true ->
  js_events (fst (propagate c)) =
    match c_post c with None => [] | Some _ => js_events (snd (unwind 0 (c_pre c) SNormal)) end /\
  catch_obs (fst (propagate c)) =
    match c_post c with None => [] | Some _ => catch_obs (snd (unwind 0 (c_pre c) SNormal)) end.
Proof.
  intros [entry pre post th] e Hs He. simpl in *. unfold propagate; simpl.
  destruct post as [post|].
  - destruct (unwind 0 pre SNormal) as [s1 ev1]; simpl in *.
    destruct (runs_jobs entry && sync_ok s1); simpl; auto.
    rewrite Hs. destruct (unc_core post (length pre) e He) as [[e' [E1 [E2 E3]]] U2].
    destruct (unwind (length pre) post (SPanic (PVErr e))) as [s2 ev2]; simpl in *. subst s2. simpl.
    destruct (nonjs_js_events _ U2) as [J1 J2].
    rewrite js_events_app, catch_obs_app, J1, J2, !app_nil_r. auto.
  - rewrite Nat.add_0_r in Hs. rewrite Hs.
    destruct (unc_core pre 0 e He) as [_ U2].
    destruct (unwind 0 pre (SPanic (PVErr e))) as [s ev]; simpl in *.
    destruct (nonjs_js_events _ U2); auto.
Qed.

(* ------------------------------------------------------------------------------------------------ *)
(* 6. promise jobs *)

Lemma exc_of_depth : forall d d' p, exc_of d p = None -> exc_of d' p = None.
Proof. intros d d' [v|v st|e|x]; simpl; auto; discriminate. Qed.

Lemma job_exception_contained : forall c post,
  c_post c = Some post ->
  snd (propagate c) = cb_convert 0 (c_entry c) (fst (unwind 0 (c_pre c) SNormal)) \/
  exists p, snd (propagate c) = cb_convert 0 (c_entry c) (SPanic p) /\ exc_of 0 p = None.
Proof.
  intros [entry pre post0 th] post H. simpl in H. subst post0. unfold propagate; simpl.
  destruct (unwind 0 pre SNormal) as [s1 ev1]; simpl.
  destruct (runs_jobs entry && sync_ok s1); auto.
  destruct (unwind (length pre) post (init_signal (length pre + length post) th)) as [s2 ev2].
  destruct s2 as [|p]; auto.
  destruct (exc_of (length pre) p) as [[v st]|] eqn:E; auto.
  right. exists p. split; auto. eapply exc_of_depth; eauto.
Qed.

(* ------------------------------------------------------------------------------------------------ *)
(* non-vacuity: concrete chains *)

Definition ex_chain : list frame :=
  [ FJS (mkJS (Some CRethrow) true FinQuiet);
    FNat (mkNat EnReflErr CbCallable HReturnErr);
    FJS (mkJS None true FinQuiet);
    FNat (mkNat EnProxy CbForOf HPanicValue);
    FJS (mkJS (Some CRethrow) false FinQuiet) ].

Example identity_nonvacuous :
  unwind 0 ex_chain (init_signal 5 (TJsThrow (VObj 2 0))) =
  (SPanic (PVExc (VObj 2 0) SCreated),
   [EvCatch 4 (VObj 2 0); EvFinally 2; EvNative 1 (exc_err (VObj 2 0) SCreated); EvCatch 0 (VObj 2 0); EvFinally 0]).
Proof. vm_compute. reflexivity. Qed.

Example identity_hyp_nonvacuous : forallb (transparent_for (VObj 2 0)) ex_chain = true.
Proof. reflexivity. Qed.

Example goerror_nonvacuous :
  let e := GErr [LWrap; LJoin [2%N]] (BSent 1) in
  let c := mkChain CbExportErr
             [FJS (mkJS (Some CRethrow) false FinQuiet); FNat (mkNat EnReflErr CbExportErr HReturnWrap); FJS (mkJS None true FinQuiet)]
             None (TNatReturnErr e) in
  propagate c =
  ([EvFinally 2; EvNative 1 e; EvCatch 0 (VGoErr 5 (wrap e))], GErrRes (wrap e)) /\
  host_is 1 (snd (propagate c)) = true /\ host_is 2 (snd (propagate c)) = true /\ host_is 3 (snd (propagate c)) = false.
Proof. vm_compute. repeat split; reflexivity. Qed.

Example uncatchable_nonvacuous :
  unwind 0 [FJS (mkJS (Some CSwallow) true FinQuiet); FNat (mkNat EnReflErr CbCallable HReturnWrap); FJS (mkJS (Some CRethrow) true FinQuiet)]
         (init_signal 3 (TNatInterrupt 1)) =
  (SPanic (PVErr (GErr [LWrap] (BIntr 1))), [EvNative 1 (GErr [] (BIntr 1))]).
Proof. vm_compute. reflexivity. Qed.

Example foreign_nonvacuous :
  propagate (mkChain CbCallable ex_chain None (TNatForeign 1)) = ([], GPanic (PVForeign 1)).
Proof. vm_compute. reflexivity. Qed.

Example job_nonvacuous :
  propagate (mkChain CbRunString [FJS (mkJS None true FinQuiet)] (Some [FJS (mkJS None true FinQuiet)]) (TJsThrow (VPrim 3))) =
  ([EvFinally 0; EvFinally 1; EvReject 1 (VPrim 3)], GNormal).
Proof. vm_compute. reflexivity. Qed.

(* a finally block that throws replaces the pending exception; one that returns cancels it *)
Example finally_override_nonvacuous :
  unwind 0 [FJS (mkJS (Some CSwallow) false FinQuiet); FJS (mkJS None true FinThrow); FJS (mkJS None true FinReturn)]
         (init_signal 3 (TJsThrow (VObj 1 0))) =
  (SNormal, [EvFinally 2; EvFinally 1; EvCatch 0 (VObj 0 6)]).
Proof. vm_compute. reflexivity. Qed.

(* a generator / async function body whose try statements have all been left when it makes the call (however many
   times it was suspended and resumed before) is a JS frame with no active try: it logs nothing, passes on a JS
   exception with the same value and the same stack, and passes on anything else untouched *)
Lemma suspended_body_transparent : forall d s,
  snd (step_js d (mkJS None false FinQuiet) s) = [] /\
  sig_value (fst (step_js d (mkJS None false FinQuiet) s)) = sig_value s /\
  (forall v st, s = SPanic (PVExc v st) -> fst (step_js d (mkJS None false FinQuiet) s) = s) /\
  (forall p, s = SPanic p -> exc_of d p = None -> fst (step_js d (mkJS None false FinQuiet) s) = s) /\
  (s = SNormal -> fst (step_js d (mkJS None false FinQuiet) s) = SNormal).
Proof.
  intros d s. destruct s as [|[v|v st|e|x]]; simpl; repeat split; auto; intros; try discriminate;
    try congruence;
    repeat match goal with H : SPanic _ = SPanic _ |- _ => inversion H; subst; clear H end;
    simpl in *; try discriminate; auto.
Qed.

(* host-built error objects (empty recorded stack): a script throw statement captures the stack at the throw site *)
Lemma hostbuilt_not_errobj : forall v, is_hostbuilt v = true -> is_errobj v = false.
Proof.
  intros [p|cls id|id e] H; simpl in *; try discriminate.
  - apply N.leb_le in H. assert (L : N.ltb cls 100 = false) by (apply N.ltb_ge; exact H).
    rewrite L. apply andb_false_r.
  - rewrite H. reflexivity.
Qed.

Lemma hostbuilt_error_stack_at_throw : forall d v fin p st,
  is_hostbuilt v = true ->
  init_signal d (TJsThrow v) = SPanic (PVExc v (SAt d)) /\
  (exc_of d p = Some (v, st) ->
     fst (step_js d (mkJS (Some CRethrow) fin FinQuiet) (SPanic p)) = SPanic (PVExc v (SAt d))) /\
  exc_of d (PVValue v) = Some (v, SEmpty).
Proof.
  intros d v fin p st H. pose proof (hostbuilt_not_errobj v H) as E.
  repeat split.
  - simpl. unfold stack_of. rewrite E. reflexivity.
  - intros Hp. unfold step_js. rewrite Hp. unfold apply_fin, stack_of. simpl. rewrite E. destruct fin; reflexivity.
  - simpl. unfold panic_stack_of. rewrite E, H. reflexivity.
Qed.

Example hostbuilt_nonvacuous :
  fst (unwind 0 [FJS (mkJS (Some CRethrow) false FinQuiet); FJS (mkJS None true FinQuiet)] (init_signal 2 (TJsThrow (VObj 102 0))))
    = SPanic (PVExc (VObj 102 0) (SAt 0)) /\
  fst (unwind 0 [FJS (mkJS None false FinQuiet)] (init_signal 1 (TJsThrow (VGoErr 0 (GErr [] (BSent 1))))))
    = SPanic (PVExc (VGoErr 0 (GErr [] (BSent 1))) (SAt 1)).
Proof. vm_compute. split; reflexivity. Qed.
