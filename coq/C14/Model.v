(* C14 — Errors cross the Go/JS boundary in both directions with identity preserved.
   Executable definitions only.  Transcribed from /repo:
     vm.go       exceptionFromValue, handleThrow, vm.try, _throw.exec, leaveFinally.exec, vm.run (interrupt)
     runtime.go  isUncatchableException (errors.As), asUncatchableException, RunProgram (recover), runWrapped,
                 AssertFunction/AssertConstructor, Try, ForOf, wrapReflectFunc (error branch), wrapJSFunc,
                 NewGoError, Exception.Unwrap, InterruptedError, StackOverflowError, leave (promise jobs)
     func.go     baseJsFuncObject.__call/_call (panic(ex) with the SAME *Exception), nativeFuncObject.vmCall
     builtin_promise.go newPromiseReactionJob (vm.try around the handler; rejection with ex.val)

   What travels between frames is a Go panic value (a JS throw is a Go panic as soon as it leaves a run loop);
   every boundary re-classifies it.  A chain is a list of frames, outermost first. *)
From Coq Require Import List NArith Bool Arith.
Import ListNotations.

(* where the stack of an *Exception was captured *)
Inductive site :=
| SOld                 (* an *Exception made before the chain started (kept by the embedder) *)
| SAt (d : nat)        (* captured by handleThrow/_throw.exec while frame d was running *)
| SCreated             (* the stack stored in the error object itself (errorObject.stack, set at creation) *)
| SEmpty.              (* no frames: exceptionFromValue took the empty (non-nil) stack of a host-built error object *)

(* Go errors.  A Go error value is a stack of wrapping layers over a base error:
   LWrap  = fmt.Errorf("...%w", inner)      has Unwrap() error
   LJoin  = errors.Join(inner, sentinels…)  has Unwrap() []error  (errors.Unwrap returns nil for it) *)
Inductive elayer := LWrap | LJoin (sibs : list N).

Inductive value :=
| VPrim (p : N)                       (* primitive, by content code *)
| VObj (cls : N) (id : N)             (* object: cls 0 = plain, 1..99 = Error (sub)class instance made while script or a
                                         native call was running (its errorObject.stack has frames), 100+c = instance of
                                         Error class c built by the HOST while nothing was executing (Runtime.NewTypeError,
                                         Runtime.New(Error)): its recorded stack is empty; id = identity *)
| VGoErr (id : N) (e : gerr)          (* GoError object whose "value" property holds the Go error e *)
with gerr :=
| GErr (ls : list elayer) (b : ebase)
with ebase :=
| BSent (s : N)                       (* sentinel / custom-typed error, identified by s *)
| BExc (v : value) (st : site)        (* *Exception *)
| BIntr (i : N)                       (* *InterruptedError carrying the (non-error) interrupt value i *)
| BSO.                                (* *StackOverflowError *)

Definition exc_err (v : value) (st : site) : gerr := GErr [] (BExc v st).
Definition wrap (e : gerr) : gerr := match e with GErr ls b => GErr (LWrap :: ls) b end.
Definition join (s : N) (e : gerr) : gerr := match e with GErr ls b => GErr (LJoin [s] :: ls) b end.

(* --- the errors package over this representation --------------------------------------------- *)

(* errors.Is(e, sentinel t): pre-order walk through Unwrap() error, Unwrap() []error and
   Exception.Unwrap (which looks into the "value" property of a GoError instance) *)
Definition layer_is (t : N) (l : elayer) : bool :=
  match l with LWrap => false | LJoin sibs => existsb (N.eqb t) sibs end.

Fixpoint value_is (t : N) (v : value) : bool :=
  match v with VGoErr _ e => gerr_is t e | _ => false end
with gerr_is (t : N) (e : gerr) : bool :=
  match e with GErr ls b => existsb (layer_is t) ls || ebase_is t b end
with ebase_is (t : N) (b : ebase) : bool :=
  match b with BSent s => N.eqb t s | BExc v _ => value_is t v | _ => false end.

(* errors.As(e, **Exception): the first *Exception met; sentinels joined in are never Exceptions *)
Definition gerr_as_exc (e : gerr) : option (value * site) :=
  match e with GErr _ (BExc v st) => Some (v, st) | _ => None end.

(* errors.As(e, **InterruptedError) / **StackOverflowError (walks everything errors.Is walks) *)
Fixpoint value_has (f : ebase -> bool) (v : value) : bool :=
  match v with VGoErr _ e => gerr_has f e | _ => false end
with gerr_has (f : ebase -> bool) (e : gerr) : bool :=
  match e with GErr _ b => ebase_has f b end
with ebase_has (f : ebase -> bool) (b : ebase) : bool :=
  f b || match b with BExc v _ => value_has f v | _ => false end.

Definition is_intr (b : ebase) := match b with BIntr _ => true | _ => false end.
Definition is_so (b : ebase) := match b with BSO => true | _ => false end.

(* isUncatchableException (after fix 63ed9d0): errors.As(e, &uncatchableException) — walks fmt.Errorf %w chains,
   errors.Join trees and Exception.Unwrap (into the value of a GoError); joined-in sentinels are never uncatchable *)
Definition is_unc_base (b : ebase) : bool := is_intr b || is_so b.

Definition uncatchable (e : gerr) : bool := gerr_has is_unc_base e.

(* --- panic values and signals ---------------------------------------------------------------- *)

Inductive panicval :=
| PVValue (v : value)               (* panic(Value) *)
| PVExc (v : value) (st : site)     (* panic(ex) with ex an Exception pointer *)
| PVErr (e : gerr)                  (* panic(err) with any other Go error *)
| PVForeign (x : N).                (* panic of a non-goja, non-error Go value *)

(* the dynamic type switch: a bare *Exception is recognised, a wrapped one is just an error *)
Definition pv_of_err (e : gerr) : panicval :=
  match e with GErr [] (BExc v st) => PVExc v st | _ => PVErr e end.

Inductive signal := SNormal | SPanic (p : panicval).

(* an Error object whose errorObject.stack has frames (recorded at creation).  A GoError with identity 0 is the
   payload built by the embedder with Runtime.NewGoError before anything ran: nothing recorded *)
Definition is_errobj (v : value) : bool :=
  match v with
  | VPrim _ => false
  | VObj cls _ => negb (N.eqb cls 0) && N.ltb cls 100
  | VGoErr id _ => negb (N.eqb id 0)
  end.

(* an Error object built by the host while the call stack was empty: empty but non-nil recorded stack *)
Definition is_hostbuilt (v : value) : bool :=
  match v with
  | VPrim _ => false
  | VObj cls _ => N.leb 100 cls
  | VGoErr id _ => N.eqb id 0
  end.

(* _throw.exec (a script throw statement): the recorded stack is used only if it has frames (len(e.stack) > 0),
   otherwise the stack is captured at the throw site *)
Definition stack_of (d : nat) (v : value) : site := if is_errobj v then SCreated else SAt d.

(* exceptionFromValue (a Go panic with a Value): the recorded stack of an Error object is taken as it is, even
   when empty; only a nil stack is re-captured *)
Definition panic_stack_of (d : nat) (v : value) : site :=
  if is_errobj v then SCreated else if is_hostbuilt v then SEmpty else SAt d.

(* vm.exceptionFromValue at frame d: None = "not a JS exception" (uncatchable and foreign alike) *)
Definition exc_of (d : nat) (p : panicval) : option (value * site) :=
  match p with
  | PVValue v => Some (v, panic_stack_of d v)
  | PVExc v st => Some (v, st)
  | PVErr _ | PVForeign _ => None
  end.

(* --- frames ---------------------------------------------------------------------------------- *)

Inductive catch_act := CSwallow | CRethrow | CThrowNew.
(* what a finally block does after logging: nothing / throw a fresh object / return (both override the
   completion that was pending: leaveFinally is never reached, the try frame's saved exception is dropped) *)
Inductive fin_act := FinQuiet | FinThrow | FinReturn.
Record jsframe := mkJS { j_catch : option catch_act; j_finally : bool; j_finact : fin_act }.

Inductive entry := EnFC | EnRefl | EnReflErr | EnCtor | EnProxy | EnDyn | EnGetter.
Inductive callback := CbCallable | CbCtor | CbRunString | CbExportErr | CbExportNoErr | CbGet | CbTryGet | CbForOf.
Inductive handler := HPanicErr | HPanicValue | HPanicWrap | HReturnErr | HReturnWrap | HReturnJoin (s : N).
Record natframe := mkNat { n_entry : entry; n_cb : callback; n_h : handler }.
Inductive frame := FJS (j : jsframe) | FNat (n : natframe).

Inductive event :=
| EvCatch (d : nat) (v : value)       (* the catch block of JS frame d received v *)
| EvFinally (d : nat)                 (* the finally block of JS frame d ran *)
| EvNative (d : nat) (e : gerr)       (* the Go code of native frame d received error e from its call into JS *)
| EvReject (d : nat) (v : value).     (* the rejection handler of the promise job started at depth d received v *)

(* identities of objects created while unwinding *)
Definition fresh_thrown (d : nat) : N := N.of_nat (3 * d + 1).
Definition fresh_goerr (d : nat) : N := N.of_nat (3 * d + 2).
Definition fresh_fin (d : nat) : N := N.of_nat (3 * d + 3).

(* what the Go code that called into JS receives *)
Inductive gores := GNormal | GErrRes (e : gerr) | GPanic (p : panicval).

(* runWrapped / RunProgram: vm.try (handleThrow) then the recover that turns uncatchables into errors *)
Definition run_wrapped (d : nat) (p : panicval) : gores :=
  match exc_of d p with
  | Some (v, st) => GErrRes (exc_err v st)
  | None => match p with
            | PVErr e => if uncatchable e then GErrRes e else GPanic p
            | _ => GPanic p
            end
  end.

Definition cb_convert (d : nat) (cb : callback) (s : signal) : gores :=
  match s with
  | SNormal => GNormal
  | SPanic p =>
    match cb with
    | CbCallable | CbCtor | CbRunString => run_wrapped d p
    | CbExportErr =>            (* wrapJSFunc with an error result: unwraps the "value" of the thrown object *)
        match run_wrapped d p with
        | GErrRes (GErr [] (BExc (VGoErr _ e') _)) => GErrRes e'
        | r => r
        end
    | CbExportNoErr =>          (* wrapJSFunc without an error result: panic(err) *)
        match run_wrapped d p with
        | GErrRes e => GPanic (pv_of_err e)
        | r => r
        end
    | CbGet => GPanic p         (* Object.Get: nothing in between *)
    | CbTryGet =>               (* Runtime.Try(func(){ o.Get(..) }): vm.try only *)
        match exc_of d p with Some (v, st) => GErrRes (exc_err v st) | None => GPanic p end
    | CbForOf =>                (* iter.step(): vm.try, then panic(ex) *)
        match exc_of d p with Some (v, st) => GPanic (PVExc v st) | None => GPanic p end
    end
  end.

(* wrapReflectFunc, error branch *)
Definition reflect_ret (d : nat) (e : gerr) : panicval :=
  match e with
  | GErr [] (BExc v st) => PVExc v st
  | _ => if uncatchable e then PVErr e else PVValue (VGoErr (fresh_goerr d) e)
  end.

Definition handle (d : nat) (en : entry) (h : handler) (e : gerr) : panicval :=
  let returns := match en with EnReflErr => true | _ => false end in
  match h with
  | HPanicErr => pv_of_err e
  | HPanicValue => match e with GErr [] (BExc v _) => PVValue v | _ => pv_of_err e end
  | HPanicWrap => PVErr (wrap e)
  | HReturnErr => if returns then reflect_ret d e else pv_of_err e
  | HReturnWrap => if returns then reflect_ret d (wrap e) else PVErr (wrap e)
  | HReturnJoin s => if returns then reflect_ret d (join s e) else PVErr (join s e)
  end.

Definition step_nat (d : nat) (n : natframe) (s : signal) : signal * list event :=
  match cb_convert d (n_cb n) s with
  | GNormal => (SNormal, [])
  | GPanic p => (SPanic p, [])
  | GErrRes e => (SPanic (handle d (n_entry n) (n_h n) e), [EvNative d e])
  end.

Definition fin_ev (d : nat) (j : jsframe) : list event := if j_finally j then [EvFinally d] else [].

(* a JS frame: handleThrow finds this frame's try frame (catch first, else finally); an exception that
   is not a JS exception pops every JS try frame silently *)
(* the completion after the finally block of frame d ran with completion s pending *)
Definition apply_fin (d : nat) (j : jsframe) (s : signal) : signal :=
  if j_finally j then
    match j_finact j with
    | FinQuiet => s
    | FinThrow => SPanic (PVExc (VObj 0 (fresh_fin d)) (SAt d))
    | FinReturn => SNormal
    end
  else s.

Definition step_js (d : nat) (j : jsframe) (s : signal) : signal * list event :=
  match s with
  | SNormal => (apply_fin d j SNormal, fin_ev d j)
  | SPanic p =>
    match exc_of d p with
    | None => (SPanic p, [])
    | Some (v, st) =>
      match j_catch j with
      | Some CSwallow => (apply_fin d j SNormal, EvCatch d v :: fin_ev d j)
      | Some CRethrow => (apply_fin d j (SPanic (PVExc v (stack_of d v))), EvCatch d v :: fin_ev d j)
      | Some CThrowNew => (apply_fin d j (SPanic (PVExc (VObj 0 (fresh_thrown d)) (SAt d))), EvCatch d v :: fin_ev d j)
      | None => (apply_fin d j (SPanic (PVExc v st)), fin_ev d j)
      end
    end
  end.

Definition step (d : nat) (f : frame) (s : signal) : signal * list event :=
  match f with FJS j => step_js d j s | FNat n => step_nat d n s end.

(* unwinding through the frames fs (outermost first, the first one at depth d) of a signal raised below them *)
Fixpoint unwind (d : nat) (fs : list frame) (s0 : signal) : signal * list event :=
  match fs with
  | [] => (s0, [])
  | f :: r => let '(s, ev) := unwind (S d) r s0 in
              let '(s', ev') := step d f s in (s', ev ++ ev')
  end.

(* --- the innermost frame ----------------------------------------------------------------------- *)

Inductive thrower :=
| TJsThrow (v : value)         (* JS: throw v   (v an object kept by the embedder, or a primitive) *)
| TJsInternal (cls : N)        (* JS: an operation that makes goja throw a fresh Type/Range/Reference/SyntaxError *)
| TJsOverflow                  (* JS: unbounded recursion against the call-stack limit *)
| TNatPanicValue (v : value)   (* func(FunctionCall) Value: panic(v) *)
| TNatPanicExc (v : value)     (* func(FunctionCall) Value: panic(ex), ex an *Exception obtained earlier, ex.Value() = v *)
| TNatReturnErr (e : gerr)     (* reflect-wrapped func() (Value, error): return nil, e *)
| TNatPanicErr (e : gerr)      (* func(FunctionCall) Value: panic(e), e a Go error *)
| TNatForeign (x : N)          (* panic("foreign") / panic(struct) / runtime error *)
| TNatInterrupt (i : N).       (* calls Runtime.Interrupt(i) and returns: its JS caller is interrupted *)

Definition init_signal (d : nat) (t : thrower) : signal :=
  match t with
  | TJsThrow v => SPanic (PVExc v (stack_of d v))
  | TJsInternal cls => SPanic (PVExc (VObj cls 0) (stack_of d (VObj cls 0)))
  | TJsOverflow => SPanic (PVErr (GErr [] BSO))
  | TNatPanicValue v => SPanic (PVValue v)
  | TNatPanicExc v => SPanic (PVExc v SOld)
  | TNatReturnErr e => SPanic (reflect_ret d e)
  | TNatPanicErr e => SPanic (pv_of_err e)
  | TNatForeign x => SPanic (PVForeign x)
  | TNatInterrupt i => SPanic (PVErr (GErr [] (BIntr i)))
  end.

(* --- a whole case ------------------------------------------------------------------------------ *)

(* c_post = Some post: the innermost frame of c_pre calls the rest of the chain (post, thrower) inside a
   promise job (Promise.resolve().then(function(){ … }).catch(log)); jobs run in Runtime.leave() of the
   OUTERMOST runWrapped / RunProgram, after the synchronous part is over.  The job may equally be the continuation
   of an async function body or (for a plain frame) a generator body: a body whose try statements have all been left
   when the call is made is not a frame of its own — it has no active try, i.e. it is [mkJS None false FinQuiet] *)
Record chain := mkChain { c_entry : callback; c_pre : list frame; c_post : option (list frame); c_thrower : thrower }.

Definition runs_jobs (cb : callback) : bool :=
  match cb with CbCallable | CbCtor | CbRunString | CbExportErr | CbExportNoErr => true | _ => false end.

(* runWrapped / RunProgram reach Runtime.leave() (which runs the jobs) only when the synchronous part completed
   or threw a JS exception (vm.try / runTry returned); an uncatchable error drops the queue (leaveAbrupt), a foreign
   panic leaves through the recover without running it *)
Definition sync_ok (s : signal) : bool :=
  match s with
  | SNormal => true
  | SPanic p => match exc_of 0 p with Some _ => true | None => false end
  end.

Definition propagate (c : chain) : list event * gores :=
  match c_post c with
  | None =>
      let '(s, ev) := unwind 0 (c_pre c) (init_signal (length (c_pre c)) (c_thrower c)) in
      (ev, cb_convert 0 (c_entry c) s)
  | Some post =>
      let '(s1, ev1) := unwind 0 (c_pre c) SNormal in
      if runs_jobs (c_entry c) && sync_ok s1 then
        let dp := length (c_pre c) in
        let '(s2, ev2) := unwind dp post (init_signal (dp + length post) (c_thrower c)) in
        match s2 with
        | SNormal => (ev1 ++ ev2, cb_convert 0 (c_entry c) s1)
        | SPanic p =>
          match exc_of dp p with
          | Some (v, _) => (ev1 ++ ev2 ++ [EvReject dp v], cb_convert 0 (c_entry c) s1)
          | None => (ev1 ++ ev2, cb_convert 0 (c_entry c) (SPanic p))
          end
        end
      else (ev1, cb_convert 0 (c_entry c) s1)
  end.

(* --- projections used by the statements --------------------------------------------------------- *)

Definition catch_obs (evs : list event) : list value :=
  flat_map (fun e => match e with EvCatch _ v => [v] | EvReject _ v => [v] | _ => [] end) evs.

Definition js_events (evs : list event) : list event :=
  filter (fun e => match e with EvNative _ _ => false | _ => true end) evs.

(* the value of a signal, if it is a JS exception *)
Definition sig_value (s : signal) : option value :=
  match s with
  | SPanic (PVValue v) => Some v
  | SPanic (PVExc v _) => Some v
  | _ => None
  end.

(* Exception.Value() of what the embedder got, however it got it (returned error or panic) *)
Definition host_value (g : gores) : option value :=
  match g with
  | GErrRes (GErr [] (BExc v _)) => Some v
  | GPanic (PVExc v _) => Some v
  | GPanic (PVValue v) => Some v
  | _ => None
  end.

(* errors.Is at the embedder, on a returned error or on a panicked error *)
Definition host_is (t : N) (g : gores) : bool :=
  match g with
  | GErrRes e => gerr_is t e
  | GPanic (PVExc v _) => value_is t v
  | GPanic (PVValue v) => value_is t v      (* the panic value is the GoError object itself *)
  | GPanic (PVErr e) => gerr_is t e
  | _ => false
  end.

Definition transparent_handler (h : handler) : bool :=
  match h with HPanicErr | HPanicValue | HReturnErr => true | _ => false end.

(* frames that neither replace the exception (catch → throw new / swallow, finally → throw / return) nor wrap it in a Go error *)
Definition quiet_fin (j : jsframe) : bool :=
  negb (j_finally j) || match j_finact j with FinQuiet => true | _ => false end.

Definition transparent (f : frame) : bool :=
  match f with
  | FJS j => match j_catch j with Some CSwallow | Some CThrowNew => false | _ => true end && quiet_fin j
  | FNat n => transparent_handler (n_h n)
  end.

Definition no_swallow (f : frame) : bool :=
  match f with
  | FJS j => match j_catch j with Some CSwallow | Some CThrowNew => false | _ => true end && quiet_fin j
  | FNat _ => true
  end.

Definition is_goerr (v : value) : bool := match v with VGoErr _ _ => true | _ => false end.

(* wrapJSFunc with an error result replaces an *Exception whose value is a GoError by the wrapped Go error *)
Definition cb_transparent_for (v : value) (cb : callback) : bool :=
  match cb with CbExportErr => negb (is_goerr v) | _ => true end.

Definition transparent_for (v : value) (f : frame) : bool :=
  match f with
  | FJS _ => transparent f
  | FNat n => transparent_handler (n_h n) && cb_transparent_for v (n_cb n)
  end.

Definition thrower_value (t : thrower) : option value :=
  match t with
  | TJsThrow v | TNatPanicValue v | TNatPanicExc v => Some v
  | TJsInternal cls => Some (VObj cls 0)
  | _ => None
  end.

(* errors.Is(·, t) on whatever is in flight *)
Definition pv_is (t : N) (p : panicval) : bool :=
  match p with
  | PVValue v => value_is t v
  | PVExc v _ => value_is t v
  | PVErr e => gerr_is t e
  | PVForeign _ => false
  end.

Definition gerr_base (e : gerr) : ebase := match e with GErr _ b => b end.

(* an InterruptedError / StackOverflowError under any stack of %w / errors.Join layers *)
Definition hard_unc (e : gerr) : bool := is_unc_base (gerr_base e).
