(* C14 — executable instantiation used by the correspondence check (depends on Model.v only). *)
From Coq Require Import List NArith Bool Arith.
Import ListNotations.
From Verif.C14 Require Export Model.

(* --- observation vocabulary (what the harness can see) ------------------------------------------ *)

(* a JS value as seen by the logger: a primitive by content code, or an object by class
   (0 plain, 1 Error, 2 TypeError, 3 RangeError, 4 ReferenceError, 5 SyntaxError, 6 custom subclass, 7 GoError),
   identity (first-occurrence index over the whole case), "is the object the embedder kept", and for a
   GoError errors.Is(obj.value, sentinel k) for k = 1,2,3 *)
Inductive vobs := OPrim (p : N) | OObj (cls : N) (ident : N) (orig : bool) (i1 i2 i3 : bool).

(* a Go error as seen by Go code: dynamic type (0 Exception, 1 InterruptedError, 2 StackOverflowError, 3 other),
   Value() when it is an *Exception, errors.Is against the three sentinels, errors.As to Exception, its Value(),
   errors.As to InterruptedError, its Value(); errors.As to StackOverflowError *)
Record eobs := mkE { ek : N; evl : option vobs; e1 : bool; e2 : bool; e3 : bool;
                     eas : option vobs; eintr : option N; eso : bool }.

Inductive oevent :=
| OCatch (d : nat) (v : vobs) | OFinally (d : nat) | ONative (d : nat) (e : eobs) | OReject (d : nat) (v : vobs).

Inductive ohost :=
| OHNormal | OHErr (e : eobs)
| OHPanicExc (v : vobs) | OHPanicValue (v : vobs) | OHPanicErr (e : eobs) | OHPanicForeign (x : N)
| OHBroken.   (* harness failure marker: never produced by the model *)

(* pos_ok: Stack()[0].Position() of the Exception the embedder received matched the throw site recorded by the
   generator (checked by the harness, outside this model; true when not applicable) *)
Record tcase := mkCase { t_chain : chain; t_events : list oevent; t_host : ohost; t_pos_ok : bool }.

(* --- model -> observation ------------------------------------------------------------------------- *)

Fixpoint value_intr (v : value) : option N :=
  match v with VGoErr _ e => gerr_intr e | _ => None end
with gerr_intr (e : gerr) : option N :=
  match e with GErr _ b => ebase_intr b end
with ebase_intr (b : ebase) : option N :=
  match b with BIntr i => Some i | BExc v _ => value_intr v | _ => None end.

Definition held (t : thrower) : bool := match t with TJsInternal _ => false | _ => true end.

Definition obs_value (h : bool) (v : value) : vobs :=
  match v with
  | VPrim p => OPrim p
  | VObj cls id => OObj (if N.leb 100 cls then cls - 100 else cls) id (h && N.eqb id 0) false false false
  | VGoErr id e => OObj 7 id (h && N.eqb id 0) (gerr_is 1 e) (gerr_is 2 e) (gerr_is 3 e)
  end.

Definition obs_err (h : bool) (e : gerr) : eobs :=
  let k := match e with
           | GErr [] (BExc _ _) => 0 | GErr [] (BIntr _) => 1 | GErr [] BSO => 2 | _ => 3 end%N in
  mkE k
      (match e with GErr [] (BExc v _) => Some (obs_value h v) | _ => None end)
      (gerr_is 1 e) (gerr_is 2 e) (gerr_is 3 e)
      (match gerr_as_exc e with Some (v, _) => Some (obs_value h v) | None => None end)
      (gerr_intr e) (gerr_has is_so e).

Definition obs_event (h : bool) (e : event) : oevent :=
  match e with
  | EvCatch d v => OCatch d (obs_value h v)
  | EvFinally d => OFinally d
  | EvNative d g => ONative d (obs_err h g)
  | EvReject d v => OReject d (obs_value h v)
  end.

Definition obs_host (h : bool) (g : gores) : ohost :=
  match g with
  | GNormal => OHNormal
  | GErrRes e => OHErr (obs_err h e)
  | GPanic (PVExc v _) => OHPanicExc (obs_value h v)
  | GPanic (PVValue v) => OHPanicValue (obs_value h v)
  | GPanic (PVErr e) => OHPanicErr (obs_err h e)
  | GPanic (PVForeign x) => OHPanicForeign x
  end.

(* --- identities: first-occurrence numbering, in the order the harness meets the objects ----------- *)

Definition ids_v (v : vobs) : list N := match v with OObj _ id _ _ _ _ => [id] | OPrim _ => [] end.
Definition ids_ov (o : option vobs) : list N := match o with Some v => ids_v v | None => [] end.
Definition ids_e (e : eobs) : list N := ids_ov (evl e) ++ ids_ov (eas e).
Definition ids_ev (e : oevent) : list N :=
  match e with OCatch _ v | OReject _ v => ids_v v | ONative _ g => ids_e g | OFinally _ => [] end.
Definition ids_h (h : ohost) : list N :=
  match h with
  | OHErr e | OHPanicErr e => ids_e e
  | OHPanicExc v | OHPanicValue v => ids_v v
  | _ => []
  end.

Fixpoint dedup (seen : list N) (l : list N) : list N :=
  match l with
  | [] => []
  | x :: r => if existsb (N.eqb x) seen then dedup seen r else x :: dedup (x :: seen) r
  end.

Fixpoint index_of (x : N) (l : list N) (i : N) : N :=
  match l with [] => i | y :: r => if N.eqb x y then i else index_of x r (N.succ i) end.

Definition rn_v (o : list N) (v : vobs) : vobs :=
  match v with OObj c id g a b d => OObj c (index_of id o 0) g a b d | p => p end.
Definition rn_ov (o : list N) (v : option vobs) := option_map (rn_v o) v.
Definition rn_e (o : list N) (e : eobs) : eobs :=
  mkE (ek e) (rn_ov o (evl e)) (e1 e) (e2 e) (e3 e) (rn_ov o (eas e)) (eintr e) (eso e).
Definition rn_ev (o : list N) (e : oevent) : oevent :=
  match e with
  | OCatch d v => OCatch d (rn_v o v) | OReject d v => OReject d (rn_v o v)
  | ONative d g => ONative d (rn_e o g) | OFinally d => OFinally d
  end.
Definition rn_h (o : list N) (h : ohost) : ohost :=
  match h with
  | OHErr e => OHErr (rn_e o e) | OHPanicErr e => OHPanicErr (rn_e o e)
  | OHPanicExc v => OHPanicExc (rn_v o v) | OHPanicValue v => OHPanicValue (rn_v o v)
  | x => x
  end.

Definition model_obs (c : chain) : list oevent * ohost :=
  let '(evs, g) := propagate c in
  let h := held (c_thrower c) in
  let oe := map (obs_event h) evs in
  let oh := obs_host h g in
  let order := dedup [] (flat_map ids_ev oe ++ ids_h oh) in
  (map (rn_ev order) oe, rn_h order oh).

(* --- comparison ----------------------------------------------------------------------------------- *)

Definition vobs_eqb (a b : vobs) : bool :=
  match a, b with
  | OPrim p, OPrim q => N.eqb p q
  | OObj c i g x y z, OObj c' i' g' x' y' z' =>
      N.eqb c c' && N.eqb i i' && Bool.eqb g g' && Bool.eqb x x' && Bool.eqb y y' && Bool.eqb z z'
  | _, _ => false
  end.
Definition ovobs_eqb (a b : option vobs) : bool :=
  match a, b with None, None => true | Some x, Some y => vobs_eqb x y | _, _ => false end.
Definition oN_eqb (a b : option N) : bool :=
  match a, b with None, None => true | Some x, Some y => N.eqb x y | _, _ => false end.
Definition eobs_eqb (a b : eobs) : bool :=
  N.eqb (ek a) (ek b) && ovobs_eqb (evl a) (evl b) && Bool.eqb (e1 a) (e1 b) && Bool.eqb (e2 a) (e2 b) &&
  Bool.eqb (e3 a) (e3 b) && ovobs_eqb (eas a) (eas b) && oN_eqb (eintr a) (eintr b) && Bool.eqb (eso a) (eso b).
Definition oevent_eqb (a b : oevent) : bool :=
  match a, b with
  | OCatch d v, OCatch d' v' => Nat.eqb d d' && vobs_eqb v v'
  | OReject d v, OReject d' v' => Nat.eqb d d' && vobs_eqb v v'
  | OFinally d, OFinally d' => Nat.eqb d d'
  | ONative d e, ONative d' e' => Nat.eqb d d' && eobs_eqb e e'
  | _, _ => false
  end.
Fixpoint list_eqb {A} (f : A -> A -> bool) (a b : list A) : bool :=
  match a, b with [], [] => true | x :: r, y :: s => f x y && list_eqb f r s | _, _ => false end.
Definition ohost_eqb (a b : ohost) : bool :=
  match a, b with
  | OHNormal, OHNormal => true
  | OHErr e, OHErr e' => eobs_eqb e e'
  | OHPanicErr e, OHPanicErr e' => eobs_eqb e e'
  | OHPanicExc v, OHPanicExc v' => vobs_eqb v v'
  | OHPanicValue v, OHPanicValue v' => vobs_eqb v v'
  | OHPanicForeign x, OHPanicForeign y => N.eqb x y
  | _, _ => false
  end.

(* everything except the throw-site position agrees *)
Definition obs_agree (c : tcase) : bool :=
  let '(oe, oh) := model_obs (t_chain c) in
  list_eqb oevent_eqb (t_events c) oe && ohost_eqb (t_host c) oh.

Definition check_case (c : tcase) : bool := obs_agree c && t_pos_ok c.

Fixpoint mismatch_from (i : N) (cs : list tcase) : list N :=
  match cs with
  | [] => []
  | c :: r => if check_case c then mismatch_from (N.succ i) r else i :: mismatch_from (N.succ i) r
  end.
Definition mismatch_ids := mismatch_from 0%N.

(* the model's observation, and whether the implementation's events and host result (not the position) agree with it *)
Definition expected (c : tcase) := (model_obs (t_chain c), obs_agree c).
