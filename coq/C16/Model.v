(* C16 — Programs and primitive values are shareable across goroutines without data races.

   An INTERLEAVING model.  A goroutine is a list of memory events; an execution is a trace of
   (thread, event) pairs that is an interleaving of the threads' lists; happens-before is
   program order + unlock->lock order + atomic-write->atomic-read order, transitively closed
   (the Go memory model, go.dev/ref/mem: mutexes, and sync/atomic = sequentially consistent
   atomics "like Java volatiles": a write synchronises with the later reads of the variable).
   A race is a pair of conflicting accesses of different threads not ordered by hb.

   The event lists of the operations are TRANSCRIBED BY HAND from /repo (file:line cited at each
   definition).  Which locations the Go code really touches is therefore asserted, and sampled by
   the -race stage of the check (harness/cmd/c16); see checks/C16.py "assumptions".

   Definitions only; proofs are in Proofs.v / Once.v. *)
From Coq Require Import List Arith NArith Bool.
Import ListNotations.

(* ------------------------------------------------------------------------------------------ *)
(* Locations                                                                                  *)

(* Memory owned by a compiled Program (compiler.go:70 type Program {code, funcName, src, srcMap})
   and by the objects its instructions point to. [site] numbers the instruction. *)
Inductive ploc :=
| PCode                                   (* Program.code []instruction, incl. nested function Programs (newFunc.prg) *)
| PFuncName | PSrc | PSrcMap              (* compiler.go:73-75 *)
| PLiteral (site : N)                     (* a primitive Value embedded in an instruction (loadVal, ...) *)
| PRegexPattern (site : N)                (* vm.go:2815 newRegexp.pattern: regexp.go:62 regexpPattern fields and wrappers *)
| PTmplSlice (site : N) (raw : bool)      (* vm.go:5307 getTaggedTmplObject.raw / .cooked backing arrays *)
| PTmplCell (site : N) (raw : bool) (i : N)  (* the *valueProperty cells created at compiler_expr.go:1262/1272 *)
| PNames (site : N).                      (* names maps of enterBlock/enterCatchBlock/enterFunc* (vm.go:3654-3880) *)

Inductive loc :=
| LProg (p : N) (f : ploc)
| LImpS (s : N) | LImpU (s : N) | LImpScanned (s : N)   (* string_imported.go:24 importedString{s,u,scanned} *)
| LStrData (s : N)            (* content of an asciiString / unicodeString (immutable Go string / []uint16) *)
| LSymDesc (y : N)            (* value.go:119 Symbol.desc *)
| LIntCache                   (* value.go:60 intCache, filled by init() value.go:1194 *)
| LPkgHasher                  (* value.go:18 pkgHasher: package init only *)
| LHashConst                  (* value.go:20-23 hashFalse/hashTrue/hashNull/hashUndef *)
| LOnceDone (s : N)           (* the done flag of a once protocol (fix models only) *)
| LRt (r : nat) (x : N).      (* anything owned by Runtime r / goroutine r: vm registers, stack, stashes,
                                 heap objects, the CLONED regexp pattern, the runtime's maphash.Hash, ... *)

Definition ploc_eq_dec : forall a b : ploc, {a = b} + {a <> b}.
Proof. decide equality; try apply N.eq_dec; apply Bool.bool_dec. Defined.
Definition loc_eq_dec : forall a b : loc, {a = b} + {a <> b}.
Proof. decide equality; try apply N.eq_dec; try apply Nat.eq_dec; apply ploc_eq_dec. Defined.
Definition loc_eqb (a b : loc) : bool := if loc_eq_dec a b then true else false.

(* a location is either owned by one runtime/goroutine or shared *)
Definition owner (l : loc) : option nat := match l with LRt r _ => Some r | _ => None end.
Definition is_prog_loc (p : N) (l : loc) : bool :=
  match l with LProg q _ => N.eqb p q | _ => false end.

(* ------------------------------------------------------------------------------------------ *)
(* Events, traces, happens-before, races                                                      *)

Inductive kind := KRd | KWr | KARd | KAWr.          (* plain read / plain write / atomic load / atomic store *)
(* [v]: for FLAG locations the boolean read or written (see [consistent]); [false] elsewhere *)
Inductive event := Acc (k : kind) (l : loc) (v : bool) | Lock (m : N) | Unlock (m : N).

Definition Rd (l : loc) := Acc KRd l false.
Definition Wr (l : loc) := Acc KWr l false.

Definition is_write (k : kind) := match k with KWr | KAWr => true | _ => false end.
Definition is_atomic (k : kind) := match k with KARd | KAWr => true | _ => false end.

Definition tev := (nat * event)%type.     (* thread id, event *)
Definition trace := list tev.

(* two accesses conflict: same location, at least one writes, not both atomic *)
Definition conflict (e1 e2 : event) : Prop :=
  match e1, e2 with
  | Acc k1 l1 _, Acc k2 l2 _ =>
      l1 = l2 /\ (is_write k1 || is_write k2) = true /\ (is_atomic k1 && is_atomic k2) = false
  | _, _ => False
  end.

Inductive hb (tr : trace) : nat -> nat -> Prop :=
| hb_po : forall i j t a b, i < j ->
    nth_error tr i = Some (t, a) -> nth_error tr j = Some (t, b) -> hb tr i j
| hb_lock : forall i j t1 t2 m, i < j ->
    nth_error tr i = Some (t1, Unlock m) -> nth_error tr j = Some (t2, Lock m) -> hb tr i j
| hb_atomic : forall i j t1 t2 l v1 v2, i < j ->
    nth_error tr i = Some (t1, Acc KAWr l v1) -> nth_error tr j = Some (t2, Acc KARd l v2) -> hb tr i j
| hb_trans : forall i j k, hb tr i j -> hb tr j k -> hb tr i k.

Definition race_at (tr : trace) (i j : nat) : Prop :=
  i < j /\ exists ti tj ei ej,
    nth_error tr i = Some (ti, ei) /\ nth_error tr j = Some (tj, ej) /\
    ti <> tj /\ conflict ei ej /\ ~ hb tr i j.
Definition race (tr : trace) : Prop := exists i j, race_at tr i j.

(* ------------------------------------------------------------------------------------------ *)
(* Executions                                                                                 *)

Definition proj (t : nat) (tr : trace) : list event :=
  map snd (filter (fun p => Nat.eqb (fst p) t) tr).

(* [tr] is an interleaving of the threads [ths] (thread t = nth t ths) *)
Definition interleaving (ths : list (list event)) (tr : trace) : Prop :=
  (forall t e, In (t, e) tr -> t < length ths) /\
  (forall t, t < length ths -> proj t tr = nth t ths []).

(* executable scheduler: [sched] names the thread that moves next *)
Fixpoint set_nth {A} (n : nat) (x : A) (l : list A) : list A :=
  match l, n with
  | [], _ => []
  | _ :: r, O => x :: r
  | y :: r, S n' => y :: set_nth n' x r
  end.
Fixpoint interleave (sched : list nat) (ths : list (list event)) : trace :=
  match sched with
  | [] => []
  | t :: s => match nth t ths [] with
              | [] => interleave s ths
              | e :: r => (t, e) :: interleave s (set_nth t r ths)
              end
  end.

(* mutual exclusion: between two acquisitions of m the first holder released it *)
Definition lock_wf (tr : trace) : Prop :=
  forall a c t t' m, a < c ->
    nth_error tr a = Some (t, Lock m) -> nth_error tr c = Some (t', Lock m) ->
    exists u, a < u < c /\ nth_error tr u = Some (t, Unlock m).

(* thread t holds mutex m at position i *)
Definition holds (tr : trace) (t : nat) (m : N) (i : nat) : Prop :=
  exists a, a < i /\ nth_error tr a = Some (t, Lock m) /\
            forall u, a < u < i -> nth_error tr u <> Some (t, Unlock m).

(* Flag locations carry their boolean in the event; an execution is value-consistent when every
   read of a flag sees [true] iff some write to it precedes in the trace (flags start false and are
   only ever set to true). This is what makes an operation take the branch its event list belongs to. *)
Definition is_flag (l : loc) : bool :=
  match l with LImpScanned _ | LOnceDone _ => true | _ => false end.
Definition writes_loc (l : loc) (p : tev) : bool :=
  match snd p with Acc k l' _ => is_write k && loc_eqb l l' | _ => false end.
Definition consistent (tr : trace) : Prop :=
  forall i t k l v, nth_error tr i = Some (t, Acc k l v) -> is_write k = false -> is_flag l = true ->
    v = existsb (writes_loc l) (firstn i tr).

(* The discipline that makes sharing safe: a thread writes only what it owns and touches nothing
   owned by another thread. *)
Definition respects (t : nat) (e : event) : Prop :=
  match e with
  | Acc k l _ => match owner l with Some r => r = t | None => is_write k = false end
  | _ => True
  end.
Definition respectsb (t : nat) (e : event) : bool :=
  match e with
  | Acc k l _ => match owner l with Some r => Nat.eqb r t | None => negb (is_write k) end
  | _ => true
  end.
Definition writes_prog (p : N) (e : event) : bool :=
  match e with Acc k l _ => is_write k && is_prog_loc p l | _ => false end.

(* ------------------------------------------------------------------------------------------ *)
(* Running a shared Program p in Runtime r: the steps that touch Program-owned memory          *)

Inductive vop :=
| OFetch                       (* vm.go:626-640 vm.run: vm.prg.code[pc].exec(vm); pc/sp/stack are the runtime's *)
| OLoadLit (site : N)          (* loadVal & co: push an embedded primitive on the runtime's stack *)
| ONewRegexp (site : N)        (* vm.go:2820 newRegexp.exec: n.pattern.clone() (regexp.go:197 reads every field,
                                  regexp2Wrapper.clone shares only the immutable rx, regexp.go:488), n.src read;
                                  the clone and the RegExp object are the runtime's *)
| ORegexExec (site : N)        (* exec/test/replace on the CLONE: lazily createRegexp2 (regexp.go:111-120) and the
                                  regexp2 match cache are written in the clone, i.e. runtime-owned *)
| OTaggedTmpl (site : N)       (* vm.go:5326 getTaggedTmplObject.exec: setArrayValues(cooked, c.cooked)
                                  (builtin_array.go:26) ALIASES the Program's slices; idPtr = &c.raw only compared *)
| OTmplRead (site : N) (raw : bool) (i : N)   (* script reads strings[i] / strings.raw[i]: slice + cell read *)
| OTmplWriteAttempt (site : N) (raw : bool) (i : N)
                               (* strings[i] = x, delete, length = 0, sort ...: the cell is read, found
                                  non-writable/non-configurable, rejected: no write *)
| OTmplRedefine (site : N) (raw : bool) (i : N)
                               (* Object.defineProperty(strings, i, {value: strings[i]}) / Object.freeze(strings):
                                  a PERMITTED no-op redefinition: object.go:709-745 stores into the existing (shared)
                                  *valueProperty and array.go:435 stores it back into the (shared) slice — finding C16-N1 *)
| OEnterBlock (site : N)       (* vm.go:3660/3684: vm.stash.names = e.names (shared map, only read afterwards) *)
| OEnterFunc (site : N) (extensible : bool)
                               (* vm.go:3747-3757 (also 3817, 3864): the names map is COPIED when the scope is dynamic
                                  (sloppy direct eval / with), shared otherwise *)
| OLookupName (site : N)       (* dynamic lookup stash.names[name] (vm.go:486-529) on a shared map: read *)
| OEvalBindVar                 (* eval("var x"): bindVars vm.go:4251 -> stash.createBinding vm.go:563 writes the names
                                  map of the nearest function stash, which is a copy (extensible) or fresh: runtime-owned;
                                  at top level bindGlobal writes r.global.stash: runtime-owned *)
| ODeleteBinding               (* vm.go:2931 deleteVar: only bindings created by eval are deletable: runtime-owned map *)
| ONewFunc (site : N)          (* newFunc/newClass...: read nested Program pointer, name, source from the instruction *)
| OStackTrace                  (* capturing a stack / position: reads src, srcMap, funcName (vm.go captureStack) *)
| OLocal (x : N).              (* any step on the runtime's own state (stack, stash values, heap objects) *)

Definition ev_vop (r : nat) (p : N) (o : vop) : list event :=
  let P f := LProg p f in
  match o with
  | OFetch => [Rd (LRt r 0); Rd (P PCode); Wr (LRt r 0)]
  | OLoadLit s => [Rd (P (PLiteral s)); Wr (LRt r 1)]
  | ONewRegexp s => [Rd (P (PRegexPattern s)); Rd (P (PLiteral s)); Wr (LRt r 2); Wr (LRt r 1)]
  | ORegexExec s => [Rd (LRt r 2); Wr (LRt r 2)]
  | OTaggedTmpl s => [Rd (P (PTmplSlice s false)); Rd (P (PTmplSlice s true)); Wr (LRt r 3); Wr (LRt r 1)]
  | OTmplRead s raw i => [Rd (LRt r 3); Rd (P (PTmplSlice s raw)); Rd (P (PTmplCell s raw i)); Wr (LRt r 1)]
  | OTmplWriteAttempt s raw i => [Rd (LRt r 3); Rd (P (PTmplSlice s raw)); Rd (P (PTmplCell s raw i))]
  | OTmplRedefine s raw i =>
      [Rd (LRt r 3); Rd (P (PTmplSlice s raw)); Rd (P (PTmplCell s raw i));
       Wr (P (PTmplCell s raw i)); Wr (P (PTmplSlice s raw))]
  | OEnterBlock s => [Rd (P (PNames s)); Wr (LRt r 4)]
  | OEnterFunc s ext => [Rd (P (PNames s)); Wr (LRt r 4)]
  | OLookupName s => [Rd (LRt r 4); Rd (P (PNames s))]
  | OEvalBindVar => [Rd (LRt r 4); Wr (LRt r 4)]
  | ODeleteBinding => [Rd (LRt r 4); Wr (LRt r 4)]
  | ONewFunc s => [Rd (P PCode); Rd (P (PLiteral s)); Wr (LRt r 5)]
  | OStackTrace => [Rd (P PSrc); Rd (P PSrcMap); Rd (P PFuncName); Wr (LRt r 5)]
  | OLocal x => [Rd (LRt r (6 + x)); Wr (LRt r (6 + x))]
  end.

Definition events_of_run (r : nat) (p : N) (ops : list vop) : list event :=
  flat_map (ev_vop r p) ops.

(* every step except the redefinition of a template cell (open finding C16-N1) *)
Definition vop_ok (o : vop) : bool := match o with OTmplRedefine _ _ _ => false | _ => true end.

(* ------------------------------------------------------------------------------------------ *)
(* Primitive values used by several runtimes                                                  *)

Inductive pval :=
| VAscii (s : N) | VUnicode (s : N)     (* string_ascii.go / string_unicode.go: immutable *)
| VSym (y : N)                          (* *Symbol *)
| VInt | VFloat | VBool | VNullUndef.   (* value types, copied; small ints come from intCache *)

Inductive pop :=
| PLength | PCharAt | PConcat | PSubstring | PCompare | PEquals | PHash | PExport | PToNumber | PIndex
| PAsKey.    (* use as a property key / Map key *)

(* asciiString / unicodeString methods only read the content; hash writes the RUNTIME's hasher
   (string_ascii.go hash, string_unicode.go hash; the *maphash.Hash argument is r.hasher);
   Symbol: value.go:1055-1160 read s.desc only, hash = pointer value (value.go:1128);
   numbers / booleans: value receivers, hash of bool/null/undefined reads the init-time constants (value.go:20) *)
Definition ev_pop (r : nat) (v : pval) (o : pop) : list event :=
  let res := Wr (LRt r 1) in
  match v with
  | VAscii s | VUnicode s =>
      match o with
      | PHash | PAsKey => [Rd (LStrData s); Rd (LRt r 7); Wr (LRt r 7); res]
      | _ => [Rd (LStrData s); res]
      end
  | VSym y =>
      match o with
      | PHash | PAsKey | PEquals | PCompare => [res]
      | _ => [Rd (LSymDesc y); res]
      end
  | VInt => [Rd LIntCache; res]
  | VFloat => [res]
  | VBool | VNullUndef => match o with PHash | PAsKey => [Rd LHashConst; res] | _ => [res] end
  end.

Definition events_of_prims (r : nat) (uses : list (pval * pop)) : list event :=
  flat_map (fun u => ev_pop r (fst u) (snd u)) uses.

(* ------------------------------------------------------------------------------------------ *)
(* importedString (string_imported.go), CURRENT code                                          *)

(* ensureScanned (line 36): read [scanned]; if false, scan (line 31): read s, write u, write scanned.
   The branch taken is recorded in the flag value of the read event. *)
Definition ev_ensure_scanned (s : N) (seen : bool) : list event :=
  if seen then [Acc KRd (LImpScanned s) true]
  else [Acc KRd (LImpScanned s) false; Rd (LImpS s); Wr (LImpU s); Acc KWr (LImpScanned s) true].

Inductive imethod :=
| IEnsureThenU      (* ToInteger 42, string 55, ToFloat 71, ToNumber 79, baseObject 135, hash 143, CharAt 151,
                       Length 159, Substring 183, CompareTo 191, utf16Runes 268, index 276, lastIndex 284,
                       toLower 292, toUpper 300: ensureScanned(); read u; then u or s *)
| IReadSOnly        (* String 67, ToBoolean 87, Export 127, toTrimmedUTF8 309, toString/ToString/ToObject/ExportType *)
| IStrictEqAscii    (* StrictEquals 110-116 with an asciiString: reads u WITHOUT ensureScanned, then s *)
| IStrictEqUnicode  (* StrictEquals 117-121: ensureScanned; read u *)
| IStrictEqImported (o : N)   (* 122-123: i.s == other.s *)
| IEquals           (* Equals 99-108: StrictEquals(ascii case shown) then ensureScanned; read u; s *)
| IConcatImported (o : N) (oseen : bool)
                    (* Concat 167-181 with an importedString argument: read scanned; if false read other.scanned;
                       both unscanned: s + other.s; otherwise ensureScanned; read u; s *)
| IConcatOther      (* Concat with a non-imported argument *)
| IReader.          (* Reader 199, utf16Reader 245, utf16RuneReader 257: read scanned; if set read u, s else s *)

Definition ev_imethod (s : N) (m : imethod) (seen : bool) : list event :=
  let after := [Rd (LImpU s); Rd (LImpS s)] in
  match m with
  | IEnsureThenU => ev_ensure_scanned s seen ++ after
  | IReadSOnly => [Rd (LImpS s)]
  | IStrictEqAscii => [Rd (LImpU s); Rd (LImpS s)]
  | IStrictEqUnicode => ev_ensure_scanned s seen ++ [Rd (LImpU s)]
  | IStrictEqImported o => [Rd (LImpS s); Rd (LImpS o)]
  | IEquals => [Rd (LImpU s); Rd (LImpS s)] ++ ev_ensure_scanned s seen ++ after
  | IConcatImported o oseen =>
      if seen then [Acc KRd (LImpScanned s) true] ++ after
      else if oseen
           then [Acc KRd (LImpScanned s) false; Acc KRd (LImpScanned o) true] ++ ev_ensure_scanned s false ++ after
           else [Acc KRd (LImpScanned s) false; Acc KRd (LImpScanned o) false; Rd (LImpS s); Rd (LImpS o)]
  | IConcatOther =>
      if seen then [Acc KRd (LImpScanned s) true] ++ after
      else [Acc KRd (LImpScanned s) false] ++ ev_ensure_scanned s false ++ after
  | IReader =>
      if seen then [Acc KRd (LImpScanned s) true; Rd (LImpU s); Rd (LImpS s)]
      else [Acc KRd (LImpScanned s) false; Rd (LImpS s)]
  end.

(* Length() as executed by a goroutine that found the string unscanned / scanned *)
Definition ev_length (s : N) (seen : bool) : list event := ev_imethod s IEnsureThenU seen.

(* ---- what a fix must achieve ------------------------------------------------------------- *)

(* (a) every method body under one mutex per string *)
Definition ev_imethod_locked (s : N) (m : imethod) (seen : bool) : list event :=
  Lock s :: ev_imethod s m seen ++ [Unlock s].

(* (b) sync.Once (sync/once.go: fast path done.Load(); doSlow: m.Lock(); if done.Load()==0 { f(); done.Store(1) };
   m.Unlock()) around scan; the plain [scanned] field disappears.  Three ways through: *)
Inductive once_path := OnceFast | OnceSlowNoop | OnceSlowScan.
Definition ev_length_once (s : N) (w : once_path) : list event :=
  let D := LOnceDone s in
  let after := [Rd (LImpU s); Rd (LImpS s)] in
  match w with
  | OnceFast => Acc KARd D true :: after
  | OnceSlowNoop => [Acc KARd D false; Lock s; Acc KARd D true; Unlock s] ++ after
  | OnceSlowScan => [Acc KARd D false; Lock s; Acc KARd D false; Rd (LImpS s); Wr (LImpU s);
                     Acc KAWr D true; Unlock s] ++ after
  end.

(* ------------------------------------------------------------------------------------------ *)
(* Cross-runtime objects (runtime.go:1795-1805 toValue)                                       *)

Inductive gval := GPrim (v : pval) | GImported (s : N) | GObject (rt : nat) | GNilObject.
Inductive tv_result := TVOk (v : gval) | TVNull | TVTypeError.
Definition to_value (r : nat) (g : gval) : tv_result :=
  match g with
  | GNilObject => TVNull
  | GObject rt => if Nat.eqb rt r then TVOk g else TVTypeError
  | _ => TVOk g
  end.
